"""Per-property jobs, budgets and evidence texts for ./check (see DESIGN.md sections 4 and 8)."""


def T(shards, checks, steps=0, timeout=900):
    return dict(shards=shards, checks=checks, steps=steps, timeout=timeout)


HOOK_COMMITS = []
NOT_APPLICABLE = {}

CHECKS = {
    "C07": dict(
        level="exploration",
        level_text="Model-based stateful property testing of the versioned store (leveldb-backed and in-memory managers) "
                   "against a map-per-version reference model, plus a -race run of concurrent readers against a writer. "
                   "Exploration is the right level: the property quantifies over operation histories, which are sampled "
                   "(thousands of shrinkable sequences per run), not enumerated.",
        level_note="Trusts the reference model (a Go map per version) and goleveldb itself. Reader/writer interleavings are "
                   "whatever the Go scheduler produces; silence of the race detector is weak evidence. Known findings "
                   "C07/empty-value-scan and C07/stale-parent-no-error are tolerated exactly (see KNOWN_FINDINGS.txt).",
        technique="stateful property-based testing (rapid state machine) against a reference model; -race sampling",
        rule="rapid state machine over db.Manager (commit on frontier / on stale parent, rollback, open view, Get/Has/"
             "prefix scan, writes through views, Snapshot, Changes, Apply, reopen) against a map-per-version model; a case is "
             "non-trivial if it reads, on a non-frontier view, a key that a later commit created/deleted/overwrote, reads "
             "after a rollback, or commits on a stale parent; distinct = hash of the concrete draw sequence",
        assumptions=["opening a view is serialised with rollback by the caller (as momentumPool.changes does); reads on open "
                     "views are not", "reader/writer interleavings are sampled by the Go scheduler under -race, not enumerated"],
        jobs=[
            dict(test="TestC07Ldb", quick=T(4, 250, 40), thorough=T(10, 4000, 80, 3000)),
            dict(test="TestC07Mem", quick=T(2, 400, 40), thorough=T(4, 8000, 80, 3000)),
            dict(test="TestC07Conc", race=True, quick=T(2, 12), thorough=T(8, 150, 0, 3000)),
        ],
    ),
}
