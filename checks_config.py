"""Per-property jobs, budgets and evidence texts for ./check (see DESIGN.md sections 4 and 8)."""


def T(shards, checks, steps=0, timeout=900):
    return dict(shards=shards, checks=checks, steps=steps, timeout=timeout)


def F(name, fuzztime=60, pkg="props"):
    """native go fuzz target, thorough tier only"""
    return dict(fuzz=name, pkg=pkg, thorough=dict(fuzztime=fuzztime))


HOOK_COMMITS = ["wallet/verif_export.go", "common/db/verif_hooks.go", "p2p/verif_export.go", "p2p/discover/verif_export.go", "protocol/verif_export.go"]
NOT_APPLICABLE = {}

HIST_ASSUME = ["receiver-mismatch rule enforced from genesis (verifier.ReceiverMismatchEnforcementHeight = 0): the statement speaks "
               "of the protocol's enforcement height on", "lock windows and epoch length are shrunk consistently (values only) so that "
               "histories cross them; a minority of thorough cases keeps mainnet values"]

CHECKS = {
    "C01": dict(
        level="exploration",
        level_text="Stateful property testing of one producing node (real chain, consensus, supervisor, pillar worker): generated "
                   "histories of transfers, receives, ABI-typed / re-encoded / raw calls to every embedded contract, model-guided "
                   "valid calls and momentums; after every step an independent scanner walks all account chains and recomputes "
                   "supply = balances + in-flight for every token. Histories include bridge worlds (wraps of a bridge-owned token burn it, redeems "
                   "mint it), momentums of a second producer that knew nothing of the node's pool, and (TestC01Reorg) reorganisations after "
                   "which the identity must hold on the reorganised node - whatever its pool kept, whatever it produces next - as on a node "
                   "that only saw the adopted branch. Exploration: histories are sampled.",
        level_note="Trusts the scanner (raw key-space walk + block replay of amounts) and the token table read from the token "
                   "contract's storage. Genesis is harness-built (consistent by construction).",
        technique="stateful property-based testing (rapid) with a whole-ledger invariant recomputed by an independent scanner",
        rule="history = rapid.Repeat over {transfer, receive (valid/foreign/repeated), ABI call in 3 argument layers, model-guided "
             "call, produce(skip)}; identity checked after every step (pool state) and every momentum; non-trivial = history "
             "with >=1 refunded contract call AND >=1 supply change by issue/mint/burn AND >=1 send in flight at a checkpoint; "
             "distinct = hash of the concrete draw sequence",
        assumptions=HIST_ASSUME,
        jobs=[dict(test="TestC01", quick=T(6, 30, 45), thorough=T(12, 250, 80, 3000)),
              dict(test="TestC01Reorg", quick=T(2, 25), thorough=T(4, 150, 0, 3000))],
    ),
    "C02": dict(
        level="exploration",
        level_text="Differential property testing: a generated history is produced on node A (real pillar workers); 1-3 follower "
                   "nodes learn it only through the peer-facing ChainBridge (InsertChain / AddAccountBlocks, blocks passed "
                   "through the RLP wire codec) under generated delivery schedules, then must equal A in frontier, logical "
                   "store content, historical views and a battery of ledger/embedded RPC answers. Exploration: histories "
                   "and schedules are sampled.",
        level_note="Equality is on logical key/value content (tombstones are an encoding detail), every stored block's bytes are "
                   "part of that content. The query battery asks only about confirmed state.",
        technique="differential property-based testing between independently fed in-process nodes (rapid)",
        rule="history as in C01 (+ blocks acknowledging a momentum 1-4 behind the frontier); per follower a schedule: per account "
             "block gossip early / late / never, per momentum flush-or-batch, overlap with known momentums, restarts with warm "
             "or cold consensus cache, historical views opened in between; non-trivial = schedule shows >=2 of {batch>1, "
             "gossip-before-momentum, late gossip, restart, warm views, accepted block with ack depth>0}",
        assumptions=HIST_ASSUME,
        jobs=[dict(test="TestC02", quick=T(7, 25, 40), thorough=T(14, 150, 70, 3000)),
              dict(test="TestC02Reorg", quick=T(1, 20), thorough=T(2, 150, 0, 3000))],
    ),
    "C04": dict(
        level="exploration",
        level_text="Stateful property testing with a ledger-wide invariant recomputed by the independent scanner after every "
                   "step: every send has at most one receiving block over ALL account chains and it sits on the addressee's "
                   "chain; each contract's received-from sequence is a prefix of the confirmation order recomputed from "
                   "momentum contents alone; the node's receive index agrees. Histories contain competing receive attempts "
                   "(same account twice, other accounts, across a momentum), replacement of pooled blocks by competing blocks, "
                   "follower sync in batches with restarts, and (TestC04Reorg) reorganisations that un-confirm receives.",
        level_note="Trusts the scanner. Receiver rule enforced from genesis (see assumptions); the shipped gate height itself is "
                   "exercised in C03.",
        technique="stateful property-based testing (rapid) with an independent whole-ledger scanner as oracle",
        rule="history = C01 grammar + {double receive, competing receiver, fork of a pooled block with 1-3x plasma}; non-trivial = "
             ">=1 rejected competing receive AND a contract with >=3 confirmed sends from >=2 accounts (TestC04), or a "
             "reorganisation of depth >=2 (TestC04Reorg)",
        assumptions=HIST_ASSUME,
        jobs=[dict(test="TestC04", quick=T(6, 35, 45), thorough=T(12, 200, 80, 3000)),
              dict(test="TestC04Reorg", quick=T(4, 60), thorough=T(6, 300, 0, 3000))],
    ),
    "C06": dict(
        level="exploration",
        level_text="Differential property testing of reorganisations: common prefix, branch X on producer A, strictly longer "
                   "branch Y on second producer A2 (fork depth 1..29, generated content and slot skips on both); follower B "
                   "adopts X, serves historical views / consensus data, is handed Y; a fresh node C sees only prefix+Y; B and C "
                   "must agree on frontier, store, the historical view at EVERY height, consensus statistics, producer "
                   "schedules and RPC answers, now and after further common momentums. Second clause: add + RollbackTo "
                   "restores the exact store.",
        level_note="B's pool is compared through acceptability on C (B may legitimately keep gossip it saw). Fork depths beyond "
                   "the rollback window belong to C16.",
        technique="differential property-based testing (rapid) of a reorganised node against a fresh node; round-trip law for rollback",
        rule="pair of competing branches generated by the C01 grammar on two producing nodes; non-trivial = fork depth >=2 with "
             ">=1 historical view of a common ancestor opened before the switch (TestC06), or an add+rollback round (TestC06Rollback)",
        assumptions=HIST_ASSUME,
        jobs=[dict(test="TestC06", quick=T(6, 25), thorough=T(12, 150, 0, 3000)),
              dict(test="TestC06Rollback", quick=T(2, 30), thorough=T(4, 150, 0, 3000))],
    ),
    "C07": dict(
        level="exploration",
        level_text="Model-based stateful property testing of the versioned store (leveldb-backed and in-memory managers) "
                   "against a map-per-version reference model, plus a -race run of concurrent readers against a writer. "
                   "Exploration is the right level: the property quantifies over operation histories, which are sampled "
                   "(thousands of shrinkable sequences per run), not enumerated.",
        level_note="Trusts the reference model (a Go map per version) and goleveldb itself. Reader/writer interleavings are "
                   "whatever the Go scheduler produces; silence of the race detector is weak evidence. Known findings "
                   "C07/empty-value-scan and C07/stale-parent-no-error are tolerated exactly (see KNOWN_FINDINGS.txt).",
        technique="stateful property-based testing (rapid state machine) against a reference model; -race sampling",
        rule="rapid state machine over db.Manager (commit on frontier / on stale parent, rollback, open view, Get/Has/"
             "prefix scan, writes through views, Snapshot, Changes, Apply, reopen) against a map-per-version model; a case is "
             "non-trivial if it reads, on a non-frontier view, a key that a later commit created/deleted/overwrote, reads "
             "after a rollback, or commits on a stale parent; distinct = hash of the concrete draw sequence",
        assumptions=["opening a view is serialised with rollback by the caller (as momentumPool.changes does); reads on open "
                     "views are not", "reader/writer interleavings are sampled by the Go scheduler under -race, not enumerated"],
        jobs=[
            dict(test="TestC07Ldb", quick=T(4, 600, 40), thorough=T(10, 4000, 80, 3000)),
            dict(test="TestC07Mem", quick=T(2, 1000, 40), thorough=T(6, 3000, 80, 3000)),
            dict(test="TestC07Conc", race=True, quick=T(2, 25), thorough=T(8, 150, 0, 3000)),
        ],
    ),
    "C16": dict(
        level="fault_enumeration",
        level_text="For generated local chains and delivered batches (pure extension, overlap with known momentums, duplicates, "
                   "gap, forks at depth 1..34 that are shorter / equal / longer) every position of the batch (all positions up to "
                   "8, else 8 sampled incl. first and last) is given every certain fault kind (bad signature, signature by a "
                   "non-elected pillar, wrong changes hash re-signed by the elected pillar, wrong hash, missing / extra / "
                   "mutated / re-signed account block, wrong previous, non-empty data, wrong chain id), each delivered to a "
                   "fresh copy of the follower's database; outcome compared with the decision the statement prescribes "
                   "(error, failing index, state = verified prefix / unchanged, resulting chain replays on a fresh node).",
        level_note="Enumeration is exhaustive per batch over positions x fault kinds (quick tier: all positions, 4 drawn kinds "
                   "when the product exceeds 40); batches and chains themselves are sampled. The state reference for a "
                   "verified prefix is the producer's historical view at that height (C07 machinery). For a faulted fork the "
                   "node must have stayed on its own chain unchanged, unless the verified part before the fault is itself "
                   "strictly longer than the node's branch (then it is exactly on that part). Followers also hold pooled "
                   "blocks acknowledging their own branch; after an adoption every pooled block must acknowledge a "
                   "momentum of the adopted chain. The window edge (fork depth 30 / 31) is generated exactly. After a faulted "
                   "fork delivery that the node answered by staying, the SAME node is handed the chain again with a bad signature "
                   "on an element that had verified and been rolled back in the first delivery. TestC16Interleaved owns a two-goroutine "
                   "schedule: the delivery of a fork (shorter / equal / longer, optionally faulted) is started while the harness holds "
                   "the chain's insert lock, the harness waits until the delivery is parked at that lock, inserts the follower's "
                   "next own momentum under it and releases: the decision must be the one for the chain the node has when it leaves it.",
        technique="fault injection enumerated over positions x kinds on generated batches (rapid), reference decision from the statement",
        rule="case = world + local chain + batch variants; evaluation unit = one faulted delivery; distinct non-trivial = distinct "
             "(variant, fault kind, position relative to first unknown element, batch length, fork depth) tuples plus distinct cases",
        exhaustive_note="per delivered batch: positions x fault kinds as described; not exhaustive over batches",
        assumptions=HIST_ASSUME,
        eval_counter="fault_deliveries",
        jobs=[dict(test="TestC16", quick=T(8, 12), thorough=T(16, 40, 0, 3000)),
              dict(test="TestC16Interleaved", quick=T(2, 30), thorough=T(4, 400, 0, 3000))],
    ),
    "C12": dict(
        level="exploration",
        level_text="(a) pow.CheckPoWNonce against a math/big reference over difficulties from the full 64-bit range (constants, "
                   "2^k and 2^k+-1 for all k, uniform) and nonces that are random or MINED by the checker for small "
                   "difficulties so that acceptance is exercised. (b) Stateful: accounts with fused amounts around the unit / "
                   "cap boundaries, generated histories plus blocks with chosen FusedPlasma / Difficulty / nonce (mined, "
                   "arbitrary, or mined for a smaller difficulty than claimed); every block the node accepted is checked "
                   "against the statement: PoW honoured only above the threshold, total >= base cost, total <= cap, fused <= "
                   "plasma of the QSR fused as of the acknowledged momentum minus fused plasma of the account's blocks after "
                   "that state.",
        level_note="Direction is 'accepted => paid' only (the statement's). Base cost of embedded calls is bounded below by the "
                   "cheapest method (52 500); exact for transfers and receives. Fused QSR per beneficiary is read through the "
                   "node's momentum store (its equality with the fusion entries is C10's).",
        technique="property-based testing against a big-integer reference (rapid) + stateful testing with a per-block predicate",
        rule="(a) batch of 200 (difficulty, nonce, address, previous) tuples per case; non-trivial tuple = d>=2 and (d>=2^32 or the "
             "reference accepts the pair). (b) C01 grammar + custom-plasma blocks; non-trivial = case where a checked block had "
             ">=2 unconfirmed predecessors and >=1 custom-plasma block was offered",
        assumptions=HIST_ASSUME,
        jobs=[dict(test="TestC12Pow", quick=T(4, 25), thorough=T(8, 400, 0, 3000)),
              dict(test="TestC12Plasma", quick=T(4, 40, 50), thorough=T(8, 200, 80, 3000)),
              dict(test="TestC12Race", race=True, quick=T(1, 40), thorough=T(4, 300, 0, 3000))],
    ),
    "C13": dict(
        level="exploration",
        level_text="(a) Round-trip properties over generated AccountBlock (with descendants) / Momentum / DetailedMomentum values "
                   "with boundary integers, nil vs empty slices, amounts up to 2^256 through protobuf, RLP and JSON: "
                   "decode(encode(x)) == x field-wise, recomputed hash preserved, encodings stable. (b) Differential: for every "
                   "unconfirmed block on the producer, variants altering each field outside the hash (changes hash, plasma "
                   "totals, public key, signature incl. non-canonical S) and inside it are gossiped to a fresh copy of a "
                   "follower before the block's momentum arrives; afterwards the follower must accept the producer's momentum "
                   "and hold byte-identical logical store content to a follower that never saw the variant. Stored call data "
                   "of every accepted contract call equals its canonical ABI repack; calls are also built outside the node "
                   "with re-encoded call data (hashed and signed over those bytes) and delivered over the wire / JSON-RPC: an "
                   "accepted one is stored with the bytes it was delivered with, every stored block hashes to its hash. A third "
                   "route puts the variant inside the confirming momentum while the follower holds the original: whatever the "
                   "answer, what it holds under the hash stays the producer's bytes. (c) thorough: native fuzzing of the three "
                   "decoders with decode/encode/decode stability as oracle.",
        level_note="Variants that need the signing key are out of scope by the statement. nil/empty slices and nil/zero amounts "
                   "are identified. Variants cover user blocks and pooled contract receives (and the fields of their batched "
                   "sends), delivered through the peer protocol or the JSON-RPC publication call (signed amounts).",
        technique="round-trip and differential property-based testing (rapid); native coverage-guided fuzzing of decoders",
        rule="(a) one generated block + momentum per case; non-trivial = block with >=1 non-zero optional field and >=1 descendant or "
             "content entry. (b) case = world + 1-3 rounds of unconfirmed blocks x variant kinds (quick: 3 kinds per block, "
             "thorough: all 21); non-trivial item = (variant kind, block type) accepted by the follower's pool",
        assumptions=HIST_ASSUME,
        jobs=[dict(test="TestC13Calldata", quick=T(2, 25), thorough=T(4, 300, 0, 3000)),
              dict(test="TestC13Codec", quick=T(2, 10000), thorough=T(8, 40000, 0, 3000)),
              dict(test="TestC13Variants", quick=T(6, 20), thorough=T(8, 120, 0, 3000)),
              F("FuzzC13Proto", 90), F("FuzzC13Rlp", 90), F("FuzzC13Json", 90)],
    ),
    "C03": dict(
        level="exploration",
        level_text="In ledger states reached by generated histories (confirmed and pooled parts, optional receiver-gate inside "
                   "the history) valid blocks of every type the state offers (user send, user receive, contract call, regenerated "
                   "contract receive) are mutated in one or two fields (16 field mutators with boundary values) and repaired in "
                   "four modes (raw, re-hashed, re-hashed+signed by owner, re-hashed+signed by another key), passed through the "
                   "RLP wire codec and offered to the real supervisor (verifier + VM). Every ACCEPTED candidate is checked "
                   "against an independent predicate written from the statement (hash, ed25519 signature by the account's "
                   "owner via crypto/ed25519 + own sha3 address, typing, exact predecessor at/above the confirmed tip, "
                   "acknowledged momentum on the chain and not older than the predecessor's, amount in [0,2^255) and <= balance "
                   "at the predecessor, receive of a confirmed-as-of-ack, unreceived send addressed to the receiver). "
                   "TestC03Contract: the producer's pooled contract receives are offered to a follower that has not seen them, "
                   "together with mutations (any field, batched-send content with hashes kept, acknowledged momentum moved "
                   "with all hashes recomputed, user fields on a contract block) and regenerated receives of already received "
                   "sends; an accepted candidate must satisfy the predicate and equal the block the receiver regenerates.",
        level_note="One direction only (accepted => valid), as stated; candidates are offered through ApplyBlock, which is what "
                   "both the gossip and the sync path call before any insert. The predicate is validated on every state "
                   "against the node's own valid blocks.",
        technique="mutation-based property testing (rapid) of valid blocks against an independent validity predicate",
        rule="case = world + 1-8 states x valid base blocks x 24-60 mutated candidates; non-trivial item = (mutation, base type, "
             "repair mode) whose candidate passes hash and signature checks, i.e. reaches the contextual verifier",
        assumptions=HIST_ASSUME,
        jobs=[dict(test="TestC03", quick=T(6, 60), thorough=T(12, 200, 0, 3000)),
              dict(test="TestC03Contract", quick=T(2, 60), thorough=T(4, 400, 0, 3000)),
              dict(test="TestC03Reorg", quick=T(2, 25), thorough=T(4, 150, 0, 3000))],
    ),
    "C05": dict(
        level="exploration",
        level_text="(a) Candidate momentums: at each frontier of a follower the honest next momentum and ~35 derived candidates "
                   "(13 field faults re-signed where the key allows, re-timed to other slots and signed by each pillar, equal / "
                   "earlier / unaligned / far-future timestamps, every other pillar or a non-pillar signing the honest content, "
                   "replayed older momentums) go through the RLP codec into the real acceptance path (ChainBridge.InsertChain); "
                   "every ADOPTED candidate must satisfy the statement's predicate, with the elected pillar taken from (b). "
                   "(b) A reference election written in the checker (weights = sum of backers' ZNN balances read from the "
                   "account stores at the proof momentum, order by weight desc / name, seeded selection and shuffle) must equal "
                   "GetMomentumProducer for all 30 slots of every tick, on the producer (live + warm cache), on a follower "
                   "synced in batches and queried in permuted order, after a restart with a cold cache, and (TestC05Reorg) after "
                   "a reorganisation; producers must be active registered pillars at the proof momentum; unaligned timestamps "
                   "have no producer. Configurations: 1..40 pillars, equal and distinct weights, delegations / balances / "
                   "registrations moving during the history, slot skips of up to 70 slots.",
        level_note="Go's math/rand permutation with the proof height as seed is taken as the definition of the shuffle. The 'not in "
                   "the future' bound uses the wall clock in the verifier and is probed years ahead, not at its 10 s edge.",
        technique="reference-model property testing (rapid) of the election; mutation-based testing of candidate momentums against a predicate",
        rule="(a) non-trivial item = candidate kind that still carries a valid signature; (b) non-trivial = chain spanning >=3 ticks "
             "evaluated on >=2 nodes with different cache state (always 3 here)",
        assumptions=HIST_ASSUME,
        jobs=[dict(test="TestC05Election", quick=T(4, 60), thorough=T(8, 150, 0, 3000)),
              dict(test="TestC05Candidates", quick=T(3, 50), thorough=T(6, 120, 0, 3000)),
              dict(test="TestC05Reorg", quick=T(1, 40), thorough=T(2, 100, 0, 3000)),
              dict(test="TestC05Race", race=True, quick=T(2, 8), thorough=T(6, 60, 0, 3000))],
    ),
    "C09": dict(
        level="exploration",
        level_text="Stateful property testing of one producing node under three spork regimes (none, early, switching on inside "
                   "the history): calls to every embedded contract and method from the ABI definitions in three argument layers "
                   "(typed boundary values, non-canonical re-encodings of valid packings, raw bytes after a valid selector), "
                   "model-guided valid calls that reach deep contract states, token/amount variants. Before the real pillar "
                   "worker generates a contract receive the harness generates it under recover (pre-flight): a panic or internal "
                   "error is a violation with the send block as replay; for every receive whose method failed, the receive must "
                   "carry exactly one refund of (amount, token) to the sender (none for amount 0); after every momentum every "
                   "contract inbox must be drained (no wedge). TestC09Race (race detector): the same while 2-6 client goroutines "
                   "query the embedded namespaces and validate call data (what publishRawTransaction does outside the insert "
                   "lock) - shared ABI decoding state; a detected race, a panic in the receive generation or in a query is a "
                   "violation.",
        level_note="Bridge/liquidity administrator-only success paths are reached only where no administrator key is needed (their "
                   "failure paths are exercised); the C01 identity checks value conservation of the same histories.",
        technique="stateful property-based testing (rapid) with ABI-derived argument generators and a pre-flight crash oracle",
        rule="non-trivial = history with >=1 accepted call that failed at receive time and was refunded, or a call sent below and "
             "received at/after a spork enforcement height; accepted-method histogram in counters",
        assumptions=HIST_ASSUME,
        death_is_violation=True,
        jobs=[dict(test="TestC09", quick=T(8, 30, 60), thorough=T(16, 300, 90, 3000)),
              dict(test="TestC09Race", race=True, quick=T(2, 8), thorough=T(6, 60, 0, 3000))],
    ),
    "C17": dict(
        level="exploration",
        level_text="Stateful: sporks are created and activated inside generated histories by the designated key and by other "
                   "keys (must be refused), repeatedly; a model keeps the spork table (id = creating send, enforcement = "
                   "confirming momentum + 6, first activation only) and must equal the contract's table after every step. "
                   "Gating: for momentums at enforcement-2..+2 of every activated spork, at the frontier and at a random "
                   "height, six otherwise-valid probe calls (accelerator, liquidity, bridge, HTLC methods) acknowledging that "
                   "momentum are evaluated on the producer and on a synced follower: inactive => refused, active => not refused "
                   "with a gating error, both nodes agree. TestC17Halt (child processes): a producing node, a restarted node "
                   "and a syncing node (batch sizes 1..9) that do not implement an activated spork must exit with status 2 at "
                   "the enforcement momentum and hold nothing above it.",
        level_note="Implemented-spork ids are process globals bound to the dynamic ids exactly as the repository's tests do. "
                   "Receive-time agreement of followers for gated calls is C02's differential.",
        technique="model-based stateful property testing (rapid); differential probes on two nodes; child-process exit-status check",
        rule="non-trivial item = (probe, table level, accepted?) evaluated within +-2 of an enforcement height; halt cases are all non-trivial",
        assumptions=HIST_ASSUME,
        jobs=[dict(test="TestC17", quick=T(5, 16, 60), thorough=T(10, 150, 80, 3000)),
              dict(test="TestC17Reorg", quick=T(2, 30), thorough=T(4, 400, 0, 3000)),
              dict(test="TestC17Halt", quick=T(1, 6), thorough=T(2, 40, 0, 3000))],
    ),
    "C20": dict(
        level="exploration",
        level_text="Generated, constructively consistent genesis configurations (accounts, extra tokens, pillars, delegations, "
                   "fusions, swap entries, sporks, optional nil SporkConfig). Determinism: same configuration => same genesis "
                   "hash, momentum bytes and logical store dump across repeated construction, permutations of every unordered "
                   "list, a JSON round trip, and (for a share of cases) construction in a fresh child process. Validation: "
                   "CheckGenesis accepts every constructed configuration and rejects 12 kinds of single-entry perturbation; for "
                   "every ACCEPTED configuration (incl. duplicate-key variants) the built state satisfies the supply identity "
                   "and contract holdings equal registered collateral / fused amounts. Database mismatch: chain.Init on a "
                   "database created with config A using config B fails iff the genesis hashes differ and leaves the whole "
                   "leveldb key space unchanged.",
        level_note="Lists whose entries collide on a storage key are order-carrying: generated, never permuted. SporkAddress is not "
                   "part of the genesis hash (measured, not asserted). Null amounts make CheckGenesis panic (observation recorded "
                   "in DESIGN.md, outside the statement).",
        technique="metamorphic (permutation / re-encoding / fresh process) and perturbation-based property testing (rapid)",
        rule="non-trivial = configuration with >=3 tokens, >=4 genesis blocks, >=2 fusions that was permuted, perturbed, turned into "
             "a variant, or paired with a different config object",
        assumptions=["strings are valid UTF-8 (as decoded from a JSON file); amounts non-negative and < 2^112",
                     "an activated spork this binary does not implement gets enforcement height >= 100000 (otherwise chain.Init exits)"],
        jobs=[dict(test="TestC20Determinism", pkg="p20", quick=T(3, 150), thorough=T(6, 600, 0, 3000)),
              dict(test="TestC20Validation", pkg="p20", quick=T(3, 500), thorough=T(5, 2000, 0, 3000)),
              dict(test="TestC20DatabaseMismatch", pkg="p20", quick=T(2, 250), thorough=T(5, 1000, 0, 3000))],
    ),
    "C19": dict(
        level="exploration",
        level_text="Round trip: generated entropies (all allowed sizes, invalid sizes refused), passwords (empty, ASCII, unicode, "
                   "1 KiB, near-miss 'other' passwords) through Encrypt -> Write -> ReadKeyFile -> Decrypt and through the node's "
                   "Manager route; the file's base address is the index-0 address; the file format is cross-checked against an "
                   "independent argon2id + AES-256-GCM reading. Tamper: sampled single-bit flips of ciphertext / nonce / salt and "
                   "field-level edits (shorter / longer members, wrong version, missing or wrong-typed argon fields); the expected "
                   "outcome comes from an independent semantic reading of the corrupted document; a panic is always a violation. "
                   "Derivation: independent BIP-39 (hand-written PBKDF2-HMAC-SHA512) and SLIP-0010 ed25519 hardened derivation on "
                   "m/44'/73404'/i', validated at start-up against the published SLIP-0010 vector 1, Trezor BIP-39 vectors and "
                   "FIPS-202 vectors, must agree with the wallet for generated indices; non-hardened / overflowing / malformed "
                   "paths are refused; address = 0x00 || sha3-256(pub)[:19]; signatures verify and fail for any flipped bit.",
        level_note="ed25519 key generation, sha3 and argon2 primitives come from the Go standard library / x/crypto; parameters and "
                   "layout are re-implemented. A base-address or timestamp edit is not required to be detected.",
        technique="round-trip, tamper (metamorphic) and reference-implementation property testing (rapid); native fuzzing of the key-file reader",
        rule="non-trivial = case with a non-empty password and >=1 corruption (round trip / tamper), or touching a derivation index "
             ">=128 incl. refused indices >= 2^31",
        assumptions=["leading-zero path numbers may be refused or read as decimal; the lone path 'm' is not asserted"],
        jobs=[dict(test="TestC19RoundTrip", pkg="p19", quick=T(3, 90), thorough=T(5, 1000, 0, 3000)),
              dict(test="TestC19Tamper", pkg="p19", quick=T(4, 90), thorough=T(9, 1000, 0, 3000)),
              dict(test="TestC19Derivation", pkg="p19", quick=T(1, 2500), thorough=T(2, 50000, 0, 3000)),
              F("FuzzC19KeyFile", 180, "p19")],
    ),
    "C10": dict(
        level="exploration",
        level_text="Stateful property testing with two oracles after every step. (i) Backing: liabilities are parsed from raw "
                   "contract storage (stake entries, fusion entries of ALL owners via a raw prefix scan, HTLC entries per token, "
                   "active pillar collateral, active sentinel ZNN/QSR, QSR deposits, liquidity stakes) and must not exceed the "
                   "contract's balance of that token; per-beneficiary fused totals must equal the sum of fusion entries. "
                   "(ii) Release: the harness keeps a ledger of entitlements from the deposits it saw succeed (owner / hash-lock "
                   "beneficiary, amount, token, earliest time or height, hash lock, registration time); every successful cancel "
                   "/ revoke / withdraw / unlock / reclaim must be explained by exactly one matured, unconsumed entitlement and "
                   "pay exactly its amount to the entitled party; a refused release must pay nothing. Histories skip up to 130 "
                   "slots to cross stake, fusion, pillar and sentinel windows (shrunk consistently) and mix attempts by wrong "
                   "owners, too early, repeated, wrong / oversized preimage, proxy unlock.",
        level_note="Bridge unwrap (signed request + delay) is not generated yet; liquidity stakes appear only through the generic "
                   "ABI layer. The last active pillar is never revoked by the generator (the node's election does not terminate "
                   "with zero pillars — recorded in DESIGN.md as an observation outside the listed properties).",
        technique="stateful property-based testing (rapid) with a storage-level backing invariant and a reference entitlement ledger",
        rule="non-trivial = history with >=1 successful release and refused attempts of >=2 different kinds",
        assumptions=HIST_ASSUME,
        jobs=[dict(test="TestC10", quick=T(8, 14, 70), thorough=T(16, 200, 100, 3000))],
    ),
    "C08": dict(
        level="fault_enumeration",
        level_text="The leveldb manager runs over a recording goleveldb storage (every file create / write / sync / rename / "
                   "remove / SetMeta is logged). For EVERY commit and EVERY rollback of a generated history, every prefix of that "
                   "operation's storage-call log, plus each write cut at a generated byte offset, is materialised as a fresh "
                   "storage and reopened through the normal constructor path (leveldb journal recovery). The reopened store "
                   "(frontier pointer, every key, redo and undo patch per height, historical view per id) must equal the "
                   "crash-free store BEFORE or AFTER the operation and an independent map model; then the same operation, a "
                   "rollback of the recovered commit, or a competing commit at that height must end in the crash-free result. "
                   "Chain level: a follower node on the recording storage is fed a producer's momentums (several account blocks "
                   "each); every crash point of every delivered momentum and of RollbackTo is reopened as a node: chain.Init "
                   "must succeed, the dump must be before/after, re-delivery must reach the producer's state.",
        level_note="Process-death model: completed writes survive, SetMeta is atomic, no fsync / power-loss reordering. Values are "
                   "1..200 bytes (clear of C07's empty-value finding). leveldb compaction is not triggered at these sizes.",
        technique="exhaustive crash-point enumeration per operation over generated histories (rapid) with before/after and continuation oracles",
        rule="evaluation unit = crash point; non-trivial = crash point strictly inside an operation (0<k<total or a cut write) that "
             "touches >=2 keys; distinct = (op kind, #keys, crash index, total storage calls)",
        exhaustive_note="per operation: all storage-call boundaries + one torn variant per write; histories are sampled",
        eval_counter="crash_points",
        assumptions=["process death only; see level_note"],
        jobs=[dict(test="TestC08Db", pkg="p08", quick=T(3, 400), thorough=T(6, 1500, 0, 3000)),
              dict(test="TestC08Chain", pkg="p08", quick=T(5, 25), thorough=T(10, 200, 0, 3000))],
    ),
    "C11": dict(
        level="exploration",
        level_text="Stateful property testing over chains spanning many epochs (epoch length 10 / 20 / 60 min, slot skips of up to "
                   "1500 slots so that pillars miss momentums and many epochs close without an update), stakes / sentinels / "
                   "delegations entering and leaving mid-epoch, Update and CollectReward at generated times incl. model-guided "
                   "collects of due credits, repeated collects. After every step, per contract: the raw reward-history entries "
                   "are parsed; credited ZNN/QSR per epoch <= the epoch's emission computed by the checker from the tables "
                   "(pillar: per-momentum amounts x slots of the epoch; sentinel / stake / liquidity: epoch amounts); no credit "
                   "for an epoch the cursor has not passed; an epoch's credits never change after first sight; the cursor never "
                   "moves back; every CollectReward mints exactly the deposit recorded in the contract state just before it, to "
                   "the caller, and leaves nothing; deposit == credited - collected for every address; liquidity (before its "
                   "spork) issues exactly one mint pair per closed epoch. Finally a follower synced in batches with cold caches "
                   "must hold identical credits and epoch statistics. The emission schedule (ZNN / QSR per reward tick, "
                   "shares per contract) is restated in the checker, not read from vm/constants; a reward tick lasts 2 epochs in "
                   "these worlds so that the schedule is crossed and its end passed; the producer answers consensus queries in "
                   "the middle of epochs, the follower is never asked; pillars are revoked inside their window.",
        level_note="Liquidity after its spork is covered by the bound and once-only clauses only (additional rewards need the "
                   "administrator key).",
        technique="stateful property-based testing (rapid) with storage-level reward accounting and a two-node differential",
        rule="non-trivial = history with >=2 rewarded epochs for >=2 contracts, >=1 long slot skip (missed momentums) and >=1 "
             "successful collect",
        assumptions=HIST_ASSUME,
        jobs=[dict(test="TestC11", quick=T(6, 14, 70), thorough=T(12, 120, 100, 3000)),
              dict(test="TestC11Reorg", quick=T(2, 12), thorough=T(4, 150, 0, 3000))],
    ),
    "C14": dict(
        level="exploration",
        level_text="Model-based stateful testing of the account pool at chain level on a node with a second producer: next blocks, "
                   "forks of pooled blocks with generated plasma ratios and hash order, competing blocks for confirmed heights "
                   "(offered to the pool directly, forced and not), re-insertion of pooled blocks, own momentums and momentums of "
                   "the other producer that confirm OTHER blocks for accounts with pooled blocks. A reference pool model (per "
                   "account: confirmed tip + one list; fast-forward, else higher total/base plasma ratio, else smaller hash; "
                   "after a momentum: old list minus confirmed, dropped if it no longer links) predicts every pool decision and "
                   "must equal GetUncommittedAccountBlocksByAddress after every step; every pooled list (users, pillars, "
                   "contracts) must be a chain on the confirmed tip; confirmed blocks never change; offered momentum content is "
                   "<=100, a per-account prefix, and never splits a contract batch (TestC14Limit: >100 pooled blocks). "
                   "TestC14Order: two nodes fed 2-4 competing candidates in opposite orders keep the same winner = the maximum "
                   "of the rule. TestC14Schedule (harness-owned schedule): the pillar's own momentum is generated, sync inserts "
                   "1-3 competing momentums, then the own momentum is inserted: an error must come back and store, consensus "
                   "data and further production must equal a fresh node's. TestC14Race (-race): RPC-style readers against the "
                   "inserting goroutine, and a pillar producing while sync inserts a competing momentum at the same height.",
        level_note="Real-goroutine interleavings are sampled by the Go scheduler; a reported race is real, silence is weak evidence.",
        technique="model-based stateful property testing (rapid); metamorphic order test; harness-owned schedules; -race sampling",
        rule="TestC14: non-trivial = replacements decided by BOTH tie-break levels and >=1 momentum confirming other blocks; "
             "Order/Schedule cases are non-trivial when they reach their comparison; Limit when >100 blocks are pooled",
        assumptions=HIST_ASSUME,
        jobs=[dict(test="TestC14", quick=T(4, 25, 60), thorough=T(8, 120, 100, 3000)),
              dict(test="TestC14Limit", quick=T(1, 6), thorough=T(2, 80, 0, 3000)),
              dict(test="TestC14Order", quick=T(1, 60), thorough=T(2, 1500, 0, 3000)),
              dict(test="TestC14Schedule", quick=T(2, 40), thorough=T(4, 250, 0, 3000)),
              dict(test="TestC14Race", race=True, quick=T(2, 3), thorough=T(8, 40, 0, 3000))],
    ),
    "C18": dict(
        level="exploration",
        level_text="Worlds with more than one page of everything (445-block account, 300 unreceived sends, 15 tokens, stakes, "
                   "fusions, sentinels, pillars, projects, a configured bridge with wrap / unwrap requests; a huge world with "
                   ">1024 entries per list) are built once per process; per case, calls to 12 ledger and 24 embedded paged / "
                   "ranged methods get arguments from the full uint32 / uint64 range (boundary values, overflowing products), "
                   "known / unknown / contract addresses and hashes, directly (under recover) and through an in-process "
                   "rpc/server over HTTP (argument decoding, per-call panic containment; both answers compared). Ground truth "
                   "comes from the independent ledger scanner and the definition readers: a successful answer equals the "
                   "documented slice of the truth list, count = truth length, length <= advertised limit, pages beyond the end "
                   "are empty, walking all pages yields every element once in order; an error is accepted only outside the "
                   "advertised limits. JSON round trip of every block / momentum the api returns (same fields, same hash). Raw "
                   "requests: mutated valid requests, batches, deep nesting, huge numbers, wrong types, invalid UTF-8, 5 MiB "
                   "bodies: well-formed JSON-RPC response or HTTP error, sentinel request answered afterwards, no panic.",
        level_note="Server and codec are exercised in-process over HTTP only (not websocket / IPC). World globals (bridge "
                   "administrator key, short delays, 10-minute epochs) are values only, as in the repository's own bridge tests.",
        technique="ground-truth (independent scanner) property testing of paged queries, round-trip testing, request fuzzing (rapid + native fuzz)",
        rule="non-trivial = call whose range touches the end of the truth list or whose index*size / height / count >= 2^31, a "
             "multi-page walk, an over-limit request on a list longer than the limit, a block with descendants / nonce / >64-bit "
             "amount, or any raw request that is not a plain valid one",
        assumptions=["a confirmed send to a contract whose receive is still pooled may or may not be listed as unreceived"],
        death_is_violation=True,
        jobs=[dict(test="TestC18Paging", pkg="p18", quick=T(4, 500), thorough=T(8, 6000, 0, 3000)),
              dict(test="TestC18JsonRoundTrip", pkg="p18", quick=T(1, 1200), thorough=T(2, 10000, 0, 3000)),
              dict(test="TestC18RawRequests", pkg="p18", quick=T(2, 500), thorough=T(4, 8000, 0, 3000)),
              dict(test="TestC18PageCap", pkg="p18", quick=T(1, 25), thorough=T(2, 600, 0, 3000)),
              dict(test="TestC18Point", pkg="p18", quick=T(2, 400), thorough=T(4, 6000, 0, 3000)),
              dict(test="TestC18Subscribe", pkg="p18", quick=T(1, 150), thorough=T(2, 1000, 0, 3000)),
              F("FuzzC18Request", 180, "p18")],
    ),
    "C15": dict(
        level="exploration",
        level_text="Sessions against a real, started ProtocolManager (downloader, fetcher) over p2p.MsgPipe on a chain of 640 "
                   "momentums: handshake (valid / wrong network / wrong genesis / missing) then generated message sequences "
                   "(codes 0..8 and unknown; valid encodings with hostile parameters — unknown hashes, amounts 0 / 1 / 512 / 513 / "
                   "2^64-1, numbers beyond the frontier, thousands of hashes; RLP mutations of valid payloads; random bytes; fake "
                   "sizes up to and beyond 10 MiB; garbage replies to the node's own requests; honest, faulted and fabricated "
                   "momentums) while an honest second peer is connected. Oracle: no panic (handler run under recover on a harness "
                   "goroutine; other goroutines via the journalled case), malformed input ends only the offending peer, every "
                   "reply <= 512 hashes / 128 momentums / 10 MiB, the honest peer is answered correctly afterwards, the chain is "
                   "unchanged unless valid new momentums were delivered (then equal to a reference follower). RLPx frames: valid "
                   "streams written by an independent reference writer, then bit flips / truncation / reordering / oversize "
                   "headers: error at the corrupted position, never an altered message, no huge allocation. Handshakes (ECIES + "
                   "devp2p) and discovery packets (ping / pong / findnode / neighbors and their mutations): error or clean "
                   "handling, never a panic, a flipped bit never decodes under the original sender id.",
        level_note="'Cannot block the message loop indefinitely' is decided structurally, not by time: a delivery that does not come "
                   "back is a violation (C15/message-loop-blocked/<function>) only if the peer's handler goroutine is parked in a "
                   "channel operation below handleMsg, with the same stack in two goroutine dumps >= 400 ms apart, and no goroutine "
                   "exists that could release it (for downloader.DeliverHashes/DeliverBlocks: nothing inside the downloader's sync "
                   "cycle or about to start one, and no connected peer claims more than the node has, so the syncer's tick cannot "
                   "start a cycle; for fetcher entry points: no fetcher loop); every other wait that exceeds 20 s stays "
                   "inconclusive (0 in the last 30k sessions). TestC15AfterSync generates the histories the rule needs: sync "
                   "completed / failed / none / deliveries during a cycle, then unsolicited hash and momentum deliveries. "
                   "TestC15ThirdPeer: while the answer of the honest sync peer A to a hash request (ancestor lookup / hash download, "
                   "read off the node's requests) is held back, a second connection delivers unsolicited hash lists; at rest A "
                   "must still be connected and the node at A's tip with a reference follower's state. Not built "
                   "with -race (the detector reports a node-internal race in discover.Table on Close which is outside the listed "
                   "properties). TestC15Server: a real p2p.Server on loopback TCP (discovery off, MaxPeers 5) running the sub-protocols "
                   "of a started ProtocolManager; hostile clients misbehave before / inside the encryption handshake, in the protocol "
                   "handshake (oversized, wrong id, version, caps), with base-protocol codes (ping flood, disconnect with hostile RLP, "
                   "codes beyond the negotiated range), declared size != frame size, corrupted frames, then the sub-protocol session "
                   "generators; after every case: an honest client completes both handshakes and gets cap-respecting answers, honest "
                   "peers connected before are still served, PeerCount / Peers list exactly the honest peers, the server's goroutines "
                   "and sockets (/proc/self/fd) are exactly those of its honest peers. TestC15DiscTable: the discovery table over a "
                   "harness transport; the harness answers the table's pings / findnodes as remote nodes with hostile neighbours "
                   "(too many, invalid addresses, not curve points, duplicates, expired, unsolicited, wrong sender); nothing invalid "
                   "enters the table, buckets stay bounded, pending replies drain.",
        technique="session-level stateful property testing (rapid) with reply-size and survival oracles; byte-level mutation testing of "
                  "frames / packets against an independent reference encoder; native fuzzing of payloads, frames and packets",
        rule="non-trivial = session with >=1 message that decodes far enough to reach a chain lookup or insert; frame stream whose "
             "first differing byte lies after a header MAC (or a crafted header with valid MAC); packet that passes the hash check; "
             "handshake message that passes ECIES integrity; after-sync case in which the downloader's cycle completed (node at "
             "the presented tip, peer still connected) before the unsolicited deliveries; server case in which the hostile client "
             "completed a valid encryption handshake (or its auth message passes ECIES integrity); table case in which hostile packets "
             "with a valid hash and signature were processed",
        assumptions=["a fake msg.Size stands for the frame size; codes >= 9 never reach the handler in the real stack",
                     "'blocked indefinitely' = no goroutine of the process can release the handler and no synchronisation can start "
                     "without a further message; stimuli the harness could still send are not counted as releasers"],
        death_is_violation=True,
        jobs=[dict(test="TestC15Session", pkg="p15", quick=T(8, 350), thorough=T(12, 3000, 0, 3000)),
              dict(test="TestC15AfterSync", pkg="p15", quick=T(4, 120), thorough=T(8, 2500, 0, 3000)),
              dict(test="TestC15ThirdPeer", pkg="p15", quick=T(3, 100), thorough=T(6, 3000, 0, 3000)),
              dict(test="TestC15Server", pkg="p15", quick=T(3, 250), thorough=T(8, 2000, 0, 3000)),
              dict(test="TestC15DiscTable", pkg="p15", quick=T(3, 20), thorough=T(8, 150, 0, 3000)),
              dict(test="TestC15Frames", pkg="p15", quick=T(2, 8000), thorough=T(4, 250000, 0, 3000)),
              dict(test="TestC15Discovery", pkg="p15", quick=T(2, 3000), thorough=T(4, 40000, 0, 3000)),
              dict(test="TestC15Handshake", pkg="p15", quick=T(1, 2500), thorough=T(2, 30000, 0, 3000)),
              dict(test="TestC15Regress", pkg="p15", quick=T(1, 1), thorough=T(1, 1)),
              F("FuzzC15Payload", 180, "p15"), F("FuzzC15Frame", 120, "p15"), F("FuzzC15Packet", 120, "p15")],
    ),
}
