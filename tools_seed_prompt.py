#!/usr/bin/env python3
"""Prints the brief for an independent author of seeded changes (round 3) for one property.

usage: tools_seed_prompt.py <ID> <k1> <k2>     e.g. tools_seed_prompt.py C07 5 6
The brief contains the property's text, the one-line descriptions of changes earlier authors already delivered
(so that the new ones differ in kind and place) and the mechanics; nothing about the checks in /verif.
"""
import json, os, sys

pid, k1, k2 = sys.argv[1], sys.argv[2], sys.argv[3]
prop = [json.loads(l) for l in open("/verif/properties.jsonl") if json.loads(l)["id"] == pid][0]
taken = []
for d in sorted(os.listdir("/verif/seeded")):
    mp = f"/verif/seeded/{d}/meta.json"
    if d.startswith(pid + "-") and os.path.exists(mp):
        taken.append("- " + json.load(open(mp))["breaks"])
wt = f"/tmp/s3-{pid}"
print(f"""You are an experienced Go engineer helping to evaluate a verification effort for the Go full node
zenon-network/go-zenon (dual-ledger chain "Network of Momentum": account chains + momentum chain, pillar-based
consensus, embedded contracts, geth-derived p2p and JSON-RPC). Your job is to author TWO independent *seeded
defects*: small, realistic source changes that break one stated semantic property of the code while still
compiling and passing the repository's existing test suite. They will later be used, by someone else, to measure
whether independent checking machinery notices them. You do not see that machinery and must not look for it.

## Where you work
* Your own scratch git worktree of the repository: `{wt}` (already created, clean, at the current HEAD).
  Work ONLY there and under `/tmp/seed-{pid}/`. Do NOT read, list or touch `/verif`, `/repo`, `/root` or other
  directories under `/tmp`. Do not commit anything. Do not remove the worktree (it is removed for you).
* The sandbox is offline. Start every shell command with
  `export GOFLAGS=-mod=mod GOPROXY=off GOSUMDB=off GOTOOLCHAIN=local` (environment does not persist between calls).
* The machine is shared with other jobs: run `go test` with `-p 4` and only the packages you need while
  developing; run the full suite once per change at the end:
  `cd {wt} && go test -vet=off -count=1 -p 4 -timeout 40m ./...` (takes 5-15 minutes). The test
  `TestSimple_MomentumInsertionBenchmark` is a wall-clock benchmark that can fail on a busy machine; ignore a failure
  of that test only (and `TestPack_SimpleTest` is randomized and very rarely fails on its own). Every other test must pass.
* Never use `git stash` (the stash is shared by all worktrees of the repository and other authors work in parallel):
  to set a change aside use `git diff > /tmp/seed-{pid}/K/wip.diff; git checkout -- .` and later `git apply`.
* If `go.mod`/`go.sum` get rewritten by `-mod=mod`, restore them (`git checkout -- go.mod go.sum`); they are not
  part of your change.

## The property your changes must break
id: {prop['id']}
title: {prop['title']}
statement: {prop['statement']}
quantifier (what it ranges over): {prop.get('quantifier')}
why the existing tests cannot settle it: {prop.get('why_tests_cant')}
code anchors: {json.dumps(prop.get('anchors'))}

## What makes a good seeded change
* It looks like an honest slip a maintainer could make and a reviewer could wave through: a refactoring, an
  "optimisation" or cache, an off-by-one at a boundary, a wrong operator, a check moved to the wrong side of a
  branch, an early return on an error path, a lock dropped, a field forgotten in a codec, two sites that each look
  fine alone but are wrong together. NOT a backdoor, not a special case on a magic value, not dead code, not a
  change in tests, not a change that merely deletes the feature.
* It really violates the *stated* property (quote the clause), on inputs/histories the node can actually meet
  (a peer, an RPC client, a wallet, a contract caller, a crash, a restart, a reorganisation can cause them).
* It needs something SPECIFIC to manifest, not what ordinary use exposes at once: a particular interleaving or
  schedule, a crash or fault at a particular point, a multi-step sequence of operations, an unusual but legal
  input or boundary value, a rarely used code path / contract method / message code, a restart or reorganisation
  at a particular moment, or two cooperating sites.
* It compiles (`go build ./...`, and `go vet` is not required) and the full existing suite still passes with it.
* The two changes must be independent of each other (each applies alone to a clean tree), be in different
  files/areas, and break the property through different mechanisms.
* Earlier authors already delivered the following changes for this property. Do NOT repeat them or make a close
  variant; choose a different place in the code and a different kind of slip. Prefer parts of the behaviour behind
  the property that these did not touch:
{chr(10).join(taken) if taken else '- (none yet)'}

## Deliverables (for change number K in {{{k1}, {k2}}}) under `/tmp/seed-{pid}/K/`
1. `patch.diff` — output of `git diff` in the worktree containing ONLY the change to non-test source files
   (no demonstration file, no go.mod/go.sum). It must apply with `git apply` to a clean checkout of HEAD.
2. `demo_test.go` — a demonstration: ONE self-contained Go test file (package and location of your choice inside
   the repository, e.g. `vm/embedded/tests/zz_demo_test.go` or `chain/zz_demo_test.go`; it may use the repository's
   own test helpers such as `zenon/mock`) with one test function whose name starts with `TestDemo`, that PASSES on
   the unmodified tree and FAILS with your change applied (a failing assertion, a panic or a detected data race
   all count; if it needs `-race`, say so). It must be deterministic enough to fail at least 9 times out of 10.
3. `agent.json` — a JSON object with exactly these string fields:
   `"breaks"`: one sentence: what the change does and which clause it breaks;
   `"needs"`: one sentence: what it takes to manifest;
   `"place_as"`: path relative to the repository root where demo_test.go must be copied (must end in `_test.go`);
   `"run_args"`: the arguments after `go test -vet=off -count=1` that run exactly your demonstration,
                 e.g. `-run TestDemoXyz ./vm/embedded/tests` (add `-race` here if needed).
4. `DEMO.md` — short notes: files and functions changed, the clause broken, why ordinary use and the existing tests
   do not notice, what exactly is needed to manifest, and the tail of the full-suite output with the change applied.

Confirm for EACH change yourself, in the worktree: (a) demo passes without the change, (b) demo fails with the
change, (c) the full suite passes with the change (demo file removed or not, either way). Then leave the worktree
clean (`git checkout -- . && git clean -fdq`) before starting the next change and at the end.

Read the code behind the anchors first and think about which behaviours the property quantifies over; spend your
effort on subtle, deep changes rather than shallow ones. When done, reply with a short summary per change
(files touched, what breaks, what it needs, verification results). If you could only finish one change, deliver one.
""")
