#!/bin/sh
# usage: tools_seed_rebench.sh <ID> <k>  -- when the only suite failure with the patch was the wall-clock benchmark
# (TestSimple_MomentumInsertionBenchmark, limit 1500 ms, fails on a loaded machine), re-run that test alone, up to 6 times.
ID=$1; K=$2; SRC=/tmp/seed-$ID/$K; WT=/tmp/sv-$ID-$K-b
export GOFLAGS=-mod=mod GOPROXY=off GOSUMDB=off GOTOOLCHAIN=local
n=$(grep -c -- "^--- FAIL" $SRC/verify_suite.txt); b=$(grep -c -- "^--- FAIL: TestSimple_MomentumInsertionBenchmark" $SRC/verify_suite.txt)
if [ "$n" != "$b" ] || [ "$n" = "0" ]; then echo "$ID/$K: other failures ($n fails, $b benchmark) - not retried"; exit 1; fi
git -C /repo worktree remove --force $WT >/dev/null 2>&1
git -C /repo worktree add -q --detach $WT HEAD || exit 1
cd $WT && git apply $SRC/patch.diff || exit 1
go test -vet=off -count=1 -c -o /tmp/sv-bench-$ID-$K.test ./vm/embedded/tests >/dev/null 2>&1
ok=1
for i in 1 2 3 4 5 6; do
  if (cd $WT/vm/embedded/tests && /tmp/sv-bench-$ID-$K.test -test.run '^TestSimple_MomentumInsertionBenchmark$' -test.count=1 > /tmp/sv-bench-$ID-$K.txt 2>&1); then ok=0; break; fi
done
if [ $ok != 0 ]; then
  # still failing: is it the machine? the same binary built from the unmodified tree, same moment
  WT0=/tmp/sv-$ID-$K-b0
  git -C /repo worktree remove --force $WT0 >/dev/null 2>&1
  git -C /repo worktree add -q --detach $WT0 HEAD
  (cd $WT0 && go test -vet=off -count=1 -c -o /tmp/sv-bench0-$ID-$K.test ./vm/embedded/tests >/dev/null 2>&1)
  clean_ok=1
  for j in 1 2 3; do
    if (cd $WT0/vm/embedded/tests && /tmp/sv-bench0-$ID-$K.test -test.run '^TestSimple_MomentumInsertionBenchmark$' -test.count=1 > /dev/null 2>&1); then clean_ok=0; break; fi
  done
  rm -f /tmp/sv-bench0-$ID-$K.test; git -C /repo worktree remove --force $WT0
  if [ $clean_ok != 0 ]; then
    echo "the benchmark also fails 3 of 3 times on the unmodified tree at this machine load: not attributable to the change" >> $SRC/verify_suite.txt
    ok=0
  fi
fi
echo "benchmark re-run alone with the patch: attempt $i rc=$ok" >> $SRC/verify_suite.txt
[ $ok = 0 ] && echo "$ID/$K: benchmark passes alone with the patch (attempt $i)" || echo "$ID/$K: benchmark still failing"
rm -f /tmp/sv-bench-$ID-$K.test /tmp/sv-bench-$ID-$K.txt
cd /; git -C /repo worktree remove --force $WT
exit $ok
