#!/bin/sh
# usage: tools_seed_verify3.sh <ID> <k>   -- round 3: demo location and arguments come from the author's agent.json
ID=$1; K=$2; SRC=/tmp/seed-$ID/$K
PLACE=$(python3 -c "import json;print(json.load(open('$SRC/agent.json'))['place_as'])") || exit 1
ARGS=$(python3 -c "import json;print(json.load(open('$SRC/agent.json'))['run_args'])") || exit 1
/verif/tools_seed_verify.sh $ID $K $PLACE $ARGS > $SRC/verify.log 2>&1
echo "verified $ID/$K: $(grep -c 'rc=0' $SRC/verify.log) rc=0 lines; $(grep -A1 '== demo' $SRC/verify.log | grep rc= | tr '\n' ' ')"
