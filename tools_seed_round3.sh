#!/bin/sh
# usage: tools_seed_round3.sh <ID> <k...>   verify (scratch worktree), re-run the benchmark alone if it was the only failure, store, run the checks
ID=$1; shift
cd /verif
for K in "$@"; do
  [ -f /tmp/seed-$ID/$K/patch.diff ] || { echo "$ID/$K: no patch"; continue; }
  [ -f /tmp/seed-$ID/$K/verify.log ] || ./tools_seed_verify3.sh $ID $K
  if grep -q -- "^--- FAIL" /tmp/seed-$ID/$K/verify_suite.txt && ! grep -q "benchmark re-run alone" /tmp/seed-$ID/$K/verify_suite.txt; then ./tools_seed_rebench.sh $ID $K; fi
done
python3 tools_seed_store.py 2>&1 | grep "^$ID-"
IDS=""; for K in "$@"; do [ -d /verif/seeded/$ID-$K ] && IDS="$IDS $ID-$K"; done
[ -n "$IDS" ] && python3 tools_seed_matrix.py --par 2 $IDS
