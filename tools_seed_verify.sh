#!/bin/sh
# usage: tools_seed_verify.sh <ID> <k> <demo-dest-relative-path> <go-test-args...>
# Confirms in a scratch worktree: patch applies, demo fails with it and passes without it, full suite passes with it.
ID=$1; K=$2; DEST=$3; shift 3
SRC=/tmp/seed-$ID/$K
WT=/tmp/sv-$ID-$K
export GOFLAGS=-mod=mod GOPROXY=off GOSUMDB=off GOTOOLCHAIN=local
git -C /repo worktree remove --force $WT >/dev/null 2>&1
git -C /repo worktree add -q --detach $WT HEAD || exit 1
cd $WT
DEMO=$(ls $SRC/*_test.go 2>/dev/null | head -1)
cp "$DEMO" $WT/$DEST
echo "== demo WITHOUT patch"; go test -vet=off -count=1 "$@" > $SRC/verify_without.txt 2>&1; echo "rc=$?"; tail -3 $SRC/verify_without.txt
git apply $SRC/patch.diff || { echo "PATCH DOES NOT APPLY"; exit 1; }
echo "== demo WITH patch"; go test -vet=off -count=1 "$@" > $SRC/verify_with.txt 2>&1; echo "rc=$?"; tail -5 $SRC/verify_with.txt
rm -f $WT/$DEST
echo "== suite WITH patch"; go test -vet=off -count=1 -timeout 25m ./... > $SRC/verify_suite.txt 2>&1; echo "rc=$?"; grep -v "^ok\|no test files" $SRC/verify_suite.txt | head -5
git checkout -q -- go.mod go.sum 2>/dev/null
cd /; git -C /repo worktree remove --force $WT
