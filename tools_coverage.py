#!/usr/bin/env python3
"""Generator-reach measurement (tooling, not a registered check): which statements of /repo do the quick-tier
generators of a property actually execute?

usage: tools_coverage.py [--shards N] [--tier quick] <ID...>      -> /tmp/cov/<ID>.func.txt, /tmp/cov/<ID>.out
Builds cover-instrumented copies of the harness test binaries (-coverpkg = the whole repository) under /tmp/cov,
runs the property's rapid jobs with the driver's own arguments (first N shards), merges the profiles.
"""
import os, subprocess, sys, hashlib
sys.path.insert(0, "/verif")
from checks_config import CHECKS

COV = "/tmp/cov"
BUILT = set()
H = "/verif/harness"


def goenv():
    e = dict(os.environ)
    e.update(GOFLAGS="-mod=mod", GOPROXY="off", GOSUMDB="off", GOTOOLCHAIN="local")
    return e


def splitmix(*parts):
    h = hashlib.sha256("|".join(str(p) for p in parts).encode()).digest()
    return (int.from_bytes(h[:8], "big") & ((1 << 63) - 1)) or 1


def build(pkg):
    out = f"{COV}/{pkg}.cover.test"
    if out not in BUILT:
        BUILT.add(out)
        subprocess.check_call(["go", "test", "-c", "-vet=off", "-tags", "verif", "-cover", "-covermode=set",
                               "-coverpkg=github.com/zenon-network/go-zenon/...", "-o", out, "./" + pkg], cwd=H, env=goenv())
    return out


def merge(files, dst):
    seen = {}
    for f in files:
        if not os.path.exists(f):
            continue
        for l in open(f):
            if l.startswith("mode:"):
                continue
            k, n = l.rsplit(" ", 1)
            seen[k] = max(seen.get(k, 0), int(n))
    with open(dst, "w") as o:
        o.write("mode: set\n")
        for k in sorted(seen):
            o.write(f"{k} {seen[k]}\n")


def main():
    args = sys.argv[1:]
    shards, tier = 2, "quick"
    while args and args[0].startswith("--"):
        if args[0] == "--shards":
            shards = int(args[1])
        if args[0] == "--tier":
            tier = args[1]
        args = args[2:]
    os.makedirs(COV, exist_ok=True)
    for pid in args:
        procs, files = [], []
        for j in CHECKS[pid]["jobs"]:
            if j.get("fuzz") or j.get("race") or tier not in j:
                continue
            t = j[tier]
            b = build(j.get("pkg", "props"))
            for s in range(min(shards, t["shards"])):
                sseed = splitmix(1, pid, j["test"], s)
                prof = f"{COV}/{pid}-{j['test']}-{s}.prof"
                files.append(prof)
                cmd = [b, "-test.run", "^%s$" % j["test"], "-test.timeout", "3000s", "-rapid.seed", str(sseed), "-rapid.checks",
                       str(t["checks"]), "-rapid.nofailfile", "-test.coverprofile", prof]
                if t.get("steps"):
                    cmd += ["-rapid.steps", str(t["steps"])]
                env = goenv()
                od = f"{COV}/out-{pid}"
                os.makedirs(od, exist_ok=True)
                env.update(VERIF_OUT=f"{od}/res-{j['test']}-{s}.json", VERIF_OUT_DIR=od, VERIF_SHARD=str(s), VERIF_SHARD_SEED=str(sseed),
                           VERIF_TIER=tier, VERIF_KNOWN="/verif/KNOWN_FINDINGS.txt", VERIF_JOURNAL=f"{od}/j-{j['test']}-{s}.json",
                           VERIF_CORPUS=H + "/corpus", VERIF_SEED="1", VERIF_CHECKS=str(t["checks"]))
                for k, v in j.get("env", {}).items():
                    env[k] = str(v)
                procs.append(subprocess.Popen(cmd, cwd=f"{H}/{j.get('pkg', 'props')}", env=env, stdout=open(f"{od}/log-{j['test']}-{s}.txt", "w"),
                                              stderr=subprocess.STDOUT))
        for p in procs:
            p.wait()
        merge(files, f"{COV}/{pid}.out")
        r = subprocess.run(["go", "tool", "cover", "-func", f"{COV}/{pid}.out"], cwd="/repo", env=goenv(), capture_output=True, text=True)
        open(f"{COV}/{pid}.func.txt", "w").write(r.stdout + r.stderr)
        print(pid, "done:", r.stdout.strip().splitlines()[-1] if r.stdout.strip() else r.stderr[:300], flush=True)


if __name__ == "__main__":
    main()
