#!/bin/sh
# usage: tools_seed_check.sh <seed-ID> <k> <tier> <check-ID...>   applies the seeded patch to /repo, runs the checks, undoes it
SID=$1; K=$2; TIER=$3; shift 3
cd /repo && git apply /tmp/seed-$SID/$K/patch.diff || { echo "patch does not apply"; exit 1; }
cd /verif
for ID in "$@"; do
  ./check $ID --tier $TIER > /tmp/seedcheck_${SID}_${K}_$ID.txt 2>&1; rc=$?
  echo "mutant $SID/$K vs check $ID ($TIER): rc=$rc  $(grep -m1 -A1 '^VIOLATION' /tmp/seedcheck_${SID}_${K}_$ID.txt | tr '\n' ' ' | cut -c1-220)"
  # keep the first replay file
  f=$(grep -m1 '^VIOLATION' /tmp/seedcheck_${SID}_${K}_$ID.txt | sed 's/.*replay=//'); [ -n "$f" ] && [ -f "$f" ] && cp "$f" /tmp/seed-$SID/$K/caught-by-$ID.json
done
git -C /repo checkout -- . ; git -C /repo status --short | grep -v '??'
