package p15

// TestC15Server: the real connection life cycle of package p2p. One p2p.Server per process
// (127.0.0.1:0, no discovery, no dialing, MaxPeers 5, 6 pending slots) runs the sub-protocols of a
// started ProtocolManager over the shared 640-momentum chain, exactly as node.New wires them. Hostile
// and honest clients of the harness connect over real TCP: the client side of the encryption
// handshake is p2p.VerifInitiatorEncHandshake, everything after it (protocol handshake, status,
// sessions) is written by the harness frame by frame.
//
// Oracle after every case (all waits are event driven; a wait that expires is "inconclusive", never a
// violation; "blocked / abandoned / leaked" is decided from goroutine dumps, see srvDiagnose):
//  1. no panic (the process survives; draws are journalled before every risky write);
//  2. a NEW honest connection completes both handshakes and the status exchange and gets correct,
//     cap-respecting answers to GetBlockHashesFromNumber / GetBlocks;
//  3. the honest peers connected BEFORE the case ("residents") are still connected and served;
//  4. every reply seen by any client carries <= 512 hashes / <= 128 momentums / <= 10 MiB;
//  5. a complete-but-invalid input (auth message, protocol handshake, corrupted frame, oversized
//     message) never turns its sender into a served peer, and its connection is closed;
//  6. after the hostile connections are gone PeerCount() is the number of honest peers, the server's
//     goroutines are exactly {run, listenLoop, 4 per peer} and the process holds no extra socket.

import (
	"bytes"
	"crypto/ecdsa"
	"crypto/sha256"
	"encoding/binary"
	"fmt"
	"io"
	"net"
	"os"
	"sort"
	"strings"
	"sync"
	"sync/atomic"
	"testing"
	"time"

	"github.com/ethereum/go-ethereum/crypto"
	"github.com/ethereum/go-ethereum/crypto/ecies"
	"github.com/ethereum/go-ethereum/rlp"
	"github.com/inconshreveable/log15"

	"github.com/zenon-network/go-zenon/chain/nom"
	"github.com/zenon-network/go-zenon/common"
	"github.com/zenon-network/go-zenon/common/types"
	"github.com/zenon-network/go-zenon/p2p"
	"github.com/zenon-network/go-zenon/p2p/discover"
	"github.com/zenon-network/go-zenon/protocol"

	"verifharness/pbt"
	"verifharness/sim"
)

const (
	srvMaxPeers  = 5
	srvPending   = 6
	srvResidents = 2
	subOff       = 16 // devp2p: the first negotiated sub-protocol starts after the 16 base codes
	subLen       = 9

	bPing = 2
	bPong = 3
	bDisc = 1
)

var srvDebug = os.Getenv("VERIF_C15_DEBUG") != ""

// mirror of the devp2p protocol handshake
type wProtoHS struct {
	Version    uint64
	Name       string
	Caps       []p2p.Cap
	ListenPort uint64
	ID         discover.NodeID
}

func srvKey(tag string, a, b uint64) *ecdsa.PrivateKey {
	var buf [40]byte
	copy(buf[:], tag)
	binary.BigEndian.PutUint64(buf[24:], a)
	binary.BigEndian.PutUint64(buf[32:], b)
	for {
		d := sha256.Sum256(buf[:])
		if k, err := crypto.ToECDSA(d[:]); err == nil {
			return k
		}
		buf[23]++
	}
}

// ---- goroutine census of the server ----------------------------------------------------------------

const p2pPkg = "github.com/zenon-network/go-zenon/p2p."

// srvGroup classifies a goroutine that belongs to the server side (any p2p frame, nothing of the
// harness on its stack or as its creator). "" = not a server goroutine.
func srvGroup(d gdump) string {
	if !strings.Contains(d.text, p2pPkg) || strings.Contains(d.text, "verifharness/p15") {
		return ""
	}
	has := func(s string) bool { // a frame of exactly this function
		for _, f := range d.frames {
			if strings.HasSuffix(f.fn, s) {
				return true
			}
		}
		return false
	}
	hasClosure := func(s string) bool { // a frame of a closure of this function
		for _, f := range d.frames {
			if strings.Contains(f.fn, s+".func") {
				return true
			}
		}
		return false
	}
	switch {
	case has("p2p.(*Server).runPeer"):
		return "runPeer"
	case has("p2p.(*Server).setupConn") || hasClosure("p2p.(*Server).listenLoop"):
		// the goroutine of an accepted connection holds a handshake slot until it ends
		return "setupConn"
	case has("p2p.(*Server).listenLoop"):
		return "listenLoop"
	case has("p2p.(*Peer).readLoop"):
		return "readLoop"
	case has("p2p.(*Peer).pingLoop"):
		return "pingLoop"
	case hasClosure("p2p.(*Peer).startProtocols"):
		return "proto"
	case hasClosure("p2p.(*Peer).handle"):
		return "pong"
	case hasClosure("p2p.(*rlpx).doProtoHandshake"):
		return "hs-writer"
	case has("p2p.(*Server).run"):
		return "run"
	}
	if len(d.frames) > 0 {
		return "other:" + shortFn(d.frames[len(d.frames)-1].fn)
	}
	return "other"
}

type srvCensus struct {
	hist  map[string]int
	byGrp map[string][]gdump
	all   []gdump
}

func takeCensus() *srvCensus {
	cs := &srvCensus{hist: map[string]int{}, byGrp: map[string][]gdump{}}
	cs.all = allDumps()
	for _, d := range cs.all {
		if g := srvGroup(d); g != "" {
			cs.hist[g]++
			cs.byGrp[g] = append(cs.byGrp[g], d)
		}
	}
	return cs
}

func (cs *srvCensus) String() string {
	var ks []string
	for k, v := range cs.hist {
		ks = append(ks, fmt.Sprintf("%s=%d", k, v))
	}
	sort.Strings(ks)
	return strings.Join(ks, " ")
}

func countSockets() int {
	ents, err := os.ReadDir("/proc/self/fd")
	if err != nil {
		return -1
	}
	n := 0
	for _, e := range ents {
		if l, err := os.Readlink("/proc/self/fd/" + e.Name()); err == nil && strings.HasPrefix(l, "socket:") {
			n++
		}
	}
	return n
}

// ---- the environment: one server per process ----------------------------------------------------------

type srvEnv struct {
	sh       *shared
	pm       *protocol.ProtocolManager
	srv      *p2p.Server
	key      *ecdsa.PrivateKey
	id       discover.NodeID
	addr     string
	res      []*sclient
	baseHist map[string]int // server-like goroutines that existed before this server was started
	baseSock int
	gen      uint64
	height   uint64
	chainID  uint64
	genesis  types.Hash
	frontier types.Hash
	dirty    string
}

var (
	srvMu   sync.Mutex
	srvCur  *srvEnv
	srvGens uint64
)

func startSrvEnv() *srvEnv {
	sim.Silence()
	// what a node at its default log level formats: Info and above of the p2p and protocol loggers
	h := log15.LvlFilterHandler(log15.LvlInfo, log15.StreamHandler(io.Discard, log15.LogfmtFormat()))
	common.P2PLogger.SetHandler(h)
	common.ProtocolLogger.SetHandler(h)
	sh := world()
	srvGens++
	e := &srvEnv{sh: sh, gen: srvGens, height: sh.height, genesis: sh.hashes[1]}
	e.chainID = sh.a.Chain.ChainIdentifier()
	e.frontier = sh.a.Frontier().Hash
	e.key = srvKey("c15-server", e.gen, 0)
	e.id = idOf(e.key)
	e.baseHist = takeCensus().hist
	e.baseSock = countSockets()
	e.pm = protocol.NewProtocolManager(1, e.chainID, sh.a.Bridge)
	e.pm.Start()
	e.srv = &p2p.Server{
		PrivateKey:      e.key,
		Name:            "c15-node",
		MaxPeers:        srvMaxPeers,
		MaxPendingPeers: srvPending,
		Discovery:       false,
		NoDial:          true,
		ListenAddr:      "127.0.0.1:0",
		Protocols:       e.pm.SubProtocols,
	}
	if err := e.srv.Start(); err != nil {
		panic(fmt.Sprintf("C15 server: Start: %v", err))
	}
	e.addr = e.srv.ListenAddr
	e.res = make([]*sclient, srvResidents)
	return e
}

func (e *srvEnv) stop() {
	for _, r := range e.res {
		if r != nil {
			r.close(false)
		}
	}
	e.srv.Stop()
	// peers and pending handshakes unwind on their own once quit is closed
	waitNone(func(g gor) bool {
		d := parseDump(g)
		grp := srvGroup(d)
		return grp != "" && !strings.HasPrefix(grp, "other")
	})
	done := make(chan struct{})
	go func() { e.pm.Stop(); close(done) }()
	select {
	case <-done:
	case <-time.After(3 * liveDeadline):
	}
	waitNone(managerActive)
}

func stopSrvEnv() {
	srvMu.Lock()
	defer srvMu.Unlock()
	if srvCur != nil {
		srvCur.stop()
		srvCur = nil
	}
}

// expectHist: what the server's goroutines must look like with k connected peers and nothing in flight.
func (e *srvEnv) expectHist(k int) map[string]int {
	h := map[string]int{"run": 1, "listenLoop": 1}
	if k > 0 {
		h["runPeer"], h["readLoop"], h["pingLoop"], h["proto"] = k, k, k, k
	}
	for g, n := range e.baseHist {
		h[g] += n
	}
	return h
}

func histExcess(got, want map[string]int) []string {
	var out []string
	for g, n := range got {
		if n > want[g] {
			out = append(out, fmt.Sprintf("%s: %d (expected %d)", g, n, want[g]))
		}
	}
	sort.Strings(out)
	return out
}

func histMissing(got, want map[string]int) []string {
	var out []string
	for g, n := range want {
		if got[g] < n {
			out = append(out, fmt.Sprintf("%s: %d (expected %d)", g, got[g], n))
		}
	}
	sort.Strings(out)
	return out
}

// ---- the client -------------------------------------------------------------------------------------------

type srvRx struct {
	code uint64
	size uint32
	data []byte
	over bool
}

type srvTx struct {
	code    uint64
	size    uint32
	payload io.Reader
}

func txBytes(code uint64, p []byte) srvTx {
	return srvTx{code: code, size: uint32(len(p)), payload: bytes.NewReader(p)}
}

// tapConn sits between the frame writer and the socket: it can hold back what is written (so that
// the harness can damage complete, correctly MACed frames) and cut writes into pieces.
type tapConn struct {
	fd    net.Conn
	mu    sync.Mutex
	hold  bool
	buf   bytes.Buffer
	chunk int
	wsig  chan struct{}
}

func (t *tapConn) Read(p []byte) (int, error) { return t.fd.Read(p) }
func (t *tapConn) Write(p []byte) (int, error) {
	t.mu.Lock()
	if t.hold {
		t.buf.Write(p)
		t.mu.Unlock()
		select {
		case t.wsig <- struct{}{}:
		default:
		}
		return len(p), nil
	}
	chunk := t.chunk
	t.mu.Unlock()
	if chunk <= 0 {
		return t.fd.Write(p)
	}
	w := 0
	for w < len(p) {
		n := chunk
		if n > len(p)-w {
			n = len(p) - w
		}
		k, err := t.fd.Write(p[w : w+n])
		w += k
		if err != nil {
			return w, err
		}
	}
	return w, nil
}
func (t *tapConn) setHold(h bool) { t.mu.Lock(); t.hold = h; t.mu.Unlock() }
func (t *tapConn) held() int      { t.mu.Lock(); defer t.mu.Unlock(); return t.buf.Len() }
func (t *tapConn) take() []byte {
	t.mu.Lock()
	defer t.mu.Unlock()
	out := append([]byte{}, t.buf.Bytes()...)
	t.buf.Reset()
	return out
}

type sclient struct {
	name   string
	key    *ecdsa.PrivateKey
	id     discover.NodeID
	fd     *net.TCPConn
	tap    *tapConn
	rw     p2p.MsgReadWriter
	wmu    sync.Mutex
	mu     sync.Mutex
	rx     []srvRx
	rawN   int // bytes received while no frame layer existed
	rerr   error
	sig    chan struct{}
	rdone  chan struct{}
	auto   chan srvTx
	quit   chan struct{}
	once   sync.Once
	honest int32 // atomic: answers the node's requests with empty lists
	reader bool

	established bool  // harness belief: the server runs this connection as a peer
	statusOK    bool  // the sub-protocol handshake went through
	capsSeen    int   // index up to which the reply caps were checked
	lastTx      int64 // unix nanos of the last frame written (residents: read timeout excuse)
	pings       int   // pings written on this connection (every one is answered by at most one pong)
	t0          time.Time
}

func (cl *sclient) signal() {
	select {
	case cl.sig <- struct{}{}:
	default:
	}
}

func (cl *sclient) gone() bool {
	select {
	case <-cl.rdone:
		return true
	default:
		return false
	}
}

func (cl *sclient) close(rst bool) {
	cl.once.Do(func() {
		if rst {
			_ = cl.fd.SetLinger(0)
		}
		_ = cl.fd.Close()
		close(cl.quit)
		if !cl.reader {
			close(cl.rdone)
		}
	})
}

func (cl *sclient) rxLen() int { cl.mu.Lock(); defer cl.mu.Unlock(); return len(cl.rx) }

func (cl *sclient) snapshot(from int) []srvRx {
	cl.mu.Lock()
	defer cl.mu.Unlock()
	if from > len(cl.rx) {
		from = len(cl.rx)
	}
	return append([]srvRx(nil), cl.rx[from:]...)
}

func (cl *sclient) readErr() error { cl.mu.Lock(); defer cl.mu.Unlock(); return cl.rerr }

// startReader: frames from the server are filed; pings are answered; an honest client answers the
// node's own requests with empty lists (it claims nothing beyond the genesis momentum).
func (cl *sclient) startReader() {
	cl.reader = true
	go func() {
		defer close(cl.rdone)
		for {
			msg, err := cl.rw.ReadMsg()
			if err != nil {
				cl.mu.Lock()
				cl.rerr = err
				cl.mu.Unlock()
				cl.signal()
				return
			}
			m := srvRx{code: msg.Code, size: msg.Size}
			if msg.Size > maxMsgSize {
				m.over = true
				_, _ = io.Copy(io.Discard, msg.Payload)
			} else {
				m.data, _ = io.ReadAll(msg.Payload)
			}
			cl.mu.Lock()
			cl.rx = append(cl.rx, m)
			cl.mu.Unlock()
			cl.signal()
			var a *srvTx
			switch {
			case m.code == bPing:
				t := txBytes(bPong, []byte{0xC0})
				a = &t
			case atomic.LoadInt32(&cl.honest) == 1 && (m.code == subOff+codeGetBlockHashes || m.code == subOff+codeGetBlockHashesFrom):
				t := txBytes(subOff+codeBlockHashes, []byte{0xC0})
				a = &t
			case atomic.LoadInt32(&cl.honest) == 1 && m.code == subOff+codeGetBlocks:
				t := txBytes(subOff+codeBlocks, []byte{0xC0})
				a = &t
			}
			if a != nil {
				select {
				case cl.auto <- *a:
				default:
				}
			}
		}
	}()
	go func() {
		for {
			select {
			case <-cl.quit:
				return
			case <-cl.rdone:
				return
			case a := <-cl.auto:
				_ = cl.send(a)
			}
		}
	}()
}

// startRawReader: before any frame layer exists the harness only counts what the server sends.
func (cl *sclient) startRawReader() {
	cl.reader = true
	go func() {
		defer close(cl.rdone)
		buf := make([]byte, 4096)
		for {
			n, err := cl.fd.Read(buf)
			cl.mu.Lock()
			cl.rawN += n
			if err != nil {
				cl.rerr = err
			}
			cl.mu.Unlock()
			cl.signal()
			if err != nil {
				return
			}
		}
	}()
}

func (cl *sclient) send(m srvTx) error {
	cl.wmu.Lock()
	defer cl.wmu.Unlock()
	atomic.StoreInt64(&cl.lastTx, time.Now().UnixNano())
	return cl.rw.WriteMsg(p2p.Msg{Code: m.code, Size: m.size, Payload: m.payload})
}

// ---- one case ------------------------------------------------------------------------------------------------

type caseCtx struct {
	c       *pbt.C
	env     *srvEnv
	seed    uint64
	nkey    uint64
	conns   []*sclient
	aborted bool
	t0      time.Time
	hist    []string
	passed  bool // some hostile input passed the first integrity gate
}

func (cc *caseCtx) note(format string, args ...interface{}) {
	cc.c.Note(format, args...)
	if len(cc.hist) < 60 {
		cc.hist = append(cc.hist, trim(fmt.Sprintf(format, args...), 240))
	}
	if srvDebug {
		fmt.Fprintf(os.Stderr, "[+%dms] %s\n", time.Since(cc.t0).Milliseconds(), fmt.Sprintf(format, args...))
	}
}

func (cc *caseCtx) story() string { return strings.Join(cc.hist, "\n  ") }

func (cc *caseCtx) newKey() *ecdsa.PrivateKey {
	cc.nkey++
	return srvKey("c15-client", cc.seed, cc.nkey)
}

func (cc *caseCtx) inconclusive(what string) {
	cc.aborted = true
	cc.env.dirty = what
	inconclusive(cc.c, what, cc.dumpServer())
}

func (cc *caseCtx) dumpServer() string {
	var b strings.Builder
	for _, d := range allDumps() {
		if srvGroup(d) != "" || strings.Contains(d.text, protoPkg) {
			b.WriteString(d.text)
			b.WriteString("\n\n")
		}
	}
	return trim(b.String(), 16000)
}

// livePeers: connections the harness believes the server runs as peers (residents included).
func (cc *caseCtx) livePeers(except *sclient) int {
	n := 0
	for _, r := range cc.env.res {
		if r != nil && r != except && !r.gone() {
			n++
		}
	}
	for _, cl := range cc.conns {
		if cl != except && cl.established && !cl.gone() {
			n++
		}
	}
	return n
}

func (cc *caseCtx) openCaseConns(except *sclient) int {
	n := 0
	for _, cl := range cc.conns {
		if cl != except && !cl.gone() {
			n++
		}
	}
	return n
}

func (cc *caseCtx) dial(name string, key *ecdsa.PrivateKey) *sclient {
	d := net.Dialer{Timeout: liveDeadline}
	conn, err := d.Dial("tcp", cc.env.addr)
	if err != nil {
		// the listener of a running server refuses nobody: decide from the goroutines
		cs := takeCensus()
		if cs.hist["listenLoop"] == 0 {
			cc.c.Failf("C15/server/listener-gone", "dial %s: %v and the server has no listenLoop goroutine any more (%s)\n  %s", cc.env.addr, err, cs, cc.story())
		}
		cc.inconclusive(fmt.Sprintf("dial failed: %v", err))
		return nil
	}
	cl := &sclient{name: name, key: key, fd: conn.(*net.TCPConn), sig: make(chan struct{}, 1), rdone: make(chan struct{}),
		auto: make(chan srvTx, 64), quit: make(chan struct{}), t0: time.Now()}
	if key != nil {
		cl.id = idOf(key)
	}
	_ = cl.fd.SetNoDelay(true)
	cl.tap = &tapConn{fd: cl.fd, wsig: make(chan struct{}, 1)}
	cc.conns = append(cc.conns, cl)
	return cl
}

// ---- structural diagnosis (what replaces wall-clock verdicts) ------------------------------------------------

// srvDiagnose returns a root-cause key and a description if the goroutines of the process prove that
// something will not happen any more; "" otherwise. A verdict is only used by callers after it was
// returned identically by two samples at least blockGap apart.
//
//	accept-loop-blocked   listenLoop is parked on its slot channel and no handshake (setupConn) is in
//	                      flight that could return a slot;
//	listener-gone         no listenLoop goroutine exists;
//	message-loop-blocked  the rule of stall_test.go applied to every protocol goroutine started by the server;
//	conn-not-closed       (only if closeOf != nil) the client has not seen its connection end, no handshake
//	                      is in flight and the server runs no more peers than the other live connections
//	                      account for: no goroutine holds the connection any more.
func (cc *caseCtx) srvDiagnose(closeOf *sclient) (key, detail string) {
	cs := takeCensus()
	if cs.hist["listenLoop"] == 0 {
		return "C15/server/listener-gone", "no listenLoop goroutine (" + cs.String() + ")"
	}
	for _, d := range cs.byGrp["listenLoop"] {
		if d.state == "chan receive" && cs.hist["setupConn"] == 0 {
			return "C15/server/accept-loop-blocked", "listenLoop is parked on its slot channel and no handshake is in flight that could return a slot:\n" + trim(d.text, 1500)
		}
	}
	for _, d := range cs.byGrp["proto"] {
		fn, ok := srvParkedBelowHandleMsg(d)
		if !ok {
			continue
		}
		exists, decided, _ := releaserExists(fn, d.id, cs.all)
		if decided && !exists {
			return "C15/server/message-loop-blocked/" + fn, fmt.Sprintf("a peer's handler is parked in %s [%s] below handleMsg and no goroutine can release it:\n%s", fn, d.state, trim(d.text, 2500))
		}
	}
	if closeOf != nil && !closeOf.gone() && cs.hist["setupConn"] == 0 && cs.hist["hs-writer"] == 0 &&
		cs.hist["runPeer"] <= cc.livePeers(closeOf)+cc.env.baseHist["runPeer"] {
		return "C15/server/conn-not-closed", fmt.Sprintf("connection %s has not been closed and no server goroutine holds it any more (%s; other live peers %d)", closeOf.name, cs, cc.livePeers(closeOf))
	}
	return "", ""
}

// srvParkedBelowHandleMsg: clauses 1 and 2 of the stall rule for handlers started by p2p (their pipe is protoRW).
func srvParkedBelowHandleMsg(d gdump) (string, bool) {
	switch d.state {
	case "chan send", "chan receive", "select", "select (no cases)":
	default:
		return "", false
	}
	hm := -1
	for i, f := range d.frames {
		if f.fn == handleMsgFn {
			hm = i
			break
		}
	}
	if hm <= 0 {
		return "", false
	}
	for i := 0; i < hm; i++ {
		fn := d.frames[i].fn
		if strings.HasPrefix(fn, "runtime.") {
			continue
		}
		if strings.Contains(fn, "p2p.(*protoRW).") {
			return "", false
		}
		return shortFn(fn), true
	}
	return "", false
}

type waitRes int

const (
	wOK waitRes = iota
	wClosed
	wTimeout
)

// wait blocks until pred holds for what cl has received, cl's connection ended, or the generous
// deadline passed. While it waits the goroutines are examined (first after blockFirst, then every
// blockGap); a structural verdict returned twice in a row fails the case.
func (cc *caseCtx) wait(cl *sclient, what string, expectClose bool, pred func(rx []srvRx, rawN int) bool) waitRes {
	check := func() bool {
		cl.mu.Lock()
		defer cl.mu.Unlock()
		return pred != nil && pred(cl.rx, cl.rawN)
	}
	deadline := time.NewTimer(liveDeadline)
	defer deadline.Stop()
	look := time.NewTimer(blockFirst)
	defer look.Stop()
	lastKey := ""
	for {
		if check() {
			return wOK
		}
		select {
		case <-cl.sig:
		case <-cl.rdone:
			if check() {
				return wOK
			}
			return wClosed
		case <-look.C:
			var target *sclient
			if expectClose {
				target = cl
			}
			key, detail := cc.srvDiagnose(target)
			if key != "" && key == lastKey {
				cc.env.dirty = key
				cc.c.Failf(key, "while waiting for %s: %s\nsession:\n  %s", what, detail, cc.story())
			}
			lastKey = key
			look.Reset(blockGap)
		case <-deadline.C:
			return wTimeout
		}
	}
}

func hasCode(code uint64, from int) func(rx []srvRx, rawN int) bool {
	return func(rx []srvRx, _ int) bool {
		for i := from; i < len(rx); i++ {
			if rx[i].code == code {
				return true
			}
		}
		return false
	}
}

// ---- handshakes -----------------------------------------------------------------------------------------------------

// encHandshake runs the initiator side over the tap. The wait for the server's answer is event
// driven: while it lasts the goroutines are examined (a server that will never answer is a verdict, a
// deadline that passes is inconclusive). After an inconclusive wait cc.aborted is set.
func (cc *caseCtx) encHandshake(cl *sclient) error {
	done := make(chan error, 1)
	go func() {
		rw, err := p2p.VerifInitiatorEncHandshake(cl.tap, cl.key, cc.env.id)
		if err == nil {
			cl.rw = rw
		}
		done <- err
	}()
	deadline := time.NewTimer(liveDeadline)
	defer deadline.Stop()
	look := time.NewTimer(blockFirst)
	defer look.Stop()
	unblock := func() {
		_ = cl.fd.SetDeadline(time.Now().Add(-time.Second))
		<-done
		_ = cl.fd.SetDeadline(time.Time{})
	}
	lastKey := ""
	for {
		select {
		case err := <-done:
			return err
		case <-look.C:
			key, detail := cc.srvDiagnose(nil)
			if key != "" && key == lastKey {
				unblock()
				cc.env.dirty = key
				cc.c.Failf(key, "while %s waits for the answer to its auth message: %s\nsession:\n  %s", cl.name, detail, cc.story())
			}
			lastKey = key
			look.Reset(blockGap)
		case <-deadline.C:
			unblock()
			cc.inconclusive(cl.name + ": no answer to a valid auth message")
			return fmt.Errorf("no answer within %v", liveDeadline)
		}
	}
}

// encOrFail: a valid auth message must be answered. false: the case must end.
func (cc *caseCtx) encOrFail(cl *sclient) bool {
	err := cc.encHandshake(cl)
	if cc.aborted {
		return false
	}
	if err != nil {
		cc.c.Failf("C15/server/valid-handshake-refused", "a valid auth message of %s was refused: %v\n  %s", cl.name, err, cc.story())
	}
	return true
}

func (cc *caseCtx) goodHS(cl *sclient) wProtoHS {
	return wProtoHS{Version: 4, Name: "c15-" + cl.name, Caps: []p2p.Cap{{Name: "eth", Version: protoVersion}}, ListenPort: 0, ID: cl.id}
}

// awaitEstablished: the server runs the connection as a peer once its sub-protocol speaks (the
// node's status message); it has refused it once the connection ended.
func (cc *caseCtx) awaitEstablished(cl *sclient, what string, expectClose bool) (established bool, ok bool) {
	// a complete handshake message was sent: the connection becomes a peer or is closed. (expectClose is
	// kept for the callers' documentation; the goroutine rule is safe in both cases: a connection that is
	// run as a peer has its runPeer goroutine.)
	_ = expectClose
	switch cc.wait(cl, what, true, hasCode(subOff+codeStatus, 0)) {
	case wOK:
		cl.established = true
		return true, true
	case wClosed:
		return false, true
	}
	cc.inconclusive("neither established nor closed: " + what)
	return false, false
}

func discReasonOf(rx []srvRx) string {
	for _, m := range rx {
		if m.code == bDisc {
			var r []uint64
			if rlp.DecodeBytes(m.data, &r) == nil && len(r) == 1 {
				if r[0] <= 12 {
					return p2p.DiscReason(r[0]).String()
				}
				return fmt.Sprintf("reason %d", r[0])
			}
			return "disc " + clip(m.data, 8)
		}
	}
	return ""
}

// connectHonestly: dial, both handshakes as an honest client. It returns nil if the case must end.
// refused reports a connection the server closed instead of running it as a peer.
func (cc *caseCtx) connectPeer(name string, key *ecdsa.PrivateKey, honest bool) (cl *sclient, refused string) {
	cl = cc.dial(name, key)
	if cl == nil {
		return nil, ""
	}
	if honest {
		atomic.StoreInt32(&cl.honest, 1)
	}
	cc.c.Checkpoint()
	if err := cc.encHandshake(cl); err != nil {
		cl.close(false)
		if cc.aborted {
			return nil, ""
		}
		return cl, fmt.Sprintf("encryption handshake: %v", err)
	}
	cl.startReader()
	if err := cl.send(txBytes(0, mustEnc(cc.goodHS(cl)))); err != nil {
		return cl, fmt.Sprintf("writing the protocol handshake: %v", err)
	}
	est, ok := cc.awaitEstablished(cl, name+" to be established", false)
	if !ok {
		return nil, ""
	}
	if !est {
		r := discReasonOf(cl.snapshot(0))
		if r == "" {
			r = fmt.Sprintf("closed (%v)", cl.readErr())
		}
		return cl, r
	}
	return cl, ""
}

func (cc *caseCtx) statusOf(td uint64, head types.Hash) wStatus {
	return wStatus{ProtocolVersion: protoVersion, NetworkId: uint32(cc.env.chainID), TD: td, CurrentBlock: head, GenesisBlock: cc.env.genesis}
}

// checkServerHello: what the server sent first is its own protocol handshake and its status, both true.
func (cc *caseCtx) checkServerHello(cl *sclient) {
	c := cc.c
	rx := cl.snapshot(0)
	var hs *wProtoHS
	var st *wStatus
	for _, m := range rx {
		if m.code == 0 && hs == nil {
			var v wProtoHS
			if err := rlp.DecodeBytes(m.data, &v); err != nil {
				c.Failf("C15/server/hello-malformed", "the server's protocol handshake does not decode: %v (%s)", err, clip(m.data, 40))
			}
			hs = &v
		}
		if m.code == subOff+codeStatus && st == nil {
			var v wStatus
			if err := rlp.DecodeBytes(m.data, &v); err != nil {
				c.Failf("C15/server/hello-malformed", "the node's status does not decode: %v (%s)", err, clip(m.data, 40))
			}
			st = &v
		}
	}
	if hs == nil || st == nil {
		c.Failf("C15/server/hello-malformed", "an established connection did not receive handshake and status (%d messages)", len(rx))
	}
	if hs.ID != cc.env.id || hs.Version != 4 || len(hs.Caps) != 1 || hs.Caps[0].Name != "eth" || hs.Caps[0].Version != protoVersion {
		c.Failf("C15/server/hello-malformed", "the server's handshake is {version %d, caps %v, id %x..}", hs.Version, hs.Caps, hs.ID[:4])
	}
	if st.GenesisBlock != cc.env.genesis || st.CurrentBlock != cc.env.frontier || st.TD != cc.env.height || uint64(st.NetworkId) != cc.env.chainID || st.ProtocolVersion != protoVersion {
		c.Failf("C15/server/hello-malformed", "the node's status is %+v, chain is at %d/%s", *st, cc.env.height, short(cc.env.frontier))
	}
}

// barrier: two single-hash requests for different heights. The node answers in order, so the pair
// [hash(P)] [hash(Q)] at the end of the replies proves that everything sent before was dealt with and
// the handler is back at its read. Returns wOK / wClosed / wTimeout.
func (cc *caseCtx) barrier(cl *sclient, what string) waitRes {
	h := cc.env.height
	p := 1 + (cc.seed+cc.nkey)%h
	q := 1 + (p+h/2)%h
	if q == p {
		q = 1 + p%h
	}
	hp, hq := mustEnc([]types.Hash{cc.env.sh.hashes[p]}), mustEnc([]types.Hash{cc.env.sh.hashes[q]})
	from := cl.rxLen()
	cc.c.Checkpoint()
	if err := cl.send(txBytes(subOff+codeGetBlockHashesFrom, mustEnc(wGetHashesFrom{p, 1}))); err == nil {
		_ = cl.send(txBytes(subOff+codeGetBlockHashesFrom, mustEnc(wGetHashesFrom{q, 1})))
	}
	return cc.wait(cl, "the barrier replies after "+what, false, func(rx []srvRx, _ int) bool {
		var last, prev []byte
		for i := from; i < len(rx); i++ {
			if rx[i].code == subOff+codeBlockHashes || rx[i].code == subOff+codeBlocks {
				prev, last = last, rx[i].data
				if rx[i].code == subOff+codeBlocks {
					last = nil
				}
			}
		}
		return last != nil && prev != nil && bytes.Equal(prev, hp) && bytes.Equal(last, hq)
	})
}

// sendStatus performs the sub-protocol handshake as an honest peer would and confirms it with a barrier.
func (cc *caseCtx) honestStatus(cl *sclient) (ok bool, why string) {
	cc.checkServerHello(cl)
	if err := cl.send(txBytes(subOff+codeStatus, mustEnc(cc.statusOf(1, cc.env.genesis)))); err != nil {
		return false, fmt.Sprintf("writing the status: %v", err)
	}
	switch cc.barrier(cl, "the status of "+cl.name) {
	case wOK:
		cl.statusOK = true
		return true, ""
	case wClosed:
		r := discReasonOf(cl.snapshot(0))
		return false, fmt.Sprintf("dropped after a valid status (%s; %v)", r, cl.readErr())
	}
	cc.inconclusive("status of " + cl.name + " neither accepted nor refused")
	return false, ""
}

// checkCaps applies the reply caps to everything cl received since the last call.
func (cc *caseCtx) checkCaps(cl *sclient) {
	c := cc.c
	rx := cl.snapshot(cl.capsSeen)
	cl.capsSeen += len(rx)
	for _, m := range rx {
		if m.over {
			c.Failf("C15/server/reply-cap/size", "the node sent code %d with %d bytes (> 10 MiB) to %s\n  %s", m.code, m.size, cl.name, cc.story())
		}
		switch m.code {
		case subOff + codeBlockHashes:
			n, err := rlp.CountValues(listContent(m.data))
			if err != nil {
				c.Failf("C15/server/reply-malformed", "undecodable BlockHashesMsg sent to %s: %v", cl.name, err)
			}
			c.R.Count("srv_replies_hashes", 1)
			if n > maxHashReply {
				c.Failf("C15/server/reply-cap/hashes", "BlockHashesMsg with %d hashes (> %d) sent to %s\n  %s", n, maxHashReply, cl.name, cc.story())
			}
		case subOff + codeBlocks:
			n, err := rlp.CountValues(listContent(m.data))
			if err != nil {
				c.Failf("C15/server/reply-malformed", "undecodable BlocksMsg sent to %s: %v", cl.name, err)
			}
			c.R.Count("srv_replies_blocks", 1)
			if n > maxBlockReply {
				c.Failf("C15/server/reply-cap/blocks", "BlocksMsg with %d momentums (> %d) sent to %s\n  %s", n, maxBlockReply, cl.name, cc.story())
			}
		}
	}
}

// ---- the honest side: requests compared with the chain -------------------------------------------------------------------

// askReply sends one request and returns the first message of code want received after it.
// who: "resident" / "probe" (keys differ: a resident was connected before the hostile peer).
func (cc *caseCtx) askReply(cl *sclient, code uint64, payload []byte, want uint64, descr string) ([]byte, bool) {
	c := cc.c
	from := cl.rxLen()
	c.Checkpoint()
	if err := cl.send(txBytes(subOff+code, payload)); err != nil && !cl.gone() {
		// the write failed on a connection nobody has closed yet: the close is under way
	}
	switch cc.wait(cl, fmt.Sprintf("the answer to %s's %s", cl.name, descr), false, hasCode(subOff+want, from)) {
	case wClosed:
		r := discReasonOf(cl.snapshot(0))
		idle := time.Duration(time.Now().UnixNano() - atomic.LoadInt64(&cl.lastTx))
		if idle > 25*time.Second {
			cc.inconclusive("an honest connection was idle for " + idle.String() + " (the server's read timeout is 30 s)")
			return nil, false
		}
		cc.env.dirty = "honest peer dropped"
		c.Failf("C15/server/honest-peer-dropped", "%s was dropped by the server (%s; %v) on %s\nsession:\n  %s", cl.name, r, cl.readErr(), descr, cc.story())
		return nil, false
	case wTimeout:
		cc.inconclusive(fmt.Sprintf("%s got no answer to %s", cl.name, descr))
		return nil, false
	}
	for _, m := range cl.snapshot(from) {
		if m.code == subOff+want {
			return m.data, true
		}
	}
	return nil, false
}

// serve: the node answers cl's requests correctly (oracle 2 / 3). Draws the requests.
func (cc *caseCtx) serve(cl *sclient, label string) bool {
	c := cc.c
	sh := cc.env.sh
	h0 := cc.env.height
	from := c.Uint64(label+".from", 1, h0)
	amt := uint64([]int{1, 2, 16, 128, 512, 513, 4000}[c.Pick(label+".amt", 7)])
	descr := fmt.Sprintf("GetBlockHashesFromNumber{%d,%d}", from, amt)
	reply, ok := cc.askReply(cl, codeGetBlockHashesFrom, mustEnc(wGetHashesFrom{from, amt}), codeBlockHashes, descr)
	if !ok {
		return false
	}
	var got []types.Hash
	if err := rlp.DecodeBytes(reply, &got); err != nil {
		c.Failf("C15/server/honest-wrong-answer", "reply to %s of %s does not decode: %v", descr, cl.name, err)
	}
	want := amt
	if want > maxHashReply {
		want = maxHashReply
	}
	if from+want-1 > h0 {
		want = h0 - from + 1
	}
	if uint64(len(got)) != want {
		c.Failf("C15/server/honest-wrong-answer", "%s on a chain of height %d answered with %d hashes (expected %d) for %s\n  %s", descr, h0, len(got), want, cl.name, cc.story())
	}
	asc, desc := true, true
	for i, g := range got {
		if g != sh.hashes[from+uint64(i)] {
			asc = false
		}
		if g != sh.hashes[from+uint64(len(got)-1-i)] {
			desc = false
		}
	}
	if !asc && !desc {
		c.Failf("C15/server/honest-wrong-answer", "%s: the %d hashes sent to %s are not those of heights %d..%d", descr, len(got), cl.name, from, from+uint64(len(got))-1)
	}
	// momentums by hash
	n := []int{1, 2, 5, 128, 129, 300}[c.Weighted(label+".nblocks", 4, 3, 2, 1, 1, 1)]
	start := c.Uint64(label+".bstart", 1, h0)
	var hs []types.Hash
	var heights []uint64
	for i := 0; i < n; i++ {
		h := 1 + (start-1+uint64(i)*7)%h0
		heights = append(heights, h)
		hs = append(hs, sh.hashes[h])
	}
	descr = fmt.Sprintf("GetBlocks[%d hashes from height %d, stride 7]", n, start)
	reply, ok = cc.askReply(cl, codeGetBlocks, encHashes(hs), codeBlocks, descr)
	if !ok {
		return false
	}
	var blocks []*nom.DetailedMomentum
	if err := rlp.DecodeBytes(reply, &blocks); err != nil {
		c.Failf("C15/server/honest-wrong-answer", "reply to %s of %s does not decode: %v", descr, cl.name, err)
	}
	wantN := n
	if wantN > maxBlockReply {
		wantN = maxBlockReply
	}
	if len(blocks) != wantN {
		c.Failf("C15/server/honest-wrong-answer", "%s answered with %d momentums (expected %d) for %s\n  %s", descr, len(blocks), wantN, cl.name, cc.story())
	}
	for i, d := range blocks {
		if d == nil || d.Momentum == nil {
			c.Failf("C15/server/honest-wrong-answer", "%s: element %d is empty", descr, i)
		}
		m := d.Momentum
		if m.Hash != hs[i] || m.Height != heights[i] {
			c.Failf("C15/server/honest-wrong-answer", "%s: element %d is momentum %d/%s", descr, i, m.Height, short(m.Hash))
		}
		if m.Height == 1 {
			continue
		}
		if m.ComputeHash() != m.Hash || len(d.AccountBlocks) != len(m.Content) {
			c.Failf("C15/server/honest-wrong-answer", "%s: element %d is not the momentum of that hash (%d blocks, %d content entries)", descr, i, len(d.AccountBlocks), len(m.Content))
		}
		for j, b := range d.AccountBlocks {
			if b.Hash != m.Content[j].Hash || b.ComputeHash() != b.Hash {
				c.Failf("C15/server/honest-wrong-answer", "%s: element %d block %d does not match the momentum content", descr, i, j)
			}
		}
	}
	cc.checkCaps(cl)
	cc.note("%s served: %d hashes from %d (asked %d), %d momentums (asked %d)", cl.name, len(got), from, amt, len(blocks), n)
	return true
}

// ensureResidents (re)connects the honest peers that live across cases. Only called while no hostile
// connection exists.
func (cc *caseCtx) ensureResidents() bool {
	for i := range cc.env.res {
		if r := cc.env.res[i]; r != nil && !r.gone() {
			continue
		}
		if cc.env.res[i] != nil {
			cc.c.R.Count("srv_resident_reconnected", 1)
			cc.env.res[i].close(false)
			if !cc.settle(cc.livePeers(nil), "a resident's old connection to go away") {
				return false
			}
		}
		key := srvKey("c15-resident", cc.env.gen, uint64(i))
		cl, refused := cc.connectPeer(fmt.Sprintf("resident-%d", i), key, true)
		if cl == nil {
			return false
		}
		// residents are not case connections
		cc.conns = cc.conns[:len(cc.conns)-1]
		if refused != "" {
			cl.close(false)
			cc.env.dirty = "resident refused"
			cc.c.Failf("C15/server/honest-refused", "an honest peer cannot connect to the idle server: %s", refused)
		}
		cc.env.res[i] = cl
		if ok, why := cc.honestStatus(cl); !ok {
			if cc.aborted {
				return false
			}
			cc.env.dirty = "resident refused"
			cc.c.Failf("C15/server/honest-refused", "an honest peer cannot complete the status exchange with the idle server: %s", why)
		}
	}
	return true
}

// residentsServed: oracle 3.
func (cc *caseCtx) residentsServed(label string) bool {
	i := cc.c.Pick(label+".which", len(cc.env.res))
	r := cc.env.res[i]
	if r.gone() {
		idle := time.Duration(time.Now().UnixNano() - atomic.LoadInt64(&r.lastTx))
		if idle > 25*time.Second {
			cc.inconclusive("a resident was idle for " + idle.String())
			return false
		}
		cc.env.dirty = "honest peer dropped"
		cc.c.Failf("C15/server/honest-peer-dropped", "%s, connected before this case, was dropped (%s; %v)\nsession:\n  %s", r.name, discReasonOf(r.snapshot(0)), r.readErr(), cc.story())
	}
	if !cc.serve(r, label) {
		return false
	}
	for j, o := range cc.env.res {
		if j != i && o.gone() {
			cc.env.dirty = "honest peer dropped"
			cc.c.Failf("C15/server/honest-peer-dropped", "%s, connected before this case, was dropped (%s; %v)\nsession:\n  %s", o.name, discReasonOf(o.snapshot(0)), o.readErr(), cc.story())
		}
	}
	return true
}

// probe: oracle 2. A new honest connection; attempts that the server's own 5 s handshake deadline
// can explain (the harness was starved) are repeated.
func (cc *caseCtx) probe(label string) bool {
	c := cc.c
	for attempt := 0; ; attempt++ {
		t0 := time.Now()
		cl, refused := cc.connectPeer("probe", cc.newKey(), true)
		if cl == nil {
			return false
		}
		why := refused
		if why == "" {
			var ok bool
			if ok, why = cc.honestStatus(cl); ok {
				served := cc.serve(cl, label)
				cl.close(c.Bool(label + ".rst"))
				return served
			}
			if cc.aborted {
				return false
			}
		}
		cl.close(false)
		if time.Since(t0) > 4*time.Second && attempt < 2 {
			c.R.Count("srv_probe_retry_slow", 1)
			continue
		}
		cc.env.dirty = "probe refused"
		c.Failf("C15/server/honest-refused", "a new honest connection is not served (%d peers connected, limit %d): %s\nsession:\n  %s", cc.livePeers(cl), srvMaxPeers, why, cc.story())
		return false
	}
}

// settle: the barrier of oracle 6. It waits until the server is in exactly the state that k connected
// peers and no connection in flight amount to. If that does not happen the goroutines decide.
func (cc *caseCtx) settle(k int, what string) bool {
	c := cc.c
	e := cc.env
	wantSock := e.baseSock + 1 + 2*k
	want := e.expectHist(k)
	deadline := time.Now().Add(liveDeadline)
	sleep := 100 * time.Microsecond
	var lastKey string
	var lastAt time.Time
	t0 := time.Now()
	for {
		pc := e.srv.PeerCount()
		cs := takeCensus()
		socks := countSockets()
		exc, mis := histExcess(cs.hist, want), histMissing(cs.hist, want)
		if pc == k && len(exc) == 0 && len(mis) == 0 && socks == wantSock {
			c.R.Count("srv_ms_settle", int(time.Since(t0).Milliseconds()))
			return true
		}
		if time.Since(t0) > blockFirst {
			// structural verdicts: states nobody can leave
			key, detail := "", ""
			switch {
			case pc > k && cs.hist["runPeer"] <= want["runPeer"] && cs.hist["setupConn"] == 0:
				key = "C15/server/peer-not-removed"
				detail = fmt.Sprintf("PeerCount() = %d with %d connections left, and only %d runPeer goroutines exist that could still report a peer as gone", pc, k, cs.hist["runPeer"])
			case pc < k || len(mis) > 0:
				key = "C15/server/honest-peer-dropped"
				detail = fmt.Sprintf("PeerCount() = %d, %d honest connections are open; missing goroutines: %v", pc, k, mis)
			case len(exc) == 0 && socks > wantSock:
				key = "C15/server/conn-leak"
				detail = fmt.Sprintf("%d sockets are open, %d expected (listener + both ends of %d connections), and no server goroutine is left that could close one (%s)", socks, wantSock, k, cs)
			case len(exc) > 0:
				// goroutines beyond the expected ones: leaked only if every one of them is parked in a wait
				// without a timer (channel, select, lock) — IO waits end with the socket deadlines
				parked := true
				var first string
				for g, ds := range cs.byGrp {
					if len(ds) <= want[g] {
						continue
					}
					for _, d := range ds {
						switch d.state {
						case "chan send", "chan receive", "select", "select (no cases)", "semacquire", "sync.Mutex.Lock", "sync.Cond.Wait", "sync.WaitGroup.Wait":
							if first == "" {
								first = g + "\n" + trim(d.text, 1800)
							}
						default:
							parked = false
						}
					}
				}
				if parked && time.Since(t0) > liveDeadline/2 {
					key = "C15/server/goroutine-leak"
					detail = fmt.Sprintf("goroutines beyond {run, listenLoop, 4 per peer} for %d peers: %v; all parked without a timer, e.g. %s", k, exc, first)
				}
			}
			if key != "" {
				if key == lastKey && time.Since(lastAt) >= blockGap {
					e.dirty = key
					c.Failf(key, "after %s: %s\nsession:\n  %s", what, detail, cc.story())
				}
				if key != lastKey {
					lastKey, lastAt = key, time.Now()
				}
			} else {
				lastKey = ""
			}
		}
		if time.Now().After(deadline) {
			cc.inconclusive(fmt.Sprintf("the server did not settle after %s: PeerCount %d (want %d), sockets %d (want %d), goroutines %s, excess %v", what, pc, k, socks, wantSock, cs, exc))
			return false
		}
		time.Sleep(sleep)
		if sleep < 10*time.Millisecond {
			sleep *= 2
		}
	}
}

func (cc *caseCtx) closeCaseConns() {
	for _, cl := range cc.conns {
		cl.close(false)
	}
}

// residentsAlive counts the residents (for settle).
func (cc *caseCtx) residentsAlive() int {
	n := 0
	for _, r := range cc.env.res {
		if r != nil && !r.gone() {
			n++
		}
	}
	return n
}

// ---- the property ------------------------------------------------------------------------------------------------------------

func TestC15Server(t *testing.T) {
	t.Cleanup(stopSrvEnv)
	pbt.Check(t, "C15", serverProp)
}

func srvEnvFor(c *pbt.C) *srvEnv {
	srvMu.Lock()
	defer srvMu.Unlock()
	if srvCur != nil && srvCur.dirty != "" {
		// the previous case left the server in a state that was reported or could not be judged
		c.R.Count("srv_rebuilt", 1)
		srvCur.stop()
		srvCur = nil
	}
	if srvCur == nil {
		srvCur = startSrvEnv()
	}
	return srvCur
}

var srvScenarios = []string{"subproto", "limits", "dup-id", "base", "frames", "proto-hs", "busy", "half-open", "pre-enc"}

func serverProp(c *pbt.C) {
	tcase := time.Now()
	defer func() { c.R.Count("srv_ms_case", int(time.Since(tcase).Milliseconds())) }()
	env := srvEnvFor(c)
	cc := &caseCtx{c: c, env: env, t0: time.Now()}
	cc.seed = c.Uint64("seed", 0, 1<<32)
	c.Cleanup(cc.closeCaseConns)
	// a clean start: residents connected, nothing else
	if !cc.ensureResidents() {
		return
	}
	if !cc.settle(cc.residentsAlive(), "the previous case") {
		return
	}
	sc := srvScenarios[c.Weighted("scenario", 4, 3, 3, 4, 3, 4, 2, 2, 3)]
	c.Class("stage-" + sc)
	cc.note("scenario %s (server %s, %d residents, MaxPeers %d, %d pending slots)", sc, env.addr, cc.residentsAlive(), srvMaxPeers, srvPending)
	switch sc {
	case "pre-enc":
		cc.scPreEnc()
	case "proto-hs":
		cc.scProtoHS()
	case "base":
		cc.scBase()
	case "frames":
		cc.scFrames()
	case "subproto":
		cc.scSubproto()
	case "busy":
		cc.scBusy()
	case "limits":
		cc.scLimits()
	case "dup-id":
		cc.scDupID()
	case "half-open":
		cc.scHalfOpen()
	}
	if cc.aborted {
		return
	}
	// --- oracle 3, while the hostile connections (those that are left) are still open
	if !cc.residentsServed("res") {
		return
	}
	// --- oracle 2 with the hostile connections still open, if the limits leave room for one more peer
	if cc.livePeers(nil) < srvMaxPeers && cc.openCaseConns(nil) < srvPending-1 && c.Bool("probeEarly") {
		c.Class("probe-while-hostile-open")
		if !cc.probe("probe0") {
			return
		}
	}
	for _, cl := range cc.conns {
		cc.checkCaps(cl)
	}
	// --- the hostile connections go away
	rst := c.Bool("closeRST")
	for _, cl := range cc.conns {
		cl.close(rst)
	}
	if !cc.settle(cc.residentsAlive(), "all connections of the case were closed") {
		return
	}
	if cc.residentsAlive() != srvResidents {
		env.dirty = "honest peer dropped"
		c.Failf("C15/server/honest-peer-dropped", "a resident was dropped during the case\nsession:\n  %s", cc.story())
	}
	// --- oracle 2 after the case
	if !cc.probe("probe1") {
		return
	}
	if !cc.settle(cc.residentsAlive(), "the probe was closed") {
		return
	}
	// the server's peer set is exactly the honest peers
	want := map[discover.NodeID]bool{}
	for _, r := range env.res {
		want[r.id] = true
	}
	peers := env.srv.Peers()
	for _, p := range peers {
		if !want[p.ID()] {
			env.dirty = "ghost peer"
			c.Failf("C15/server/peer-not-removed", "after the case the server lists peer %x.. (%s, %v), which is none of the honest connections\nsession:\n  %s", shortID(p.ID()), p.Name(), p.RemoteAddr(), cc.story())
		}
		delete(want, p.ID())
	}
	if len(want) > 0 || len(peers) != srvResidents {
		env.dirty = "honest peer dropped"
		c.Failf("C15/server/honest-peer-dropped", "after the case the server lists %d peers; honest peers missing from the list: %d\nsession:\n  %s", len(peers), len(want), cc.story())
	}
	if f := env.sh.a.Frontier().Hash; f != env.frontier {
		c.Failf("C15/server/state-changed", "the node's frontier moved from %s to %s\nsession:\n  %s", short(env.frontier), short(f), cc.story())
	}
	if cc.passed {
		c.NonTrivial()
	}
}

// expectRefusal: cl sent something complete and invalid. It must never be served as a peer and its
// connection must end. what describes the input.
func (cc *caseCtx) expectClosed(cl *sclient, key, what string) bool {
	switch cc.wait(cl, "the server to close the connection after "+what, true, nil) {
	case wClosed:
		cc.note("  -> closed by the server (%s; %v)", discReasonOf(cl.snapshot(0)), cl.readErr())
		return true
	case wTimeout:
		cc.inconclusive("connection not closed after " + what)
	}
	return false
}

// ---- scenario: before / inside the encryption handshake ---------------------------------------------------------------------------

func (cc *caseCtx) scPreEnc() {
	c := cc.c
	kind := c.OneOf("pre.kind", "connect-close", "garbage-short", "garbage-full", "auth-truncated", "auth-bitflip", "auth-trickle",
		"auth-then-close", "auth-then-garbage", "auth-plain-garbage", "auth-wrong-recipient", "auth-twice")
	c.Class("pre-enc/" + kind)
	key := cc.newKey()
	cl := cc.dial("hostile", key)
	if cl == nil {
		return
	}
	auth := makeAuth(key, cc.env.id)
	if len(auth) != hsEncAuthLen {
		c.Failf("C15/harness", "auth message has %d bytes", len(auth))
	}
	c.Checkpoint()
	switch kind {
	case "connect-close":
		cc.note("hostile connects and says nothing")
	case "garbage-short":
		b := c.Bytes("pre.bytes", 1, hsEncAuthLen-1)
		_, _ = cl.fd.Write(b)
		cc.note("hostile sends %d random bytes (less than an auth message)", len(b))
	case "garbage-full":
		b := pseudo(cc.seed, 11, hsEncAuthLen+c.Int("pre.extra", 0, 300))
		if c.Bool("pre.pointPrefix") {
			b[0] = 4
		}
		cl.startRawReader()
		_, _ = cl.fd.Write(b)
		cc.note("hostile sends %d random bytes (a complete auth message is %d)", len(b), hsEncAuthLen)
		if !cc.expectClosed(cl, "pre-enc", "a garbage auth message") {
			return
		}
		if cl.rawN > 0 {
			c.Failf("C15/server/auth-answered-corrupt", "%d bytes were answered to a garbage auth message", cl.rawN)
		}
	case "auth-truncated":
		cut := c.Int("pre.cut", 1, hsEncAuthLen-1)
		step := c.Int("pre.step", 1, 64)
		for o := 0; o < cut; o += step {
			e := o + step
			if e > cut {
				e = cut
			}
			_, _ = cl.fd.Write(auth[o:e])
		}
		cc.note("hostile trickles the first %d bytes of a valid auth message in pieces of %d", cut, step)
	case "auth-bitflip":
		p, bit := c.Int("pre.pos", 0, len(auth)-1), c.Int("pre.bit", 0, 7)
		auth[p] ^= 1 << uint(bit)
		cl.startRawReader()
		_, _ = cl.fd.Write(auth)
		cc.note("hostile sends a valid auth message with bit %d of byte %d flipped", bit, p)
		if !cc.expectClosed(cl, "pre-enc", "a damaged auth message") {
			return
		}
		if cl.rawN > 0 {
			c.Failf("C15/server/auth-answered-corrupt", "%d bytes were answered to a damaged auth message", cl.rawN)
		}
	case "auth-wrong-recipient":
		other := makeAuth(key, idOf(cc.newKey()))
		cl.startRawReader()
		_, _ = cl.fd.Write(other)
		cc.note("hostile sends an auth message encrypted to another node")
		if !cc.expectClosed(cl, "pre-enc", "an auth message for another node") {
			return
		}
		if cl.rawN > 0 {
			c.Failf("C15/server/auth-answered-corrupt", "%d bytes were answered to an auth message for another node", cl.rawN)
		}
	case "auth-plain-garbage":
		// passes the ECIES integrity check, the content is wrong
		pk := c.OneOf("pre.plain", "zero", "random", "pub-off-curve", "sig-garbage")
		plain := authPlain(key, cc.env.id, cc.seed)
		switch pk {
		case "zero":
			plain = make([]byte, hsAuthLen)
		case "random":
			plain = pseudo(cc.seed, 12, hsAuthLen)
		case "pub-off-curve":
			copy(plain[hsSigLen+hsShaLen:], pseudo(cc.seed, 13, hsPubLen))
		case "sig-garbage":
			copy(plain[:hsSigLen], pseudo(cc.seed, 14, hsSigLen))
			plain[64] = byte(c.Int("pre.v", 0, 255))
		}
		srvPub, _ := cc.env.id.Pubkey()
		ct, err := ecies.Encrypt(&detRand{seed: cc.seed}, ecies.ImportECDSAPublic(srvPub), plain, nil, nil)
		if err != nil {
			panic(err)
		}
		cl.startRawReader()
		_, _ = cl.fd.Write(ct)
		cc.passed = true
		c.Class("pre-enc/plain-" + pk)
		cc.note("hostile sends an auth message whose (correctly encrypted) content is %s", pk)
		if pk != "sig-garbage" { // a garbage signature can recover to some key: the listener cannot tell
			if !cc.expectClosed(cl, "pre-enc", "an auth message with "+pk+" content") {
				return
			}
			if cl.rawN > 0 {
				c.Failf("C15/server/auth-answered-corrupt", "%d bytes were answered to an auth message with %s content", cl.rawN, pk)
			}
		}
	case "auth-trickle":
		cl.tap.chunk = c.Int("pre.chunk", 1, 40)
		if !cc.encOrFail(cl) {
			return
		}
		cl.tap.chunk = 0
		cc.passed = true
		atomic.StoreInt32(&cl.honest, 1)
		cl.startReader()
		_ = cl.send(txBytes(0, mustEnc(cc.goodHS(cl))))
		est, ok := cc.awaitEstablished(cl, "the trickling client to be established", false)
		if !ok {
			return
		}
		if !est {
			c.Failf("C15/server/valid-handshake-refused", "a client that wrote its auth message in small pieces was refused: %s %v", discReasonOf(cl.snapshot(0)), cl.readErr())
		}
		if ok, why := cc.honestStatus(cl); !ok {
			if cc.aborted {
				return
			}
			c.Failf("C15/server/valid-handshake-refused", "status exchange of the trickling client failed: %s", why)
		}
		cc.note("hostile writes a valid auth message in small pieces and goes on honestly: served")
	case "auth-then-close":
		if !cc.encOrFail(cl) {
			return
		}
		cc.passed = true
		cc.note("hostile completes the encryption handshake and goes away")
	case "auth-then-garbage":
		if !cc.encOrFail(cl) {
			return
		}
		cc.passed = true
		b := pseudo(cc.seed, 15, c.Int("pre.glen", 32, 200))
		cl.startReader()
		_, _ = cl.fd.Write(b)
		cc.note("hostile completes the encryption handshake and sends %d random bytes instead of a frame", len(b))
		if !cc.expectClosed(cl, "pre-enc", "random bytes instead of the first frame") {
			return
		}
		if cl.established || hasCode(subOff+codeStatus, 0)(cl.snapshot(0), 0) {
			c.Failf("C15/server/handshake-accepted/garbage-frame", "the server runs a peer whose first frame was garbage")
		}
	case "auth-twice":
		cl.startRawReader()
		_, _ = cl.fd.Write(append(append([]byte{}, auth...), auth...))
		cc.passed = true
		cc.note("hostile sends a valid auth message twice (the second one arrives where the first frame is expected)")
		if !cc.expectClosed(cl, "pre-enc", "a second auth message in place of the first frame") {
			return
		}
	}
}

// authPlain / makeAuth: the initiator's message built from its layout (as in handshake_test.go):
// sig || sha3(eph-pub) || pub || nonce || flag, ECIES-encrypted to the recipient.
func authPlain(key *ecdsa.PrivateKey, remote discover.NodeID, seed uint64) []byte {
	rpub, err := remote.Pubkey()
	if err != nil {
		panic(err)
	}
	eph := srvKey("c15-eph", seed, 1)
	nonce := pseudo(seed, 77, hsShaLen)
	shared, err := ecies.ImportECDSA(key).GenerateShared(ecies.ImportECDSAPublic(rpub), 16, 16)
	if err != nil {
		panic(err)
	}
	signed := make([]byte, 32)
	for i := range signed {
		signed[i] = shared[i] ^ nonce[i]
	}
	sig, err := crypto.Sign(signed, eph)
	if err != nil {
		panic(err)
	}
	plain := make([]byte, 0, hsAuthLen)
	plain = append(plain, sig...)
	plain = append(plain, crypto.Keccak256(crypto.FromECDSAPub(&eph.PublicKey)[1:])...)
	plain = append(plain, crypto.FromECDSAPub(&key.PublicKey)[1:]...)
	plain = append(plain, nonce...)
	plain = append(plain, 0)
	return plain
}

func makeAuth(key *ecdsa.PrivateKey, remote discover.NodeID) []byte {
	rpub, _ := remote.Pubkey()
	seed := binary.BigEndian.Uint64(remote[:8]) ^ binary.BigEndian.Uint64(crypto.FromECDSAPub(&key.PublicKey)[1:9])
	ct, err := ecies.Encrypt(&detRand{seed: seed}, ecies.ImportECDSAPublic(rpub), authPlain(key, remote, seed), nil, nil)
	if err != nil {
		panic(err)
	}
	return ct
}

// ---- scenario: the protocol handshake ---------------------------------------------------------------------------------------------------

// hostileAfterEnc: dial + valid encryption handshake + reader. nil: the case must end.
func (cc *caseCtx) hostileAfterEnc(name string, key *ecdsa.PrivateKey) *sclient {
	cl := cc.dial(name, key)
	if cl == nil {
		return nil
	}
	cc.c.Checkpoint()
	if !cc.encOrFail(cl) {
		return nil
	}
	cc.passed = true
	cl.startReader()
	return cl
}

var protoHSKinds = []string{"wrong-id", "zero-id", "version", "oversized-name", "non-handshake-first", "disc-valid", "disc-hostile", "garbage-rlp",
	"truncated-rlp", "valid", "valid-extra-caps", "oversized-1MiB", "caps-0", "caps-1000", "caps-many-small", "caps-huge-name", "caps-dup-eth",
	"caps-mismatch", "second-handshake", "extra-field", "listenport-huge", "frame-incomplete"}

// scProtoHS: several connections one after the other, each with its own variant of the protocol handshake.
func (cc *caseCtx) scProtoHS() {
	c := cc.c
	n := c.Int("hs.attempts", 1, 5)
	for i := 0; i < n && !cc.aborted; i++ {
		l := fmt.Sprintf("hs%d", i)
		kind := protoHSKinds[c.Pick(l+".kind", len(protoHSKinds))]
		c.Class("proto-hs/" + kind)
		cl := cc.hostileAfterEnc(fmt.Sprintf("hostile-%d", i), cc.newKey())
		if cl == nil {
			return
		}
		cc.protoHSOne(cl, l, kind)
		if cc.aborted {
			return
		}
		if i < n-1 { // the last one stays open for the common part of the case
			cl.close(c.Bool(l + ".rst"))
			if !cc.settle(cc.residentsAlive(), "a handshake attempt was closed") {
				return
			}
		}
	}
}

func (cc *caseCtx) protoHSOne(cl *sclient, l, kind string) {
	c := cc.c
	g := cc.goodHS(cl)
	code := uint64(0)
	payload := mustEnc(g)
	size := -1
	expect := "any" // accept / reject / any / incomplete
	switch kind {
	case "valid":
		expect = "accept"
	case "valid-extra-caps":
		g.Caps = []p2p.Cap{{Name: "aaa", Version: 1}, {Name: "eth", Version: 60}, {Name: "eth", Version: protoVersion}, {Name: "eth", Version: 62}, {Name: "zzz", Version: 9}}
		if c.Bool(l + ".unsorted") {
			g.Caps[0], g.Caps[4] = g.Caps[4], g.Caps[0]
			g.Caps[1], g.Caps[2] = g.Caps[2], g.Caps[1]
		}
		payload, expect = mustEnc(g), "accept"
	case "oversized-name":
		g.Name = strings.Repeat("x", 2049+c.Int(l+".over", 0, 3000))
		payload, expect = mustEnc(g), "reject"
	case "oversized-1MiB":
		g.Name = strings.Repeat("y", 1<<20)
		payload, expect = mustEnc(g), "reject"
	case "wrong-id":
		g.ID = idOf(cc.newKey())
		if c.Bool(l + ".residentID") {
			g.ID = cc.env.res[0].id
		}
		payload, expect = mustEnc(g), "reject"
	case "zero-id":
		g.ID = discover.NodeID{}
		payload, expect = mustEnc(g), "reject"
	case "version":
		g.Version = []uint64{0, 1, 3, 5, 255, 1 << 32, ^uint64(0)}[c.Pick(l+".version", 7)]
		payload, expect = mustEnc(g), "reject"
	case "caps-0":
		g.Caps = nil
		payload = mustEnc(g)
	case "caps-1000":
		for i := 0; i < 1000; i++ {
			g.Caps = append(g.Caps, p2p.Cap{Name: "x", Version: uint(i)})
		}
		payload, expect = mustEnc(g), "reject" // > 2 KiB
	case "caps-many-small":
		g.Caps = nil
		for i := 0; i < 300; i++ {
			g.Caps = append(g.Caps, p2p.Cap{Name: string(rune('a' + i%26)), Version: uint(i % 100)})
		}
		g.Caps = append(g.Caps, p2p.Cap{Name: "eth", Version: protoVersion})
		payload = mustEnc(g)
	case "caps-huge-name":
		n := []int{1000, 1900, 5000}[c.Pick(l+".capName", 3)]
		g.Caps = append([]p2p.Cap{{Name: strings.Repeat("e", n), Version: 1}}, g.Caps...)
		payload = mustEnc(g)
		if len(payload) > 2048 {
			expect = "reject"
		}
	case "caps-dup-eth":
		g.Caps = nil
		for i := 0; i < 100; i++ {
			g.Caps = append(g.Caps, p2p.Cap{Name: "eth", Version: protoVersion})
		}
		payload = mustEnc(g)
	case "caps-mismatch":
		g.Caps = []p2p.Cap{{Name: "eth", Version: 60}, {Name: "eth", Version: 62}, {Name: "les", Version: protoVersion}}
		payload = mustEnc(g)
	case "second-handshake":
		expect = "accept"
	case "non-handshake-first":
		code = []uint64{2, 3, 4, 15, 16, 17, 24, 25, 255, 1 << 32, ^uint64(0)}[c.Pick(l+".code", 11)]
		expect = "reject"
	case "disc-valid":
		code = bDisc
		r := []uint64{0, 1, 3, 4, 8, 11, 12, 13, 14, 255, 1 << 31, 1 << 63, ^uint64(0)}[c.Pick(l+".reason", 13)]
		payload, expect = mustEnc([]uint64{r}), "reject"
		cc.note("(disconnect reason %d)", r)
	case "disc-hostile":
		code = bDisc
		variants := [][]byte{{}, {0xC0}, {0x83, 'a', 'b', 'c'}, {0xC1, 0xC0}, {0xC2, 0x01, 0x02}, {0xC9, 0x89, 1, 2, 3, 4, 5, 6, 7, 8, 9}, {0xF8}, {0xC1, 0x80},
			{0x0D}, {0xC1, 0x81, 0x0D}, append([]byte{0xB9, 0x0B, 0xB8}, make([]byte, 3000)...)}
		v := c.Pick(l+".discPayload", len(variants)+1)
		if v == len(variants) {
			payload = c.Bytes(l+".discBytes", 0, 64)
		} else {
			payload = variants[v]
		}
		expect = "reject"
	case "garbage-rlp":
		payload, expect = c.Bytes(l+".bytes", 0, 200), "reject"
		var probe wProtoHS
		if rlp.DecodeBytes(payload, &probe) == nil && probe.Version == 4 {
			expect = "any"
		}
	case "truncated-rlp":
		payload, expect = payload[:c.Int(l+".cut", 0, len(payload)-1)], "reject"
	case "extra-field":
		var raw []rlp.RawValue
		_ = rlp.DecodeBytes(payload, &raw)
		raw = append(raw, rlp.RawValue{0x05})
		payload = mustEnc(raw)
	case "listenport-huge":
		g.ListenPort = ^uint64(0)
		payload = mustEnc(g)
	case "frame-incomplete":
		size = len(payload) + c.Int(l+".missing", 1, 5000)
		expect = "incomplete"
	}
	if size < 0 {
		size = len(payload)
	}
	c.Checkpoint()
	err := cl.send(srvTx{code: code, size: uint32(size), payload: bytes.NewReader(payload)})
	cc.note("hostile %x.. completes the encryption handshake, then sends code %d with %d bytes (%s): %s [write: %v]", cl.id[:3], code, len(payload), kind, clip(payload, 24), err)
	if expect == "incomplete" {
		c.Class("proto-hs-result/incomplete")
		return // the server waits for the rest of the frame; the connection is closed by the client later
	}
	est, ok := cc.awaitEstablished(cl, "the outcome of the protocol handshake ("+kind+")", expect == "reject")
	if !ok {
		return
	}
	if est {
		c.Class("proto-hs-result/established")
		cc.note("  -> established as a peer")
	} else {
		c.Class("proto-hs-result/refused")
		cc.note("  -> refused (%s; %v)", discReasonOf(cl.snapshot(0)), cl.readErr())
	}
	if expect == "reject" && est {
		c.Failf("C15/server/handshake-accepted/"+kind, "the server runs a connection as a peer whose protocol handshake was %s: code %d, %d bytes %s\n  %s", kind, code, len(payload), clip(payload, 48), cc.story())
	}
	if expect == "accept" && !est {
		c.Failf("C15/server/valid-handshake-refused", "a valid protocol handshake (%s) was refused: %s %v\n  %s", kind, discReasonOf(cl.snapshot(0)), cl.readErr(), cc.story())
	}
	if !est {
		return
	}
	if pc := cc.env.srv.PeerCount(); pc > srvMaxPeers {
		c.Failf("C15/server/max-peers", "PeerCount() = %d with MaxPeers %d", pc, srvMaxPeers)
	}
	if kind == "second-handshake" {
		g2 := cc.goodHS(cl)
		g2.ID = idOf(cc.newKey())
		p2 := mustEnc(g2)
		if c.Bool(l + ".secondGarbage") {
			p2 = c.Bytes(l+".second", 0, 100)
		}
		_ = cl.send(txBytes(0, p2))
		cc.note("  a second handshake message follows (%s)", clip(p2, 16))
	}
	// a peer that was accepted with its sub-protocol is served at the negotiated offset
	hasEth := false
	for _, cp := range g.Caps {
		if cp.Name == "eth" && cp.Version == protoVersion {
			hasEth = true
		}
	}
	if hasEth || kind == "second-handshake" || kind == "valid" {
		atomic.StoreInt32(&cl.honest, 1)
		ok, why := cc.honestStatus(cl)
		if cc.aborted {
			return
		}
		if !ok && (expect == "accept") {
			c.Failf("C15/server/valid-handshake-refused", "after a valid protocol handshake (%s) the status exchange failed: %s\n  %s", kind, why, cc.story())
		}
		cc.note("  status exchange at offset 16: %v %s", ok, why)
	}
}

// ---- scenario: base-protocol messages after a valid handshake ------------------------------------------------------------------------------

// hostilePeer: a hostile connection that did everything right so far (both handshakes; the status if
// withStatus). nil: the case must end.
func (cc *caseCtx) hostilePeer(name string, withStatus bool) *sclient {
	c := cc.c
	cl := cc.hostileAfterEnc(name, cc.newKey())
	if cl == nil {
		return nil
	}
	_ = cl.send(txBytes(0, mustEnc(cc.goodHS(cl))))
	est, ok := cc.awaitEstablished(cl, name+" to be established", false)
	if !ok {
		return nil
	}
	if !est {
		c.Failf("C15/server/valid-handshake-refused", "a valid protocol handshake was refused with %d peers connected (limit %d): %s %v\n  %s", cc.livePeers(cl), srvMaxPeers, discReasonOf(cl.snapshot(0)), cl.readErr(), cc.story())
	}
	if withStatus {
		cc.checkServerHello(cl)
		td := c.Uint64(name+".td", 0, cc.env.height)
		_ = cl.send(txBytes(subOff+codeStatus, mustEnc(cc.statusOf(td, cc.env.sh.hashes[cc.env.height]))))
		switch cc.barrier(cl, "the status of "+name) {
		case wOK:
			cl.statusOK = true
		case wClosed:
			c.Failf("C15/server/valid-handshake-refused", "a valid status (TD %d) was refused: %s %v", td, discReasonOf(cl.snapshot(0)), cl.readErr())
		default:
			cc.inconclusive("status of " + name + " neither accepted nor refused")
			return nil
		}
	}
	cc.note("%s %x.. is connected (both handshakes valid, status sent: %v)", name, cl.id[:3], withStatus)
	return cl
}

func countCode(rx []srvRx, code uint64, from int) int {
	n := 0
	for i := from; i < len(rx); i++ {
		if rx[i].code == code {
			n++
		}
	}
	return n
}

// alive: a ping is answered (the read loop of the peer is running).
func (cc *caseCtx) pingPong(cl *sclient, what string) waitRes {
	_ = cl.send(txBytes(bPing, []byte{0xC0}))
	cl.pings++
	want := cl.pings
	return cc.wait(cl, "the pongs after "+what, false, func(rx []srvRx, _ int) bool { return countCode(rx, bPong, 0) >= want })
}

// pongBound: never more pongs than pings.
func (cc *caseCtx) pongBound(cl *sclient) {
	if got := countCode(cl.snapshot(0), bPong, 0); got > cl.pings {
		cc.c.Failf("C15/server/pong-amplified", "%d pongs for %d pings on %s\n  %s", got, cl.pings, cl.name, cc.story())
	}
}

func (cc *caseCtx) scBase() {
	c := cc.c
	withStatus := c.Bool("base.status")
	cl := cc.hostilePeer("hostile", withStatus)
	if cl == nil {
		return
	}
	steps := c.Int("base.steps", 1, 5)
	for i := 0; i < steps && !cl.gone() && !cc.aborted; i++ {
		l := fmt.Sprintf("b%d", i)
		act := c.OneOf(l+".act", "ping-flood", "ping-payload", "pong-unsolicited", "base-unknown", "handshake-again", "disc", "code-beyond", "size-smaller",
			"size-larger", "huge-header", "oversize-sub")
		c.Class("base/" + act)
		c.Checkpoint()
		switch act {
		case "ping-flood":
			n := []int{1, 3, 40, 400, 2500}[c.Pick(l+".n", 5)]
			cl.wmu.Lock()
			cl.tap.setHold(true)
			for j := 0; j < n; j++ {
				_ = cl.rw.WriteMsg(p2p.Msg{Code: bPing, Size: 1, Payload: bytes.NewReader([]byte{0xC0})})
			}
			stream := cl.tap.take()
			cl.tap.setHold(false)
			_, _ = cl.fd.Write(stream)
			cl.wmu.Unlock()
			cl.pings += n
			want := cl.pings
			r := cc.wait(cl, fmt.Sprintf("%d pongs", n), false, func(rx []srvRx, _ int) bool { return countCode(rx, bPong, 0) >= want })
			got := countCode(cl.snapshot(0), bPong, 0)
			cc.note("#%d %d pings in one write -> %d pongs for %d pings so far (%v)", i, n, got, cl.pings, r)
			cc.pongBound(cl)
			if r == wTimeout {
				cc.inconclusive(fmt.Sprintf("%d of %d pongs", got, n))
			}
			if r == wClosed {
				if n > 40 { // a server may defend itself against a flood; this one does not
					c.Class("base-result/dropped-on-ping-flood")
				} else {
					c.Failf("C15/server/valid-frame-refused", "the peer was dropped on %d well-formed pings: %s %v\n  %s", n, discReasonOf(cl.snapshot(0)), cl.readErr(), cc.story())
				}
			}
		case "ping-payload", "pong-unsolicited", "base-unknown", "handshake-again":
			code := uint64(bPing)
			switch act {
			case "pong-unsolicited":
				code = bPong
			case "base-unknown":
				code = uint64(c.Int(l+".code", 4, 15))
			case "handshake-again":
				code = 0
			}
			var p []byte
			switch c.OneOf(l+".payload", "empty", "list", "string", "random", "big", "nested") {
			case "list":
				p = []byte{0xC0}
			case "string":
				p = []byte{0x83, 1, 2, 3}
			case "random":
				p = c.Bytes(l+".p", 1, 64)
			case "big":
				p = pseudo(cc.seed, i, []int{2049, 100000, 1 << 20}[c.Pick(l+".big", 3)])
			case "nested":
				p = bytes.Repeat([]byte{0xC1}, 2000)
				p[len(p)-1] = 0xC0
			}
			if act == "handshake-again" && c.Bool(l+".validHS") {
				p = mustEnc(cc.goodHS(cl))
			}
			reps := 1 + c.Weighted(l+".reps", 4, 1)*99
			for j := 0; j < reps; j++ {
				_ = cl.send(txBytes(code, p))
				if code == bPing {
					cl.pings++
				}
			}
			// none of these may cost the peer its connection by the rules of the base protocol; the harness only
			// observes (and the ping shows that the read loop goes on)
			r := cc.pingPong(cl, act)
			cc.note("#%d %d x code %d with %s -> then ping: %v", i, reps, code, clip(p, 12), r)
			if r == wTimeout {
				cc.inconclusive("no pong after " + act)
			}
			if r == wClosed {
				c.Class("base-result/dropped-on-" + act)
			}
		case "disc":
			variants := [][]byte{mustEnc([]uint64{0}), mustEnc([]uint64{4}), mustEnc([]uint64{13}), mustEnc([]uint64{1 << 63}), mustEnc([]uint64{^uint64(0)}), {}, {0xC0}, {0x80}, {0x0D},
				{0x83, 'b', 'y', 'e'}, {0xC1, 0xC0}, {0xC2, 1, 2}, {0xC9, 0x89, 1, 2, 3, 4, 5, 6, 7, 8, 9}, {0xF8}, {0xBF}, pseudo(cc.seed, i, 1<<20)}
			v := c.Pick(l+".disc", len(variants)+1)
			var p []byte
			if v == len(variants) {
				p = c.Bytes(l+".discBytes", 0, 64)
			} else {
				p = variants[v]
			}
			_ = cl.send(txBytes(bDisc, p))
			cc.note("#%d disconnect message with payload %s", i, clip(p, 16))
			// "the connection will be closed after it": a peer that says it leaves is not kept
			if !cc.expectClosed(cl, "disc", "a disconnect message") {
				return
			}
		case "code-beyond":
			code := []uint64{subOff + subLen, subOff + subLen + 1, 31, 32, 127, 128, 255, 256, 1 << 16, 1 << 32, 1<<63 + 16, ^uint64(0)}[c.Pick(l+".code", 12)]
			p := mustEnc(wGetHashesFrom{1, 1})
			_ = cl.send(txBytes(code, p))
			var r waitRes
			if cl.statusOK {
				r = cc.barrier(cl, "a message code beyond the protocol's range")
			} else {
				r = cc.pingPong(cl, "a message code beyond the protocol's range")
			}
			cc.note("#%d code %d (the negotiated protocol ends at %d) -> %v", i, code, subOff+subLen-1, map[waitRes]string{wOK: "peer kept", wClosed: "peer dropped", wTimeout: "?"}[r])
			if r == wTimeout {
				cc.inconclusive("no outcome after a code beyond the range")
			}
			c.Class(map[waitRes]string{wOK: "base-result/beyond-kept", wClosed: "base-result/beyond-dropped", wTimeout: "base-result/beyond-?"}[r])
		case "size-smaller":
			// the header announces fewer bytes than follow: the frame MAC cannot match
			p := pseudo(cc.seed, i, c.Int(l+".len", 20, 300))
			claim := c.Int(l+".claim", 0, len(p)-17)
			_ = cl.send(srvTx{code: bPing, size: uint32(claim), payload: bytes.NewReader(p)})
			_ = cl.send(txBytes(bPing, []byte{0xC0})) // more bytes, so that whatever the server reads as the frame is complete
			_ = cl.send(txBytes(bPing, []byte{0xC0}))
			cc.note("#%d ping whose header announces %d bytes, %d follow", i, claim, len(p))
			if !cc.expectClosed(cl, "frame", "a frame whose size field lies") {
				return
			}
		case "size-larger":
			p := pseudo(cc.seed, i, c.Int(l+".len", 0, 100))
			more := c.Int(l+".more", 1, 3000)
			_ = cl.send(srvTx{code: bPing, size: uint32(len(p) + more), payload: bytes.NewReader(p)})
			fill := c.Bool(l + ".fill")
			if fill {
				cl.wmu.Lock()
				_, _ = cl.fd.Write(pseudo(cc.seed, i+100, more+64))
				cl.wmu.Unlock()
			}
			cc.note("#%d ping whose header announces %d bytes, %d follow (then %v filler bytes)", i, len(p)+more, len(p), fill)
			if fill {
				if !cc.expectClosed(cl, "frame", "a frame completed with filler bytes") {
					return
				}
			} else {
				return // the server waits for the rest; the client closes
			}
		case "huge-header":
			sz := uint32(1<<24 - 2 - c.Int(l+".less", 0, 16))
			_ = cl.send(srvTx{code: uint64(c.Int(l+".code", 0, 24)), size: sz, payload: bytes.NewReader(nil)})
			cc.note("#%d frame header announcing %d bytes, nothing follows", i, sz)
			return
		case "oversize-sub":
			// BlockHashes first: a list of hashes is what that code carries, so only the size is wrong
			code := subOff + []uint64{codeBlockHashes, codeNewBlockHashes, codeGetBlocks, codeStatus, codeTx, codeGetBlockHashes, codeBlocks, codeNewBlock, codeGetBlockHashesFrom}[c.Weighted(l+".code", 6, 2, 1, 1, 1, 1, 1, 1, 1)]
			if !cl.statusOK && c.Weighted(l+".statusFirst", 1, 3) == 1 {
				// past the sub-protocol handshake the size check of the message loop is the only one
				_ = cl.send(txBytes(subOff+codeStatus, mustEnc(cc.statusOf(0, cc.env.genesis))))
				if r := cc.barrier(cl, "a valid status"); r != wOK {
					if r == wTimeout {
						cc.inconclusive("status before the oversized message: no outcome")
						return
					}
					c.Failf("C15/server/valid-handshake-refused", "a valid status was refused: %s %v\n  %s", discReasonOf(cl.snapshot(0)), cl.readErr(), cc.story())
				}
				cl.statusOK = true
			}
			n := uint64(exactCapHashes + 1 + c.Int(l+".extra", 0, 20000))
			hsr := newHashStream(n, cc.seed, nil)
			err := cl.send(srvTx{code: code, size: uint32(hsr.total()), payload: hsr})
			c.Class("oversize-message")
			var r waitRes
			if cl.statusOK {
				r = cc.barrier(cl, "an oversized message")
			} else {
				r = cc.wait(cl, "the connection to end after an oversized first message", true, nil)
			}
			cc.note("#%d %s with %d bytes (> 10 MiB) [write: %v] -> %v", i, codeName(code-subOff), hsr.total(), err, map[waitRes]string{wOK: "ACCEPTED", wClosed: "peer dropped", wTimeout: "?"}[r])
			if r == wOK {
				c.Failf("C15/server/size-cap", "a message of %d bytes (> 10 MiB, code %s) was accepted: the peer is still served\n  %s", hsr.total(), codeName(code-subOff), cc.story())
			}
			if r == wTimeout {
				cc.inconclusive("no outcome after an oversized message")
			}
		}
		cc.checkCaps(cl)
		cc.pongBound(cl)
	}
}

// ---- scenario: frames damaged on the wire after the handshake ----------------------------------------------------------------------------------

func (cc *caseCtx) scFrames() {
	c := cc.c
	withStatus := c.Bool("fr.status")
	cl := cc.hostilePeer("hostile", withStatus)
	if cl == nil {
		return
	}
	n := c.Int("fr.frames", 2, 6)
	// n well-formed frames, each answered by exactly one message if it arrives intact
	cl.wmu.Lock()
	cl.tap.setHold(true)
	bounds := []int{0}
	for i := 0; i < n; i++ {
		if withStatus && c.Bool(fmt.Sprintf("fr.req%d", i)) {
			h := c.Uint64(fmt.Sprintf("fr.h%d", i), 1, cc.env.height)
			p := mustEnc(wGetHashesFrom{h, 1})
			_ = cl.rw.WriteMsg(p2p.Msg{Code: subOff + codeGetBlockHashesFrom, Size: uint32(len(p)), Payload: bytes.NewReader(p)})
		} else {
			p := append([]byte{0xC0}, make([]byte, c.Int(fmt.Sprintf("fr.pad%d", i), 0, 40))...)
			_ = cl.rw.WriteMsg(p2p.Msg{Code: bPing, Size: uint32(len(p)), Payload: bytes.NewReader(p)})
		}
		bounds = append(bounds, cl.tap.held())
	}
	valid := cl.tap.take()
	cl.tap.setHold(false)
	stream := append([]byte{}, valid...)
	kind := []string{"none", "bitflip", "multi-flip", "truncate", "swap-frames", "drop-frame", "dup-frame", "insert-bytes", "replace-bytes"}[c.Weighted("fr.corruption", 1, 6, 2, 3, 3, 2, 2, 2, 2)]
	descr := kind
	frames := make([][]byte, n)
	for x := 0; x < n; x++ {
		frames[x] = valid[bounds[x]:bounds[x+1]]
	}
	join := func(order []int) []byte {
		var out []byte
		for _, x := range order {
			out = append(out, frames[x]...)
		}
		return out
	}
	switch kind {
	case "bitflip":
		p, bit := c.Int("fr.pos", 0, len(stream)-1), c.Int("fr.bit", 0, 7)
		stream[p] ^= 1 << uint(bit)
		descr = fmt.Sprintf("bit %d of byte %d flipped", bit, p)
	case "multi-flip":
		k := c.Int("fr.flips", 2, 4)
		for i := 0; i < k; i++ {
			stream[c.Int(fmt.Sprintf("fr.pos%d", i), 0, len(stream)-1)] ^= byte(1 + c.Int(fmt.Sprintf("fr.x%d", i), 0, 254))
		}
		descr = fmt.Sprintf("%d bytes changed", k)
	case "truncate":
		p := c.Int("fr.cut", 0, len(stream)-1)
		stream = stream[:p]
		descr = fmt.Sprintf("cut at %d of %d", p, len(valid))
	case "swap-frames":
		i, j := c.Int("fr.i", 0, n-1), c.Int("fr.j", 0, n-1)
		var order []int
		for x := 0; x < n; x++ {
			order = append(order, x)
		}
		order[i], order[j] = order[j], order[i]
		stream = join(order)
		descr = fmt.Sprintf("frames %d and %d swapped", i, j)
	case "drop-frame":
		i := c.Int("fr.i", 0, n-1)
		var order []int
		for x := 0; x < n; x++ {
			if x != i {
				order = append(order, x)
			}
		}
		stream = join(order)
		descr = fmt.Sprintf("frame %d dropped", i)
	case "dup-frame":
		i := c.Int("fr.i", 0, n-1)
		var order []int
		for x := 0; x < n; x++ {
			order = append(order, x)
			if x == i {
				order = append(order, x)
			}
		}
		stream = join(order)
		descr = fmt.Sprintf("frame %d sent twice", i)
	case "insert-bytes":
		p := c.Int("fr.pos", 0, len(stream))
		ins := c.Bytes("fr.ins", 1, 40)
		stream = append(append(append([]byte{}, valid[:p]...), ins...), valid[p:]...)
		descr = fmt.Sprintf("%d bytes inserted at %d", len(ins), p)
	case "replace-bytes":
		p := c.Int("fr.pos", 0, len(stream)-1)
		rep := c.Bytes("fr.rep", 1, 40)
		for i, b := range rep {
			if p+i < len(stream) {
				stream[p+i] = b
			}
		}
		descr = fmt.Sprintf("%d bytes overwritten at %d", len(rep), p)
	}
	// where the stream really starts to differ
	lcp := 0
	for lcp < len(stream) && lcp < len(valid) && stream[lcp] == valid[lcp] {
		lcp++
	}
	intact := n // frames that arrive undamaged before the first difference
	damaged := true
	switch {
	case lcp == len(stream) && lcp == len(valid):
		damaged, kind = false, "none"
	default:
		for intact = 0; intact < n && bounds[intact+1] <= lcp; intact++ {
		}
	}
	proper := lcp == len(stream) // a proper prefix of the valid stream: the server just waits for more
	filler := false
	if damaged && proper && c.Bool("fr.filler") {
		filler = true
		stream = append(stream, pseudo(cc.seed, 99, 400)...)
	}
	c.Class("frames/" + kind)
	from := cl.rxLen()
	c.Checkpoint()
	_, werr := cl.fd.Write(stream)
	cl.wmu.Unlock()
	cc.note("%d well-formed frames (%d bytes), on the wire: %s; first differing byte %d => %d frames intact; filler=%v [write: %v]", n, len(valid), descr, lcp, intact, filler, werr)
	answers := func(rx []srvRx) int {
		return countCode(rx, bPong, from) + countCode(rx, subOff+codeBlockHashes, from)
	}
	if !damaged {
		r := cc.wait(cl, "the answers to intact frames", false, func(rx []srvRx, _ int) bool { return answers(rx) >= n })
		if r == wClosed {
			c.Failf("C15/server/valid-frame-refused", "the peer was dropped on %d well-formed frames: %s %v\n  %s", n, discReasonOf(cl.snapshot(0)), cl.readErr(), cc.story())
		}
		if r == wTimeout {
			cc.inconclusive("intact frames not answered")
		}
		return
	}
	if !proper || filler {
		if !cc.expectClosed(cl, "frame", "damaged frames ("+descr+")") {
			return
		}
	} else {
		// the server waits for the rest of a frame: what it could answer, it has answered once a later
		// message of an honest connection was served (no order between connections: only an upper bound)
		cc.pause()
	}
	if got := answers(cl.snapshot(0)); got > intact {
		c.Failf("C15/server/corrupt-frame-accepted", "%d answers received, only %d frames arrived intact (%s)\n  %s", got, intact, descr, cc.story())
	}
}

// pause lets the server do what it can do without proving anything: one honest round trip.
func (cc *caseCtx) pause() {
	r := cc.env.res[0]
	if r != nil && !r.gone() {
		from := r.rxLen()
		_ = r.send(txBytes(bPing, []byte{0xC0}))
		cc.wait(r, "a resident's pong", false, hasCode(bPong, from))
	}
}

// ---- scenario: the sub-protocol over the real connection --------------------------------------------------------------------------------------------

func (cc *caseCtx) genSession() *session {
	sh := cc.env.sh
	s := &session{c: cc.c, sh: sh, validSet: map[uint64]bool{}, poolOK: map[types.Hash]bool{}, goodBlk: map[types.Hash]bool{}, t0: time.Now()}
	s.onA, s.node, s.k, s.k0, s.tip, s.policy = true, sh.a, sh.height, sh.height, sh.height, "silent"
	s.seed = cc.seed
	s.heightOf = map[types.Hash]uint64{}
	for h := uint64(1); h <= s.tip; h++ {
		s.heightOf[sh.hashes[h]] = h
	}
	s.chainID, s.genesis = cc.env.chainID, cc.env.genesis
	return s
}

func (cc *caseCtx) scSubproto() {
	c := cc.c
	cl := cc.hostilePeer("hostile", false)
	if cl == nil {
		return
	}
	cc.checkServerHello(cl)
	s := cc.genSession()
	hs := c.OneOf("sp.status", "valid", "valid", "valid", "valid", "valid", "wrong-network", "wrong-genesis", "wrong-version", "not-status", "garbage",
		"oversize", "truncated", "none", "twice")
	c.Class("status-" + hs)
	st := cc.statusOf(c.Uint64("sp.td", 0, cc.env.height), cc.env.sh.hashes[cc.env.height])
	code := uint64(codeStatus)
	payload := mustEnc(st)
	var stream io.Reader
	size := -1
	wantOK := false
	switch hs {
	case "valid", "twice":
		wantOK = true
	case "wrong-network":
		st.NetworkId++
		payload = mustEnc(st)
	case "wrong-genesis":
		st.GenesisBlock = unknownHash(cc.seed, 1)
		payload = mustEnc(st)
	case "wrong-version":
		st.ProtocolVersion = uint32(c.Int("sp.version", 0, 100))
		payload = mustEnc(st)
		wantOK = st.ProtocolVersion == protoVersion
	case "not-status":
		code = uint64(c.Int("sp.code", 1, 8))
	case "garbage":
		payload = c.Bytes("sp.bytes", 0, 48)
	case "oversize":
		hsr := newHashStream(uint64(exactCapHashes+1+c.Int("sp.extra", 0, 1000)), cc.seed, nil)
		stream, size = hsr, int(hsr.total())
	case "truncated":
		payload = payload[:c.Int("sp.cut", 0, len(payload)-1)]
	case "none":
	}
	var r waitRes
	if hs == "none" {
		cc.note("hostile sends no status and starts with requests")
		r = cc.barrier(cl, "no status at all")
	} else {
		if size < 0 {
			size = len(payload)
		}
		if stream == nil {
			stream = bytes.NewReader(payload)
		}
		c.Checkpoint()
		_ = cl.send(srvTx{code: subOff + code, size: uint32(size), payload: stream})
		r = cc.barrier(cl, "the status ("+hs+")")
		cc.note("hostile status %s (code %d, %d bytes %s) -> %v", hs, code, size, clip(payload, 12), map[waitRes]string{wOK: "accepted", wClosed: "peer dropped", wTimeout: "?"}[r])
	}
	switch {
	case r == wTimeout:
		cc.inconclusive("status neither accepted nor refused")
		return
	case r == wOK && !wantOK:
		c.Failf("C15/server/status-accepted/"+hs, "the node serves a peer whose status was %s (code %d, %s)\n  %s", hs, code, clip(payload, 48), cc.story())
	case r == wClosed && wantOK:
		c.Failf("C15/server/valid-handshake-refused", "a valid status was refused: %s %v\n  %s", discReasonOf(cl.snapshot(0)), cl.readErr(), cc.story())
	}
	if r != wOK {
		return
	}
	cl.statusOK = true
	if hs == "twice" {
		_ = cl.send(txBytes(subOff+codeStatus, payload))
		r2 := cc.barrier(cl, "a second status")
		cc.note("a second status -> %v", r2)
		if r2 == wTimeout {
			cc.inconclusive("second status: no outcome")
		}
		if r2 != wOK {
			return
		}
	}
	nmsg := c.Int("sp.messages", 1, 8)
	reached := 0
	for i := 0; i < nmsg && !cl.gone() && !cc.aborted; i++ {
		m := s.genMessage(fmt.Sprintf("m%d", i))
		var rd io.Reader = m.stream
		if rd == nil {
			rd = bytes.NewReader(m.payload)
		}
		if m.size > 1<<24-4 {
			c.Class("subproto/not-expressible-in-a-frame")
			cc.note("#%d %s: does not fit the 24-bit frame size, not sent", i, m.descr)
			continue
		}
		incomplete := m.stream == nil && int(m.size) > len(m.payload)
		c.Checkpoint()
		cr := &countReader{r: rd}
		err := cl.send(srvTx{code: subOff + m.code, size: m.size, payload: cr})
		if incomplete {
			// the frame announces more than was written: the server waits for the rest
			c.Class("subproto/frame-incomplete")
			cc.note("#%d %s: frame left incomplete", i, m.descr)
			return
		}
		r := cc.barrier(cl, m.descr)
		cc.note("#%d %s [write: %v] -> %v", i, m.descr, err, map[waitRes]string{wOK: "handled", wClosed: "peer dropped", wTimeout: "?"}[r])
		c.Class("subproto-outcome/" + map[waitRes]string{wOK: "handled", wClosed: "peer-dropped", wTimeout: "no-progress"}[r])
		if m.reaches {
			reached++
			c.NonTrivialItem(fmt.Sprintf("server/%s/%s", codeName(m.code), m.shape))
		}
		if r == wTimeout {
			cc.inconclusive("no outcome after " + m.descr)
			return
		}
		cc.checkCaps(cl)
		if m.over || m.size > maxMsgSize {
			c.Class("oversize-message")
			if r == wOK {
				c.Failf("C15/server/size-cap", "a message announcing %d bytes (> 10 MiB) was accepted: %s\n  %s", m.size, m.descr, cc.story())
			}
		}
	}
	c.R.Count("srv_messages_reaching_lookup", reached)
}

// ---- scenario: requests arriving while the handler is busy ---------------------------------------------------------------------------------------------

func (cc *caseCtx) scBusy() {
	c := cc.c
	cl := cc.hostilePeer("hostile", true)
	if cl == nil {
		return
	}
	n := c.Int("busy.n", 5, 40)
	var known []types.Hash
	for h := uint64(1); h <= 200; h++ {
		known = append(known, cc.env.sh.hashes[h])
	}
	from := cl.rxLen()
	reqs, pings := 0, 0
	c.Checkpoint()
	cl.wmu.Lock()
	cl.tap.setHold(true)
	for i := 0; i < n; i++ {
		switch c.Weighted(fmt.Sprintf("busy.k%d", i), 3, 3, 2, 1) {
		case 0:
			p := encHashes(known[:c.Int(fmt.Sprintf("busy.h%d", i), 1, 200)])
			_ = cl.rw.WriteMsg(p2p.Msg{Code: subOff + codeGetBlocks, Size: uint32(len(p)), Payload: bytes.NewReader(p)})
			reqs++
		case 1:
			p := mustEnc(wGetHashesFrom{c.Uint64(fmt.Sprintf("busy.f%d", i), 0, cc.env.height+5), amounts[c.Pick(fmt.Sprintf("busy.a%d", i), len(amounts))]})
			_ = cl.rw.WriteMsg(p2p.Msg{Code: subOff + codeGetBlockHashesFrom, Size: uint32(len(p)), Payload: bytes.NewReader(p)})
			reqs++
		case 2:
			_ = cl.rw.WriteMsg(p2p.Msg{Code: bPing, Size: 1, Payload: bytes.NewReader([]byte{0xC0})})
			pings++
		default:
			p := mustEnc(wGetHashes{cc.env.sh.hashes[c.Uint64(fmt.Sprintf("busy.g%d", i), 1, cc.env.height)], amounts[c.Pick(fmt.Sprintf("busy.b%d", i), len(amounts))]})
			_ = cl.rw.WriteMsg(p2p.Msg{Code: subOff + codeGetBlockHashes, Size: uint32(len(p)), Payload: bytes.NewReader(p)})
			reqs++
		}
	}
	stream := cl.tap.take()
	cl.tap.setHold(false)
	_, _ = cl.fd.Write(stream)
	cl.wmu.Unlock()
	r := cc.barrier(cl, fmt.Sprintf("a burst of %d requests and %d pings in one write", reqs, pings))
	rx := cl.snapshot(0)
	replies := countCode(rx, subOff+codeBlockHashes, from) + countCode(rx, subOff+codeBlocks, from)
	cc.note("burst of %d requests + %d pings (%d bytes, one write) -> %v; %d replies, %d pongs", reqs, pings, len(stream), r, replies, countCode(rx, bPong, from))
	switch r {
	case wTimeout:
		cc.inconclusive("burst not worked off")
		return
	case wClosed:
		c.Failf("C15/server/valid-frame-refused", "the peer was dropped during a burst of well-formed requests: %s %v\n  %s", discReasonOf(rx), cl.readErr(), cc.story())
	}
	if replies != reqs+2 {
		c.Failf("C15/server/burst-replies", "%d replies to %d requests (+2 of the barrier)\n  %s", replies, reqs, cc.story())
	}
	if r := cc.wait(cl, "the pongs of the burst", false, func(rx []srvRx, _ int) bool { return countCode(rx, bPong, from) >= pings }); r == wTimeout {
		cc.inconclusive("pongs of the burst missing")
		return
	}
	if got := countCode(cl.snapshot(0), bPong, from); got > pings {
		c.Failf("C15/server/pong-amplified", "%d pongs for %d pings", got, pings)
	}
	cc.checkCaps(cl)
}

// ---- scenario: more connections than MaxPeers ----------------------------------------------------------------------------------------------------------------

func (cc *caseCtx) scLimits() {
	c := cc.c
	free := srvMaxPeers - cc.residentsAlive()
	n := free + c.Int("lim.extra", 1, 3)
	withStatus := c.Bool("lim.status")
	est := 0
	for i := 0; i < n && !cc.aborted; i++ {
		cl := cc.hostileAfterEnc(fmt.Sprintf("hostile-%d", i), cc.newKey())
		if cl == nil {
			return
		}
		_ = cl.send(txBytes(0, mustEnc(cc.goodHS(cl))))
		ok, fine := cc.awaitEstablished(cl, fmt.Sprintf("connection %d of %d", i+1, n), false)
		if !fine {
			return
		}
		cc.note("connection %d: established=%v (%s)", i+1, ok, discReasonOf(cl.snapshot(0)))
		if ok {
			est++
			if withStatus {
				_ = cl.send(txBytes(subOff+codeStatus, mustEnc(cc.statusOf(0, cc.env.genesis))))
			}
		}
		if est > free {
			c.Failf("C15/server/max-peers", "%d connections beyond the %d residents are run as peers, MaxPeers is %d\n  %s", est, cc.residentsAlive(), srvMaxPeers, cc.story())
		}
		if !ok && est < free {
			c.Failf("C15/server/valid-handshake-refused", "connection %d was refused (%s) although only %d of %d peer slots are taken\n  %s", i+1, discReasonOf(cl.snapshot(0)), cc.livePeers(nil), srvMaxPeers, cc.story())
		}
		if pc := cc.env.srv.PeerCount(); pc > srvMaxPeers {
			c.Failf("C15/server/max-peers", "PeerCount() = %d, MaxPeers is %d", pc, srvMaxPeers)
		}
	}
	c.Class(fmt.Sprintf("limits/established-%d-of-%d", est, n))
}

// ---- scenario: one node ID, two connections ----------------------------------------------------------------------------------------------------------------------

func (cc *caseCtx) scDupID() {
	c := cc.c
	kind := c.OneOf("dup.kind", "resident-id", "own-id-sequential", "own-id-concurrent", "server-id")
	c.Class("dup-id/" + kind)
	second := func(name string, key *ecdsa.PrivateKey) (*sclient, bool) {
		cl := cc.dial(name, key)
		if cl == nil {
			return nil, false
		}
		c.Checkpoint()
		if err := cc.encHandshake(cl); err != nil {
			cc.note("%s: encryption handshake: %v", name, err)
			cl.close(false)
			if cc.aborted {
				return nil, false
			}
			return cl, false
		}
		cc.passed = true
		cl.startReader()
		_ = cl.send(txBytes(0, mustEnc(cc.goodHS(cl))))
		est, ok := cc.awaitEstablished(cl, name, true)
		if !ok {
			return nil, false
		}
		cc.note("%s with id %x..: established=%v (%s)", name, cl.id[:3], est, discReasonOf(cl.snapshot(0)))
		return cl, est
	}
	switch kind {
	case "resident-id":
		r := cc.env.res[c.Pick("dup.which", len(cc.env.res))]
		cl, est := second("impostor", r.key)
		if cl == nil {
			return
		}
		if est {
			c.Failf("C15/server/duplicate-id-accepted", "a second connection with the node ID of connected peer %s is run as a peer\n  %s", r.name, cc.story())
		}
	case "server-id":
		cl, est := second("mirror", cc.env.key)
		if cl == nil {
			return
		}
		if est {
			c.Failf("C15/server/self-id-accepted", "a connection presenting the server's own node ID is run as a peer\n  %s", cc.story())
		}
	case "own-id-sequential":
		first := cc.hostilePeer("hostile", c.Bool("dup.status"))
		if first == nil {
			return
		}
		cl, est := second("twin", first.key)
		if cl == nil {
			return
		}
		if est {
			c.Failf("C15/server/duplicate-id-accepted", "two connections with the same node ID are run as peers\n  %s", cc.story())
		}
		if first.statusOK {
			if r := cc.barrier(first, "its twin was refused"); r != wOK {
				if r == wTimeout {
					cc.inconclusive("first connection not served after twin")
					return
				}
				c.Failf("C15/server/first-of-twins-dropped", "the first connection was dropped when a second one presented its ID: %s %v\n  %s", discReasonOf(first.snapshot(0)), first.readErr(), cc.story())
			}
		}
	case "own-id-concurrent":
		key := cc.newKey()
		var cls []*sclient
		for i := 0; i < 2+c.Int("dup.more", 0, 1); i++ {
			cl := cc.dial(fmt.Sprintf("twin-%d", i), key)
			if cl == nil {
				return
			}
			if !cc.encOrFail(cl) {
				return
			}
			cl.startReader()
			cls = append(cls, cl)
		}
		cc.passed = true
		c.Checkpoint()
		for _, cl := range cls { // all are past the first check before any becomes a peer
			_ = cl.send(txBytes(0, mustEnc(cc.goodHS(cl))))
		}
		est := 0
		for _, cl := range cls {
			ok, fine := cc.awaitEstablished(cl, cl.name, false)
			if !fine {
				return
			}
			if ok {
				est++
			}
		}
		cc.note("%d connections with one node ID complete their handshakes at the same time: %d established", len(cls), est)
		if est > 1 {
			c.Failf("C15/server/duplicate-id-accepted", "%d concurrent connections with the same node ID are run as peers\n  %s", est, cc.story())
		}
		if est == 0 {
			c.Failf("C15/server/valid-handshake-refused", "none of %d concurrent connections with one node ID was accepted\n  %s", len(cls), cc.story())
		}
	}
}

// ---- scenario: connections left idle in the handshake phase --------------------------------------------------------------------------------------------------------------

func (cc *caseCtx) scHalfOpen() {
	c := cc.c
	kind := c.OneOf("ho.kind", "few-idle", "few-partial-auth", "few-after-enc", "flood-idle")
	c.Class("half-open/" + kind)
	n := c.Int("ho.n", 1, srvPending-2)
	if kind == "flood-idle" {
		n = srvPending + c.Int("ho.more", 1, 20)
	}
	for i := 0; i < n; i++ {
		cl := cc.dial(fmt.Sprintf("idle-%d", i), cc.newKey())
		if cl == nil {
			return
		}
		switch kind {
		case "few-partial-auth":
			_, _ = cl.fd.Write(makeAuth(cl.key, cc.env.id)[:c.Int(fmt.Sprintf("ho.cut%d", i), 1, hsEncAuthLen-1)])
		case "few-after-enc":
			if !cc.encOrFail(cl) {
				return
			}
			cc.passed = true
		}
	}
	cc.note("%d connections opened and left idle (%s); the server has %d handshake slots", n, kind, srvPending)
	if kind == "flood-idle" {
		// every slot is taken (the documented limit): nothing is asserted until they are gone
		for _, cl := range cc.conns {
			cl.close(c.Bool("ho.rst"))
		}
		cc.conns = nil
		return
	}
}

func shortID(id discover.NodeID) []byte { return id[:4] }
