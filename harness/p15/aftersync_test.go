package p15

// TestC15AfterSync: unsolicited BlockHashesMsg / BlocksMsg deliveries after the node's downloader
// has been through a synchronisation cycle. Three histories are generated (plus one in which the
// deliveries arrive while the cycle is still fetching momentums):
//
//   sync-completed  a peer with a higher TD and honest answers lets the follower really synchronise
//                   to the tip of the chain it presents (barriers: no goroutine inside the downloader's
//                   cycle, no import running, node at the tip, peer still connected);
//   sync-failed     the peer answers the downloader with garbage / nothing: the cycle ends in an error;
//   no-sync         no cycle at all;
//   during-sync     the peer answers the hash requests but holds the momentums back; the deliveries
//                   come from a second connection while the cycle waits, then the momentums arrive and
//                   the cycle completes.
//
// Then 2..6 unsolicited hash / momentum deliveries (contents from the session generators) on the same
// and / or a second hostile connection, a request on every hostile connection that is still open, and
// the end of TestC15Session (honest peer's requests answered correctly, state oracle). A delivery that
// does not come back is decided by the stall rule of stall_test.go.

import (
	"fmt"
	"os"
	"strings"
	"sync/atomic"
	"testing"
	"time"

	"github.com/zenon-network/go-zenon/common/types"
	"github.com/zenon-network/go-zenon/protocol"

	"verifharness/pbt"
)

func TestC15AfterSync(t *testing.T) {
	pbt.Check(t, "C15", afterSyncProp)
}

var exclDuringSync int32

var debugTiming = os.Getenv("VERIF_C15_DEBUG") != ""

func syncActive(g gor) bool {
	return strings.Contains(g.text, "downloader.(*Downloader).synchronise") ||
		strings.Contains(g.text, "downloader.(*Downloader).Synchronise") ||
		strings.Contains(g.text, "protocol.(*ProtocolManager).synchronise") ||
		strings.Contains(g.text, "protocol.(*ProtocolManager).handleMsg.func") ||
		strings.Contains(g.text, "protocol.(*ProtocolManager).syncer.func")
}

// openPeer connects a hostile peer with a valid status claiming td; no responder is attached.
func (s *session) openPeer(name string, td uint64) *endpoint {
	c := s.c
	ep, ok := connect(s.pm, name, 0xE0, true)
	s.addEp(ep)
	if !ok {
		s.aborted = true
		inconclusive(c, "protocol function did not reach its first read", dumpAll())
		return nil
	}
	atomic.StoreUint64(&ep.claimTD, td)
	c.Checkpoint()
	o := ep.deliverBytes(codeStatus, mustEnc(s.status(td, s.hashAt(td))), "status of "+name)
	s.note("%s connects with a valid status (TD %d) -> %v%s", name, td, o, errSuffix(ep, o))
	if !s.afterDeliver(ep, o, codeStatus, "handshake", "status of "+name) {
		return nil
	}
	if o != delivered {
		c.Failf("C15/honest-refused", "a peer with a valid status was dropped: %v", ep.res.err)
	}
	s.answerBlocks(ep)
	return ep
}

// answerBlocks: the second hostile connection serves the momentums of A it is asked for (the
// downloader spreads its requests over every registered peer; an empty answer never reaches the
// downloader and would cost the cycle a 9 s request expiry), and has no hashes to offer.
func (s *session) answerBlocks(ep *endpoint) {
	if ep.reqs == nil {
		return
	}
	go func() {
		for {
			select {
			case <-ep.done:
				return
			case rq := <-ep.reqs:
				code, payload := uint64(codeBlockHashes), []byte{0xC0}
				if rq.code == codeGetBlocks {
					code, payload = s.answerAs("honest", rq)
				}
				if payload == nil {
					continue
				}
				if o := ep.deliverBytes(code, payload, "answer to the node's "+codeName(rq.code)); o == stalled || o == blocked {
					return
				}
			}
		}
	}()
}

func (s *session) releaseHeld() {
	if s.hold != nil {
		s.relOnce.Do(func() { close(s.hold) })
	}
}

// awaitRest waits (barrier) until no synchronisation cycle and no import is running.
func (s *session) awaitRest(what string) bool {
	t0 := time.Now()
	ok, g := waitNone(func(g gor) bool { return syncActive(g) || importing(g) })
	s.c.R.Count("ms_await_rest", int(time.Since(t0).Milliseconds()))
	if d := time.Since(t0); d > time.Second && os.Getenv("VERIF_C15_DEBUG") != "" {
		fmt.Fprintf(os.Stderr, "C15 slow awaitRest (%s): %v\n%s\n", what, d, slowest)
	}
	if !ok {
		s.aborted = true
		inconclusive(s.c, what+": a synchronisation cycle / import is still running", g)
	}
	return ok
}

func afterSyncProp(c *pbt.C) {
	tcase := time.Now()
	hname := "?"
	defer func() {
		c.R.Count("ms_case", int(time.Since(tcase).Milliseconds()))
		if os.Getenv("VERIF_C15_DEBUG") != "" {
			fmt.Fprintf(os.Stderr, "C15 case %s took %v\n", hname, time.Since(tcase))
		}
	}()
	sh := world()
	s := &session{c: c, sh: sh, validSet: map[uint64]bool{}, poolOK: map[types.Hash]bool{}, goodBlk: map[types.Hash]bool{}, t0: time.Now()}
	s.seed = c.Uint64("seed", 0, 1<<32)
	history := []string{"sync-completed", "sync-failed", "no-sync", "during-sync"}[c.Weighted("history", 5, 2, 2, 2)]
	if history == "during-sync" && atomic.LoadInt32(&exclDuringSync) == 1 {
		// the committed known finding of this history was reproduced in this run: left out from now on
		c.Excluded("C15/message-loop-blocked:deliveries-during-sync")
		history = "sync-completed"
	}
	hname = history
	s.k = uint64(c.Int("followerHeight", 1, 9))
	s.tip = s.k + uint64(c.Int("ahead", 2, 5))
	s.k0 = s.k
	b := sh.w.AddNode("B", false)
	s.node = b
	if s.k > 1 {
		if _, err := b.Bridge.InsertChain(sh.a.Range(2, s.k)); err != nil {
			sh.w.Drop(b)
			c.Failf("C15/setup", "follower cannot sync the honest prefix: %v", err)
		}
	}
	s.heightOf = map[types.Hash]uint64{}
	for h := uint64(1); h <= s.tip; h++ {
		s.heightOf[sh.hashes[h]] = h
	}
	s.chainID, s.genesis = s.node.Chain.ChainIdentifier(), sh.hashes[1]
	frontier0, pool0, dump0 := s.node.Frontier().Hash, poolHashes(s.node), s.node.Dump()
	minPeers := c.Int("minPeers", 0, 1)
	s.pm = protocol.NewProtocolManager(minPeers, s.chainID, s.node.Bridge)
	s.pm.Start()
	s.note("history %q: follower at height %d, the hostile peer presents A up to %d, minPeers=%d", history, s.k, s.tip, minPeers)
	defer func() {
		t := time.Now()
		s.teardown()
		if os.Getenv("VERIF_C15_DEBUG") != "" {
			fmt.Fprintf(os.Stderr, "C15 teardown took %v (case so far %v)\n", time.Since(t), time.Since(tcase))
		}
	}()
	defer func() {
		if os.Getenv("VERIF_C15_DEBUG") != "" {
			fmt.Fprintf(os.Stderr, "C15 body returned at %v\n", time.Since(tcase))
		}
		s.releaseHeld()
		if traceClass == "all" {
			fmt.Fprintf(os.Stderr, "---- case\n%s\n", strings.Join(s.tr, "\n"))
		}
		if traceClass == "fail" {
			if r := recover(); r != nil {
				s.stopResponder()
				fmt.Fprintf(os.Stderr, "---- failing case (%v)\n%s\n", r, strings.Join(s.tr, "\n"))
				panic(r)
			}
		}
	}()
	// the honest peer is connected before the unsolicited deliveries or only for the final probe; it
	// is not connected before the synchronisation (it has nothing the downloader could use, and a
	// request the downloader sends to it costs the cycle a 9 s expiry)
	honestEarly := c.Bool("honestBeforeDeliveries")
	if honestEarly && history == "no-sync" {
		if !s.connectHonest() {
			return
		}
	}

	// ---- the earlier synchronisation
	tPhase := time.Now()
	phase := func(name string) {
		if debugTiming {
			c.R.Count("ms_"+name+"/"+history, int(time.Since(tPhase).Milliseconds()))
		}
		tPhase = time.Now()
	}
	phase("setup")
	switch history {
	case "sync-completed", "during-sync":
		s.policy = "honest"
	case "sync-failed":
		s.policy = c.OneOf("failPolicy", "empty", "garbage")
	default:
		s.policy = "silent"
	}
	if s.policy == "honest" {
		for h := s.k + 1; h <= s.tip; h++ { // the responder hands over A[k+1..tip]
			s.validSet[h] = true
			for _, blk := range sh.early[h].AccountBlocks {
				s.poolOK[blk.Hash], s.goodBlk[blk.Hash] = true, true
			}
		}
	}
	if history == "during-sync" {
		s.hold, s.holding = make(chan struct{}), make(chan struct{})
		s.keySuffix = "/delivered-during-sync"
	}
	if !s.hostConnect("valid") {
		return
	}
	if s.host.gone() {
		c.Failf("C15/honest-refused", "a peer with a valid status was dropped: %v", s.host.res.err)
	}
	completed := false
	if history != "no-sync" {
		// a propagated momentum above the peer's TD makes the node synchronise with it (handleMsg:
		// SetTd, go pm.synchronise(p)); the momentum itself is A's, unmodified
		trig := &hmsg{code: codeNewBlock, payload: mustEnc(s.momentumAt(s.tip)), reaches: true,
			descr: fmt.Sprintf("NewBlock{valid A[%d]} (starts a synchronisation with this peer)", s.tip)}
		trig.size = uint32(len(trig.payload))
		if !s.sendHostile(trig) {
			return
		}
		if history == "during-sync" {
			// wait until the downloader has all hashes and waits for momentums
			select {
			case <-s.holding:
			case <-s.host.done:
			case <-time.After(liveDeadline):
			}
			select {
			case <-s.holding:
				if ok, g := waitNone(func(g gor) bool { return strings.Contains(g.text, "downloader.(*Downloader).fetchHashes") }); !ok {
					s.aborted = true
					inconclusive(c, "hash retrieval of the synchronisation did not finish", g)
					return
				}
				c.Class("history-during-sync")
				s.note("the downloader has the hashes and waits for momentums (held back)")
			default:
				// no momentum request arrived: nothing is held, the history degenerates
				s.releaseHeld()
				if !s.awaitRest("after the trigger") {
					return
				}
				c.Class("history-during-sync-not-reached")
			}
		} else {
			if !s.awaitRest("after the trigger") {
				return
			}
			completed = s.node.Height() == s.tip && !s.host.gone()
			switch {
			case completed:
				c.Class("history-sync-completed")
			case history == "sync-completed":
				c.Class("history-sync-did-not-complete")
			default:
				c.Class("history-sync-failed")
			}
			s.note("synchronisation over: node at height %d (tip %d), peer still connected: %v", s.node.Height(), s.tip, !s.host.gone())
		}
	} else {
		c.Class("history-no-sync")
	}
	s.unreportedPanics()
	s.unreportedBlocks()
	if completed {
		s.k = s.tip // the generators now work against a node at the tip
	}
	if honestEarly && history != "no-sync" && history != "during-sync" {
		if !s.connectHonest() {
			return
		}
	}

	phase("sync")
	// ---- unsolicited deliveries
	var second *endpoint
	n := c.Int("deliveries", 2, 6)
	first := s.host
	hashDeliveries, blockDeliveries := 0, 0
	for i := 0; i < n && !s.aborted; i++ {
		label := fmt.Sprintf("d%d", i)
		kind := c.OneOf(label+".kind", "blockHashes", "blocks", "blockHashes")
		m := s.genValid(label, kind)
		useSecond := c.Bool(label+".second") || history == "during-sync"
		var ep *endpoint
		if useSecond {
			if second == nil || second.gone() {
				if second = s.openPeer("hostile-2", uint64(c.Int(label+".td", 0, int(s.node.Height())))); second == nil {
					return
				}
			}
			ep = second
		} else {
			if first == nil || first.gone() {
				if first = s.openPeer("hostile", uint64(c.Int(label+".td", 0, int(s.node.Height())))); first == nil {
					return
				}
			}
			ep = first
		}
		if history == "during-sync" {
			// once a delivery waits, the momentums are handed over and the cycle completes
			ep.onWait = s.releaseHeld
		}
		if kind == "blockHashes" {
			hashDeliveries++
		} else if len(m.payload) > 1 {
			blockDeliveries++
		}
		s.host = ep
		m.descr = ep.name + ": " + m.descr
		if !s.sendHostile(m) {
			return
		}
	}
	if history == "during-sync" {
		s.releaseHeld()
		if !s.awaitRest("after the held momentums were handed over") {
			return
		}
		completed = s.node.Height() == s.tip
		s.note("held momentums handed over: node at height %d (tip %d)", s.node.Height(), s.tip)
		if completed {
			c.Class("history-during-sync-completed")
		}
	}
	c.Class(fmt.Sprintf("hash-deliveries-%s", few(hashDeliveries)))
	c.Class(fmt.Sprintf("block-deliveries-%s", few(blockDeliveries)))

	phase("deliveries")
	// ---- every hostile connection that is still open gets a request answered
	for _, ep := range []*endpoint{first, second} {
		if ep == nil || ep.gone() || s.aborted {
			continue
		}
		s.host = ep
		rq := &hmsg{code: codeGetBlockHashesFrom, payload: mustEnc(wGetHashesFrom{1, 1}), reaches: true,
			descr: ep.name + ": GetBlockHashesFromNumber{1,1} (must still be read)"}
		rq.size = uint32(len(rq.payload))
		ep.fresh()
		if !s.sendHostile(rq) {
			return
		}
	}
	if s.aborted {
		return
	}
	phase("requests")
	if !s.finish(frontier0, pool0, dump0) {
		return
	}
	phase("finish")
	if completed {
		c.NonTrivial()
		c.NonTrivialItem(fmt.Sprintf("%s/hashes-%s/blocks-%s", history, few(hashDeliveries), few(blockDeliveries)))
	}
	c.R.Count("messages", s.msgNo)
}

func few(n int) string {
	switch {
	case n == 0:
		return "0"
	case n == 1:
		return "1"
	default:
		return "2+"
	}
}
