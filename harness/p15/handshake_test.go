package p15

// TestC15Handshake: what an unauthenticated remote can send before any frame exists — the
// encryption handshake (listening side, receiverEncHandshake) and the devp2p protocol handshake
// (readProtocolHandshake) — must end in an error, never in a panic or a large allocation.

import (
	"bytes"
	"crypto/ecdsa"
	"crypto/sha256"
	"encoding/binary"
	"fmt"
	"io"
	"net"
	"runtime"
	"runtime/debug"
	"testing"

	"github.com/ethereum/go-ethereum/crypto"
	"github.com/ethereum/go-ethereum/crypto/ecies"
	"github.com/ethereum/go-ethereum/rlp"

	"github.com/zenon-network/go-zenon/p2p"
	"github.com/zenon-network/go-zenon/p2p/discover"

	"verifharness/pbt"
	"verifharness/sim"
)

const (
	hsSigLen     = 65
	hsShaLen     = 32
	hsPubLen     = 64
	hsAuthLen    = hsSigLen + hsShaLen + hsPubLen + hsShaLen + 1 // plaintext of the initiator's message
	hsEncAuthLen = hsAuthLen + 65 + 16 + 32                      // ECIES overhead
)

// detRand is a deterministic byte stream (ECIES needs an entropy source for its ephemeral key).
type detRand struct {
	seed uint64
	ctr  uint64
	buf  []byte
}

func (d *detRand) Read(p []byte) (int, error) {
	for len(d.buf) < len(p) {
		var b [16]byte
		binary.BigEndian.PutUint64(b[:], d.seed)
		binary.BigEndian.PutUint64(b[8:], d.ctr)
		d.ctr++
		x := sha256.Sum256(b[:])
		d.buf = append(d.buf, x[:]...)
	}
	copy(p, d.buf[:len(p)])
	d.buf = d.buf[len(p):]
	return len(p), nil
}

func hsKey(i int) *ecdsa.PrivateKey { return discKey(1000 + i) }

type captureConn struct {
	r io.Reader
	w bytes.Buffer
}

func (c *captureConn) Read(p []byte) (int, error)  { return c.r.Read(p) }
func (c *captureConn) Write(p []byte) (int, error) { return c.w.Write(p) }

func TestC15Handshake(t *testing.T) {
	pbt.Check(t, "C15", handshakeProp)
}

func handshakeProp(c *pbt.C) {
	sim.Silence()
	nodeKey := hsKey(0)
	nodePub := ecies.ImportECDSAPublic(&nodeKey.PublicKey)
	remote := hsKey(1 + c.Int("remote", 0, 2))
	seed := c.Uint64("seed", 0, 1<<40)
	rnd := &detRand{seed: seed}

	// a well-formed initiator message, built from the layout: sig || sha3(eph-pub) || pub || nonce || flag
	eph := hsKey(50 + c.Int("ephemeral", 0, 3))
	nonce := pseudo(seed, 77, hsShaLen)
	shared, err := ecies.ImportECDSA(remote).GenerateShared(nodePub, 16, 16)
	if err != nil {
		panic(err)
	}
	signed := make([]byte, 32)
	for i := range signed {
		signed[i] = shared[i] ^ nonce[i]
	}
	sig, err := crypto.Sign(signed, eph)
	if err != nil {
		panic(err)
	}
	plain := make([]byte, 0, hsAuthLen)
	plain = append(plain, sig...)
	plain = append(plain, crypto.Keccak256(crypto.FromECDSAPub(&eph.PublicKey)[1:])...)
	plain = append(plain, crypto.FromECDSAPub(&remote.PublicKey)[1:]...)
	plain = append(plain, nonce...)
	plain = append(plain, 0)

	kind := c.OneOf("kind", "valid", "valid", "plain-sig-garbage", "plain-pub-off-curve", "plain-zero", "plain-random", "plain-short", "plain-long",
		"cipher-bitflip", "cipher-random", "cipher-truncated", "cipher-empty", "proto-handshake")
	c.Class("handshake-" + kind)
	expectOK := false
	var wire []byte
	enc := func(p []byte) []byte {
		ct, err := ecies.Encrypt(rnd, nodePub, p, nil, nil)
		if err != nil {
			panic(err)
		}
		return ct
	}
	switch kind {
	case "valid", "proto-handshake":
		wire = enc(plain)
		expectOK = true
	case "plain-sig-garbage":
		p := append([]byte{}, plain...)
		copy(p[:hsSigLen], pseudo(seed, 1, hsSigLen))
		p[64] = byte(c.Int("v", 0, 255))
		wire = enc(p)
	case "plain-pub-off-curve":
		p := append([]byte{}, plain...)
		copy(p[hsSigLen+hsShaLen:], pseudo(seed, 2, hsPubLen))
		wire = enc(p)
	case "plain-zero":
		wire = enc(make([]byte, hsAuthLen))
	case "plain-random":
		wire = enc(pseudo(seed, 3, hsAuthLen))
	case "plain-short":
		// a shorter plaintext gives a shorter ciphertext: the listener keeps waiting for bytes
		wire = enc(plain[:c.Int("plainLen", 0, hsAuthLen-1)])
	case "plain-long":
		wire = enc(append(append([]byte{}, plain...), pseudo(seed, 4, c.Int("extra", 1, 400))...))
	case "cipher-bitflip":
		wire = enc(plain)
		p := c.Int("pos", 0, len(wire)-1)
		wire[p] ^= 1 << uint(c.Int("bit", 0, 7))
	case "cipher-random":
		wire = pseudo(seed, 5, hsEncAuthLen)
		if c.Bool("uncompressedPoint") {
			wire[0] = 4
		}
	case "cipher-truncated":
		wire = enc(plain)
		wire = wire[:c.Int("cut", 0, len(wire)-1)]
	case "cipher-empty":
		wire = nil
	}
	if kind == "plain-long" && len(wire) > hsEncAuthLen {
		// only the first encAuthMsgLen bytes are read: the ECIES tag no longer matches
	}
	if (kind == "valid" || kind == "proto-handshake") && len(wire) != hsEncAuthLen {
		c.Failf("C15/harness", "well-formed auth message has %d bytes, expected %d", len(wire), hsEncAuthLen)
	}
	conn := &captureConn{r: bytes.NewReader(wire)}
	var (
		id  discover.NodeID
		frw p2p.MsgReadWriter
		ms  runtime.MemStats
	)
	runtime.ReadMemStats(&ms)
	before := ms.TotalAlloc
	func() {
		defer func() {
			if p := recover(); p != nil {
				c.Failf("C15/handshake-panic", "receiverEncHandshake panicked on %s (%d bytes): %v\n%s", kind, len(wire), p, trim(string(debug.Stack()), 3000))
			}
		}()
		id, frw, err = p2p.VerifReceiverEncHandshake(conn, nodeKey)
	}()
	runtime.ReadMemStats(&ms)
	alloc := ms.TotalAlloc - before
	c.Note("encryption handshake, %s (%d bytes on the wire) -> err=%v, %d bytes answered, %d bytes allocated", kind, len(wire), err, conn.w.Len(), alloc)
	if alloc > 4<<20 {
		c.Failf("C15/handshake-alloc", "the encryption handshake allocated %d bytes for %s", alloc, kind)
	}
	if expectOK {
		if err != nil {
			c.Failf("C15/handshake-valid-refused", "a well-formed initiator message was refused: %v", err)
		}
		var want discover.NodeID
		copy(want[:], crypto.FromECDSAPub(&remote.PublicKey)[1:])
		if id != want {
			c.Failf("C15/handshake-identity", "the handshake attributes the connection to %x, the initiator is %x", id[:6], want[:6])
		}
		c.NonTrivial()
	} else {
		switch kind {
		case "plain-sig-garbage", "plain-pub-off-curve", "plain-zero", "plain-random":
			c.NonTrivial() // passes the ECIES integrity check
		}
		if err == nil && kind != "plain-sig-garbage" {
			// a garbage signature can still recover to some key: the listener cannot tell
			c.Failf("C15/handshake-accepted-corrupt", "the encryption handshake succeeded for %s", kind)
		}
		if err != nil && conn.w.Len() > 0 {
			c.Failf("C15/handshake-answered-corrupt", "%d bytes were answered to a refused initiator message (%s)", conn.w.Len(), kind)
		}
	}
	if kind != "proto-handshake" || frw == nil {
		return
	}
	// ---- the first frame must be a protocol handshake: hostile variants, written with the
	// secrets of a real initiator run against the captured answer
	pc1, pc2 := net.Pipe()
	defer pc1.Close()
	defer pc2.Close()
	type hsOut struct {
		name string
		id   discover.NodeID
		err  error
		pan  interface{}
	}
	out := make(chan hsOut, 1)
	go func() {
		var o hsOut
		defer func() {
			if p := recover(); p != nil {
				o.pan = p
			}
			out <- o
		}()
		_, rw, err := p2p.VerifReceiverEncHandshake(pc1, nodeKey)
		if err != nil {
			o.err = fmt.Errorf("enc: %v", err)
			return
		}
		o.name, o.id, o.err = p2p.VerifReadProtocolHandshake(rw)
	}()
	var nodeID discover.NodeID
	copy(nodeID[:], crypto.FromECDSAPub(&nodeKey.PublicKey)[1:])
	irw, err := p2p.VerifInitiatorEncHandshake(pc2, remote, nodeID)
	if err != nil {
		c.Failf("C15/handshake-valid-refused", "initiator and listener of the node do not complete the encryption handshake: %v", err)
	}
	type protoHS struct {
		Version    uint64
		Name       string
		Caps       []p2p.Cap
		ListenPort uint64
		ID         discover.NodeID
	}
	var rid discover.NodeID
	copy(rid[:], crypto.FromECDSAPub(&remote.PublicKey)[1:])
	good := protoHS{Version: 4, Name: "hostile", Caps: []p2p.Cap{{Name: "eth", Version: 61}}, ListenPort: 30303, ID: rid}
	var code uint64
	payload := mustEnc(good)
	size := -1
	pk := c.OneOf("proto", "valid", "wrong-version", "zero-id", "wrong-code", "disconnect", "garbage", "truncated", "too-big", "name-1500", "caps-1000")
	wantOK := false
	switch pk {
	case "valid":
		wantOK = true
	case "wrong-version":
		g := good
		g.Version = uint64(c.Int("version", 0, 10))
		wantOK = g.Version == 4
		payload = mustEnc(g)
	case "zero-id":
		g := good
		g.ID = discover.NodeID{}
		payload = mustEnc(g)
	case "wrong-code":
		code = uint64(c.Int("code", 2, 40))
	case "disconnect":
		code = 1
		payload = mustEnc([]uint{[]uint{0, 3, 12, 13, 14, 255, 1 << 31}[c.Pick("reason", 7)]})
	case "garbage":
		payload = c.Bytes("bytes", 0, 60)
	case "truncated":
		payload = payload[:c.Int("cut", 0, len(payload)-1)]
	case "too-big":
		payload = append(payload, make([]byte, 2049)...)
	case "name-1500":
		g := good
		g.Name = string(bytes.Repeat([]byte{'x'}, 1500))
		payload = mustEnc(g)
		wantOK = true // 1.6 KiB: below the 2 KiB limit of the base protocol
	case "caps-1000":
		g := good
		for i := 0; i < 1000; i++ {
			g.Caps = append(g.Caps, p2p.Cap{Name: "x", Version: uint(i)})
		}
		payload = mustEnc(g)
	}
	if size < 0 {
		size = len(payload)
	}
	c.Class("proto-handshake-" + pk)
	werr := make(chan error, 1)
	go func() {
		werr <- irw.WriteMsg(p2p.Msg{Code: code, Size: uint32(size), Payload: bytes.NewReader(payload)})
	}()
	o := <-out
	pc2.Close()
	<-werr
	c.Note("protocol handshake %s (code %d, %d bytes) -> name=%q err=%v", pk, code, len(payload), o.name, o.err)
	if o.pan != nil {
		c.Failf("C15/handshake-panic", "the protocol handshake panicked on %s: %v", pk, o.pan)
	}
	if o.err != nil {
		// observation only: the error value a remote disconnect reason becomes panics in its own
		// Error method for reason 13 (bounds check off by one in DiscReason.String). Every call site in
		// p2p formats it through fmt, which recovers such panics, so the process is not at risk.
		func() {
			defer func() {
				if p := recover(); p != nil {
					c.R.Count("latent_DiscReason_String_panics", 1)
					c.Note("   (calling Error() on the returned error panics: %v)", p)
				}
			}()
			_ = o.err.Error()
		}()
	}
	if wantOK && o.err != nil {
		c.Failf("C15/handshake-valid-refused", "a well-formed protocol handshake (%s) was refused: %v", pk, o.err)
	}
	if !wantOK && o.err == nil {
		c.Failf("C15/handshake-accepted-corrupt", "protocol handshake %s was accepted (name %q)", pk, o.name)
	}
	if wantOK && o.id != rid {
		c.Failf("C15/handshake-identity", "protocol handshake returns id %x, sent %x", o.id[:6], rid[:6])
	}
	_ = rlp.Encode
}
