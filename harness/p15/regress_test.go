package p15

// TestC15Regress: the minimal inputs of the two design-time observations, sent without any
// generation, so that every run states whether they still reproduce:
//   #7 GetBlockHashesMsg{unknown hash, 1}          -> key C15/handler-panic
//   #8 GetBlockHashesFromNumberMsg{1, 0} on a chain of more than 512 momentums -> key C15/reply-cap

import (
	"testing"
	"time"

	"github.com/zenon-network/go-zenon/common/types"
	"github.com/zenon-network/go-zenon/protocol"

	"verifharness/pbt"
)

func TestC15Regress(t *testing.T) {
	pbt.CheckOnce(t, "C15", func(c *pbt.C) {
		sh := world()
		s := &session{c: c, sh: sh, validSet: map[uint64]bool{}, poolOK: map[types.Hash]bool{}, goodBlk: map[types.Hash]bool{}, t0: time.Now()}
		s.onA, s.node, s.k, s.tip, s.policy = true, sh.a, sh.height, sh.height, "silent"
		s.k0 = s.k
		s.heightOf = map[types.Hash]uint64{}
		for h := uint64(1); h <= s.tip; h++ {
			s.heightOf[sh.hashes[h]] = h
		}
		s.chainID, s.genesis = s.node.Chain.ChainIdentifier(), sh.hashes[1]
		frontier := s.node.Frontier().Hash
		s.pm = protocol.NewProtocolManager(0, s.chainID, s.node.Bridge)
		s.pm.Start()
		defer s.teardown()
		if !s.connectHonest() {
			return
		}
		msgs := []*hmsg{
			{code: codeGetBlockHashes, payload: mustEnc(wGetHashes{unknownHash(0, 0), 1}), shape: "unknown-hash", reaches: true,
				descr: "GetBlockHashes{hash unknown to the node, amount=1}"},
			{code: codeGetBlockHashesFrom, payload: mustEnc(wGetHashesFrom{1, 0}), shape: "recompute", reaches: true, fromN: 1, fromM: 0,
				descr: "GetBlockHashesFromNumber{number=1, amount=0}"},
			{code: codeGetBlockHashesFrom, payload: mustEnc(wGetHashesFrom{0, 1}), shape: "recompute", reaches: true, fromN: 0, fromM: 1,
				descr: "GetBlockHashesFromNumber{number=0, amount=1}"},
		}
		for _, m := range msgs {
			m.size = uint32(len(m.payload))
			if s.host == nil || s.host.gone() {
				if !s.hostConnect("valid") {
					return
				}
			}
			if !s.sendHostile(m) {
				return
			}
		}
		s.honestChecks()
		if s.node.Frontier().Hash != frontier {
			c.Failf("C15/state-changed", "the node's frontier changed")
		}
		c.NonTrivial()
	})
}
