package p15

import (
	"fmt"
	"os"
	"testing"
	"time"

	"verifharness/sim"
)

func TestProbeBuild(t *testing.T) {
	t0 := time.Now()
	w := sim.NewWorld(sim.DefaultSpec(3, 4), sim.WorldOpts{})
	a := w.AddNode("A", true)
	fmt.Fprintln(os.Stderr, "node", time.Since(t0))
	for i := 0; i < 640; i++ {
		if err := a.Produce(0); err != nil {
			t.Fatal(err)
		}
	}
	fmt.Fprintln(os.Stderr, "640 momentums", time.Since(t0))
	t1 := time.Now()
	d := a.Dump()
	fmt.Fprintln(os.Stderr, "dump", len(d), time.Since(t1))
	t1 = time.Now()
	b := w.AddNode("B", false)
	fmt.Fprintln(os.Stderr, "follower", time.Since(t1))
	t1 = time.Now()
	_, err := b.Bridge.InsertChain(a.Range(2, 12))
	fmt.Fprintln(os.Stderr, "sync 11", time.Since(t1), err)
	t1 = time.Now()
	d = b.Dump()
	fmt.Fprintln(os.Stderr, "dump B", len(d), time.Since(t1))
	t1 = time.Now()
	w.Drop(b)
	fmt.Fprintln(os.Stderr, "drop", time.Since(t1))
	w.Close()
}
