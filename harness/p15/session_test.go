package p15

// TestC15Session: hostile protocol sessions against a real protocol.ProtocolManager (with its
// downloader and fetcher running) over p2p.MsgPipe. The per-peer protocol function
// (SubProtocols[0].Run, what p2p starts for every connection) runs on a goroutine owned by the
// harness, wrapped in recover, so a handler panic is reported with the message that caused it.

import (
	"bytes"
	"fmt"
	"io"
	"math/big"
	"os"
	"runtime/debug"
	"sort"
	"strings"
	"sync"
	"sync/atomic"
	"testing"
	"time"

	"github.com/ethereum/go-ethereum/rlp"

	"github.com/zenon-network/go-zenon/chain/nom"
	"github.com/zenon-network/go-zenon/common/types"
	"github.com/zenon-network/go-zenon/p2p"
	"github.com/zenon-network/go-zenon/p2p/discover"
	"github.com/zenon-network/go-zenon/protocol"

	"verifharness/pbt"
	"verifharness/sim"
)

// ---- instrumented pipe end handed to the node ---------------------------------------------------

type nodeRW struct {
	inner   *p2p.MsgPipeRW
	entries int64         // ReadMsg calls entered (the handler is back at its read)
	written int64         // messages the node wrote and the remote side took
	sig     chan struct{} // wake-up for waiters
}

func (r *nodeRW) ReadMsg() (p2p.Msg, error) {
	atomic.AddInt64(&r.entries, 1)
	select {
	case r.sig <- struct{}{}:
	default:
	}
	return r.inner.ReadMsg()
}
func (r *nodeRW) WriteMsg(m p2p.Msg) error {
	err := r.inner.WriteMsg(m)
	if err == nil {
		atomic.AddInt64(&r.written, 1)
	}
	return err
}

type rxMsg struct {
	code uint64
	size uint32
	data []byte
	over bool // larger than 10 MiB: payload drained, not kept
}

type runResult struct {
	err      error
	panicked bool
	pval     interface{}
	stack    string
}

type outcome int

const (
	delivered outcome = iota // consumed; the handler is back at ReadMsg
	dropped                  // the per-peer Run returned (peer dropped)
	stalled                  // generous deadline passed (inconclusive)
	blocked                  // the handler is structurally blocked (see stall_test.go); ep.wedged has the verdict
)

func (o outcome) String() string {
	return [...]string{"handled", "peer dropped", "no progress", "MESSAGE LOOP BLOCKED"}[o]
}

type endpoint struct {
	name   string
	id     discover.NodeID
	peer   *p2p.Peer
	app    *nodeRW
	net    *p2p.MsgPipeRW
	done   chan struct{}
	res    runResult
	sendMu sync.Mutex
	rxMu   sync.Mutex
	rx     []rxMsg
	rxN    int64 // messages appended to rx
	rxSeen int
	rxSig  chan struct{}
	reqs   chan rxMsg
	disc   int32 // 1+reason once the node asked to disconnect this peer
	rdone  chan struct{}
	last   atomic.Value // description of the last message written on this connection
	told   bool         // a panic of this connection's handler was reported

	gid       int64         // goroutine id of the protocol function (the peer's message loop)
	claimTD   uint64        // the most this connection has claimed to have (status TD, announced momentum heights)
	noSync    func() bool   // rule clause 4: no sync cycle can start (set by the session; nil = nobody connected claims anything)
	onWait    func()        // called once when a delivery has not come back after blockFirst
	wedged    *blockVerdict // verdict of the stall classifier for this connection's handler
	wedgeTold bool
	whyNot    string // why the last stalled wait was not classified as blocked
}

var peerSeq uint64

func newID(tag byte) discover.NodeID {
	var id discover.NodeID
	n := atomic.AddUint64(&peerSeq, 1)
	id[0] = tag
	for i := 0; i < 8; i++ {
		id[1+i] = byte(n >> (8 * uint(i)))
	}
	id[63] = 1
	return id
}

// connect starts the protocol function for a new peer exactly as p2p does (Run(peer, rw)) and
// waits until the handler sits in its first ReadMsg.
func connect(pm *protocol.ProtocolManager, name string, tag byte, withReqs bool) (*endpoint, bool) {
	app, net := p2p.MsgPipe()
	ep := &endpoint{name: name, id: newID(tag), net: net, done: make(chan struct{}), rxSig: make(chan struct{}, 1), rdone: make(chan struct{})}
	ep.app = &nodeRW{inner: app, sig: make(chan struct{}, 1)}
	if withReqs {
		ep.reqs = make(chan rxMsg, 256)
	}
	peer, disc, stopPeer := p2p.VerifNewPeer(ep.id, name, []p2p.Cap{{Name: "eth", Version: protoVersion}})
	var stopOnce sync.Once
	stop := func() { stopOnce.Do(stopPeer) }
	ep.peer = peer
	run := pm.SubProtocols[0].Run
	go func() {
		defer func() {
			if p := recover(); p != nil {
				ep.res.panicked = true
				ep.res.pval = p
				ep.res.stack = string(debug.Stack())
			}
			stop()          // later Disconnect calls return at once
			_ = app.Close() // the connection goes away with the protocol, as in Peer.run
			close(ep.done)
		}()
		atomic.StoreInt64(&ep.gid, curGoroutineID())
		ep.res.err = run(peer, ep.app)
	}()
	go func() { // what Peer.run does on a local disconnect request: close the connection
		select {
		case r := <-disc:
			atomic.StoreInt32(&ep.disc, 1+int32(r))
			_ = net.Close()
			stop() // Peer.run closes the connection and then p.closed: further Disconnect calls return
		case <-ep.done:
		}
	}()
	go func() { // the remote side reads whatever the node sends
		defer close(ep.rdone)
		for {
			msg, err := net.ReadMsg()
			if err != nil {
				return
			}
			rm := rxMsg{code: msg.Code, size: msg.Size}
			if msg.Size > maxMsgSize {
				rm.over = true
				_, _ = io.Copy(io.Discard, msg.Payload)
			} else {
				rm.data, _ = io.ReadAll(msg.Payload)
			}
			ep.rxMu.Lock()
			ep.rx = append(ep.rx, rm)
			ep.rxMu.Unlock()
			atomic.AddInt64(&ep.rxN, 1)
			select {
			case ep.rxSig <- struct{}{}:
			default:
			}
			if ep.reqs != nil && (rm.code == codeGetBlockHashes || rm.code == codeGetBlocks || rm.code == codeGetBlockHashesFrom) {
				select {
				case ep.reqs <- rm:
				default:
				}
			}
		}
	}()
	// wait for the first ReadMsg (handshake read)
	t := time.NewTimer(liveDeadline)
	defer t.Stop()
	for atomic.LoadInt64(&ep.app.entries) < 1 {
		select {
		case <-ep.app.sig:
		case <-ep.done:
			return ep, true
		case <-t.C:
			return ep, false
		}
	}
	return ep, true
}

// answerEmpty: a peer that has nothing beyond what it claimed still answers the node's requests
// (the downloader asks every registered peer for momentums, whatever its TD): with empty lists, at
// once, as a real node that lacks the hashes does. Without this the node would wait 9 s for each
// request it sent to a connection of the harness that says nothing.
func (ep *endpoint) answerEmpty() {
	if ep.reqs == nil {
		return
	}
	go func() {
		for {
			select {
			case <-ep.done:
				return
			case rq := <-ep.reqs:
				code := uint64(codeBlockHashes)
				if rq.code == codeGetBlocks {
					code = codeBlocks
				}
				if o := ep.deliverBytes(code, []byte{0xC0}, "empty "+codeName(code)+" answering the node's "+codeName(rq.code)); o == stalled || o == blocked {
					return
				}
			}
		}
	}()
}

func (ep *endpoint) gone() bool {
	select {
	case <-ep.done:
		return true
	default:
		return false
	}
}

// deliver writes one message and waits until the handler has dealt with it: it is back in
// ReadMsg, or Run returned. Writers are serialised so that the wait is exact.
func (ep *endpoint) deliver(code uint64, size uint32, payload io.Reader, descr string) outcome {
	ep.sendMu.Lock()
	defer ep.sendMu.Unlock()
	if ep.gone() {
		return dropped
	}
	if ep.wedged != nil {
		return blocked
	}
	ep.last.Store(descr)
	e0 := atomic.LoadInt64(&ep.app.entries)
	werr := make(chan error, 1)
	go func() { werr <- ep.net.WriteMsg(p2p.Msg{Code: code, Size: size, Payload: payload}) }()
	t := time.NewTimer(liveDeadline)
	defer t.Stop()
	// while the delivery does not come back the stall classifier looks at the handler (stall_test.go)
	probe := &blockProbe{gid: atomic.LoadInt64(&ep.gid), noSync: ep.noSync}
	look := time.NewTimer(blockFirst)
	defer look.Stop()
	written := false
	for {
		if written && atomic.LoadInt64(&ep.app.entries) > e0 {
			return delivered
		}
		var wch chan error
		if !written {
			wch = werr
		}
		select {
		case <-wch:
			written = true
		case <-ep.app.sig:
		case <-ep.done:
			return dropped
		case <-look.C:
			if ep.onWait != nil {
				f := ep.onWait
				ep.onWait = nil
				f()
			}
			if v := probe.sample(); v != nil {
				ep.wedged = v
				noteVerdict()
				return blocked
			}
			look.Reset(blockGap)
		case <-t.C:
			if v := probe.classifyNow(); v != nil {
				ep.wedged = v
				noteVerdict()
				return blocked
			}
			ep.whyNot = probe.why
			return stalled
		}
	}
}

func (ep *endpoint) deliverBytes(code uint64, payload []byte, descr string) outcome {
	return ep.deliver(code, uint32(len(payload)), bytes.NewReader(payload), descr)
}

func (ep *endpoint) lastDescr() string {
	if v, ok := ep.last.Load().(string); ok {
		return v
	}
	return "(nothing sent)"
}

// settle waits until the reader goroutine has filed everything the node has written so far.
func (ep *endpoint) settle() {
	w := atomic.LoadInt64(&ep.app.written)
	deadline := time.Now().Add(liveDeadline)
	for atomic.LoadInt64(&ep.rxN) < w && time.Now().Before(deadline) {
		select {
		case <-ep.rdone:
			return
		default:
		}
		time.Sleep(50 * time.Microsecond)
	}
}

// fresh returns the messages received from the node since the last call.
func (ep *endpoint) fresh() []rxMsg {
	ep.settle()
	ep.rxMu.Lock()
	defer ep.rxMu.Unlock()
	out := append([]rxMsg(nil), ep.rx[ep.rxSeen:]...)
	ep.rxSeen = len(ep.rx)
	return out
}

// waitRx waits (barrier) until pred holds for a message that was not yet taken by fresh().
func (ep *endpoint) waitRx(pred func(rxMsg) bool, d time.Duration) bool {
	t := time.NewTimer(d)
	defer t.Stop()
	for {
		ep.rxMu.Lock()
		for _, m := range ep.rx[ep.rxSeen:] {
			if pred(m) {
				ep.rxMu.Unlock()
				return true
			}
		}
		ep.rxMu.Unlock()
		select {
		case <-ep.rxSig:
		case <-ep.done:
			return false
		case <-t.C:
			return false
		}
	}
}

// close ends the connection and waits for the protocol function to return. It reports false if
// that does not happen within the (generous) deadline.
func (ep *endpoint) close() bool {
	_ = ep.net.Close()
	t := time.NewTimer(3 * liveDeadline)
	defer t.Stop()
	select {
	case <-ep.done:
	case <-t.C:
		return false
	}
	<-ep.rdone
	return true
}

// ---- session state ------------------------------------------------------------------------------------

type session struct {
	c         *pbt.C
	sh        *shared
	node      *sim.Node
	onA       bool
	k         uint64 // node height the generators work with (start height; after a completed sync the tip)
	k0        uint64 // node height at session start
	tip       uint64 // chain the hostile peer may honestly present: A[1..tip]
	pm        *protocol.ProtocolManager
	chainID   uint64
	genesis   types.Hash
	seed      uint64
	eps       []*endpoint
	host      *endpoint
	honest    *endpoint
	aborted   bool                // liveness wait expired
	validSet  map[uint64]bool     // heights of A whose momentum (header) was handed to the node unmodified
	goodBlk   map[types.Hash]bool // account blocks of A handed to the node unmodified
	tr        []string
	hist      []string
	t0        time.Time
	epMu      sync.Mutex
	trace     bool
	respMu    sync.Mutex
	respLog   []string
	poolOK    map[types.Hash]bool // valid account blocks of A handed to the node (alone or inside a momentum)
	txValid   bool                // a (possibly) valid account block was delivered
	msgNo     int
	policy    string
	polFault  string
	polShift  int // height-shift: 0 a little above, 1 zero, 2 at or below the sync origin, 3 / 4 huge
	respStop  chan struct{}
	respDone  chan struct{}
	hold      chan struct{} // non-nil: the responder holds its BlocksMsg answers until this is closed
	holding   chan struct{} // closed when the responder holds its first answer
	holdOnce  sync.Once
	holdWhat  string // see holdsThis
	heldRq    string
	relOnce   sync.Once
	keySuffix string // appended to the message-loop-blocked key (history that differs in root cause)
	downDone  bool
	downOK    bool
	reached   int
	heightOf  map[types.Hash]uint64
}

// process-wide: shapes excluded by construction after a committed known finding was reproduced
var (
	exclUnknownGetHashes int32
	exclFromRecompute    int32
)

func (s *session) hashAt(h uint64) types.Hash { return s.sh.hashes[h] }

func (s *session) note(format string, args ...interface{}) {
	s.c.Note(format, args...)
	line := fmt.Sprintf(format, args...)
	if len(s.hist) < 80 {
		s.hist = append(s.hist, trim(line, 300))
	}
	if traceClass != "" {
		s.tr = append(s.tr, fmt.Sprintf("[+%dms] %s", time.Since(s.t0).Milliseconds(), line))
	}
}

// addEp registers a connection of this session (the stall rule reads the list from other goroutines).
func (s *session) addEp(ep *endpoint) {
	ep.noSync = s.noSyncPossible
	s.epMu.Lock()
	s.eps = append(s.eps, ep)
	s.epMu.Unlock()
}

// noSyncPossible is the second part of clause 4 of the stall rule (stall_test.go): every connection
// that is still open has claimed at most the node's current height, so the syncer's periodic tick
// cannot start a synchronisation cycle.
func (s *session) noSyncPossible() bool {
	h := s.node.Height()
	s.epMu.Lock()
	defer s.epMu.Unlock()
	for _, ep := range s.eps {
		if !ep.gone() && atomic.LoadUint64(&ep.claimTD) > h {
			return false
		}
	}
	return true
}

// blockedFail reports the verdict of the stall classifier for ep (once).
func (s *session) blockedFail(ep *endpoint, descr string) {
	v := ep.wedged
	if v == nil || ep.wedgeTold {
		return
	}
	ep.wedgeTold = true
	s.c.Class("message-loop-blocked")
	s.note("  -> MESSAGE LOOP BLOCKED: handler of %s parked in %s [%s], nobody can release it", ep.name, v.fn, v.state)
	if os.Getenv("VERIF_C15_DEBUG") != "" {
		fmt.Fprintf(os.Stderr, "C15 blockedFail at %v\n", time.Since(s.t0))
	}
	if s.keySuffix != "" && s.c.Known("C15/message-loop-blocked/"+v.fn+s.keySuffix) {
		atomic.StoreInt32(&exclDuringSync, 1)
	}
	s.c.Failf("C15/message-loop-blocked/"+v.fn+s.keySuffix,
		"the message loop of peer %q is blocked for good after %s: its handler is parked in %s [%s] below handleMsg (same stack in %d samples >= %v apart) and no goroutine exists that could release it (and no connected peer claims more than the node has, so no synchronisation can start).\nsession so far:\n  %s\nhandler:\n%s\nprotocol goroutines:\n%s",
		ep.name, descr, v.fn, v.state, v.samples, blockGap, strings.Join(s.hist, "\n  "), trim(v.stack, 2500), v.dump)
}

// unreportedBlocks: verdicts reached while the responder (not the main flow) was writing
func (s *session) unreportedBlocks() {
	s.epMu.Lock()
	eps := append([]*endpoint(nil), s.eps...)
	s.epMu.Unlock()
	for _, ep := range eps {
		if ep.wedged != nil && !ep.wedgeTold {
			s.blockedFail(ep, ep.lastDescr())
		}
	}
}

var traceClass = os.Getenv("VERIF_C15_TRACE")

func (s *session) status(td uint64, head types.Hash) wStatus {
	return wStatus{ProtocolVersion: protoVersion, NetworkId: uint32(s.chainID), TD: td, CurrentBlock: head, GenesisBlock: s.genesis}
}

// checkOutgoing applies the reply caps to everything the node sent on ep since the last call.
// request describes the message being answered (for the report), reqCode its code (or -1).
func (s *session) checkOutgoing(ep *endpoint, request string, reqCode int, knownShape bool) {
	c := s.c
	for _, m := range ep.fresh() {
		if m.over {
			c.Failf("C15/reply-cap/size", "node sent %s of %d bytes (> 10 MiB) to %s after %s", codeName(m.code), m.size, ep.name, request)
			continue
		}
		switch m.code {
		case codeGetBlockHashesFrom, codeGetBlockHashes:
			c.Class("node-requested-hashes-from-peer")
		case codeGetBlocks:
			c.Class("node-requested-momentums-from-peer")
			if traceClass == "node-requested-momentums-from-peer" {
				s.trace = true
			}
		case codeNewBlock:
			c.Class("node-propagated-momentum")
			if traceClass == "node-propagated-momentum" {
				s.trace = true
				var d *nom.DetailedMomentum
				if rlp.DecodeBytes(m.data, &d) == nil && d != nil && d.Momentum != nil {
					_, onA := s.heightOf[d.Momentum.Hash]
					s.note("  <- node propagates momentum %d/%s to %s (a momentum of A: %v, %d bytes)", d.Momentum.Height, short(d.Momentum.Hash), ep.name, onA, m.size)
				}
			}
		case codeTx:
			c.Class("node-sent-transactions")
		case codeBlockHashes:
			n, err := rlp.CountValues(listContent(m.data))
			if err != nil {
				c.Failf("C15/reply-malformed", "node sent an undecodable BlockHashesMsg after %s: %v", request, err)
				continue
			}
			c.R.Count("replies_hashes", 1)
			if n > maxHashReply {
				key := "C15/reply-cap/code" + fmt.Sprint(reqCode)
				if reqCode == codeGetBlockHashesFrom && knownShape {
					key = "C15/reply-cap"
				}
				s.note("  -> reply carries %d hashes", n)
				if c.Failf(key, "BlockHashesMsg with %d hashes (> %d) sent to %s in answer to %s", n, maxHashReply, ep.name, request) {
					atomic.StoreInt32(&exclFromRecompute, 1)
				}
			}
		case codeBlocks:
			n, err := rlp.CountValues(listContent(m.data))
			if err != nil {
				c.Failf("C15/reply-malformed", "node sent an undecodable BlocksMsg after %s: %v", request, err)
				continue
			}
			c.R.Count("replies_blocks", 1)
			if n > maxBlockReply {
				c.Failf("C15/reply-cap/blocks", "BlocksMsg with %d momentums (> %d) sent to %s in answer to %s", n, maxBlockReply, ep.name, request)
			}
		}
	}
}

// listContent strips the outer list header (returns nil if b is not a list).
func listContent(b []byte) []byte {
	k, content, _, err := rlp.Split(b)
	if err != nil || k != rlp.List {
		return []byte{0xFF} // CountValues reports an error
	}
	return content
}

func (s *session) panicKey(code uint64, shape string, stack string) string {
	if code == codeGetBlockHashes && strings.Contains(stack, "momentum.(*momentumStore).GetMomentumsByHash") {
		return "C15/handler-panic"
	}
	return fmt.Sprintf("C15/handler-panic/%s", codeName(code))
}

// afterDeliver inspects the result of one delivery. It returns false if the session must end.
func (s *session) afterDeliver(ep *endpoint, o outcome, code uint64, shape, descr string) bool {
	c := s.c
	if o == blocked {
		s.aborted = true
		s.blockedFail(ep, descr)
		return false
	}
	if o == stalled {
		s.aborted = true
		inconclusive(c, fmt.Sprintf("no progress within %v after %s (not classified as blocked: %s)", liveDeadline, descr, ep.whyNot), dumpAll())
		return false
	}
	if o == dropped && ep.res.panicked && !ep.told {
		ep.told = true
		if last := ep.lastDescr(); last != descr {
			// the connection was already gone: the panic belongs to what was written last (responder)
			c.Failf("C15/handler-panic/responder", "handler panic after %s: %v\n%s", last, ep.res.pval, trim(ep.res.stack, 3000))
			return true
		}
		key := s.panicKey(code, shape, ep.res.stack)
		s.note("  -> PANIC on the peer's handler: %v", ep.res.pval)
		if c.Failf(key, "handler panic (on a node this terminates the process) after %s: %v\n%s", descr, ep.res.pval, trim(ep.res.stack, 3000)) {
			if key == "C15/handler-panic" {
				atomic.StoreInt32(&exclUnknownGetHashes, 1)
			}
		}
	}
	return true
}

func trim(s string, n int) string {
	if len(s) > n {
		return s[:n] + "\n..."
	}
	return s
}

func dumpAll() string {
	var b strings.Builder
	for _, g := range goroutines() {
		if strings.Contains(g.text, protoPkg) || strings.Contains(g.text, "p15.") {
			b.WriteString(g.text)
			b.WriteString("\n\n")
		}
	}
	return trim(b.String(), 20000)
}

// ---- hostile message generator ----------------------------------------------------------------------

type hmsg struct {
	code     uint64
	payload  []byte
	stream   io.Reader // lazily generated payload (size = declared)
	size     uint32
	descr    string
	shape    string
	reaches  bool     // decodes far enough to reach a chain lookup / insert (by construction)
	over     bool     // declared size > 10 MiB
	valid    []uint64 // heights of unmodified A momentums carried
	tx       bool     // carries re-signed account blocks that may be valid
	blocksOf []uint64 // heights of A's momentums whose (valid) account blocks are carried
	fromN    uint64
	fromM    uint64
}

var amounts = []uint64{0, 1, 2, 3, 127, 128, 129, 511, 512, 513, 1000, 1 << 32, 1 << 63, ^uint64(0) - 1, ^uint64(0)}

func (s *session) pickAmount(label string) uint64 {
	switch s.c.Weighted(label+".w", 2, 2, 6, 1) {
	case 0:
		return 0
	case 1:
		return 1
	case 3:
		return s.c.Uint64(label+".r", 0, 700)
	}
	return amounts[s.c.Pick(label, len(amounts))]
}

func (s *session) pickNumber(label string) uint64 {
	k := s.k
	switch s.c.Weighted(label+".w", 2, 2, 6, 2) {
	case 0:
		return 0
	case 1:
		return 1
	case 3:
		return s.c.Uint64(label+".r", 1, k)
	}
	vals := []uint64{0, 1, 2, k - 1, k, k + 1, k + 2, k + 600, 1 << 32, 1 << 63, ^uint64(0) - 1, ^uint64(0)}
	if k > 514 {
		vals = append(vals, k-511, k-512, k-513)
	}
	return vals[s.c.Pick(label, len(vals))]
}

func (s *session) pickHash(label string) (types.Hash, string) {
	c := s.c
	switch c.Weighted(label+".k", 4, 3, 1, 1, 2, 2) {
	case 0:
		h := c.Uint64(label+".h", 1, s.k)
		return s.hashAt(h), fmt.Sprintf("known@%d", h)
	case 1:
		return unknownHash(s.seed, uint64(c.Int(label+".u", 0, 1000))), "unknown-hash"
	case 2:
		return types.Hash{}, "unknown-hash"
	case 3:
		return s.hashAt(1), "known@1"
	case 4:
		return s.hashAt(s.k), fmt.Sprintf("known@%d", s.k)
	default:
		if !s.onA && s.tip > s.k {
			return s.hashAt(s.k + 1), "unknown-hash" // exists on A, not (yet) on the node
		}
		return unknownHash(s.seed, 7777), "unknown-hash"
	}
}

// fromTriggers: does GetBlockHashesFromNumber{n, m} on a chain of height k take the path on which
// the amount is recomputed from the frontier (committed known finding #8)? Only used to leave the
// shape out once the finding was reproduced.
func fromTriggers(n, m, k uint64) bool {
	if m > maxHashReply {
		m = maxHashReply
	}
	idx := n + m - 1
	exists := idx >= 1 && idx <= k
	if exists || n > k {
		return false
	}
	return k-n+1 > maxHashReply && k > maxHashReply
}

func (s *session) hashList(label string, n int) ([]types.Hash, string) {
	c := s.c
	hs := make([]types.Hash, 0, n)
	kind := c.OneOf(label+".comp", "known-seq", "known-scatter", "dup-one", "unknown", "mixed")
	start := c.Uint64(label+".start", 1, s.k)
	for i := 0; i < n; i++ {
		switch kind {
		case "known-seq":
			hs = append(hs, s.hashAt(1+(start-1+uint64(i))%s.k))
		case "known-scatter":
			hs = append(hs, s.hashAt(1+(start*uint64(i+1)*2654435761)%s.k))
		case "dup-one":
			hs = append(hs, s.hashAt(start))
		case "unknown":
			hs = append(hs, unknownHash(s.seed, uint64(i)))
		default:
			if i%2 == 0 {
				hs = append(hs, s.hashAt(1+(start-1+uint64(i))%s.k))
			} else {
				hs = append(hs, unknownHash(s.seed, uint64(i)))
			}
		}
	}
	return hs, fmt.Sprintf("%d hashes (%s from %d)", n, kind, start)
}

var blockCounts = []int{0, 1, 2, 5, 127, 128, 129, 200, 513, 1000, 10000}
var annCounts = []int{1, 2, 10, 255, 256, 257, 300, 1000}

// only faults that make the momentum invalid whatever the state ("retimed" and "content-reordered"
// re-signed by the elected producer can be other valid momentums: the harness holds every key)
var faultKinds = append([]string{}, sim.CertainFaults...)

func (s *session) momentumAt(h uint64) *nom.DetailedMomentum {
	if h >= 2 && h <= earlyTop {
		return sim.CopyDetailed(s.sh.early[h])
	}
	d := s.sh.a.Detailed(h)
	if d == nil {
		return nil
	}
	if h == 1 { // what SendBlocks puts on the wire for the genesis momentum
		d.Momentum.Content = nil
		d.AccountBlocks = nil
	}
	return sim.CopyDetailed(d)
}

// someBlock returns a user account block from A's early history.
func (s *session) someBlocks(label string) []*nom.AccountBlock {
	if s.k < 2 {
		return nil
	}
	h := uint64(s.c.Int(label+".m", 2, int(minU(s.k, earlyTop))))
	return s.sh.early[h].AccountBlocks
}

func (s *session) garbageMomentum(label string) *nom.DetailedMomentum {
	c := s.c
	pickLen := func(l string) int { return []int{0, 1, 31, 32, 33, 64, 65}[c.Pick(l, 7)] }
	hs := []uint64{0, 1, s.k, s.k + 1, s.k + 2, s.k + 33, 1 << 63, ^uint64(0)}
	m := &nom.Momentum{
		Version:         []uint64{1, 0, ^uint64(0)}[c.Pick(label+".ver", 3)],
		ChainIdentifier: []uint64{s.chainID, 0, s.chainID + 1}[c.Pick(label+".cid", 3)],
		Height:          hs[c.Pick(label+".height", len(hs))],
		TimestampUnix:   []uint64{sim.GenesisTimestamp + 10*s.k, 0, 1 << 63, ^uint64(0)}[c.Pick(label+".ts", 4)],
		Data:            bytes.Repeat([]byte{0xAB}, []int{0, 1, 100000}[c.Weighted(label+".data", 6, 2, 1)]),
		PublicKey:       bytes.Repeat([]byte{7}, pickLen(label+".pk")),
		Signature:       bytes.Repeat([]byte{9}, pickLen(label+".sig")),
	}
	m.Hash, _ = s.pickHash(label + ".hash")
	if c.Bool(label + ".prevFrontier") {
		m.PreviousHash = s.hashAt(s.k)
	} else {
		m.PreviousHash, _ = s.pickHash(label + ".prev")
	}
	nc := []int{0, 1, 3, 2000}[c.Weighted(label+".content", 4, 3, 2, 1)]
	for i := 0; i < nc; i++ {
		m.Content = append(m.Content, &types.AccountHeader{Address: s.sh.w.Keys.Users[i%4].Address,
			HashHeight: types.HashHeight{Hash: unknownHash(s.seed, uint64(i)), Height: uint64(i)}})
	}
	if c.Bool(label + ".selfHash") {
		m.Hash = m.ComputeHash()
	}
	d := &nom.DetailedMomentum{Momentum: m}
	switch c.Weighted(label+".abs", 4, 2, 1) {
	case 1:
		for _, b := range s.someBlocks(label + ".blk") {
			d.AccountBlocks = append(d.AccountBlocks, b.Copy())
		}
	case 2:
		for i := 0; i < 3; i++ {
			d.AccountBlocks = append(d.AccountBlocks, s.garbageBlock(fmt.Sprintf("%s.gb%d", label, i)))
		}
	}
	return d
}

func (s *session) garbageBlock(label string) *nom.AccountBlock {
	c := s.c
	src := s.someBlocks(label + ".src")
	var b *nom.AccountBlock
	if len(src) > 0 {
		b = src[c.Pick(label+".i", len(src))].Copy()
	} else {
		b = &nom.AccountBlock{Address: s.sh.w.Keys.Users[0].Address, Amount: bigInt(1)}
	}
	return s.mutateBlock(label, b)
}

func (s *session) mutateBlock(label string, b *nom.AccountBlock) *nom.AccountBlock {
	c := s.c
	muts := []string{"amount+1", "amount-huge", "pk-short", "pk-long", "pk-empty", "sig-empty", "sig-short", "height0", "height-max",
		"type0", "type-max", "type-contract-receive", "addr-zero", "addr-embedded", "to-embedded", "descendants", "data-big",
		"zts-zero", "ack-unknown", "ack-future", "from-unknown", "prev-unknown", "nonce", "plasma-max", "version0", "chain-id"}
	n := 1 + c.Weighted(label+".nmut", 5, 2, 1)
	for i := 0; i < n; i++ {
		switch mu := muts[c.Pick(label+".mut", len(muts))]; mu {
		case "amount+1":
			b.Amount = new(bigIntT).Add(b.Amount, bigInt(1))
		case "amount-huge":
			b.Amount = new(bigIntT).Lsh(bigInt(1), 300)
		case "pk-short":
			if len(b.PublicKey) > 0 {
				b.PublicKey = b.PublicKey[:len(b.PublicKey)-1]
			}
		case "pk-long":
			b.PublicKey = append(append([]byte{}, b.PublicKey...), 1)
		case "pk-empty":
			b.PublicKey = nil
		case "sig-empty":
			b.Signature = nil
		case "sig-short":
			if len(b.Signature) > 0 {
				b.Signature = b.Signature[:len(b.Signature)-1]
			}
		case "height0":
			b.Height = 0
		case "height-max":
			b.Height = ^uint64(0)
		case "type0":
			b.BlockType = 0
		case "type-max":
			b.BlockType = ^uint64(0)
		case "type-contract-receive":
			b.BlockType = nom.BlockTypeContractReceive
		case "addr-zero":
			b.Address = types.ZeroAddress
		case "addr-embedded":
			b.Address = types.TokenContract
		case "to-embedded":
			b.ToAddress = types.PillarContract
		case "descendants":
			d := b.Copy()
			d.DescendantBlocks = []*nom.AccountBlock{b.Copy()}
			b.DescendantBlocks = []*nom.AccountBlock{d, b.Copy()}
		case "data-big":
			b.Data = bytes.Repeat([]byte{0x5A}, 70000)
		case "zts-zero":
			b.TokenStandard = types.ZeroTokenStandard
		case "ack-unknown":
			b.MomentumAcknowledged = types.HashHeight{Hash: unknownHash(s.seed, 5), Height: s.k}
		case "ack-future":
			b.MomentumAcknowledged = types.HashHeight{Hash: s.hashAt(s.k), Height: s.k + 5}
		case "from-unknown":
			b.FromBlockHash = unknownHash(s.seed, 6)
		case "prev-unknown":
			b.PreviousHash = unknownHash(s.seed, 8)
		case "nonce":
			b.Nonce = nom.Nonce{Data: [8]byte{1, 2, 3, 4, 5, 6, 7, 8}}
			b.Difficulty = ^uint64(0)
		case "plasma-max":
			b.FusedPlasma = ^uint64(0)
			b.TotalPlasma = ^uint64(0)
		case "version0":
			b.Version = 0
		case "chain-id":
			b.ChainIdentifier++
		}
	}
	return b
}

// validOf: which of the carried momentums are unmodified momentums of A above the node's height
func (s *session) noteValid(m *hmsg, h uint64) {
	if h > s.k && h <= s.tip {
		m.valid = append(m.valid, h)
	}
}

// noteBlocks: the account blocks of A's momentum h travel with the message (also inside a
// momentum that is itself faulty): they are valid blocks the node may keep in its pool.
func (s *session) noteBlocks(m *hmsg, h uint64) {
	if h > s.k && h <= earlyTop {
		m.blocksOf = append(m.blocksOf, h)
	}
}

func (s *session) genValid(label string, kind string) *hmsg {
	c := s.c
	m := &hmsg{}
	switch kind {
	case "getHashes":
		h, hk := s.pickHash(label + ".hash")
		amt := s.pickAmount(label + ".amt")
		if hk == "unknown-hash" && atomic.LoadInt32(&exclUnknownGetHashes) == 1 {
			c.Excluded("C15/handler-panic:GetBlockHashes-with-unknown-hash")
			h, hk = s.hashAt(s.k), fmt.Sprintf("known@%d", s.k)
		}
		m.code, m.payload, m.shape, m.reaches = codeGetBlockHashes, mustEnc(wGetHashes{h, amt}), hk, true
		m.descr = fmt.Sprintf("GetBlockHashes{hash=%s (%s), amount=%d}", short(h), hk, amt)
	case "getHashesFrom":
		n, amt := s.pickNumber(label+".num"), s.pickAmount(label+".amt")
		if fromTriggers(n, amt, s.k) && atomic.LoadInt32(&exclFromRecompute) == 1 {
			c.Excluded("C15/reply-cap:FromNumber-amount-recomputed")
			amt = 512
			if n == 0 {
				n = 1
			}
		}
		m.code, m.payload, m.reaches = codeGetBlockHashesFrom, mustEnc(wGetHashesFrom{n, amt}), true
		m.fromN, m.fromM = n, amt
		if fromTriggers(n, amt, s.k) {
			m.shape = "recompute"
		}
		m.descr = fmt.Sprintf("GetBlockHashesFromNumber{number=%d, amount=%d} (node height %d)", n, amt, s.k)
	case "getBlocks":
		n := blockCounts[c.Pick(label+".n", len(blockCounts))]
		hs, d := s.hashList(label, n)
		m.code, m.payload, m.reaches = codeGetBlocks, encHashes(hs), n > 0
		m.descr = "GetBlocks[" + d + "]"
	case "blockHashes":
		n := []int{0, 1, 512, 513, 5000}[c.Pick(label+".n", 5)]
		hs, d := s.hashList(label, n)
		m.code, m.payload = codeBlockHashes, encHashes(hs)
		m.descr = "BlockHashes[" + d + "] (unsolicited)"
	case "newBlockHashes":
		n := annCounts[c.Pick(label+".n", len(annCounts))]
		var hs []types.Hash
		var d string
		if !s.onA && s.tip > s.k && c.Bool(label+".announceNext") {
			for h := s.k + 1; h <= s.tip && len(hs) < n; h++ {
				hs = append(hs, s.hashAt(h))
			}
			d = fmt.Sprintf("%d hashes (A's momentums %d..)", len(hs), s.k+1)
		} else {
			hs, d = s.hashList(label, n)
		}
		m.code, m.payload, m.reaches = codeNewBlockHashes, encHashes(hs), true
		m.descr = "NewBlockHashes[" + d + "]"
		for _, h := range hs { // will the fetcher come back for any of them?
			if ht, ok := s.heightOf[h]; !ok || ht > s.k {
				m.shape = "announces-unknown"
			}
		}
	case "blocks", "newBlock":
		var list []*nom.DetailedMomentum
		var ds []string
		cnt := 1
		if kind == "blocks" {
			cnt = []int{0, 1, 2, 4}[c.Weighted(label+".cnt", 1, 4, 2, 1)]
		}
		next := s.k + 1
		for i := 0; i < cnt; i++ {
			w := []int{3, 2, 2, 4, 3}
			if s.onA || s.tip <= s.k {
				w = []int{0, 0, 2, 4, 3}
			}
			switch c.Weighted(label+".var", w...) {
			case 0: // the next unmodified momentum of A
				if next <= s.tip {
					list = append(list, s.momentumAt(next))
					s.noteValid(m, next)
					s.noteBlocks(m, next)
					ds = append(ds, fmt.Sprintf("valid A[%d]", next))
					next++
					break
				}
				fallthrough
			case 1: // a later unmodified momentum of A
				h := s.k + uint64(c.Int(label+".ahead", 1, int(s.tip-s.k)))
				list = append(list, s.momentumAt(h))
				s.noteValid(m, h)
				s.noteBlocks(m, h)
				ds = append(ds, fmt.Sprintf("valid A[%d]", h))
			case 2: // a momentum the node already has
				h := c.Uint64(label+".old", 1, s.k)
				list = append(list, s.momentumAt(h))
				ds = append(ds, fmt.Sprintf("known A[%d]", h))
			case 3: // a momentum of A with one fault
				var h uint64
				if s.onA || s.tip <= s.k || c.Bool(label+".faultOld") {
					h = c.Uint64(label+".fh", 2, minU(s.k, earlyTop))
					if s.k < 2 {
						h = 0
					}
				} else {
					h = next
				}
				fk := faultKinds[c.Pick(label+".fault", len(faultKinds))]
				var d *nom.DetailedMomentum
				if h >= 2 {
					var extra *nom.AccountBlock
					if bs := s.sh.early[2+(h-1)%(earlyTop-1)].AccountBlocks; len(bs) > 0 && 2+(h-1)%(earlyTop-1) != h {
						extra = bs[0]
					}
					d = sim.InjectFault(s.momentumAt(h), fk, s.sh.w.Keys, extra)
					if d == nil {
						fk = "bad-signature"
						d = sim.InjectFault(s.momentumAt(h), fk, s.sh.w.Keys, nil)
					}
				}
				if d == nil {
					d = s.garbageMomentum(label + ".g")
					ds = append(ds, "fabricated momentum")
				} else {
					ds = append(ds, fmt.Sprintf("A[%d] with fault %s", h, fk))
					s.noteBlocks(m, h)
					if fk == "extra-account-block" || fk == "resigned-account-block" {
						m.tx = true // carries a valid block that is in no momentum of A
					}
				}
				list = append(list, d)
			default:
				list = append(list, s.garbageMomentum(label+".g"))
				g := list[len(list)-1].Momentum
				ds = append(ds, fmt.Sprintf("fabricated momentum{height=%d pk=%d sig=%d content=%d data=%d blocks=%d}", g.Height,
					len(g.PublicKey), len(g.Signature), len(g.Content), len(g.Data), len(list[len(list)-1].AccountBlocks)))
			}
		}
		if kind == "newBlock" {
			m.code, m.payload, m.reaches = codeNewBlock, mustEnc(list[0]), true
			m.descr = "NewBlock{" + ds[0] + "}"
		} else {
			m.code, m.payload = codeBlocks, mustEnc(list)
			m.descr = "Blocks[" + strings.Join(ds, ", ") + "] (unsolicited)"
		}
	case "tx":
		var txs []*nom.AccountBlock
		var d string
		w := []int{3, 2, 4, 2, 1, 1}
		if s.onA || s.tip <= s.k {
			w = []int{0, 2, 4, 0, 1, 1}
		}
		switch c.Weighted(label+".var", w...) {
		case 0: // the blocks of A's next momentum: valid on the node
			for _, b := range s.sh.early[s.k+1].AccountBlocks {
				txs = append(txs, b.Copy())
			}
			d = fmt.Sprintf("the %d account blocks of A[%d]", len(txs), s.k+1)
			s.noteBlocks(m, s.k+1)
		case 1: // blocks the node already has in its chain
			for _, b := range s.someBlocks(label + ".old") {
				txs = append(txs, b.Copy())
			}
			d = fmt.Sprintf("%d committed blocks", len(txs))
		case 2:
			n := 1 + c.Weighted(label+".n", 5, 2, 1)
			for i := 0; i < n; i++ {
				txs = append(txs, s.garbageBlock(fmt.Sprintf("%s.g%d", label, i)))
			}
			d = fmt.Sprintf("%d mutated blocks", n)
		case 3: // mutated and signed again with the owner's key (the harness holds every key)
			for _, b := range s.sh.early[s.k+1].AccountBlocks {
				nb := b.Copy()
				if kp := s.sh.w.Keys.ByAddr[nb.Address]; kp != nil && nb.BlockType == nom.BlockTypeUserSend {
					nb = s.mutateBlock(label+".rs", nb)
					if kp2 := s.sh.w.Keys.ByAddr[nb.Address]; kp2 != nil {
						sim.ResignBlock(nb, kp2)
					}
				}
				txs = append(txs, nb)
			}
			d = fmt.Sprintf("%d blocks of A[%d], user sends mutated and re-signed", len(txs), s.k+1)
			m.tx = true
		case 4:
			d = "no blocks"
		default:
			src := s.someBlocks(label + ".many")
			for i := 0; i < 500 && len(src) > 0; i++ {
				txs = append(txs, src[i%len(src)].Copy())
			}
			d = fmt.Sprintf("%d copies of committed blocks", len(txs))
		}
		m.code, m.payload, m.reaches = codeTx, mustEnc(txs), len(txs) > 0
		m.descr = "Tx[" + d + "]"
	case "status":
		st := s.status(s.k, s.hashAt(s.k))
		m.code, m.payload = codeStatus, mustEnc(st)
		m.descr = "Status (a second one, after the handshake)"
	default:
		panic("kind " + kind)
	}
	m.size = uint32(len(m.payload))
	return m
}

var validKinds = []string{"getHashes", "getHashesFrom", "getBlocks", "blockHashes", "newBlockHashes", "blocks", "newBlock", "tx", "status"}

// mirrorDecodes: does payload decode as the structure the handler expects for code (harness-side
// decode with the mirror types)? Used for the non-triviality rule of mutated payloads.
// streamDecode decodes like Msg.Decode does: one value from a stream, trailing bytes ignored.
func streamDecode(payload []byte, v interface{}) error {
	return rlp.NewStream(bytes.NewReader(payload), uint64(len(payload))).Decode(v)
}

func mirrorDecodes(code uint64, payload []byte) bool {
	var err error
	switch code {
	case codeGetBlockHashes:
		var v wGetHashes
		err = streamDecode(payload, &v)
	case codeGetBlockHashesFrom:
		var v wGetHashesFrom
		err = streamDecode(payload, &v)
	case codeGetBlocks, codeNewBlockHashes:
		var v []types.Hash
		err = streamDecode(payload, &v)
		if err == nil && len(v) == 0 {
			return false
		}
	case codeNewBlock:
		var v *nom.DetailedMomentum
		err = streamDecode(payload, &v)
	case codeTx:
		var v []*nom.AccountBlock
		err = streamDecode(payload, &v)
		if err == nil && len(v) == 0 {
			return false
		}
	default:
		return false
	}
	return err == nil
}

func mutateRLP(c *pbt.C, label string, b []byte) ([]byte, string) {
	b = append([]byte{}, b...)
	op := c.OneOf(label+".op", "truncate", "flip", "setbyte", "insert", "append", "wrap", "unwrap", "first-empty-list", "first-empty-string",
		"huge-length", "double", "drop-byte")
	pos := 0
	if len(b) > 0 {
		pos = c.Int(label+".pos", 0, len(b)-1)
	}
	switch op {
	case "truncate":
		b = b[:pos]
	case "flip":
		if len(b) > 0 {
			b[pos] ^= byte(1 << uint(c.Int(label+".bit", 0, 7)))
		}
	case "setbyte":
		if len(b) > 0 {
			b[pos] = []byte{0x80, 0xC0, 0xB8, 0xBF, 0xF8, 0xFF, 0x00, 0x81, 0xA0, 0xC1}[c.Pick(label+".val", 10)]
		}
	case "insert":
		ins := c.Bytes(label+".ins", 1, 8)
		b = append(b[:pos], append(ins, b[pos:]...)...)
	case "append":
		b = append(b, c.Bytes(label+".tail", 1, 16)...)
	case "wrap":
		b = append(listHeader(uint64(len(b))), b...)
	case "unwrap":
		if _, content, _, err := rlp.Split(b); err == nil {
			b = content
		}
	case "first-empty-list", "first-empty-string", "huge-length":
		if k, content, _, err := rlp.Split(b); err == nil && k == rlp.List {
			if _, _, rest, err := rlp.Split(content); err == nil {
				var first []byte
				switch op {
				case "first-empty-list":
					first = []byte{0xC0}
				case "first-empty-string":
					first = []byte{0x80}
				default:
					first = []byte{0xBB, 0xFF, 0xFF, 0xFF, 0xFF}
				}
				nc := append(first, rest...)
				b = append(listHeader(uint64(len(nc))), nc...)
			}
		}
	case "double":
		if k, content, _, err := rlp.Split(b); err == nil && k == rlp.List && len(content) < 1<<20 {
			nc := append(append([]byte{}, content...), content...)
			b = append(listHeader(uint64(len(nc))), nc...)
		}
	case "drop-byte":
		if len(b) > 0 {
			b = append(b[:pos], b[pos+1:]...)
		}
	}
	return b, fmt.Sprintf("%s@%d", op, pos)
}

const (
	exactCapHashes = (maxMsgSize - 4) / 33 // list of this many hashes is the largest that fits 10 MiB
)

func (s *session) genMessage(label string) *hmsg {
	c := s.c
	w := []int{5, 8, 7, 3, 7, 7, 10, 10, 1, 3, 16, 4, 6}
	if s.onA {
		w = []int{8, 16, 10, 2, 4, 3, 5, 5, 1, 2, 12, 3, 5}
	}
	switch k := c.Weighted(label+".kind", w...); {
	case k < len(validKinds):
		m := s.genValid(label, validKinds[k])
		c.Class("msg-valid-" + validKinds[k])
		return m
	case k == 9: // unknown code
		code := []uint64{9, 10, 15, 16, 17, 255, 256, 1 << 32, ^uint64(0)}[c.Pick(label+".code", 9)]
		var p []byte
		if c.Bool(label + ".list") {
			p = encHashes([]types.Hash{s.hashAt(1)})
		} else {
			p = c.Bytes(label+".p", 0, 32)
		}
		c.Class("msg-unknown-code")
		return &hmsg{code: code, payload: p, size: uint32(len(p)), descr: fmt.Sprintf("code %d with %s", code, clip(p, 16))}
	case k == 10: // RLP mutation of a valid payload
		base := s.genValid(label, validKinds[c.Pick(label+".base", len(validKinds)-1)])
		p, d := mutateRLP(c, label+".mut", base.payload)
		m := &hmsg{code: base.code, payload: p, size: uint32(len(p)), shape: "mutant"}
		m.reaches = mirrorDecodes(m.code, p)
		m.tx, m.blocksOf = base.tx, base.blocksOf
		m.descr = fmt.Sprintf("%s mutated (%s): %s", base.descr, d, clip(p, 24))
		if m.reaches {
			c.Class("msg-rlp-mutant-decodable")
			if bytes.Equal(p, base.payload) {
				m.valid, m.shape, m.fromN, m.fromM = base.valid, base.shape, base.fromN, base.fromM
			} else if m.code == codeGetBlockHashes {
				var v wGetHashes
				_ = streamDecode(p, &v)
				if h, ok := s.heightOf[v.Hash]; !ok || h > s.k {
					m.shape = "unknown-hash"
				}
			} else if m.code == codeGetBlockHashesFrom {
				var v wGetHashesFrom
				_ = streamDecode(p, &v)
				m.fromN, m.fromM = v.Number, v.Amount
				if fromTriggers(v.Number, v.Amount, s.k) {
					m.shape = "recompute"
				}
			}
			if (m.shape == "unknown-hash" && atomic.LoadInt32(&exclUnknownGetHashes) == 1) ||
				(m.shape == "recompute" && atomic.LoadInt32(&exclFromRecompute) == 1) {
				c.Excluded("known-shape-reached-by-mutation")
				base.descr += " (mutation dropped: it reproduces a known finding)"
				return base
			}
		} else {
			c.Class("msg-rlp-mutant-undecodable")
		}
		return m
	case k == 11: // random bytes
		code := uint64(c.Int(label+".code", 0, 8))
		p := c.Bytes(label+".p", 0, 64)
		c.Class("msg-random-bytes")
		m := &hmsg{code: code, payload: p, size: uint32(len(p)), descr: fmt.Sprintf("%s with random payload %x", codeName(code), p)}
		m.reaches = mirrorDecodes(code, p)
		if m.reaches && code == codeGetBlockHashes {
			m.shape = "unknown-hash"
		}
		if m.reaches && code == codeGetBlockHashesFrom {
			var v wGetHashesFrom
			_ = streamDecode(p, &v)
			if fromTriggers(v.Number, v.Amount, s.k) {
				m.shape = "recompute"
			}
		}
		if (m.shape == "unknown-hash" && atomic.LoadInt32(&exclUnknownGetHashes) == 1) ||
			(m.shape == "recompute" && atomic.LoadInt32(&exclFromRecompute) == 1) {
			c.Excluded("known-shape-reached-by-random-bytes")
			m.code = codeTx
			m.reaches = mirrorDecodes(m.code, p)
			m.shape = ""
			m.descr = fmt.Sprintf("%s with random payload %x", codeName(m.code), p)
		}
		return m
	default: // size games
		code := uint64(c.Int(label+".code", 0, 8))
		m := &hmsg{code: code}
		switch mode := c.OneOf(label+".size", "fake-over", "fake-over-max", "real-over", "exact-cap", "declared-smaller", "declared-larger"); mode {
		case "fake-over", "fake-over-max":
			base := s.genValid(label, "getBlocks")
			m.payload = base.payload
			m.size = maxMsgSize + 1 + uint32(c.Int(label+".delta", 0, 1<<20))
			if mode == "fake-over-max" {
				m.size = ^uint32(0)
			}
			m.over = true
			m.descr = fmt.Sprintf("%s declaring %d bytes (> 10 MiB), %d bytes present", codeName(code), m.size, len(m.payload))
		case "real-over":
			n := uint64(exactCapHashes + 1 + c.Int(label+".extra", 0, 100000))
			hsr := newHashStream(n, s.seed, nil)
			m.stream, m.size, m.over = hsr, uint32(hsr.total()), true
			m.descr = fmt.Sprintf("%s with a list of %d hashes = %d bytes (> 10 MiB)", codeName(code), n, m.size)
		case "exact-cap":
			var known []types.Hash
			if c.Bool(label + ".known") {
				for h := uint64(1); h <= minU(s.k, 200); h++ {
					known = append(known, s.hashAt(h))
				}
			}
			n := uint64(exactCapHashes - c.Int(label+".less", 0, 3))
			if (code == codeGetBlocks && known == nil) || code == codeNewBlockHashes {
				// every hash costs the node one or two store views (~0.1 ms each); a full 10 MiB list
				// keeps the handler busy for more than the liveness deadline (see the report)
				n = uint64(pbt.Scale(6000, 30000))
			}
			hsr := newHashStream(n, s.seed, known)
			m.stream, m.size = hsr, uint32(hsr.total())
			m.reaches = code == codeGetBlocks || code == codeNewBlockHashes
			m.descr = fmt.Sprintf("%s with a list of %d hashes = %d bytes (<= 10 MiB, known=%v)", codeName(code), n, m.size, known != nil)
		case "declared-smaller":
			base := s.genValid(label, validKinds[c.Pick(label+".base", len(validKinds)-1)])
			m.code, m.payload = base.code, base.payload
			m.tx, m.blocksOf, m.valid = base.tx, base.blocksOf, base.valid
			cut := c.Int(label+".cut", 1, 40)
			if cut > len(m.payload) {
				cut = len(m.payload)
			}
			m.size = uint32(len(m.payload) - cut)
			m.descr = fmt.Sprintf("%s declaring %d of its %d bytes", base.descr, m.size, len(m.payload))
		default:
			base := s.genValid(label, validKinds[c.Pick(label+".base", len(validKinds)-1)])
			m.code, m.payload = base.code, base.payload
			m.tx, m.blocksOf, m.valid = base.tx, base.blocksOf, base.valid
			m.shape, m.fromN, m.fromM = base.shape, base.fromN, base.fromM
			m.size = uint32(len(m.payload) + c.Int(label+".more", 1, 5000))
			m.descr = fmt.Sprintf("%s declaring %d bytes, %d present", base.descr, m.size, len(m.payload))
		}
		c.Class("msg-size-game")
		return m
	}
}

type bigIntT = big.Int

func bigInt(v int64) *big.Int { return big.NewInt(v) }

func minU(a, b uint64) uint64 {
	if a < b {
		return a
	}
	return b
}

// ---- the responder: answers the node's own requests on the hostile connection ------------------------

func (s *session) startResponder(ep *endpoint) {
	if ep.reqs == nil || s.policy == "silent" {
		return
	}
	s.respStop, s.respDone = make(chan struct{}), make(chan struct{})
	go func() {
		defer close(s.respDone)
		n, n512 := 0, 0
		for {
			select {
			case <-s.respStop:
				return
			case <-ep.done:
				return
			case rq := <-ep.reqs:
				n++
				if rq.code == codeGetBlockHashesFrom {
					var q wGetHashesFrom
					if rlp.DecodeBytes(rq.data, &q) == nil && q.Amount == maxHashReply {
						n512++ // full-size hash requests: #1 = ancestor lookup (head), #2.. = hash download
					}
				}
				if s.hold != nil && s.holdsThis(rq, n512) {
					// the answer is handed over only when the main flow says so
					s.heldRq = fmt.Sprintf("%s %s (full-size hash request #%d)", codeName(rq.code), clip(rq.data, 12), n512)
					s.holdOnce.Do(func() { close(s.holding) })
					select {
					case <-s.hold:
					case <-s.respStop:
						return
					case <-ep.done:
						return
					}
				}
				code, payload := s.answer(rq, n)
				if payload == nil {
					continue
				}
				nv, _ := rlp.CountValues(listContent(payload))
				s.respMu.Lock()
				if len(s.respLog) < 40 {
					s.respLog = append(s.respLog, fmt.Sprintf("[+%dms] node asked %s (%s); answered by policy %q with %s of %d items", time.Since(s.t0).Milliseconds(), codeName(rq.code), clip(rq.data, 12), s.policy, codeName(code), nv))
				}
				s.respMu.Unlock()
				if o := ep.deliverBytes(code, payload, fmt.Sprintf("responder (%s) answering %s with %s of %d bytes", s.policy, codeName(rq.code), codeName(code), len(payload))); o == stalled || o == blocked {
					return // the main flow reports a verdict (unreportedBlocks)
				}
			}
		}
	}()
}

// holdsThis: which request of the node the responder answers only on release.
//
//	"" (during-sync history): the momentum request that comes last — hashes arrive in descending
//	   order, so that is the one for the lowest height; by then nothing is left to request from others;
//	"ancestor":     the first full-size hash request of a cycle (findAncestor's look at the head);
//	"hash-phase-1": the first full-size hash request after it (fetchHashes' first request; the
//	   single-hash requests in between are findAncestor's binary search);
//	"hash-phase-2": the next one (by then the hashes of the first answer are scheduled).
func (s *session) holdsThis(rq rxMsg, n512 int) bool {
	switch s.holdWhat {
	case "":
		return rq.code == codeGetBlocks && bytes.Contains(rq.data, s.hashAt(s.k0).Bytes())
	case "ancestor", "hash-phase-1", "hash-phase-2":
		if rq.code != codeGetBlockHashesFrom {
			return false
		}
		var q wGetHashesFrom
		if rlp.DecodeBytes(rq.data, &q) != nil || q.Amount != maxHashReply {
			return false
		}
		return n512 == map[string]int{"ancestor": 1, "hash-phase-1": 2, "hash-phase-2": 3}[s.holdWhat]
	}
	return false
}

func (s *session) stopResponder() {
	if s.respStop != nil {
		close(s.respStop)
		<-s.respDone
		s.respStop = nil
	}
	s.respMu.Lock()
	for _, l := range s.respLog {
		s.note("  responder: %s", l)
	}
	s.respLog = nil
	s.respMu.Unlock()
}

// answer computes the reply to one request of the node; all choices are functions of the
// pre-drawn policy and the request (the responder goroutine draws nothing).
func (s *session) answer(rq rxMsg, n int) (uint64, []byte) {
	atomic.AddInt64(&answered, 1)
	return s.answerAs(s.policy, rq)
}

// answerAs computes the reply under the given policy (s.policy is read-only while responders run).
func (s *session) answerAs(policy string, rq rxMsg) (uint64, []byte) {
	switch rq.code {
	case codeGetBlockHashesFrom:
		var q wGetHashesFrom
		if rlp.DecodeBytes(rq.data, &q) != nil {
			return 0, nil
		}
		var hs []types.Hash
		switch policy {
		case "garbage":
			for i := uint64(0); i < q.Amount && i < 600; i++ {
				hs = append(hs, unknownHash(s.seed, 100000+i))
			}
		case "empty":
		case "too-many":
			for i := uint64(0); i < 3000; i++ {
				hs = append(hs, s.hashAt(1+i%s.tip))
			}
		case "raw":
			return codeBlockHashes, []byte{0xF8, 0xFF, 0x01, 0x02}
		default: // honest about A[1..tip]
			last := q.Number + q.Amount - 1
			if last > s.tip {
				last = s.tip
			}
			first := q.Number
			if first == 0 {
				first = 1
			}
			for h := first; h <= last && q.Amount > 0; h++ {
				hs = append(hs, s.hashAt(h))
			}
			for i := 0; i < len(hs)/2; i++ { // the order the node's own handler uses
				hs[i], hs[len(hs)-1-i] = hs[len(hs)-1-i], hs[i]
			}
		}
		return codeBlockHashes, encHashes(hs)
	case codeGetBlocks:
		var q []types.Hash
		if rlp.DecodeBytes(rq.data, &q) != nil {
			return 0, nil
		}
		var out []*nom.DetailedMomentum
		for i, h := range q {
			ht, ok := s.heightOf[h]
			if !ok || ht > s.tip || len(out) >= maxBlockReply {
				continue
			}
			d := s.momentumAt(ht)
			switch policy {
			case "mutated":
				if ht > s.k && i == 0 {
					if f := sim.InjectFault(d, s.polFault, s.sh.w.Keys, nil); f != nil {
						d = f
					}
				}
			case "wrong-blocks":
				d = s.momentumAt(1 + (ht % s.tip))
			case "height-shift": // the requested hash with another claimed height (the queue files by height)
				if ht > s.k {
					switch s.polShift {
					case 1: // below the origin of the sync cycle
						d.Momentum.Height = 0
					case 2:
						if s.k > 0 {
							d.Momentum.Height = s.k - uint64(i)%(s.k+1)
						} else {
							d.Momentum.Height = 0
						}
					case 3:
						d.Momentum.Height = 1<<63 + uint64(i)
					case 4:
						d.Momentum.Height = ^uint64(0) - uint64(i%2)
					default:
						d.Momentum.Height += 1 + uint64(i%2)
					}
				}
			case "too-many":
				for j := 0; j < 3; j++ {
					out = append(out, s.momentumAt(ht))
				}
			}
			out = append(out, d)
		}
		switch policy {
		case "garbage", "empty":
			out = nil
		case "raw":
			return codeBlocks, []byte{0xC3, 0xC2, 0xC1, 0x80}
		}
		return codeBlocks, mustEnc(out)
	case codeGetBlockHashes:
		return codeBlockHashes, encHashes(nil)
	}
	return 0, nil
}

var answered int64

// ---- the honest peer -------------------------------------------------------------------------------------

func (s *session) connectHonest() bool {
	c := s.c
	ep, ok := connect(s.pm, "honest", 0xAA, true)
	s.addEp(ep)
	if !ok {
		s.aborted = true
		inconclusive(c, "honest peer: protocol function did not reach its first read", dumpAll())
		return false
	}
	o := ep.deliverBytes(codeStatus, mustEnc(s.status(1, s.hashAt(1))), "honest status")
	s.note("honest peer connects with a valid status -> %v", o)
	atomic.StoreUint64(&ep.claimTD, 1)
	if o == blocked {
		s.aborted = true
		s.blockedFail(ep, "the honest peer's status")
		return false
	}
	if o == stalled {
		s.aborted = true
		inconclusive(c, "honest handshake made no progress", dumpAll())
		return false
	}
	if o != delivered {
		if ep.res.panicked {
			c.Failf("C15/handler-panic/honest-handshake", "panic while an honest peer connects: %v\n%s", ep.res.pval, trim(ep.res.stack, 3000))
		}
		c.Failf("C15/honest-refused", "an honest peer with a valid status was dropped: %v", ep.res.err)
		return false
	}
	s.honest = ep
	ep.answerEmpty()
	return true
}

// honestAsk sends a well-formed request and returns the reply of the expected code.
func (s *session) honestAsk(code uint64, payload []byte, want uint64, descr string) ([]byte, bool) {
	c := s.c
	ep := s.honest
	ep.fresh()
	c.Checkpoint()
	o := ep.deliverBytes(code, payload, descr)
	if o == blocked {
		s.aborted = true
		s.blockedFail(ep, "the honest peer's "+descr)
		return nil, false
	}
	if o == stalled {
		s.aborted = true
		inconclusive(c, "honest request got no progress: "+descr+" (not classified as blocked: "+ep.whyNot+")", dumpAll())
		return nil, false
	}
	if o == dropped {
		if ep.res.panicked {
			c.Failf("C15/handler-panic/honest-"+codeName(code), "handler panic on the honest peer's %s: %v\n%s", descr, ep.res.pval, trim(ep.res.stack, 3000))
			return nil, false
		}
		c.Failf("C15/honest-dropped", "the honest peer was dropped on %s: %v", descr, ep.res.err)
		return nil, false
	}
	var reply []byte
	found := false
	for _, m := range ep.fresh() {
		if m.over {
			c.Failf("C15/reply-cap/size", "node sent %d bytes to the honest peer", m.size)
		}
		if m.code == want && !found {
			reply, found = m.data, true
		}
	}
	if !found {
		c.Failf("C15/honest-unanswered", "the node did not answer the honest peer's %s (it went back to reading)", descr)
		return nil, false
	}
	return reply, true
}

func (s *session) honestChecks() {
	c := s.c
	h0 := s.node.Height()
	// 1. hashes by number
	from := c.Uint64("honest.from", 1, h0)
	amt := uint64([]int{1, 2, 16, 128, 512}[c.Pick("honest.amt", 5)])
	descr := fmt.Sprintf("GetBlockHashesFromNumber{%d,%d}", from, amt)
	if reply, ok := s.honestAsk(codeGetBlockHashesFrom, mustEnc(wGetHashesFrom{from, amt}), codeBlockHashes, descr); ok {
		var got []types.Hash
		if err := rlp.DecodeBytes(reply, &got); err != nil {
			c.Failf("C15/honest-wrong-answer", "reply to %s does not decode: %v", descr, err)
		}
		h1 := s.node.Height()
		okLen := false
		for h := h0; h <= h1; h++ { // the node may be importing delivered momentums meanwhile
			want := amt
			if from+amt-1 > h {
				want = h - from + 1
			}
			if uint64(len(got)) == want {
				okLen = true
			}
		}
		if !okLen {
			c.Failf("C15/honest-wrong-answer", "%s on a chain of height %d..%d answered with %d hashes", descr, h0, h1, len(got))
		}
		// the hashes of heights from..from+len-1, in one consistent direction (the handler's comment
		// promises ascending; the implementation sends them descending, which its own downloader
		// accepts because it files momentums by their height)
		asc, desc := true, true
		for i, g := range got {
			if g != s.hashAt(from+uint64(i)) {
				asc = false
			}
			if g != s.hashAt(from+uint64(len(got)-1-i)) {
				desc = false
			}
		}
		if !asc && !desc {
			c.Failf("C15/honest-wrong-answer", "%s: the %d hashes are not those of heights %d..%d (first %s, last %s)", descr, len(got), from,
				from+uint64(len(got))-1, short(got[0]), short(got[len(got)-1]))
		}
		if desc && !asc {
			c.R.Count("honest_hash_replies_descending", 1)
		}
		s.note("honest %s -> %d correct hashes (ascending=%v)", descr, len(got), asc)
	}
	if s.aborted {
		return
	}
	// 2. momentums by hash
	n := 1 + c.Int("honest.nblocks", 0, 5)
	var hs []types.Hash
	var heights []uint64
	for i := 0; i < n; i++ {
		h := c.Uint64("honest.bh", 1, h0)
		heights = append(heights, h)
		hs = append(hs, s.hashAt(h))
	}
	descr = fmt.Sprintf("GetBlocks%v", heights)
	if reply, ok := s.honestAsk(codeGetBlocks, encHashes(hs), codeBlocks, descr); ok {
		var got []*nom.DetailedMomentum
		if err := rlp.DecodeBytes(reply, &got); err != nil {
			c.Failf("C15/honest-wrong-answer", "reply to %s does not decode: %v", descr, err)
		}
		if len(got) != n {
			c.Failf("C15/honest-wrong-answer", "%s answered with %d momentums", descr, len(got))
		}
		for i, d := range got {
			m := d.Momentum
			if m.Hash != hs[i] || m.Height != heights[i] {
				c.Failf("C15/honest-wrong-answer", "%s: element %d is momentum %d/%s", descr, i, m.Height, short(m.Hash))
			}
			if m.Height == 1 {
				continue // the genesis momentum travels without its content
			}
			if m.ComputeHash() != m.Hash {
				c.Failf("C15/honest-wrong-answer", "%s: element %d does not hash to its own hash", descr, i)
			}
			if len(d.AccountBlocks) != len(m.Content) {
				c.Failf("C15/honest-wrong-answer", "%s: element %d has %d blocks for %d content entries", descr, i, len(d.AccountBlocks), len(m.Content))
			}
			for j, b := range d.AccountBlocks {
				if b.Hash != m.Content[j].Hash || b.ComputeHash() != b.Hash {
					c.Failf("C15/honest-wrong-answer", "%s: element %d block %d does not match the momentum content", descr, i, j)
				}
			}
		}
		s.note("honest %s -> %d correct momentums", descr, len(got))
	}
}

// ---- fingerprint -----------------------------------------------------------------------------------------

func poolHashes(n *sim.Node) string {
	var hs []string
	for _, b := range n.Chain.GetAllUncommittedAccountBlocks() {
		hs = append(hs, b.Hash.String())
	}
	sort.Strings(hs)
	return strings.Join(hs, ",")
}

// ---- the property -------------------------------------------------------------------------------------------

func TestC15Session(t *testing.T) {
	pbt.Check(t, "C15", sessionProp)
}

func sessionProp(c *pbt.C) {
	tcase := time.Now()
	defer func() { c.R.Count("ms_case", int(time.Since(tcase).Milliseconds())) }()
	sh := world()
	s := &session{c: c, sh: sh, validSet: map[uint64]bool{}, poolOK: map[types.Hash]bool{}, goodBlk: map[types.Hash]bool{}, t0: time.Now()}
	s.seed = c.Uint64("seed", 0, 1<<32)
	s.onA = c.Weighted("target", 60, 40) == 1
	if s.onA {
		s.node, s.k, s.tip = sh.a, sh.height, sh.height
		c.Class("target-long-chain")
	} else {
		s.k = uint64(c.Int("followerHeight", 1, 10))
		s.tip = s.k + uint64(c.Int("claimedAhead", 0, 5))
		b := sh.w.AddNode("B", false)
		s.node = b
		if s.k > 1 {
			if _, err := b.Bridge.InsertChain(sh.a.Range(2, s.k)); err != nil {
				sh.w.Drop(b)
				c.Failf("C15/setup", "follower cannot sync the honest prefix: %v", err)
			}
		}
		c.Class("target-follower")
	}
	s.k0 = s.k
	s.heightOf = map[types.Hash]uint64{}
	top := s.tip
	for h := uint64(1); h <= top; h++ {
		s.heightOf[sh.hashes[h]] = h
	}
	s.chainID = s.node.Chain.ChainIdentifier()
	s.genesis = sh.hashes[1]
	frontier0 := s.node.Frontier().Hash
	pool0 := poolHashes(s.node)
	dump0 := ""
	if !s.onA {
		dump0 = s.node.Dump()
	}
	minPeers := c.Int("minPeers", 0, 1)
	s.pm = protocol.NewProtocolManager(minPeers, s.chainID, s.node.Bridge)
	s.pm.Start()
	s.note("node %s at height %d (hostile peer can present A up to %d), manager started with minPeers=%d", s.node.Name, s.k, s.tip, minPeers)

	defer s.teardown()
	defer func() {
		if s.trace || traceClass == "all" {
			fmt.Fprintf(os.Stderr, "---- case\n%s\n", strings.Join(s.tr, "\n"))
		}
		if traceClass == "fail" {
			if r := recover(); r != nil {
				s.stopResponder()
				fmt.Fprintf(os.Stderr, "---- failing case (%v)\n%s\n", r, strings.Join(s.tr, "\n"))
				panic(r)
			}
		}
	}()

	honestFirst := c.Bool("honestFirst")
	if honestFirst {
		if !s.connectHonest() {
			return
		}
	}
	if !s.onA {
		s.policy = c.OneOf("policy", "silent", "honest", "honest", "mutated", "mutated", "garbage", "empty", "too-many", "wrong-blocks", "height-shift", "raw")
		s.polFault = faultKinds[c.Pick("policy.fault", len(faultKinds))]
		s.polShift = c.Pick("policy.shift", 5)
		if s.policy == "honest" || s.policy == "mutated" || s.policy == "too-many" {
			for h := s.k + 1; h <= s.tip; h++ { // the responder may hand over A[k+1..tip]
				s.validSet[h] = true
			}
		}
		if s.policy == "wrong-blocks" {
			for h := s.k + 1; h <= s.tip; h++ {
				s.validSet[h] = true
			}
		}
		if s.policy != "silent" && s.policy != "garbage" && s.policy != "empty" && s.policy != "raw" {
			for h := s.k + 1; h <= s.tip; h++ {
				for _, b := range sh.early[h].AccountBlocks {
					s.poolOK[b.Hash] = true
					s.goodBlk[b.Hash] = true
				}
			}
		}
	} else {
		s.policy = "silent"
	}

	// --- the hostile connection(s)
	hs := c.OneOf("handshake", "valid", "valid", "valid", "valid", "valid", "wrong-network", "wrong-genesis", "wrong-version", "not-status",
		"garbage", "oversize", "truncated", "none", "td-ahead")
	c.Class("handshake-" + hs)
	if !s.hostConnect(hs) {
		return
	}
	nmsg := c.Int("messages", 1, 8)
	for i := 0; i < nmsg && !s.aborted; i++ {
		if s.host == nil || s.host.gone() {
			// a dropped peer comes back under a new identity with a valid status
			if !s.hostConnect("valid") {
				return
			}
		}
		m := s.genMessage(fmt.Sprintf("m%d", i))
		if !s.sendHostile(m) {
			return
		}
		if !s.onA && m.code == codeNewBlockHashes && m.shape == "announces-unknown" && c.Weighted(fmt.Sprintf("m%d.awaitFetch", i), 3, 1) == 1 && !s.host.gone() {
			// let the fetcher come back for the announced momentums (the responder answers by policy)
			t0 := time.Now()
			if s.host.waitRx(func(r rxMsg) bool { return r.code == codeGetBlocks }, 1200*time.Millisecond) {
				c.Class("fetcher-requested-announced")
			}
			c.R.Count("ms_await_fetch", int(time.Since(t0).Milliseconds()))
			s.checkOutgoing(s.host, "an announcement", -1, false)
		}
	}
	if s.aborted {
		return
	}
	s.stopResponder()
	if !honestFirst {
		if !s.connectHonest() {
			return
		}
	}
	if !s.finish(frontier0, pool0, dump0) {
		return
	}
	if s.reached > 0 {
		c.NonTrivial()
	}
	c.R.Count("messages", s.msgNo)
	c.R.Count("messages_reaching_lookup", s.reached)
}

// finish: barrier, liveness probe by the honest peer, shutdown, state oracle. frontier0 / pool0 /
// dump0 describe the node when the session began (height s.k0). It returns false if the session was
// aborted (inconclusive wait).
func (s *session) finish(frontier0 types.Hash, pool0, dump0 string) bool {
	c := s.c
	s.stopResponder()
	if s.honest == nil || s.honest.gone() {
		if !s.connectHonest() {
			return false
		}
	}
	// barrier: every import started by what was delivered has finished
	c.Checkpoint()
	if o := s.honest.deliverBytes(codeBlocks, []byte{0xC0}, "empty BlocksMsg (barrier)"); o != delivered {
		if o == blocked {
			s.aborted = true
			s.blockedFail(s.honest, "the honest peer's empty BlocksMsg")
			return false
		}
		if o == stalled {
			s.aborted = true
			inconclusive(c, "barrier message made no progress (not classified as blocked: "+s.honest.whyNot+")", dumpAll())
			return false
		}
		if s.honest.res.panicked {
			c.Failf("C15/handler-panic/honest-Blocks", "handler panic on an empty BlocksMsg of the honest peer: %v\n%s", s.honest.res.pval, trim(s.honest.res.stack, 3000))
		}
		c.Failf("C15/honest-dropped", "the honest peer was dropped on an empty BlocksMsg: %v", s.honest.res.err)
		return false
	}
	tb := time.Now()
	okImp, g := waitNone(importing)
	c.R.Count("ms_import_barrier", int(time.Since(tb).Milliseconds()))
	if ok := okImp; !ok {
		s.aborted = true
		inconclusive(c, "imports still running", g)
		return false
	}
	s.honestChecks()
	if s.aborted {
		return false
	}
	s.unreportedPanics()
	s.unreportedBlocks()
	for _, ep := range s.eps {
		s.checkOutgoing(ep, "the session", -1, false)
	}
	// --- state, read after the manager and everything it started have come to rest
	if !s.shutdown() {
		s.aborted = true
		return false
	}
	s.unreportedPanics()
	fr := s.node.Frontier()
	hNow, fNow := fr.Height, fr.Hash
	switch {
	case fNow == frontier0:
		if !s.txValid {
			was := map[string]bool{}
			for _, h := range strings.Split(pool0, ",") {
				was[h] = true
			}
			for _, b := range s.node.Chain.GetAllUncommittedAccountBlocks() {
				if !was[b.Hash.String()] && !s.poolOK[b.Hash] {
					c.Failf("C15/state-changed", "the node holds uncommitted block %v (type %d, %v height %d) that is no valid block delivered by the peer",
						b.Hash, b.BlockType, b.Address, b.Height)
				}
			}
			if len(s.poolOK) == 0 {
				if p := poolHashes(s.node); p != pool0 {
					c.Failf("C15/state-changed", "uncommitted blocks changed without a valid block having been delivered: %q -> %q", pool0, p)
				}
			}
		}
		if !s.onA {
			if d := s.node.Dump(); d != dump0 {
				c.Failf("C15/state-changed", "the node's store changed although its frontier did not: %s", firstDiff(dump0, d))
			}
		}
	case hNow > s.k0 && s.allValid(hNow) && fNow == s.hashAt(hNow):
		c.Class("node-imported-valid-momentums")
		s.note("node advanced %d -> %d on momentums of A delivered by the peer", s.k0, hNow)
		// its store equals that of a follower that was handed exactly A[2..hNow] and nothing else
		ref := s.sh.w.AddNode("R", false)
		_, rerr := ref.Bridge.InsertChain(s.sh.a.Range(2, hNow))
		rd := ref.Dump()
		s.sh.w.Drop(ref)
		if rerr != nil {
			c.Failf("C15/setup", "reference follower cannot sync A[2..%d]: %v", hNow, rerr)
		}
		if d := s.node.Dump(); d != rd {
			c.Failf("C15/state-changed", "after importing A[%d..%d] from the hostile peer the node's store differs from a follower that only saw the honest chain: %s",
				s.k0+1, hNow, firstDiff(rd, d))
		}
	default:
		c.Failf("C15/state-changed", "node went from %d/%s to %d/%s; momentums of A handed over unmodified by the peer: heights %v (with all their account blocks: %v)",
			s.k0, short(frontier0), hNow, short(fNow), s.validHeights(), s.allValid(hNow))
	}
	return true
}

// allValid: the peer handed over, unmodified, every momentum of A from the node's height up to
// upTo and every account block they commit to (in the same message or in another one).
func (s *session) allValid(upTo uint64) bool {
	for h := s.k0 + 1; h <= upTo; h++ {
		if !s.validSet[h] || h > earlyTop {
			return false
		}
		for _, b := range s.sh.early[h].AccountBlocks {
			if !s.goodBlk[b.Hash] {
				return false
			}
		}
	}
	return true
}

func (s *session) validHeights() []uint64 {
	var out []uint64
	for h := range s.validSet {
		out = append(out, h)
	}
	sort.Slice(out, func(i, j int) bool { return out[i] < out[j] })
	return out
}

// unreportedPanics: a handler that panicked while the responder (not the main flow) was writing
func (s *session) unreportedPanics() {
	for _, ep := range s.eps {
		if ep.gone() && ep.res.panicked && !ep.told {
			ep.told = true
			s.c.Failf("C15/handler-panic/responder", "handler panic on %s after %s: %v\n%s", ep.name, ep.lastDescr(), ep.res.pval, trim(ep.res.stack, 3000))
		}
	}
}

func firstDiff(a, b string) string {
	la, lb := strings.Split(a, "\n"), strings.Split(b, "\n")
	for i := 0; i < len(la) || i < len(lb); i++ {
		var x, y string
		if i < len(la) {
			x = la[i]
		}
		if i < len(lb) {
			y = lb[i]
		}
		if x != y {
			return fmt.Sprintf("line %d: %q vs %q", i, trim(x, 200), trim(y, 200))
		}
	}
	return "equal"
}

// hostConnect opens a hostile connection and performs the chosen handshake variant. It returns
// false if the session must end (liveness wait expired).
func (s *session) hostConnect(kind string) bool {
	c := s.c
	s.stopResponder()
	ep, ok := connect(s.pm, "hostile", 0xEE, !s.onA)
	s.addEp(ep)
	s.host = ep
	if !ok {
		s.aborted = true
		inconclusive(c, "protocol function did not reach its first read", dumpAll())
		return false
	}
	st := s.status(s.k, s.hashAt(s.k))
	var code uint64 = codeStatus
	var payload []byte
	size := -1
	switch kind {
	case "valid":
		st.TD = uint64(c.Int("status.td", 0, int(s.k)))
		payload = mustEnc(st)
	case "td-ahead":
		st.TD = []uint64{s.tip, s.k + 1000, ^uint64(0)}[c.Pick("status.tdAhead", 3)]
		st.CurrentBlock = s.hashAt(s.tip)
		if c.Bool("status.unknownHead") {
			st.CurrentBlock = unknownHash(s.seed, 99)
		}
		payload = mustEnc(st)
	case "wrong-network":
		st.NetworkId++
		payload = mustEnc(st)
	case "wrong-genesis":
		st.GenesisBlock = unknownHash(s.seed, 1)
		payload = mustEnc(st)
	case "wrong-version":
		st.ProtocolVersion = uint32(c.Int("status.version", 0, 100))
		payload = mustEnc(st)
	case "not-status":
		code = uint64(c.Int("status.code", 1, 9))
		payload = mustEnc(st)
	case "garbage":
		payload = c.Bytes("status.bytes", 0, 48)
	case "oversize":
		payload = mustEnc(st)
		size = maxMsgSize + 1
	case "truncated":
		payload = mustEnc(st)
		payload = payload[:c.Int("status.cut", 0, len(payload)-1)]
	case "none":
		s.note("hostile peer connects and closes without a status")
		ep.close()
		return true
	}
	if size < 0 {
		size = len(payload)
	}
	c.Checkpoint()
	atomic.StoreUint64(&ep.claimTD, st.TD)
	o := ep.deliver(code, uint32(size), bytes.NewReader(payload), "handshake "+kind)
	s.note("hostile peer %x connects, handshake %s (code %d, %s) -> %v (%v)", ep.id[:3], kind, code, clip(payload, 12), o, ep.res.err)
	if !s.afterDeliver(ep, o, codeStatus, "handshake", "handshake "+kind) {
		return false
	}
	s.checkOutgoing(ep, "the handshake", -1, false)
	if o == delivered {
		c.R.Count("handshake_accepted_"+kind, 1)
		s.startResponder(ep)
	} else {
		c.R.Count("handshake_rejected_"+kind, 1)
	}
	return true
}

// sendHostile delivers one generated message on the hostile connection and applies the
// per-message oracles. It returns false if the session must end.
// scan finds, with the node's own leniency (one value, trailing bytes ignored), what a message
// hands over that the node may legitimately keep: momentums byte-identical to A's above the node's
// height, and account blocks with the hash of a block of those momentums.
func (s *session) scan(m *hmsg) {
	if m.payload == nil || m.over {
		return
	}
	p := m.payload
	if int(m.size) < len(p) {
		p = p[:m.size]
	}
	var ds []*nom.DetailedMomentum
	var bs []*nom.AccountBlock
	switch m.code {
	case codeNewBlock:
		var d *nom.DetailedMomentum
		if streamDecode(p, &d) == nil && d != nil {
			ds = append(ds, d)
		}
	case codeBlocks:
		_ = streamDecode(p, &ds)
	case codeTx:
		_ = streamDecode(p, &bs)
	}
	for _, d := range ds {
		if d == nil || d.Momentum == nil {
			continue
		}
		bs = append(bs, d.AccountBlocks...)
		if h, ok := s.heightOf[d.Momentum.Hash]; ok && h > s.k && h <= s.tip && h <= earlyTop {
			if bytes.Equal(mustEnc(d.Momentum), mustEnc(s.sh.early[h].Momentum)) {
				s.validSet[h] = true
			}
		}
	}
	for _, b := range bs {
		if b == nil {
			continue
		}
		if h, ok := s.sh.blockHome[b.Hash]; ok && h > s.k {
			s.poolOK[b.Hash] = true
			if orig := s.sh.blockByHash[b.Hash]; orig != nil && bytes.Equal(mustEnc(b), mustEnc(orig)) {
				s.goodBlk[b.Hash] = true
			}
		}
	}
}

func (s *session) sendHostile(m *hmsg) bool {
	c := s.c
	ep := s.host
	s.msgNo++
	s.scan(m)
	var rd io.Reader
	if m.stream != nil {
		rd = m.stream
	} else {
		rd = bytes.NewReader(m.payload)
	}
	cr := &countReader{r: rd}
	// what the message may legitimately change is recorded before it is sent
	for _, h := range m.valid {
		s.validSet[h] = true
		for _, b := range s.sh.early[h].AccountBlocks {
			s.goodBlk[b.Hash] = true
		}
	}
	if m.tx {
		s.txValid = true
	}
	for _, h := range m.blocksOf {
		for _, b := range s.sh.early[h].AccountBlocks {
			s.poolOK[b.Hash] = true
		}
	}
	if m.code == codeNewBlock && m.payload != nil {
		// a propagated momentum raises what the node believes this peer has (clause 4 of the stall rule)
		var d *nom.DetailedMomentum
		if streamDecode(m.payload, &d) == nil && d != nil && d.Momentum != nil && d.Momentum.Height > atomic.LoadUint64(&ep.claimTD) {
			atomic.StoreUint64(&ep.claimTD, d.Momentum.Height)
		}
	}
	s.unreportedBlocks()
	c.Checkpoint()
	o := ep.deliver(m.code, m.size, cr, m.descr)
	s.note("#%d %s -> %v%s", s.msgNo, m.descr, o, errSuffix(ep, o))
	c.Class("outcome-" + strings.ReplaceAll(o.String(), " ", "-"))
	if m.reaches && o != stalled {
		s.reached++
		c.NonTrivialItem(fmt.Sprintf("%s/%s", codeName(m.code), m.shape))
	}
	if !s.afterDeliver(ep, o, m.code, m.shape, m.descr) {
		return false
	}
	s.checkOutgoing(ep, m.descr, int(m.code), m.shape == "recompute")
	if m.over {
		c.Class("oversize-message")
		if o == delivered {
			c.Failf("C15/size-cap", "a message declaring %d bytes (> 10 MiB) was accepted: %s (the node read %d bytes of it)", m.size, m.descr, cr.consumed())
		}
		if cr.consumed() > maxMsgSize {
			c.Failf("C15/size-cap", "the node read %d bytes (> 10 MiB) of %s", cr.consumed(), m.descr)
		}
	}
	return true
}

// leak: the follower cannot be stopped safely; its files are removed when the process ends.
func (s *session) leak() {
	if !s.onA && s.node != nil && s.node.Dir != "" {
		leakDir(s.node.Dir)
	}
}

func errSuffix(ep *endpoint, o outcome) string {
	if o != dropped {
		return ""
	}
	if ep.res.panicked {
		return " (panic)"
	}
	if d := atomic.LoadInt32(&ep.disc); d != 0 {
		return fmt.Sprintf(" (node disconnected the peer: %v; %v)", p2p.DiscReason(d-1), ep.res.err)
	}
	return fmt.Sprintf(" (%v)", ep.res.err)
}

// teardown closes every connection, stops the manager, waits until none of its goroutines is
// running any more and only then removes the follower.
func (s *session) teardown() {
	if s.shutdown() && !s.onA {
		s.sh.w.Drop(s.node)
	}
}

// shutdown closes every connection, stops the manager and waits until none of its goroutines is
// running any more. It returns false if that state could not be reached within the deadlines (the
// follower is then left alone). Idempotent.
func (s *session) shutdown() bool {
	if s.downDone {
		return s.downOK
	}
	s.downDone = true
	t0 := time.Now()
	defer func() { s.c.R.Count("ms_teardown", int(time.Since(t0).Milliseconds())) }()
	s.stopResponder()
	var wedged []*endpoint
	for _, ep := range s.eps {
		if ep.wedged != nil {
			// a blocked handler does not notice that its connection went away; stopping the manager
			// (downloader.Terminate closes the cancel channel) may release it, so it is closed afterwards
			wedged = append(wedged, ep)
			continue
		}
		if !ep.close() {
			inconclusive(s.c, "protocol function of "+ep.name+" did not return after its connection was closed", dumpAll())
			s.leak()
			return false // the follower's database stays open: the handler may still use it
		}
	}
	defer func() {
		for _, ep := range wedged {
			_ = ep.net.Close()
		}
	}()
	stopped := make(chan struct{})
	go func() { s.pm.Stop(); close(stopped) }()
	select {
	case <-stopped:
	case <-time.After(3 * liveDeadline):
		inconclusive(s.c, "manager Stop did not return", dumpAll())
		// the follower's database stays open: goroutines of this manager may still use it
		s.leak()
		return false
	}
	t1 := time.Now()
	if d := t1.Sub(t0); d > time.Second && os.Getenv("VERIF_C15_DEBUG") != "" {
		fmt.Fprintf(os.Stderr, "C15 slow Stop: %v\n", d)
	}
	for _, ep := range wedged {
		_ = ep.net.Close()
		select {
		case <-ep.done:
		case <-time.After(2 * time.Second):
			// still parked: the follower cannot be removed under it
			s.c.R.Count("wedged_handlers_left_behind", 1)
			s.leak()
			return false
		}
	}
	ok, g := waitNone(managerActive)
	if d := time.Since(t1); d > time.Second && os.Getenv("VERIF_C15_DEBUG") != "" {
		fmt.Fprintf(os.Stderr, "C15 slow quiesce: %v\n%s\n", d, slowest)
	}
	if !ok {
		inconclusive(s.c, "manager goroutines still running after Stop", g)
		s.leak()
		return false
	}
	s.downOK = true
	return true
}
