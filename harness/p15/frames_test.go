package p15

// TestC15Frames: the RLPx frame reader/writer (p2p/rlpx.go) with harness-chosen secrets. Valid
// frame streams are corrupted on the wire (bit flips, truncation, reordering, dropped and
// duplicated frames, inserted bytes); streams written by a hostile but authenticated peer carry
// oversize or lying header sizes. An independent writer written from the RLPx framing rules is
// the reference for both directions.

import (
	"bytes"
	"crypto/aes"
	"crypto/cipher"
	"crypto/sha256"
	"encoding/binary"
	"fmt"
	"hash"
	"io"
	"runtime"
	"runtime/debug"
	"testing"

	"github.com/ethereum/go-ethereum/rlp"
	"golang.org/x/crypto/sha3"

	"github.com/zenon-network/go-zenon/p2p"

	"verifharness/pbt"
)

const maxFrame = 1 << 24 // the 24-bit size field bounds what one frame can make the reader allocate

// ---- reference writer ------------------------------------------------------------------------------

type frameSecrets struct {
	aes, mac []byte
	macSeed  []byte
	legacy   bool
}

func secretsFrom(seed uint64, keyLen int, legacy bool) frameSecrets {
	d := func(tag string) []byte {
		var b [16]byte
		copy(b[:], tag)
		binary.BigEndian.PutUint64(b[8:], seed)
		x := sha256.Sum256(b[:])
		return x[:]
	}
	return frameSecrets{aes: d("aes")[:keyLen], mac: d("mac")[:keyLen], macSeed: d("seed"), legacy: legacy}
}

func (s frameSecrets) newMAC() hash.Hash {
	var h hash.Hash
	if s.legacy {
		h = sha3.NewLegacyKeccak256()
	} else {
		h = sha3.New256()
	}
	h.Write(s.macSeed)
	return h
}

type refWriter struct {
	enc    cipher.Stream
	macc   cipher.Block
	egress hash.Hash
	out    bytes.Buffer
}

func newRefWriter(s frameSecrets) *refWriter {
	encc, err := aes.NewCipher(s.aes)
	if err != nil {
		panic(err)
	}
	macc, err := aes.NewCipher(s.mac)
	if err != nil {
		panic(err)
	}
	return &refWriter{enc: cipher.NewCTR(encc, make([]byte, 16)), macc: macc, egress: s.newMAC()}
}

func refUpdateMAC(mac hash.Hash, block cipher.Block, seed []byte) []byte {
	buf := make([]byte, 16)
	block.Encrypt(buf, mac.Sum(nil)[:16])
	for i := range buf {
		buf[i] ^= seed[i]
	}
	mac.Write(buf)
	return mac.Sum(nil)[:16]
}

// frame appends one frame. claim < 0: the header carries the real size.
func (w *refWriter) frame(code uint64, payload []byte, claim int) {
	ptype, _ := rlp.EncodeToBytes(code)
	fsize := len(ptype) + len(payload)
	hsize := fsize
	if claim >= 0 {
		hsize = claim
	}
	head := make([]byte, 16)
	head[0], head[1], head[2] = byte(hsize>>16), byte(hsize>>8), byte(hsize)
	copy(head[3:], []byte{0xC2, 0x80, 0x80})
	w.enc.XORKeyStream(head, head)
	w.out.Write(head)
	w.out.Write(refUpdateMAC(w.egress, w.macc, head))
	body := append(append([]byte{}, ptype...), payload...)
	if pad := fsize % 16; pad > 0 {
		body = append(body, make([]byte, 16-pad)...)
	}
	w.enc.XORKeyStream(body, body)
	w.egress.Write(body)
	w.out.Write(body)
	seed := w.egress.Sum(nil)
	w.out.Write(refUpdateMAC(w.egress, w.macc, seed))
}

// ---- helpers -------------------------------------------------------------------------------------------

type fmsg struct {
	code    uint64
	payload []byte
}

func pseudo(seed uint64, i, n int) []byte {
	out := make([]byte, 0, n+32)
	var b [24]byte
	binary.BigEndian.PutUint64(b[:], seed)
	binary.BigEndian.PutUint64(b[8:], uint64(i))
	for ctr := uint64(0); len(out) < n; ctr++ {
		binary.BigEndian.PutUint64(b[16:], ctr)
		x := sha256.Sum256(b[:])
		out = append(out, x[:]...)
	}
	return out[:n]
}

type posReader struct {
	r   *bytes.Reader
	pos int
}

func (p *posReader) Read(b []byte) (int, error) {
	n, err := p.r.Read(b)
	p.pos += n
	return n, err
}

type rwPair struct {
	io.Reader
	io.Writer
}

// readAll drives the frame reader over stream until the first error, as Peer.readLoop does.
// It returns the messages, the number of stream bytes consumed by the successful reads, the
// error, and the largest allocation observed for a single ReadMsg.
func readAll(s frameSecrets, stream []byte, onPanic func(p interface{}, stack string), onHuge func(size uint32)) (msgs []fmsg, consumed int, err error, maxAlloc uint64) {
	pr := &posReader{r: bytes.NewReader(stream)}
	rd := p2p.VerifNewFrameRW(rwPair{pr, io.Discard}, s.aes, s.mac, s.newMAC(), s.newMAC())
	defer func() {
		if p := recover(); p != nil {
			onPanic(p, string(debug.Stack()))
			err = fmt.Errorf("panic: %v", p)
		}
	}()
	var ms runtime.MemStats
	for {
		runtime.ReadMemStats(&ms)
		before := ms.TotalAlloc
		msg, e := rd.ReadMsg()
		runtime.ReadMemStats(&ms)
		if d := ms.TotalAlloc - before; d > maxAlloc {
			maxAlloc = d
		}
		if e != nil {
			return msgs, consumed, e, maxAlloc
		}
		if msg.Size > maxFrame {
			onHuge(msg.Size)
			return msgs, consumed, fmt.Errorf("huge"), maxAlloc
		}
		payload, _ := io.ReadAll(msg.Payload)
		msgs = append(msgs, fmsg{msg.Code, payload})
		consumed = pr.pos
		if len(msgs) > 64 {
			return msgs, consumed, fmt.Errorf("too many messages"), maxAlloc
		}
	}
}

var frameLens = []int{0, 1, 2, 14, 15, 16, 17, 31, 32, 33, 100, 255, 256, 1000, 5000}
var frameCodes = []uint64{0, 1, 2, 8, 15, 16, 17, 0x7f, 0x80, 0xff, 0x100, 1 << 16, 1 << 32, ^uint64(0)}

func TestC15Frames(t *testing.T) {
	pbt.Check(t, "C15", framesProp)
}

func framesProp(c *pbt.C) {
	seed := c.Uint64("seed", 0, 1<<40)
	sec := secretsFrom(seed, []int{32, 16, 24}[c.Weighted("keyLen", 6, 1, 1)], c.Bool("legacyKeccak"))
	n := c.Int("messages", 1, 6)
	var msgs []fmsg
	for i := 0; i < n; i++ {
		l := frameLens[c.Pick(fmt.Sprintf("len%d", i), len(frameLens))]
		if c.Weighted(fmt.Sprintf("lenkind%d", i), 3, 1) == 1 {
			l = c.Int(fmt.Sprintf("lenr%d", i), 0, 300)
		}
		msgs = append(msgs, fmsg{frameCodes[c.Pick(fmt.Sprintf("code%d", i), len(frameCodes))], pseudo(seed, i, l)})
	}
	// the node's writer
	var wire bytes.Buffer
	wr := p2p.VerifNewFrameRW(rwPair{bytes.NewReader(nil), &wire}, sec.aes, sec.mac, sec.newMAC(), sec.newMAC())
	bounds := []int{0}
	for i, m := range msgs {
		var err error
		func() {
			defer func() {
				if p := recover(); p != nil {
					c.Failf("C15/frame-panic", "WriteMsg panicked on message %d (code %d, %d bytes): %v", i, m.code, len(m.payload), p)
				}
			}()
			err = wr.WriteMsg(p2p.Msg{Code: m.code, Size: uint32(len(m.payload)), Payload: bytes.NewReader(m.payload)})
		}()
		if err != nil {
			c.Failf("C15/frame-write", "WriteMsg refused message %d (code %d, %d bytes): %v", i, m.code, len(m.payload), err)
		}
		bounds = append(bounds, wire.Len())
	}
	valid := append([]byte{}, wire.Bytes()...)
	// reference: the same stream written from the framing rules
	ref := newRefWriter(sec)
	for _, m := range msgs {
		ref.frame(m.code, m.payload, -1)
	}
	if !bytes.Equal(ref.out.Bytes(), valid) {
		c.Failf("C15/frame-writer-differs", "the node's frame writer and the reference writer disagree on %d messages (%d vs %d bytes)", n, len(valid), ref.out.Len())
	}
	frameOf := func(p int) int { // index of the frame containing stream position p
		for i := 0; i < n; i++ {
			if p < bounds[i+1] {
				return i
			}
		}
		return n
	}

	// ---- corruption
	stream := append([]byte{}, valid...)
	expectOK := n     // number of messages that must be read intact before the error
	strict := true    // wire corruption: integrity oracle applies
	cleanEOF := false // the error may be a clean end of stream
	afterHeader := false
	descr := "none"
	kinds := []string{"none", "bitflip", "multi-flip", "truncate", "swap-frames", "drop-frame", "dup-frame", "insert-bytes", "replace-bytes",
		"crafted-size", "writer-oversize"}
	kind := kinds[c.Weighted("corruption", 2, 8, 3, 5, 3, 2, 2, 3, 2, 4, 1)]
	switch kind {
	case "none":
		cleanEOF = true
	case "bitflip":
		p := c.Int("pos", 0, len(stream)-1)
		bit := c.Int("bit", 0, 7)
		stream[p] ^= 1 << uint(bit)
		expectOK = frameOf(p)
		afterHeader = p-bounds[expectOK] >= 32
		descr = fmt.Sprintf("bit %d of byte %d (frame %d, offset %d) flipped", bit, p, expectOK, p-bounds[expectOK])
	case "multi-flip":
		k := c.Int("flips", 2, 4)
		first := len(stream)
		for i := 0; i < k; i++ {
			p := c.Int(fmt.Sprintf("pos%d", i), 0, len(stream)-1)
			stream[p] ^= byte(1 + c.Int(fmt.Sprintf("x%d", i), 0, 254))
			if p < first {
				first = p
			}
		}
		// changes at the same position can cancel: the first byte that really differs counts
		first = len(stream)
		for i := range stream {
			if stream[i] != valid[i] {
				first = i
				break
			}
		}
		if first == len(stream) {
			expectOK, cleanEOF = n, true
			descr = fmt.Sprintf("%d changes that cancel each other", k)
			break
		}
		expectOK = frameOf(first)
		afterHeader = first-bounds[expectOK] >= 32
		descr = fmt.Sprintf("%d bytes changed, first at %d (frame %d)", k, first, expectOK)
	case "truncate":
		p := c.Int("cut", 0, len(stream)-1)
		stream = stream[:p]
		expectOK = frameOf(p)
		if p == bounds[expectOK] {
			cleanEOF = true
		}
		afterHeader = p-bounds[expectOK] >= 32
		descr = fmt.Sprintf("stream cut at %d of %d (frame %d, offset %d)", p, len(valid), expectOK, p-bounds[expectOK])
	case "swap-frames", "drop-frame", "dup-frame":
		i := c.Int("frame", 0, n-1)
		j := c.Int("other", 0, n-1)
		frames := make([][]byte, n)
		for x := 0; x < n; x++ {
			frames[x] = valid[bounds[x]:bounds[x+1]]
		}
		var order []int
		switch kind {
		case "swap-frames":
			if i == j {
				j = (i + 1) % n
			}
			if i == j { // a single frame: nothing to swap
				cleanEOF = true
				for x := 0; x < n; x++ {
					order = append(order, x)
				}
				descr = "swap (single frame: unchanged)"
				break
			}
			for x := 0; x < n; x++ {
				order = append(order, x)
			}
			order[i], order[j] = order[j], order[i]
			expectOK = i
			if j < i {
				expectOK = j
			}
			descr = fmt.Sprintf("frames %d and %d swapped", i, j)
		case "drop-frame":
			for x := 0; x < n; x++ {
				if x != i {
					order = append(order, x)
				}
			}
			expectOK = i
			if i == n-1 {
				cleanEOF = true // indistinguishable from a connection that ended one message earlier
			}
			descr = fmt.Sprintf("frame %d dropped", i)
		default:
			for x := 0; x < n; x++ {
				order = append(order, x)
				if x == i {
					order = append(order, x)
				}
			}
			expectOK = i + 1
			descr = fmt.Sprintf("frame %d sent twice", i)
		}
		stream = nil
		for _, x := range order {
			stream = append(stream, frames[x]...)
		}
	case "insert-bytes":
		p := c.Int("pos", 0, len(stream))
		ins := c.Bytes("ins", 1, 40)
		stream = append(append(append([]byte{}, valid[:p]...), ins...), valid[p:]...)
		expectOK = frameOf(p)
		afterHeader = p < len(valid) && p-bounds[expectOK] >= 32
		descr = fmt.Sprintf("%d bytes inserted at %d (frame %d)", len(ins), p, expectOK)
	case "replace-bytes":
		p := c.Int("pos", 0, len(stream)-1)
		rep := c.Bytes("rep", 1, 40)
		changed := false
		for i, b := range rep {
			if p+i < len(stream) && stream[p+i] != b {
				stream[p+i] = b
				changed = true
			}
		}
		expectOK = frameOf(p)
		if !changed {
			expectOK, cleanEOF = n, true
		}
		afterHeader = p-bounds[expectOK%len(bounds)] >= 32
		descr = fmt.Sprintf("%d bytes overwritten at %d (frame %d, changed=%v)", len(rep), p, expectOK, changed)
	case "crafted-size":
		// an authenticated peer writes a header that lies about the frame size (header MAC valid)
		strict = false
		i := c.Int("frame", 0, n-1)
		real := len(msgs[i].payload) + len(mustEnc(msgs[i].code))
		claims := []int{0, 1, real - 1, real + 1, real + 16, real + 1000, 1 << 16, 1 << 20, maxFrame - 17, maxFrame - 1}
		claim := claims[c.Pick("claim", len(claims))]
		if claim < 0 {
			claim = 0
		}
		w := newRefWriter(sec)
		for x, m := range msgs {
			if x == i {
				w.frame(m.code, m.payload, claim)
			} else {
				w.frame(m.code, m.payload, -1)
			}
		}
		stream = w.out.Bytes()
		expectOK = i
		afterHeader = true
		descr = fmt.Sprintf("frame %d (%d bytes) written with a header claiming %d bytes", i, real, claim)
	case "writer-oversize":
		// the node's own writer must refuse what does not fit the 24-bit size field
		var sink bytes.Buffer
		w2 := p2p.VerifNewFrameRW(rwPair{bytes.NewReader(nil), &sink}, sec.aes, sec.mac, sec.newMAC(), sec.newMAC())
		size := uint32(maxFrame - 1 + c.Int("over", 0, 3))
		err := w2.WriteMsg(p2p.Msg{Code: 16, Size: size, Payload: bytes.NewReader(nil)})
		if err == nil {
			c.Failf("C15/frame-write-oversize", "WriteMsg accepted a message of %d bytes (frame size field has 24 bits)", size)
		}
		if sink.Len() != 0 {
			c.Failf("C15/frame-write-oversize", "WriteMsg wrote %d bytes of a message it refused", sink.Len())
		}
		c.Class("writer-oversize")
		return
	}
	if strict {
		// where the stream on the wire really starts to differ from the valid one (an inserted byte can
		// equal the byte it displaces, changes can cancel, swapped frames can share leading bytes)
		lcp := 0
		for lcp < len(stream) && lcp < len(valid) && stream[lcp] == valid[lcp] {
			lcp++
		}
		cleanEOF, afterHeader = false, false
		switch {
		case lcp == len(stream) && lcp == len(valid): // nothing changed
			expectOK, cleanEOF = n, true
			kind = "none"
		case lcp == len(stream): // a proper prefix: truncation
			expectOK = frameOf(lcp)
			cleanEOF = lcp == bounds[expectOK]
			afterHeader = lcp-bounds[expectOK] >= 32
		default:
			expectOK = frameOf(lcp)
			afterHeader = expectOK < n && lcp-bounds[expectOK] >= 32
		}
		descr += fmt.Sprintf("; first differing byte %d, in frame %d", lcp, expectOK)
	}
	c.Class("corruption-" + kind)
	c.Note("%d messages, %d stream bytes, keys of %d bytes; corruption: %s", n, len(valid), len(sec.aes), descr)

	got, consumed, err, maxAlloc := readAll(sec, stream,
		func(p interface{}, stack string) {
			c.Failf("C15/frame-panic", "ReadMsg panicked (%s): %v\n%s", descr, p, trim(stack, 3000))
		},
		func(size uint32) {
			c.Failf("C15/frame-size", "ReadMsg returned a message of %d bytes (> 16 MiB) (%s)", size, descr)
		})
	c.Note("  -> %d messages read, then: %v (largest allocation during one ReadMsg: %d bytes)", len(got), err, maxAlloc)

	// allocation bound: nothing on the wire can make one ReadMsg allocate more than one maximal frame
	limit := uint64(maxFrame + 16 + 1<<20)
	if strict {
		limit = uint64(8*len(valid) + 1<<20)
	}
	if maxAlloc > limit {
		c.Failf("C15/frame-alloc", "one ReadMsg allocated %d bytes (%s)", maxAlloc, descr)
	}
	if err == nil {
		c.Failf("C15/frame-no-error", "reader stopped without an error (%s)", descr)
	}
	// whatever was accepted is exactly what the writer would have produced for these messages
	if strict || len(got) <= expectOK {
		chk := newRefWriter(sec)
		for _, m := range got {
			chk.frame(m.code, m.payload, -1)
		}
		if !bytes.Equal(chk.out.Bytes(), stream[:consumed]) {
			c.Failf("C15/frame-accepted-corrupt", "the %d accepted messages do not re-encode to the %d stream bytes they were read from (%s)", len(got), consumed, descr)
		}
	}
	if strict {
		// every message before the corruption arrives intact, none after it
		for i, m := range got {
			if i >= n || m.code != msgs[i].code || !bytes.Equal(m.payload, msgs[i].payload) {
				c.Failf("C15/frame-accepted-corrupt", "message %d was delivered with altered content (%s)", i, descr)
			}
		}
		if len(got) > expectOK {
			c.Failf("C15/frame-accepted-corrupt", "%d messages were accepted, the corruption starts in frame %d (%s)", len(got), expectOK, descr)
		}
		if len(got) < expectOK {
			c.Failf("C15/frame-valid-refused", "only %d of the %d intact leading messages were read: %v (%s)", len(got), expectOK, err, descr)
		}
		if err == io.EOF && !cleanEOF {
			// io.EOF for a stream that ends right after a header or right before a frame MAC: still an
			// error return (the peer is dropped); only counted
			c.R.Count("eof_inside_frame", 1)
		}
	} else {
		for i := 0; i < expectOK && i < len(got); i++ {
			if got[i].code != msgs[i].code || !bytes.Equal(got[i].payload, msgs[i].payload) {
				c.Failf("C15/frame-accepted-corrupt", "message %d before the crafted frame was altered (%s)", i, descr)
			}
		}
		if len(got) < expectOK {
			c.Failf("C15/frame-valid-refused", "only %d of the %d intact leading messages were read: %v (%s)", len(got), expectOK, err, descr)
		}
	}
	if kind != "none" && (afterHeader || !strict) {
		c.NonTrivial()
		c.Class("passes-header-mac")
	}
	if kind == "none" {
		c.Class("round-trip")
	}
}

// ---- native fuzz target: arbitrary bytes as a frame stream ----------------------------------------------

var fuzzSecrets = secretsFrom(0xC15, 32, true)

func FuzzC15Frame(f *testing.F) {
	mk := func(ms ...fmsg) []byte {
		w := newRefWriter(fuzzSecrets)
		for _, m := range ms {
			w.frame(m.code, m.payload, -1)
		}
		return append([]byte{}, w.out.Bytes()...)
	}
	f.Add(mk(fmsg{0, []byte{0xC0}}))
	f.Add(mk(fmsg{16, pseudo(1, 1, 71)}, fmsg{19, pseudo(1, 2, 34)}))
	f.Add(mk(fmsg{2, nil}, fmsg{3, nil}, fmsg{1 << 32, pseudo(1, 3, 300)}))
	f.Add(mk(fmsg{24, pseudo(1, 4, 1000)}))
	w := newRefWriter(fuzzSecrets)
	w.frame(16, pseudo(1, 5, 40), 1<<20)
	f.Add(append([]byte{}, w.out.Bytes()...))
	f.Fuzz(func(t *testing.T, stream []byte) {
		got, consumed, err, maxAlloc := readAll(fuzzSecrets, stream,
			func(p interface{}, stack string) { t.Fatalf("C15/frame-panic: ReadMsg panicked: %v\n%s", p, stack) },
			func(size uint32) { t.Fatalf("C15/frame-size: message of %d bytes", size) })
		if err == nil {
			t.Fatalf("C15/frame-no-error: reader stopped without error")
		}
		if maxAlloc > maxFrame+16+(4<<20) {
			t.Fatalf("C15/frame-alloc: one ReadMsg allocated %d bytes", maxAlloc)
		}
		// accepted messages are exactly what the writer produces for them. A frame whose header
		// lies about its size can only come from a holder of the secrets (the fuzzer's seeds
		// contain one); the integrity oracle applies to frames with honest headers.
		chk := newRefWriter(fuzzSecrets)
		for _, m := range got {
			chk.frame(m.code, m.payload, -1)
		}
		if !bytes.Equal(chk.out.Bytes(), stream[:consumed]) {
			t.Fatalf("C15/frame-accepted-corrupt: %d accepted messages do not re-encode to the %d bytes they were read from", len(got), consumed)
		}
	})
}
