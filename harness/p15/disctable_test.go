package p15

// TestC15DiscTable: the TABLE side of discovery (p2p/discover/table.go, udp.go findnode/pending, the
// node database). The table under test runs on a socket that is the harness: every ping and findnode
// the table sends (bond, Lookup, refresh) is answered — or not — by remote nodes played by the harness
// according to policies drawn before the case starts (the answering goroutine draws nothing).
// Remote nodes answer with hostile content: neighbours packets with many entries, entries with port 0 /
// multicast / unspecified / loopback addresses, IDs that are no curve points, the table's own ID, the
// asked node itself, duplicates, expired packets, answers from another address or signed by another
// key, pongs with a wrong token, truncated packets, floods of neighbours packets, unsolicited replies.
//
// Oracle (after the table has come to rest: no goroutine of package discover beyond loop / readLoop /
// expirer — decided from goroutine dumps; the package's own 500 ms reply timeouts bound the wait):
//   - no panic (HandlePacket is wrapped; draws are journalled because the table has goroutines of its own);
//   - every table entry is accepted by nodeFromRPC, is not the table's own ID and belongs to a node that
//     ANSWERED in this case: the harness delivered an intact, unexpired pong signed with that
//     node's key (nobody else holds the keys; a bond needs the remote's pong). Buckets hold <= bucketSize entries, no ID twice;
//   - the table never sends a datagram to an address nodeFromRPC refuses (port 0, multicast, unspecified);
//   - one findnode makes the table contact at most bucketSize + one packet's worth of new nodes, however
//     many neighbours packets are thrown at it;
//   - what Lookup returns has <= bucketSize entries, all of them proved;
//   - honest nodes bonded before the hostile traffic are still in the table (unless the harness itself
//     answered one of their requests later than half of the 500 ms reply timeout: counted, not judged);
//   - replies nobody asked for (or expired, or truncated) are refused and change nothing.

import (
	"crypto/ecdsa"
	"fmt"
	"net"
	"runtime/debug"
	"sort"
	"strings"
	"sync"
	"sync/atomic"
	"testing"
	"time"

	"github.com/ethereum/go-ethereum/rlp"

	"github.com/zenon-network/go-zenon/p2p/discover"

	"verifharness/pbt"
	"verifharness/sim"
)

const discPkg = "github.com/zenon-network/go-zenon/p2p/discover."

type tsPacket struct {
	to   *net.UDPAddr
	data []byte
	at   time.Time
}

// tconn: the socket of the table. Everything written is queued for the answering goroutine.
type tconn struct {
	mu     sync.Mutex
	q      []tsPacket
	sig    chan struct{}
	closed chan struct{}
	once   sync.Once
	sentTo []string // every destination, for the oracle
}

func newTConn() *tconn { return &tconn{sig: make(chan struct{}, 1), closed: make(chan struct{})} }
func (f *tconn) ReadFromUDP(b []byte) (int, *net.UDPAddr, error) {
	<-f.closed
	return 0, nil, fmt.Errorf("closed")
}
func (f *tconn) WriteToUDP(b []byte, addr *net.UDPAddr) (int, error) {
	f.mu.Lock()
	f.q = append(f.q, tsPacket{addr, append([]byte{}, b...), time.Now()})
	f.mu.Unlock()
	select {
	case f.sig <- struct{}{}:
	default:
	}
	return len(b), nil
}
func (f *tconn) Close() error        { f.once.Do(func() { close(f.closed) }); return nil }
func (f *tconn) LocalAddr() net.Addr { return &net.UDPAddr{IP: net.IP{10, 9, 8, 7}, Port: 30303} }
func (f *tconn) takeAll() []tsPacket {
	f.mu.Lock()
	defer f.mu.Unlock()
	out := f.q
	f.q = nil
	return out
}

type rnode struct {
	name     string
	key      *ecdsa.PrivateKey
	id       discover.NodeID
	addr     *net.UDPAddr
	honest   bool
	pingPol  string
	pingBack bool
	findPol  string
	nbrs     []wNode
	flood    []wNode // entries of the flood policy (distinct silent nodes)
}

type dtEnv struct {
	c      *pbt.C
	conn   *tconn
	u      *discover.VerifUDP
	selfID discover.NodeID
	self   *net.UDPAddr
	nodes  []*rnode
	byAddr map[string]*rnode
	byID   map[discover.NodeID]*rnode

	mu         sync.Mutex
	proved     map[discover.NodeID]bool
	pingsTo    map[discover.NodeID]int // pings the table sent, by the node ID they were meant for (looked up by address)
	pingAddrs  []string
	late       int
	panicked   string
	findnodes  int
	floodAsked int
	wrongTokOK int32
	stop       chan struct{}
	done       chan struct{}
	hist       []string
}

func (e *dtEnv) note(format string, args ...interface{}) {
	e.mu.Lock()
	if len(e.hist) < 80 {
		e.hist = append(e.hist, trim(fmt.Sprintf(format, args...), 220))
	}
	e.mu.Unlock()
}

func (e *dtEnv) story() string {
	e.mu.Lock()
	defer e.mu.Unlock()
	return strings.Join(e.hist, "\n  ")
}

// deliver hands one datagram to the table as readLoop would. Panics are recorded (the answering
// goroutine cannot fail the case itself).
func (e *dtEnv) deliver(from *net.UDPAddr, pkt []byte, what string) (err error) {
	defer func() {
		if p := recover(); p != nil {
			e.mu.Lock()
			if e.panicked == "" {
				e.panicked = fmt.Sprintf("handlePacket panicked on %s (%s): %v\n%s", what, clip(pkt, 48), p, trim(string(debug.Stack()), 3000))
			}
			e.mu.Unlock()
			err = fmt.Errorf("panic")
		}
	}()
	if len(pkt) > dgramMax {
		pkt = pkt[:dgramMax]
	}
	return e.u.HandlePacket(from, pkt)
}

func (e *dtEnv) prove(id discover.NodeID) {
	e.mu.Lock()
	e.proved[id] = true
	e.mu.Unlock()
}

func (e *dtEnv) selfEP() wEndpoint {
	return wEndpoint{IP: e.self.IP, UDP: uint16(e.self.Port), TCP: uint16(e.self.Port)}
}

// answer: what remote node r does with one datagram of the table. Pure function of r's policy.
func (e *dtEnv) answer(r *rnode, p tsPacket) {
	ptype, body, from, ok := openPacket(p.data)
	if !ok || from != e.selfID {
		e.mu.Lock()
		if e.panicked == "" {
			e.panicked = "the table sent a datagram that does not open with its own key: " + clip(p.data, 32)
		}
		e.mu.Unlock()
		return
	}
	lateNow := func() {
		if r.honest && time.Since(p.at) > 250*time.Millisecond {
			e.mu.Lock()
			e.late++
			e.mu.Unlock()
		}
	}
	switch ptype {
	case pktPing:
		tok := p.data[:32]
		exp := uint64(farFuture)
		signer := r.key
		fromAddr := r.addr
		pol := r.pingPol
		switch pol {
		case "silent":
			e.note("%s: pinged, stays silent", r.name)
			return
		case "pong-wrong-token":
			tok = pseudo(7, 7, 32)
		case "pong-expired":
			exp = 1000000000
		case "pong-other-addr":
			fromAddr = &net.UDPAddr{IP: net.IP{203, 0, 113, 77}, Port: 4444}
		case "pong-other-key":
			signer = discKey(999)
		}
		pkt := sealPacket(signer, pktPong, mustEnc(wPong{To: e.selfEP(), ReplyTok: tok, Expiration: exp}))
		if pol == "pong-truncated" {
			pkt = pkt[:len(pkt)-3]
		}
		lateNow()
		if pol == "pong" || pol == "pong-wrong-token" || pol == "pong-other-addr" {
			e.prove(r.id) // an intact, unexpired pong signed with r's key is about to arrive
		}
		err := e.deliver(fromAddr, pkt, r.name+" "+pol)
		if pol == "pong-wrong-token" && err == nil {
			atomic.AddInt32(&e.wrongTokOK, 1)
		}
		e.note("%s: pinged, answers %s -> %v", r.name, pol, err)
		if r.honest && err != nil { // the table had given up waiting already: the harness was too slow
			e.mu.Lock()
			e.late++
			e.mu.Unlock()
		}
		if r.pingBack && err == nil {
			ping := sealPacket(r.key, pktPing, mustEnc(wPing{Version: 4, From: wEndpoint{IP: r.addr.IP, UDP: uint16(r.addr.Port), TCP: 30303}, To: e.selfEP(), Expiration: farFuture}))
			_ = e.deliver(r.addr, ping, r.name+" pings back")
		}
	case pktFindnode:
		e.mu.Lock()
		e.findnodes++
		e.mu.Unlock()
		var q wFindnode
		_ = rlp.DecodeBytes(body, &q)
		send := func(nodes []wNode, exp uint64, signer *ecdsa.PrivateKey, from *net.UDPAddr, cut int) error {
			pkt := sealPacket(signer, pktNeighbors, mustEnc(wNeighbors{Nodes: nodes, Expiration: exp}))
			if cut > 0 && cut < len(pkt) {
				pkt = pkt[:len(pkt)-cut]
			}
			return e.deliver(from, pkt, r.name+" neighbours")
		}
		lateNow()
		var err error
		switch r.findPol {
		case "silent":
			e.note("%s: asked for neighbours, stays silent", r.name)
			return
		case "honest", "hostile-entries":
			for o := 0; o < len(r.nbrs) || o == 0; o += 12 {
				end := o + 12
				if end > len(r.nbrs) {
					end = len(r.nbrs)
				}
				err = send(r.nbrs[o:end], farFuture, r.key, r.addr, 0)
			}
		case "one-big-packet":
			err = send(r.nbrs, farFuture, r.key, r.addr, 0) // as many entries as the policy holds: may exceed a datagram
		case "flood":
			e.mu.Lock()
			e.floodAsked++
			e.mu.Unlock()
			for o := 0; o+10 <= len(r.flood); o += 10 {
				err = send(r.flood[o:o+10], farFuture, r.key, r.addr, 0)
			}
		case "expired":
			err = send(r.nbrs, 1000000000, r.key, r.addr, 0)
		case "other-key":
			err = send(r.nbrs, farFuture, discKey(998), r.addr, 0)
		case "other-addr":
			err = send(r.nbrs, farFuture, r.key, &net.UDPAddr{IP: net.IP{203, 0, 113, 78}, Port: 5555}, 0)
		case "truncated":
			err = send(r.nbrs, farFuture, r.key, r.addr, 5)
		case "twice":
			_ = send(r.nbrs, farFuture, r.key, r.addr, 0)
			err = send(r.nbrs, farFuture, r.key, r.addr, 0)
		}
		e.note("%s: asked for neighbours of %x.., answers %s (%d entries) -> %v", r.name, q.Target[:3], r.findPol, len(r.nbrs), err)
		if r.honest && err != nil {
			e.mu.Lock()
			e.late++
			e.mu.Unlock()
		}
	}
}

func (e *dtEnv) responder() {
	defer close(e.done)
	for {
		for _, p := range e.conn.takeAll() {
			e.mu.Lock()
			e.conn.sentTo = append(e.conn.sentTo, p.to.String())
			e.mu.Unlock()
			ptype, _, _, ok := openPacket(p.data)
			r := e.byAddr[p.to.String()]
			if ok && ptype == pktPing {
				e.mu.Lock()
				if r != nil {
					e.pingsTo[r.id]++
				}
				e.pingAddrs = append(e.pingAddrs, p.to.String())
				e.mu.Unlock()
			}
			if r != nil {
				e.answer(r, p)
			}
		}
		select {
		case <-e.stop:
			return
		case <-e.conn.sig:
		}
	}
}

func discInternal(d gdump) string {
	if !strings.Contains(d.text, discPkg) || strings.Contains(d.text, "verifharness/p15") {
		return ""
	}
	for _, f := range d.frames {
		switch {
		case strings.HasSuffix(f.fn, "discover.(*udp).loop"):
			return "loop"
		case strings.HasSuffix(f.fn, "discover.(*udp).readLoop"):
			return "readLoop"
		case strings.HasSuffix(f.fn, "discover.(*nodeDB).expirer"):
			return "expirer"
		}
	}
	return "work"
}

// quiesce waits until the table has nothing in flight (every pending reply has been answered or has
// timed out, every bonding goroutine is gone). base: working goroutines that existed before the case.
func (e *dtEnv) quiesce(base int) bool {
	deadline := time.Now().Add(liveDeadline)
	var last []gdump
	var lastAt time.Time
	for {
		var work []gdump
		for _, d := range allDumps() {
			if discInternal(d) == "work" {
				work = append(work, d)
			}
		}
		e.conn.mu.Lock()
		queued := len(e.conn.q)
		e.conn.mu.Unlock()
		if len(work) <= base && queued == 0 {
			return true
		}
		// leaked: the same goroutines, all parked on channels / locks, same stacks, for a long time
		if time.Now().After(deadline.Add(-liveDeadline / 2)) {
			same := len(last) == len(work) && len(work) > 0
			for i := range work {
				if !same {
					break
				}
				switch work[i].state {
				case "chan send", "chan receive", "select", "semacquire", "sync.Mutex.Lock", "sync.WaitGroup.Wait":
				default:
					same = false
				}
				if same && (work[i].id != last[i].id || !sameFrames(work[i].frames, last[i].frames)) {
					same = false
				}
			}
			if same && time.Since(lastAt) >= blockGap {
				e.c.Failf("C15/disc-table/goroutine-leak", "%d goroutines of the table are parked for good after all replies were answered or timed out, e.g.\n%s\nsession:\n  %s", len(work)-base, trim(work[0].text, 2500), e.story())
			}
			if !same || last == nil {
				last, lastAt = work, time.Now()
			}
		}
		if time.Now().After(deadline) {
			inconclusive(e.c, fmt.Sprintf("the table did not come to rest: %d working goroutines", len(work)), "")
			return false
		}
		time.Sleep(5 * time.Millisecond)
	}
}

// entryAcceptable: the validation rule for nodes learnt from others, restated from the property
// (port 0, multicast and unspecified addresses are refused).
func entryAcceptable(ip net.IP, udp uint16) bool {
	if udp == 0 {
		return false
	}
	if len(ip) == 4 || len(ip) == 16 {
		if ip4 := ip.To4(); ip4 != nil {
			if ip4[0] >= 224 && ip4[0] <= 239 {
				return false
			}
			if ip4[0] == 0 && ip4[1] == 0 && ip4[2] == 0 && ip4[3] == 0 {
				return false
			}
			return true
		}
		if ip[0] == 0xff {
			return false
		}
		zero := true
		for _, b := range ip {
			if b != 0 {
				zero = false
			}
		}
		return !zero
	}
	return true // other lengths are neither multicast nor unspecified for the node
}

func TestC15DiscTable(t *testing.T) {
	pbt.Check(t, "C15", discTableProp)
}

var nbrKinds = []string{"responsive", "valid-silent", "port0", "multicast", "unspecified", "loopback", "non-curve-id", "self", "asked-node", "dup", "ipv6", "short-ip", "broadcast"}

func discTableProp(c *pbt.C) {
	sim.Silence()
	tcase := time.Now()
	defer func() { c.R.Count("dt_ms_case", int(time.Since(tcase).Milliseconds())) }()
	// goroutines of tables of earlier cases (closed by their cleanup) are given time to end; what is
	// left after that is the baseline
	base := 0
	for t0 := time.Now(); ; {
		base = 0
		for _, d := range allDumps() {
			if discInternal(d) == "work" {
				base++
			}
		}
		if base == 0 || time.Since(t0) > 3*time.Second {
			break
		}
		time.Sleep(2 * time.Millisecond)
	}
	seed := c.Uint64("seed", 0, 1<<32)
	e := &dtEnv{c: c, conn: newTConn(), byAddr: map[string]*rnode{}, byID: map[discover.NodeID]*rnode{}, proved: map[discover.NodeID]bool{},
		pingsTo: map[discover.NodeID]int{}, stop: make(chan struct{}), done: make(chan struct{})}
	nodeKey := discKey(0)
	e.selfID = idOf(nodeKey)
	e.self = e.conn.LocalAddr().(*net.UDPAddr)
	e.u = discover.VerifNewUDP(nodeKey, e.conn)
	go e.responder()
	c.Cleanup(func() {
		close(e.stop)
		e.u.Close()
		<-e.done
	})

	// ---- the remote nodes and their policies (all draws happen here)
	nh := c.Int("honest", 1, 2)
	nx := c.Int("hostile", 1, 3)
	mk := func(i int, name string) *rnode {
		k := discKey(3000 + int(seed%1000)*16 + i)
		r := &rnode{name: name, key: k, id: idOf(k), addr: &net.UDPAddr{IP: net.IP{198, 51, 100, byte(10 + i)}, Port: 30000 + i}}
		e.nodes = append(e.nodes, r)
		e.byAddr[r.addr.String()] = r
		e.byID[r.id] = r
		return r
	}
	var honest, hostile []*rnode
	for i := 0; i < nh; i++ {
		r := mk(i, fmt.Sprintf("honest-%d", i))
		r.honest, r.pingPol, r.pingBack, r.findPol = true, "pong", true, "honest"
		honest = append(honest, r)
	}
	for i := 0; i < nx; i++ {
		r := mk(8+i, fmt.Sprintf("hostile-%d", i))
		r.pingPol = c.OneOf(r.name+".ping", "pong", "pong", "pong", "silent", "pong-wrong-token", "pong-expired", "pong-other-addr", "pong-other-key", "pong-truncated")
		r.pingBack = c.Bool(r.name + ".pingBack")
		r.findPol = c.OneOf(r.name+".find", "hostile-entries", "hostile-entries", "flood", "flood", "one-big-packet", "silent", "expired", "other-key", "other-addr", "truncated", "twice")
		hostile = append(hostile, r)
		c.Class("ping-policy/" + r.pingPol)
		c.Class("find-policy/" + r.findPol)
	}
	// responsive extras: valid nodes that exist only in neighbours lists and answer pings
	var extras []*rnode
	for i := 0; i < 3; i++ {
		r := mk(20+i, fmt.Sprintf("extra-%d", i))
		r.pingPol, r.pingBack, r.findPol = "pong", true, "honest"
		extras = append(extras, r)
	}
	for _, r := range honest { // honest nodes know each other and the extras
		for _, o := range append(append([]*rnode{}, honest...), extras...) {
			if o != r {
				r.nbrs = append(r.nbrs, wNode{IP: o.addr.IP, UDP: uint16(o.addr.Port), TCP: 30303, ID: o.id})
			}
		}
	}
	silentSeq := 0
	silentNode := func() wNode {
		silentSeq++
		k := discKey(5000 + int(seed%1000)*64 + silentSeq)
		return wNode{IP: net.IP{192, 0, 2, byte(silentSeq)}, UDP: uint16(20000 + silentSeq), TCP: 30303, ID: idOf(k)}
	}
	invalidAddrs := map[string]bool{}
	ruleDiffers := ""
	for _, r := range hostile {
		n := []int{1, 3, 8, 14, 0, 16, 17, 22}[c.Pick(r.name+".entries", 8)] // 16 entries complete a findnode
		for j := 0; j < n; j++ {
			kind := nbrKinds[c.Pick(fmt.Sprintf("%s.e%d", r.name, j%6), len(nbrKinds))]
			c.Class("entry/" + kind)
			v := silentNode()
			x := extras[j%len(extras)]
			switch kind {
			case "responsive":
				v = wNode{IP: x.addr.IP, UDP: uint16(x.addr.Port), TCP: 30303, ID: x.id}
			case "port0": // a node that WOULD answer, if it were ever pinged
				v = wNode{IP: x.addr.IP, UDP: 0, TCP: 30303, ID: x.id}
				e.byAddr[(&net.UDPAddr{IP: x.addr.IP, Port: 0}).String()] = x
			case "multicast":
				v.IP = net.IP{224, 0, 0, byte(1 + j)}
				v.ID = x.id
				e.byAddr[(&net.UDPAddr{IP: v.IP, Port: int(v.UDP)}).String()] = x
			case "unspecified":
				v.IP = net.IP{0, 0, 0, 0}
				v.ID = x.id
				e.byAddr[(&net.UDPAddr{IP: v.IP, Port: int(v.UDP)}).String()] = x
			case "loopback":
				v.IP = net.IP{127, 0, 0, 1}
			case "non-curve-id":
				v.ID = discover.NodeID{}
				v.ID[0], v.ID[63] = byte(j+1), 0xFF
			case "self":
				v.ID = e.selfID
			case "asked-node":
				v = wNode{IP: r.addr.IP, UDP: uint16(r.addr.Port), TCP: 30303, ID: r.id}
			case "dup":
				if len(r.nbrs) > 0 {
					v = r.nbrs[len(r.nbrs)-1]
				}
			case "ipv6":
				ip := make(net.IP, 16)
				ip[0], ip[1], ip[15] = 0x20, 0x01, byte(j+1)
				v.IP = ip
			case "short-ip":
				v.IP = net.IP{1, 2, 3}
			case "broadcast":
				v.IP = net.IP{255, 255, 255, 255}
			}
			if ok := entryAcceptable(v.IP, v.UDP); ok != discover.VerifNodeFromRPC(v.IP, v.UDP, v.TCP, v.ID) {
				ruleDiffers = fmt.Sprintf("nodeFromRPC says %v for entry %v:%d, the stated rule (no multicast, no unspecified address, no port 0) says %v", !ok, v.IP, v.UDP, ok)
			}
			if !entryAcceptable(v.IP, v.UDP) {
				invalidAddrs[(&net.UDPAddr{IP: v.IP, Port: int(v.UDP)}).String()] = true
			}
			r.nbrs = append(r.nbrs, v)
		}
		for j := 0; j < 40; j++ {
			r.flood = append(r.flood, silentNode())
		}
	}
	fail := func(key, format string, args ...interface{}) {
		c.Failf(key, format+"\nsession:\n  %s", append(args, e.story())...)
	}
	checkPanic := func() {
		e.mu.Lock()
		p := e.panicked
		e.mu.Unlock()
		if p != "" {
			c.Failf("C15/disc-table/panic", "%s\nsession:\n  %s", p, e.story())
		}
	}
	pingFrom := func(r *rnode) error {
		ping := sealPacket(r.key, pktPing, mustEnc(wPing{Version: 4, From: wEndpoint{IP: r.addr.IP, UDP: uint16(r.addr.Port), TCP: 30303}, To: e.selfEP(), Expiration: farFuture}))
		c.Checkpoint()
		return e.deliver(r.addr, ping, r.name+" pings the table")
	}
	inTable := func(id discover.NodeID) bool {
		for _, b := range e.u.Buckets() {
			for _, n := range b {
				if n.ID == id {
					return true
				}
			}
		}
		return false
	}

	// ---- honest nodes bond first
	for _, r := range honest {
		if err := pingFrom(r); err != nil {
			fail("C15/disc-table/valid-ping-refused", "a valid ping of %s was refused: %v", r.name, err)
		}
	}
	if !e.quiesce(base) {
		return
	}
	checkPanic()
	for _, r := range honest {
		if !inTable(r.id) {
			e.mu.Lock()
			late := e.late
			e.mu.Unlock()
			if late > 0 {
				c.R.Count("dt_answered_late", 1)
				return
			}
			fail("C15/disc-table/honest-not-bonded", "%s pinged the table and answered its ping, but is not in the table", r.name)
		}
	}
	e.note("--- %d honest nodes bonded; hostile traffic starts", nh)
	for _, r := range hostile {
		if c.Weighted(r.name+".introduces", 1, 2) == 1 {
			err := pingFrom(r)
			e.note("%s pings the table -> %v", r.name, err)
		}
	}

	// ---- actions
	na := c.Int("actions", 1, 3)
	for i := 0; i < na; i++ {
		l := fmt.Sprintf("a%d", i)
		act := c.OneOf(l+".act", "lookup", "lookup", "lookup", "hostile-pings", "bond", "unsolicited", "refresh", "expire")
		c.Class("action/" + act)
		c.Checkpoint()
		switch act {
		case "hostile-pings":
			r := hostile[c.Pick(l+".who", len(hostile))]
			err := pingFrom(r)
			e.note("%s pings the table -> %v", r.name, err)
		case "lookup":
			var target discover.NodeID
			copy(target[:], pseudo(seed, i, 64))
			if c.Bool(l + ".targetSelf") {
				target = e.selfID
			}
			var wg sync.WaitGroup
			res := e.u.Tab.Lookup(target, &wg, false)
			e.note("Lookup(%x..) -> %d nodes", target[:3], len(res))
			if len(res) > discover.VerifBucketSize() {
				fail("C15/disc-table/lookup-size", "Lookup returned %d nodes (bucket size %d)", len(res), discover.VerifBucketSize())
			}
			e.mu.Lock()
			for _, n := range res {
				if n == nil || !e.proved[n.ID] {
					e.mu.Unlock()
					fail("C15/disc-table/unproved-node", "Lookup returned node %v, which never answered a ping (no intact, unexpired pong signed with its key was delivered)", n)
				}
			}
			e.mu.Unlock()
		case "bond":
			r := e.nodes[c.Pick(l+".who", len(e.nodes))]
			n, err := e.u.Bond(false, r.id, r.addr, 30303)
			e.note("bond(%s) -> node=%v err=%v", r.name, n != nil, err)
		case "unsolicited":
			if !e.quiesce(base) {
				return
			}
			r := e.nodes[c.Pick(l+".who", len(e.nodes))]
			before := fmt.Sprint(e.u.Buckets())
			kind := c.OneOf(l+".kind", "pong", "neighbors", "neighbors-valid-entries", "pong-expired", "neighbors-truncated")
			var pkt []byte
			switch kind {
			case "pong":
				pkt = sealPacket(r.key, pktPong, mustEnc(wPong{To: e.selfEP(), ReplyTok: pseudo(seed, 3, 32), Expiration: farFuture}))
			case "pong-expired":
				pkt = sealPacket(r.key, pktPong, mustEnc(wPong{To: e.selfEP(), ReplyTok: pseudo(seed, 3, 32), Expiration: 1}))
			case "neighbors":
				pkt = sealPacket(r.key, pktNeighbors, mustEnc(wNeighbors{Nodes: r.nbrs, Expiration: farFuture}))
			case "neighbors-valid-entries":
				x := extras[0]
				pkt = sealPacket(r.key, pktNeighbors, mustEnc(wNeighbors{Nodes: []wNode{{IP: x.addr.IP, UDP: uint16(x.addr.Port), TCP: 1, ID: x.id}}, Expiration: farFuture}))
			case "neighbors-truncated":
				pkt = sealPacket(r.key, pktNeighbors, mustEnc(wNeighbors{Nodes: r.nbrs, Expiration: farFuture}))
				pkt = pkt[:len(pkt)-c.Int(l+".cut", 1, 40)]
			}
			err := e.deliver(r.addr, pkt, "unsolicited "+kind)
			e.note("%s sends an unsolicited %s -> %v", r.name, kind, err)
			if err == nil {
				fail("C15/disc-table/unsolicited-accepted", "an unsolicited %s of %s was accepted", kind, r.name)
			}
			if !e.quiesce(base) {
				return
			}
			if after := fmt.Sprint(e.u.Buckets()); after != before {
				fail("C15/disc-table/unsolicited-accepted", "a refused %s of %s changed the table", kind, r.name)
			}
		case "refresh":
			e.u.Refresh(c.Bool(l + ".forceSeed"))
			e.note("refresh")
		case "expire":
			if !e.quiesce(base) {
				return
			}
			r := e.nodes[c.Pick(l+".who", len(e.nodes))]
			if r.honest {
				r = hostile[0]
			}
			e.u.AgeLastPong(r.id, discover.VerifNodeExpiration()+time.Hour)
			err := e.u.ExpireNodes()
			e.note("node database expiry with %s not seen for 25 h -> %v (still known: %v)", r.name, err, e.u.Bonded(r.id))
			for _, h := range honest {
				if !e.u.Bonded(h.id) {
					fail("C15/disc-table/honest-expired", "the expiry of %s removed %s from the node database", r.name, h.name)
				}
			}
		}
		checkPanic()
	}
	if !e.quiesce(base) {
		return
	}
	checkPanic()

	// ---- the table
	e.mu.Lock()
	defer e.mu.Unlock()
	total := 0
	seen := map[discover.NodeID]bool{}
	bks := e.u.Buckets()
	var idx []int
	for i := range bks {
		idx = append(idx, i)
	}
	sort.Ints(idx)
	for _, i := range idx {
		b := bks[i]
		if len(b) > discover.VerifBucketSize() {
			c.Failf("C15/disc-table/bucket-size", "bucket %d holds %d entries (bucket size %d)", i, len(b), discover.VerifBucketSize())
		}
		for _, n := range b {
			total++
			name := "?"
			if r := e.byID[n.ID]; r != nil {
				name = r.name
			}
			if !entryAcceptable(n.IP, n.UDP) {
				c.Failf("C15/disc-table/invalid-entry", "table entry %s %v:%d id %x.. has a multicast / unspecified address or port 0\nsession:\n  %s", name, n.IP, n.UDP, n.ID[:4], strings.Join(e.hist, "\n  "))
			}
			if n.ID == e.selfID {
				c.Failf("C15/disc-table/invalid-entry", "the table holds its own ID (%v:%d)\nsession:\n  %s", n.IP, n.UDP, strings.Join(e.hist, "\n  "))
			}
			if _, err := n.ID.Pubkey(); err != nil {
				c.Failf("C15/disc-table/invalid-entry", "table entry %v:%d has an ID that is no curve point: %x..\nsession:\n  %s", n.IP, n.UDP, n.ID[:4], strings.Join(e.hist, "\n  "))
			}
			if !e.proved[n.ID] {
				c.Failf("C15/disc-table/unproved-node", "table entry %s %v:%d id %x.. never answered a ping: no intact, unexpired pong signed with its key was delivered\nsession:\n  %s", name, n.IP, n.UDP, n.ID[:4], strings.Join(e.hist, "\n  "))
			}
			if seen[n.ID] {
				c.Failf("C15/disc-table/duplicate-entry", "node %s is in the table twice", name)
			}
			seen[n.ID] = true
			if l := len(n.IP); l != 4 && l != 16 {
				c.R.Count("dt_entries_with_odd_ip_length", 1)
			}
		}
	}
	for _, r := range honest {
		if f := e.u.FindFails(r.id); f > 0 {
			// a node that knows fewer than bucketSize others never completes a findnode: every answer of
			// it is booked as a failure (observation; five in a row evict it)
			c.R.Count("dt_honest_answers_booked_as_findnode_failure", f)
		}
		if !seen[r.id] {
			if e.late > 0 {
				c.R.Count("dt_answered_late", 1)
				return
			}
			if e.u.FindFails(r.id) >= 5 {
				c.R.Count("dt_honest_evicted_after_5_short_answers", 1)
				c.Class("honest-evicted-by-findnode-failure-rule")
				continue
			}
			c.Failf("C15/disc-table/honest-evicted", "%s was bonded before the hostile traffic, answered everything, and is no longer in the table (findnode failures recorded: %d)\nsession:\n  %s", r.name, e.u.FindFails(r.id), strings.Join(e.hist, "\n  "))
		}
	}
	// ---- what the table sent
	for _, a := range e.conn.sentTo {
		if invalidAddrs[a] {
			c.Failf("C15/disc-table/sent-to-invalid", "the table sent a datagram to %s, an address nodeFromRPC refuses\nsession:\n  %s", a, strings.Join(e.hist, "\n  "))
		}
	}
	if ruleDiffers != "" {
		c.Failf("C15/disc-table/nodeFromRPC-differs", "%s", ruleDiffers)
	}
	floodPinged := 0
	floodIDs := map[string]bool{}
	for _, r := range hostile {
		for _, f := range r.flood {
			floodIDs[(&net.UDPAddr{IP: f.IP, Port: int(f.UDP)}).String()] = true
		}
	}
	pinged := map[string]bool{}
	for _, a := range e.pingAddrs {
		if floodIDs[a] && !pinged[a] {
			pinged[a] = true
			floodPinged++
		}
	}
	if limit := e.floodAsked * (discover.VerifBucketSize() + 10); floodPinged > limit { // floods come in packets of 10 entries
		c.Failf("C15/disc-table/neighbors-cap", "the table contacted %d nodes named in floods of neighbours packets; it sent %d findnode requests to the flooding nodes, each good for at most %d nodes plus the rest of one packet of 10\nsession:\n  %s",
			floodPinged, e.floodAsked, discover.VerifBucketSize(), strings.Join(e.hist, "\n  "))
	}
	if n := atomic.LoadInt32(&e.wrongTokOK); n > 0 {
		c.R.Count("dt_pong_with_wrong_token_accepted", int(n))
	}
	c.R.Count("dt_table_entries", total)
	c.R.Count("dt_findnodes_sent", e.findnodes)
	if e.findnodes > 0 || len(e.pingAddrs) > nh {
		c.NonTrivial() // hostile packets with a valid hash and signature were processed by the table
	}
	c.Note("%s", strings.Join(e.hist, "\n"))
}
