package p15

// C15 — untrusted peers cannot crash, stall or bloat the node.
// Shared machinery: one process-wide world (producer A with a chain long enough for the reply
// caps to be reachable), mirror definitions of the wire structures (written from protocol.go, so
// the harness does not depend on unexported types), payload readers, goroutine barriers.

import (
	"bytes"
	"crypto/sha256"
	"encoding/binary"
	"fmt"
	"io"
	"math/big"
	"os"
	"runtime"
	"strings"
	"sync"
	"sync/atomic"
	"testing"
	"time"

	"github.com/ethereum/go-ethereum/rlp"

	"github.com/zenon-network/go-zenon/chain/nom"
	"github.com/zenon-network/go-zenon/common/types"
	"github.com/zenon-network/go-zenon/vm/embedded/definition"

	"verifharness/pbt"
	"verifharness/sim"
)

// ---- protocol constants re-stated from the property text / protocol.go ---------------------

const (
	codeStatus             = 0
	codeNewBlockHashes     = 1
	codeTx                 = 2
	codeGetBlockHashes     = 3
	codeBlockHashes        = 4
	codeGetBlocks          = 5
	codeBlocks             = 6
	codeNewBlock           = 7
	codeGetBlockHashesFrom = 8

	maxMsgSize    = 10 * 1024 * 1024 // 10 MiB per message
	maxHashReply  = 512              // hashes per reply
	maxBlockReply = 128              // momentums per reply
	protoVersion  = 61
)

var codeNames = map[uint64]string{0: "Status", 1: "NewBlockHashes", 2: "Tx", 3: "GetBlockHashes", 4: "BlockHashes",
	5: "GetBlocks", 6: "Blocks", 7: "NewBlock", 8: "GetBlockHashesFromNumber"}

func codeName(c uint64) string {
	if n, ok := codeNames[c]; ok {
		return n
	}
	return fmt.Sprintf("code%d", c)
}

// mirror wire structures
type wStatus struct {
	ProtocolVersion uint32
	NetworkId       uint32
	TD              uint64
	CurrentBlock    types.Hash
	GenesisBlock    types.Hash
}
type wGetHashes struct {
	Hash   types.Hash
	Amount uint64
}
type wGetHashesFrom struct {
	Number uint64
	Amount uint64
}

// liveness waits: generous deadline, expiry is reported as inconclusive only
var liveDeadline = 20 * time.Second

// ---- the shared world ----------------------------------------------------------------------

type shared struct {
	w           *sim.World
	a           *sim.Node
	hashes      []types.Hash // hashes[h] = hash of A's momentum at height h (recorded while producing)
	height      uint64
	early       []*nom.DetailedMomentum // early[h] = wire copy of A's momentum h for h in 2..earlyTop
	blockHome   map[types.Hash]uint64   // account block hash -> height of A's momentum that contains it
	blockByHash map[types.Hash]*nom.AccountBlock
	// a valid user block of A's pool that is in no momentum (never committed)
	buildS float64
}

const earlyTop = 18

var (
	shOnce sync.Once
	sh     *shared
)

func bigLen() int {
	if v := os.Getenv("VERIF_C15_CHAIN"); v != "" {
		var n int
		fmt.Sscan(v, &n)
		if n > earlyTop+2 {
			return n
		}
	}
	return 640
}

// world returns the process-wide world. It is built once and never closed: the sessions on A do
// not change A (that is part of the oracle), followers are created and dropped per case.
func world() *shared {
	shOnce.Do(func() {
		t0 := time.Now()
		s := &shared{}
		s.w = sim.NewWorld(sim.DefaultSpec(3, 4), sim.WorldOpts{})
		s.a = s.w.AddNode("A", true)
		a := s.a
		s.hashes = []types.Hash{{}, a.Frontier().Hash}
		users := s.w.Keys.Users
		produce := func() {
			if err := a.Produce(0); err != nil {
				panic(fmt.Sprintf("C15 world: produce at %d: %v", a.Height(), err))
			}
			s.hashes = append(s.hashes, a.Frontier().Hash)
		}
		// some history with user sends, receives and an embedded call in the first momentums
		var sends []types.Hash
		var to []types.Address
		for i := 0; i < earlyTop; i++ {
			from := users[i%len(users)].Address
			dst := users[(i+1)%len(users)].Address
			if i%3 != 2 {
				blk, err := a.Transfer(from, dst, types.ZnnTokenStandard, big.NewInt(int64(1000+i)), nil)
				if err != nil {
					panic(fmt.Sprintf("C15 world: transfer: %v", err))
				}
				sends = append(sends, blk.Hash)
				to = append(to, dst)
			}
			if i%4 == 1 && len(sends) > 0 {
				if _, err := a.Receive(to[0], sends[0]); err != nil {
					panic(fmt.Sprintf("C15 world: receive: %v", err))
				}
				sends, to = sends[1:], to[1:]
			}
			if i == 3 {
				data := definition.ABIPlasma.PackMethodPanic(definition.FuseMethodName, dst)
				if _, err := a.Transfer(from, types.PlasmaContract, types.QsrTokenStandard, big.NewInt(50*sim.Zexp), data); err != nil {
					panic(fmt.Sprintf("C15 world: fuse: %v", err))
				}
			}
			produce()
		}
		for a.Height() < uint64(bigLen()) {
			produce()
		}
		s.height = a.Height()
		s.early = make([]*nom.DetailedMomentum, earlyTop+1)
		s.blockHome = map[types.Hash]uint64{}
		s.blockByHash = map[types.Hash]*nom.AccountBlock{}
		for h := uint64(2); h <= earlyTop; h++ {
			s.early[h] = sim.WireMomentums([]*nom.DetailedMomentum{a.Detailed(h)})[0]
			for _, b := range s.early[h].AccountBlocks {
				s.blockHome[b.Hash] = h
				s.blockByHash[b.Hash] = b
				for _, d := range b.DescendantBlocks {
					s.blockHome[d.Hash] = h
				}
			}
		}
		s.buildS = time.Since(t0).Seconds()
		sh = s
	})
	return sh
}

// TestMain removes the database directories of nodes that are deliberately never stopped (the
// shared producer; followers whose manager could not be quiesced): their goroutines may still be
// running, so the stores stay open and only the files are unlinked when the process ends.
func TestMain(m *testing.M) {
	code := m.Run()
	leakMu.Lock()
	for _, d := range leakedDirs {
		_ = os.RemoveAll(d)
	}
	leakMu.Unlock()
	if sh != nil && sh.a != nil && sh.a.Dir != "" {
		_ = os.RemoveAll(sh.a.Dir)
	}
	os.Exit(code)
}

var (
	leakMu     sync.Mutex
	leakedDirs []string
)

func leakDir(d string) {
	leakMu.Lock()
	leakedDirs = append(leakedDirs, d)
	leakMu.Unlock()
}

// ---- hashes ----------------------------------------------------------------------------------

// unknownHash derives a hash that is on no chain of the world.
func unknownHash(seed uint64, i uint64) types.Hash {
	var b [24]byte
	copy(b[:], "c15-unkn")
	binary.BigEndian.PutUint64(b[8:], seed)
	binary.BigEndian.PutUint64(b[16:], i)
	return types.Hash(sha256.Sum256(b[:]))
}

func encHashes(hs []types.Hash) []byte {
	b, err := rlp.EncodeToBytes(hs)
	if err != nil {
		panic(err)
	}
	return b
}

func mustEnc(v interface{}) []byte {
	b, err := rlp.EncodeToBytes(v)
	if err != nil {
		panic(err)
	}
	return b
}

// listHeader returns the RLP list header for a payload of n content bytes.
func listHeader(n uint64) []byte {
	if n < 56 {
		return []byte{0xC0 + byte(n)}
	}
	var tmp [8]byte
	binary.BigEndian.PutUint64(tmp[:], n)
	i := 0
	for tmp[i] == 0 {
		i++
	}
	return append([]byte{0xF7 + byte(8-i)}, tmp[i:]...)
}

// ---- payload readers ---------------------------------------------------------------------------

// countReader counts what the node pulled out of a payload.
type countReader struct {
	r io.Reader
	n int64
}

func (c *countReader) Read(p []byte) (int, error) {
	n, err := c.r.Read(p)
	atomic.AddInt64(&c.n, int64(n))
	return n, err
}
func (c *countReader) consumed() int64 { return atomic.LoadInt64(&c.n) }

// hashStream yields header || n * (0xA0 || 32-byte hash) without holding it in memory.
type hashStream struct {
	head  []byte
	n     uint64
	seed  uint64
	known []types.Hash // if non-empty, cycle through these instead of unknown hashes
	pos   uint64       // absolute position in the stream
}

func newHashStream(n uint64, seed uint64, known []types.Hash) *hashStream {
	return &hashStream{head: listHeader(n * 33), n: n, seed: seed, known: known}
}
func (h *hashStream) total() uint64 { return uint64(len(h.head)) + h.n*33 }
func (h *hashStream) Read(p []byte) (int, error) {
	if h.pos >= h.total() {
		return 0, io.EOF
	}
	w := 0
	for w < len(p) && h.pos < h.total() {
		if h.pos < uint64(len(h.head)) {
			p[w] = h.head[h.pos]
			w++
			h.pos++
			continue
		}
		off := h.pos - uint64(len(h.head))
		idx, in := off/33, off%33
		var unit [33]byte
		unit[0] = 0xA0
		if len(h.known) > 0 {
			copy(unit[1:], h.known[idx%uint64(len(h.known))][:])
		} else {
			x := unknownHash(h.seed, idx)
			copy(unit[1:], x[:])
		}
		k := copy(p[w:], unit[in:])
		w += k
		h.pos += uint64(k)
	}
	return w, nil
}

// ---- goroutine barriers -------------------------------------------------------------------------

type gor struct {
	state string
	text  string
}

func goroutines() []gor {
	buf := make([]byte, 1<<20)
	for {
		n := runtime.Stack(buf, true)
		if n < len(buf) {
			buf = buf[:n]
			break
		}
		buf = make([]byte, 2*len(buf))
	}
	var out []gor
	for _, blk := range strings.Split(string(buf), "\n\n") {
		if !strings.HasPrefix(blk, "goroutine ") {
			continue
		}
		st := ""
		if i := strings.Index(blk, "["); i >= 0 {
			if j := strings.Index(blk[i:], "]"); j >= 0 {
				st = blk[i+1 : i+j]
			}
		}
		out = append(out, gor{state: st, text: blk})
	}
	return out
}

// waitNone waits (as a barrier, not as an oracle) until no goroutine matches pred.
// It returns false if the generous deadline passed.
func waitNone(pred func(g gor) bool) (bool, string) {
	deadline := time.Now().Add(liveDeadline)
	sleep := 200 * time.Microsecond
	for {
		var hit *gor
		for _, g := range goroutines() {
			g := g
			if pred(g) {
				hit = &g
				break
			}
		}
		if hit == nil {
			return true, ""
		}
		slowest = hit.text
		if time.Now().After(deadline) {
			return false, hit.text
		}
		time.Sleep(sleep)
		if sleep < 20*time.Millisecond {
			sleep *= 2
		}
	}
}

var slowest string

const protoPkg = "github.com/zenon-network/go-zenon/protocol"

// importing: a goroutine that is inside an import started by the fetcher or the downloader
// (and not merely parked on the fetcher's completion channel after the fetcher stopped).
func importing(g gor) bool {
	if strings.Contains(g.text, "downloader.(*Downloader).process") {
		return true
	}
	if strings.Contains(g.text, "downloader.(*Downloader).fetchBlocks.func") {
		// "go func() { d.process() ... }()" that was created but has not run yet: the import it will do
		// (also after the cycle itself has ended) is still to come
		return true
	}
	if strings.Contains(g.text, "fetcher.(*Fetcher).insert.func") {
		// an import that has finished and only reports completion to the fetcher loop (for ever, if
		// that loop belongs to a manager that was stopped meanwhile) is not running any more
		if strings.HasPrefix(g.state, "chan send") && strings.Contains(g.text, "insert.func1.1") {
			return false
		}
		return true
	}
	if strings.Contains(g.text, "(*ProtocolManager).BroadcastMomentum") {
		return true
	}
	return false
}

// managerActive: any goroutine still inside the protocol packages (used after Stop, before the
// follower's database is removed). Goroutines parked for ever are not active: an import goroutine
// whose fetcher loop has quit stays in "chan send" on the done channel.
func managerActive(g gor) bool {
	if !strings.Contains(g.text, protoPkg) {
		return false
	}
	if strings.HasPrefix(g.state, "chan send") && strings.Contains(g.text, "fetcher.(*Fetcher).insert.func") {
		return false
	}
	return true
}

// ---- misc ----------------------------------------------------------------------------------------

func inconclusive(c *pbt.C, what string, detail string) {
	c.R.Count("inconclusive_waits", 1)
	c.Class("inconclusive-wait")
	c.Note("INCONCLUSIVE (liveness, not a violation): %s", what)
	if os.Getenv("VERIF_C15_DEBUG") != "" {
		fmt.Fprintf(os.Stderr, "C15 inconclusive wait: %s\n%s\n", what, detail)
	}
}

func short(h types.Hash) string { return fmt.Sprintf("%x", h[:4]) }

func clip(b []byte, n int) string {
	if len(b) <= n {
		return fmt.Sprintf("%x", b)
	}
	return fmt.Sprintf("%x...(%d bytes)", b[:n], len(b))
}

var _ = bytes.NewReader
