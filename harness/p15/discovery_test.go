package p15

// TestC15Discovery: discovery datagrams (p2p/discover/udp.go). Packets are built and signed by the
// harness from the packet layout (hash || signature || type || rlp), independent of encodePacket,
// mutated, and handed to decodePacket and to handlePacket of an endpoint bound to a fake socket.

import (
	"bytes"
	"crypto/ecdsa"
	"crypto/sha256"
	"encoding/binary"
	"fmt"
	"net"
	"runtime/debug"
	"sync"
	"testing"
	"time"

	"github.com/ethereum/go-ethereum/crypto"
	"github.com/ethereum/go-ethereum/rlp"

	"github.com/zenon-network/go-zenon/p2p/discover"

	"verifharness/pbt"
	"verifharness/sim"
)

const (
	pktPing      = 1
	pktPong      = 2
	pktFindnode  = 3
	pktNeighbors = 4

	dgramMax  = 1280       // readLoop's buffer: longer datagrams arrive cut
	farFuture = 4102444800 // 2100-01-01: an expiration that is valid whenever the test runs
)

// mirror packet structures (from the comments and definitions in udp.go)
type wEndpoint struct {
	IP  net.IP
	UDP uint16
	TCP uint16
}
type wPing struct {
	Version    uint
	From, To   wEndpoint
	Expiration uint64
}
type wPong struct {
	To         wEndpoint
	ReplyTok   []byte
	Expiration uint64
}
type wFindnode struct {
	Target     discover.NodeID
	Expiration uint64
}
type wNode struct {
	IP  net.IP
	UDP uint16
	TCP uint16
	ID  discover.NodeID
}
type wNeighbors struct {
	Nodes      []wNode
	Expiration uint64
}

func discKey(i int) *ecdsa.PrivateKey {
	var b [16]byte
	copy(b[:], "c15-disc")
	binary.BigEndian.PutUint64(b[8:], uint64(i))
	d := sha256.Sum256(b[:])
	k, err := crypto.ToECDSA(d[:])
	if err != nil {
		panic(err)
	}
	return k
}

func idOf(k *ecdsa.PrivateKey) discover.NodeID {
	var id discover.NodeID
	copy(id[:], crypto.FromECDSAPub(&k.PublicKey)[1:])
	return id
}

// sealPacket: hash || sig || ptype || body, signed by k.
func sealPacket(k *ecdsa.PrivateKey, ptype byte, body []byte) []byte {
	data := append([]byte{ptype}, body...)
	sig, err := crypto.Sign(crypto.Keccak256(data), k)
	if err != nil {
		panic(err)
	}
	rest := append(sig, data...)
	return append(crypto.Keccak256(rest), rest...)
}

func rehash(p []byte) {
	if len(p) >= 32 {
		copy(p, crypto.Keccak256(p[32:]))
	}
}

// ---- fake socket -------------------------------------------------------------------------------------

type sentPacket struct {
	to   *net.UDPAddr
	data []byte
}

type fakeConn struct {
	mu     sync.Mutex
	sent   []sentPacket
	sig    chan struct{}
	closed chan struct{}
	once   sync.Once
}

func newFakeConn() *fakeConn {
	return &fakeConn{sig: make(chan struct{}, 1), closed: make(chan struct{})}
}
func (f *fakeConn) ReadFromUDP(b []byte) (int, *net.UDPAddr, error) {
	<-f.closed
	return 0, nil, fmt.Errorf("closed")
}
func (f *fakeConn) WriteToUDP(b []byte, addr *net.UDPAddr) (int, error) {
	f.mu.Lock()
	f.sent = append(f.sent, sentPacket{addr, append([]byte{}, b...)})
	f.mu.Unlock()
	select {
	case f.sig <- struct{}{}:
	default:
	}
	return len(b), nil
}
func (f *fakeConn) Close() error        { f.once.Do(func() { close(f.closed) }); return nil }
func (f *fakeConn) LocalAddr() net.Addr { return &net.UDPAddr{IP: net.IP{10, 9, 8, 7}, Port: 30303} }
func (f *fakeConn) take() []sentPacket {
	f.mu.Lock()
	defer f.mu.Unlock()
	out := f.sent
	f.sent = nil
	return out
}

// waitSent waits (barrier) for a packet matching pred; it is removed from the log.
func (f *fakeConn) waitSent(pred func(sentPacket) bool) (sentPacket, bool) {
	t := time.NewTimer(liveDeadline)
	defer t.Stop()
	for {
		f.mu.Lock()
		for i, p := range f.sent {
			if pred(p) {
				f.sent = append(f.sent[:i:i], f.sent[i+1:]...)
				f.mu.Unlock()
				return p, true
			}
		}
		f.mu.Unlock()
		select {
		case <-f.sig:
		case <-t.C:
			return sentPacket{}, false
		}
	}
}

// openPacket is the harness' own decoder for what the node sends.
func openPacket(p []byte) (ptype byte, body []byte, from discover.NodeID, ok bool) {
	if len(p) < 98 || !bytes.Equal(p[:32], crypto.Keccak256(p[32:])) {
		return 0, nil, from, false
	}
	pub, err := crypto.Ecrecover(crypto.Keccak256(p[97:]), p[32:97])
	if err != nil || len(pub) != 65 {
		return 0, nil, from, false
	}
	copy(from[:], pub[1:])
	return p[97], p[98:], from, true
}

// ---- generator ------------------------------------------------------------------------------------------

var expirations = []uint64{farFuture, farFuture, farFuture, 0, 1, 1000000000, 1 << 30, 1 << 62, 1 << 63, ^uint64(0)}

func isExpired(ts uint64) bool { // mirrors the node's definition with a fixed, certainly-past/future split
	return !(ts == farFuture || ts == 1<<62)
}

func genIP(c *pbt.C, label string) net.IP {
	switch c.Weighted(label, 5, 2, 1, 1, 1, 1, 1) {
	case 0:
		return net.IP{192, 0, 2, byte(c.Int(label+".b", 1, 250))}
	case 1:
		ip := make(net.IP, 16)
		ip[0], ip[1], ip[15] = 0x20, 0x01, 7
		return ip
	case 2:
		return net.IP{}
	case 3:
		return net.IP{1, 2, 3}
	case 4:
		return net.IP{224, 0, 0, 1} // multicast
	case 5:
		return net.IP{0, 0, 0, 0}
	default:
		return make(net.IP, 17)
	}
}

type dpacket struct {
	ptype      byte
	body       []byte
	descr      string
	expired    bool
	wellFormed bool // a packet of a known type whose body is the canonical encoding of its structure
}

func genPacket(c *pbt.C, label string, toAddr *net.UDPAddr, lastPingHash []byte) dpacket {
	exp := expirations[c.Pick(label+".exp", len(expirations))]
	ep := func(l string) wEndpoint {
		return wEndpoint{IP: genIP(c, label+"."+l), UDP: uint16(c.Int(label+"."+l+".udp", 0, 65535)), TCP: uint16(c.Int(label+"."+l+".tcp", 0, 65535))}
	}
	d := dpacket{expired: isExpired(exp), wellFormed: true}
	switch c.Weighted(label+".type", 4, 2, 3, 3, 1) {
	case 0:
		v := []uint{4, 4, 4, 3, 5, 0, 1 << 31}[c.Pick(label+".version", 7)]
		d.ptype, d.body = pktPing, mustEnc(wPing{Version: v, From: ep("from"), To: ep("to"), Expiration: exp})
		d.descr = fmt.Sprintf("ping{version=%d, expiration=%d}", v, exp)
	case 1:
		tok := lastPingHash
		if tok == nil || c.Bool(label+".randomTok") {
			tok = c.Bytes(label+".tok", 0, 40)
		}
		d.ptype, d.body = pktPong, mustEnc(wPong{To: ep("to"), ReplyTok: tok, Expiration: exp})
		d.descr = fmt.Sprintf("pong{tok=%s, expiration=%d}", clip(tok, 6), exp)
	case 2:
		var target discover.NodeID
		copy(target[:], c.Bytes(label+".target", 0, 64))
		d.ptype, d.body = pktFindnode, mustEnc(wFindnode{Target: target, Expiration: exp})
		d.descr = fmt.Sprintf("findnode{target=%x.., expiration=%d}", target[:4], exp)
	case 3:
		n := []int{0, 1, 2, 11, 12, 13, 14, 15, 16, 17, 40, 200}[c.Pick(label+".n", 12)]
		nb := wNeighbors{Expiration: exp}
		for i := 0; i < n; i++ {
			nd := wNode{IP: genIP(c, fmt.Sprintf("%s.n%d.ip", label, i%4)), UDP: uint16(c.Int(fmt.Sprintf("%s.n%d.udp", label, i%4), 0, 3)), TCP: 30303}
			if i%3 == 0 {
				nd.ID = idOf(discKey(100 + i))
			} else {
				nd.ID[0], nd.ID[63] = byte(i), 0xFF // not a point on the curve
			}
			nb.Nodes = append(nb.Nodes, nd)
		}
		d.ptype, d.body = pktNeighbors, mustEnc(nb)
		d.descr = fmt.Sprintf("neighbors{%d nodes, expiration=%d}", n, exp)
	default:
		d.ptype = []byte{0, 5, 6, 0x80, 0xff}[c.Pick(label+".unknownType", 5)]
		d.body = mustEnc(wFindnode{Expiration: exp})
		d.wellFormed = false
		d.descr = fmt.Sprintf("packet of unknown type %d", d.ptype)
	}
	return d
}

type discEnv struct {
	c    *pbt.C
	conn *fakeConn
	u    *discover.VerifUDP
}

func (e *discEnv) decode(buf []byte, what string) (ptype byte, req interface{}, from discover.NodeID, hash []byte, err error) {
	defer func() {
		if p := recover(); p != nil {
			e.c.Failf("C15/packet-panic", "decodePacket panicked on %s (%s): %v\n%s", what, clip(buf, 48), p, trim(string(debug.Stack()), 3000))
		}
	}()
	return discover.VerifDecodePacket(buf)
}

func (e *discEnv) handle(from *net.UDPAddr, buf []byte, what string) (err error) {
	defer func() {
		if p := recover(); p != nil {
			e.c.Failf("C15/packet-panic", "handlePacket panicked on %s (%s): %v\n%s", what, clip(buf, 48), p, trim(string(debug.Stack()), 3000))
		}
	}()
	e.c.Checkpoint() // parts of the handling run on the endpoint's own goroutines
	if len(buf) > dgramMax {
		buf = buf[:dgramMax] // what readLoop would hand over
	}
	return e.u.HandlePacket(from, buf)
}

func TestC15Discovery(t *testing.T) {
	pbt.Check(t, "C15", discoveryProp)
}

func discoveryProp(c *pbt.C) {
	sim.Silence()
	nodeKey := discKey(0)
	conn := newFakeConn()
	u := discover.VerifNewUDP(nodeKey, conn)
	c.Cleanup(u.Close)
	e := &discEnv{c: c, conn: conn, u: u}
	selfAddr := conn.LocalAddr().(*net.UDPAddr)

	sender := discKey(1 + c.Int("sender", 0, 2))
	senderID := idOf(sender)
	from := &net.UDPAddr{IP: net.IP{198, 51, 100, byte(1 + c.Int("fromHost", 0, 3))}, Port: 30000 + c.Int("fromPort", 0, 3)}

	// optionally the sender first bonds with the node (ping, answer the node's ping with a pong), so
	// that findnode requests are served
	var lastPingHash []byte
	bonded := false
	if c.Weighted("bondFirst", 3, 1) == 1 {
		ping := sealPacket(sender, pktPing, mustEnc(wPing{Version: 4, From: wEndpoint{IP: from.IP, UDP: uint16(from.Port), TCP: 30303},
			To: wEndpoint{IP: selfAddr.IP, UDP: uint16(selfAddr.Port)}, Expiration: farFuture}))
		if err := e.handle(from, ping, "bonding ping"); err != nil {
			c.Failf("C15/valid-packet-refused", "a valid ping was refused: %v", err)
		}
		// the node pings back: answer it
		p, ok := conn.waitSent(func(sp sentPacket) bool {
			pt, _, _, ok := openPacket(sp.data)
			return ok && pt == pktPing
		})
		if !ok {
			inconclusive(c, "the node did not ping back within the deadline", "")
			return
		}
		lastPingHash = append([]byte{}, p.data[:32]...)
		pong := sealPacket(sender, pktPong, mustEnc(wPong{To: wEndpoint{IP: selfAddr.IP, UDP: uint16(selfAddr.Port)}, ReplyTok: lastPingHash, Expiration: farFuture}))
		if err := e.handle(from, pong, "bonding pong"); err != nil {
			c.Failf("C15/valid-packet-refused", "the pong answering the node's ping was refused: %v", err)
		}
		deadline := time.Now().Add(liveDeadline)
		for !u.Bonded(senderID) {
			if time.Now().After(deadline) {
				inconclusive(c, "bonding did not complete within the deadline", "")
				return
			}
			time.Sleep(100 * time.Microsecond)
		}
		bonded = true
		c.Class("sender-bonded")
		conn.take()
	}

	npk := c.Int("packets", 1, 4)
	for i := 0; i < npk; i++ {
		label := fmt.Sprintf("p%d", i)
		d := genPacket(c, label, selfAddr, lastPingHash)
		orig := sealPacket(sender, d.ptype, d.body)
		// the node's own encoder agrees with the packet layout the harness uses
		if d.wellFormed && c.Weighted(label+".encCheck", 3, 1) == 1 {
			var req interface{}
			switch d.ptype {
			case pktPing:
				var v wPing
				_ = rlp.DecodeBytes(d.body, &v)
				req = v
			case pktPong:
				var v wPong
				_ = rlp.DecodeBytes(d.body, &v)
				req = v
			case pktFindnode:
				var v wFindnode
				_ = rlp.DecodeBytes(d.body, &v)
				req = v
			case pktNeighbors:
				var v wNeighbors
				_ = rlp.DecodeBytes(d.body, &v)
				req = v
			}
			if enc, err := discover.VerifEncodePacket(sender, d.ptype, req); err != nil || !bytes.Equal(enc, orig) {
				c.Failf("C15/packet-encode-differs", "encodePacket and the packet layout disagree for %s: err=%v", d.descr, err)
			}
		}
		pkt := append([]byte{}, orig...)
		mut := c.OneOf(label+".mutation", "none", "none", "none", "wrong-hash", "flip-after-hash", "flip-and-rehash", "flip-sig-and-rehash",
			"truncate", "truncate-and-rehash", "append", "append-and-rehash", "rlp-mutate-resigned", "random-bytes", "oversize")
		strictReject := false // decodePacket must return an error
		notFromSender := false
		mdescr := mut
		switch mut {
		case "none":
		case "wrong-hash":
			p := c.Int(label+".pos", 0, 31)
			pkt[p] ^= 1 << uint(c.Int(label+".bit", 0, 7))
			strictReject = true
		case "flip-after-hash":
			p := c.Int(label+".pos", 32, len(pkt)-1)
			pkt[p] ^= 1 << uint(c.Int(label+".bit", 0, 7))
			strictReject = true
			mdescr = fmt.Sprintf("bit flipped in byte %d, hash kept", p)
		case "flip-and-rehash":
			p := c.Int(label+".pos", 32, len(pkt)-1)
			pkt[p] ^= 1 << uint(c.Int(label+".bit", 0, 7))
			rehash(pkt)
			notFromSender = true
			mdescr = fmt.Sprintf("bit flipped in byte %d, hash recomputed", p)
		case "flip-sig-and-rehash":
			p := c.Int(label+".pos", 32, 96)
			pkt[p] ^= 1 << uint(c.Int(label+".bit", 0, 7))
			rehash(pkt)
			notFromSender = true
			mdescr = fmt.Sprintf("bit flipped in signature byte %d, hash recomputed", p-32)
		case "truncate":
			pkt = pkt[:c.Int(label+".cut", 0, len(pkt)-1)]
			strictReject = true
		case "truncate-and-rehash":
			pkt = pkt[:c.Int(label+".cut", 33, len(pkt)-1)]
			rehash(pkt)
			notFromSender = true
		case "append":
			pkt = append(pkt, c.Bytes(label+".tail", 1, 20)...)
			strictReject = true
		case "append-and-rehash":
			pkt = append(pkt, c.Bytes(label+".tail", 1, 20)...)
			rehash(pkt)
			notFromSender = true
		case "rlp-mutate-resigned":
			// the sender itself signs a malformed body: passes hash and signature
			body, md := mutateRLP(c, label+".rlp", d.body)
			pkt = sealPacket(sender, d.ptype, body)
			d.wellFormed = d.wellFormed && bytes.Equal(body, d.body)
			mdescr = "body " + md + ", signed by the sender"
		case "random-bytes":
			pkt = c.Bytes(label+".raw", 0, 200)
			strictReject = true
		case "oversize":
			// a neighbours packet too long for a datagram: arrives cut at 1280 bytes
			nb := wNeighbors{Expiration: farFuture}
			for j := 0; j < 30; j++ {
				nb.Nodes = append(nb.Nodes, wNode{IP: net.IP{192, 0, 2, byte(j)}, UDP: 1, TCP: 1, ID: idOf(discKey(200 + j))})
			}
			pkt = sealPacket(sender, pktNeighbors, mustEnc(nb))
			strictReject = true
			mdescr = fmt.Sprintf("neighbors packet of %d bytes (cut at %d on arrival)", len(pkt), dgramMax)
		}
		if mut == "none" && len(pkt) > dgramMax {
			mut, strictReject = "too-long-for-a-datagram", true
			mdescr = fmt.Sprintf("%d bytes, cut at %d on arrival", len(pkt), dgramMax)
		}
		arriving := pkt
		if len(arriving) > dgramMax {
			arriving = arriving[:dgramMax]
		}
		if mut != "none" && bytes.Equal(arriving, orig) {
			// the change fell victim to the datagram cut (or undid itself): what arrives is the valid packet
			mut, strictReject, notFromSender = "none", false, false
			mdescr = "mutation without effect on what arrives"
		}
		c.Class("mutation-" + mut)
		pt, req, fromID, hash, err := e.decode(arriving, d.descr+" / "+mdescr)
		c.Note("%s / %s (%d bytes) -> decode: type=%d from-sender=%v err=%v", d.descr, mdescr, len(pkt), pt, fromID == senderID, err)
		passesIntegrity := len(arriving) >= 98 && bytes.Equal(arriving[:32], crypto.Keccak256(arriving[32:]))
		if passesIntegrity {
			c.NonTrivial()
			c.Class("passes-hash-check")
		}
		if strictReject && err == nil {
			c.Failf("C15/packet-accepted-corrupt", "decodePacket accepted %s / %s: %s", d.descr, mdescr, clip(arriving, 64))
		}
		if notFromSender && err == nil && fromID == senderID {
			c.Failf("C15/packet-forged-sender", "%s / %s decodes as coming from the original sender", d.descr, mdescr)
		}
		if mut == "none" {
			if d.wellFormed {
				if err != nil {
					c.Failf("C15/valid-packet-refused", "decodePacket refused a well-formed %s: %v", d.descr, err)
				}
				if fromID != senderID {
					c.Failf("C15/packet-sender", "decodePacket attributes %s to %x, signed by %x", d.descr, fromID[:6], senderID[:6])
				}
				if !bytes.Equal(hash, orig[:32]) {
					c.Failf("C15/packet-hash", "decodePacket returns hash %x for a packet with hash %x", hash, orig[:32])
				}
				if re, rerr := rlp.EncodeToBytes(req); rerr != nil || !bytes.Equal(re, d.body) {
					c.Failf("C15/packet-content", "decoded %s does not re-encode to the body that was sent (err=%v)", d.descr, rerr)
				}
			} else if err == nil {
				c.Failf("C15/packet-accepted-corrupt", "decodePacket accepted %s", d.descr)
			}
		}
		if err == nil && req != nil && passesIntegrity {
			// whatever decodes is the canonical content of the signed body
			if re, rerr := rlp.EncodeToBytes(req); rerr == nil {
				if _, _, rest, serr := rlp.Split(arriving[98:]); serr == nil {
					first := arriving[98 : len(arriving)-len(rest)]
					if !bytes.Equal(re, first) {
						c.Failf("C15/packet-content", "decoded request re-encodes to %s, the signed body starts with %s", clip(re, 32), clip(first, 32))
					}
				}
			}
		}
		// ---- the full handling
		conn.take()
		herr := e.handle(from, pkt, d.descr+" / "+mdescr)
		var replies []sentPacket
		for _, r := range conn.take() {
			// pings are sent by bonding processes of earlier packets at any time; answers (pong,
			// neighbors) are sent inside handlePacket
			if rpt, _, _, ok := openPacket(r.data); !ok || rpt != pktPing {
				replies = append(replies, r)
			}
		}
		c.Note("   handlePacket -> %v, %d answers sent", herr, len(replies))
		if err != nil && herr == nil {
			c.Failf("C15/packet-handled-despite-error", "handlePacket processed %s / %s although decodePacket fails with %v", d.descr, mdescr, err)
		}
		if herr != nil && len(replies) > 0 {
			c.Failf("C15/packet-reply-to-rejected", "%d datagrams sent in answer to a rejected packet (%s / %s: %v)", len(replies), d.descr, mdescr, herr)
		}
		if err == nil && d.expired && (pt >= 1 && pt <= 4) && mut == "none" {
			if herr == nil {
				c.Failf("C15/packet-expired-accepted", "expired %s was processed", d.descr)
			}
		}
		nn := 0
		for _, r := range replies {
			if len(r.data) > dgramMax {
				c.R.Count("datagrams_over_1280", 1)
			}
			rpt, rbody, rfrom, ok := openPacket(r.data)
			if !ok || rfrom != idOf(nodeKey) {
				c.Failf("C15/reply-malformed", "the node sent a datagram that does not open with its own key (%s)", clip(r.data, 32))
			}
			if rpt == pktNeighbors {
				var nb wNeighbors
				if rlp.DecodeBytes(rbody, &nb) == nil {
					nn += len(nb.Nodes)
				}
				c.Class("findnode-served")
			}
		}
		if nn > 16 {
			c.Failf("C15/reply-cap/neighbors", "%d neighbours sent in answer to one findnode (bucket size 16)", nn)
		}
		_ = bonded
	}

	// ---- the node keeps serving others: a valid ping from another key gets its pong
	other := discKey(9)
	oaddr := &net.UDPAddr{IP: net.IP{203, 0, 113, 9}, Port: 30309}
	ping := sealPacket(other, pktPing, mustEnc(wPing{Version: 4, From: wEndpoint{IP: oaddr.IP, UDP: 30309, TCP: 30309},
		To: wEndpoint{IP: selfAddr.IP, UDP: uint16(selfAddr.Port)}, Expiration: farFuture}))
	conn.take()
	if err := e.handle(oaddr, ping, "honest ping"); err != nil {
		c.Failf("C15/honest-ping-refused", "a valid ping of another node was refused after the hostile packets: %v", err)
	}
	p, ok := conn.waitSent(func(sp sentPacket) bool {
		pt, _, _, ok := openPacket(sp.data)
		return ok && pt == pktPong && sp.to.String() == oaddr.String()
	})
	if !ok {
		c.Failf("C15/honest-ping-unanswered", "no pong for a valid ping of another node after the hostile packets")
	}
	_, body, _, _ := openPacket(p.data)
	var pg wPong
	if err := rlp.DecodeBytes(body, &pg); err != nil || !bytes.Equal(pg.ReplyTok, ping[:32]) {
		c.Failf("C15/honest-ping-unanswered", "the pong does not echo the ping's hash (err=%v)", err)
	}
}

// ---- native fuzz target -------------------------------------------------------------------------------------

var (
	fuzzUDPOnce sync.Once
	fuzzUDP     *discover.VerifUDP
	fuzzConn    *fakeConn
)

func FuzzC15Packet(f *testing.F) {
	k := discKey(1)
	seeds := [][]byte{
		sealPacket(k, pktPing, mustEnc(wPing{Version: 4, From: wEndpoint{IP: net.IP{1, 2, 3, 4}, UDP: 1, TCP: 2}, To: wEndpoint{IP: net.IP{5, 6, 7, 8}, UDP: 3}, Expiration: farFuture})),
		sealPacket(k, pktPong, mustEnc(wPong{To: wEndpoint{IP: net.IP{1, 2, 3, 4}, UDP: 1}, ReplyTok: bytes.Repeat([]byte{7}, 32), Expiration: farFuture})),
		sealPacket(k, pktFindnode, mustEnc(wFindnode{Target: idOf(discKey(5)), Expiration: farFuture})),
		sealPacket(k, pktNeighbors, mustEnc(wNeighbors{Nodes: []wNode{{IP: net.IP{9, 9, 9, 9}, UDP: 9, TCP: 9, ID: idOf(discKey(6))}}, Expiration: farFuture})),
		sealPacket(k, pktPing, mustEnc(wPing{Version: 4, Expiration: 1})),
	}
	bodies := map[string]bool{}
	for _, s := range seeds {
		f.Add(s)
		bodies[string(s[32:])] = true
	}
	kid := idOf(k)
	f.Fuzz(func(t *testing.T, pkt []byte) {
		fuzzUDPOnce.Do(func() {
			sim.Silence()
			fuzzConn = newFakeConn()
			fuzzUDP = discover.VerifNewUDP(discKey(0), fuzzConn)
		})
		if len(pkt) > dgramMax {
			pkt = pkt[:dgramMax]
		}
		var (
			req    interface{}
			fromID discover.NodeID
			hash   []byte
			err    error
		)
		func() {
			defer func() {
				if p := recover(); p != nil {
					t.Fatalf("C15/packet-panic: decodePacket panicked: %v\n%s", p, debug.Stack())
				}
			}()
			_, req, fromID, hash, err = discover.VerifDecodePacket(pkt)
		}()
		if err == nil {
			if len(pkt) < 98 || !bytes.Equal(pkt[:32], crypto.Keccak256(pkt[32:])) || !bytes.Equal(hash, pkt[:32]) {
				t.Fatalf("C15/packet-accepted-corrupt: accepted a packet whose hash does not match")
			}
			pub, rerr := crypto.Ecrecover(crypto.Keccak256(pkt[97:]), pkt[32:97])
			if rerr != nil || !bytes.Equal(pub[1:], fromID[:]) {
				t.Fatalf("C15/packet-sender: sender id is not the key recovered from the signature")
			}
			// only the seeds were ever signed with the seed key
			if fromID == kid && !bodies[string(pkt[32:])] {
				t.Fatalf("C15/packet-forged-sender: a packet that was never signed decodes as coming from the seed key")
			}
			if re, rerr := rlp.EncodeToBytes(req); rerr == nil {
				if _, _, rest, serr := rlp.Split(pkt[98:]); serr == nil && !bytes.Equal(re, pkt[98:len(pkt)-len(rest)]) {
					t.Fatalf("C15/packet-content: decoded request does not re-encode to the signed body")
				}
			}
		}
		func() {
			defer func() {
				if p := recover(); p != nil {
					t.Fatalf("C15/packet-panic: handlePacket panicked: %v\n%s", p, debug.Stack())
				}
			}()
			herr := fuzzUDP.HandlePacket(&net.UDPAddr{IP: net.IP{198, 51, 100, 1}, Port: 30001}, pkt)
			if err != nil && herr == nil {
				t.Fatalf("C15/packet-handled-despite-error: handlePacket processed a packet decodePacket rejects (%v)", err)
			}
		}()
		fuzzConn.take()
	})
}
