package p15

// TestC15ThirdPeer: "only the offending peer is dropped, and the node keeps serving the others",
// for the peer the node is synchronising with. Peer A (higher TD, honest answers throughout) starts a
// synchronisation cycle; the harness holds back A's answer to one of the node's hash requests —
//
//   hash-phase-1 / hash-phase-2   the first / second request of the hash download (fetchHashes),
//   ancestor                      the look at the head that opens the ancestor search (findAncestor)
//
// (the phase is read off the requests the node sends: full-size requests of 512 hashes are #1 the
// ancestor lookup, #2.. the hash download; the single-hash requests in between are the binary search)
// — and while the node waits, a second connection B (valid status, TD not ahead) delivers 1..3
// unsolicited BlockHashesMsg: the same hash twice, hashes of A's chain in the requested range (scheduled
// already, or about to be), an empty list, unknown hashes. Then A's answer is released and A goes on
// answering honestly.
//
// THE RULE. A sent nothing but correct answers to what it was asked. So, once the cycle and every import
// have come to rest (barriers on goroutines, no timing): (1) A is still connected — its protocol
// function has not returned and the node has not asked to disconnect it; a violation is
// C15/honest-peer-dropped/<the node's disconnect reason, or the error the protocol function returned>;
// (2) the node is at A's tip with A's momentum there (C15/honest-sync-cut-short otherwise: B made the
// cycle with A end early) and, by the common end of the session, its store equals that of a reference
// follower of A. What happens to B is not constrained. The only use of the clock: if the harness itself
// kept A's answer back for more than half of the downloader's 5 s request timeout (machine overloaded),
// A may legitimately be dropped as unresponsive; such a case is counted (held_too_long) and not judged.

import (
	"fmt"
	"os"
	"strings"
	"sync/atomic"
	"testing"
	"time"

	"github.com/zenon-network/go-zenon/common/types"
	"github.com/zenon-network/go-zenon/p2p"
	"github.com/zenon-network/go-zenon/protocol"

	"verifharness/pbt"
)

func TestC15ThirdPeer(t *testing.T) {
	pbt.Check(t, "C15", thirdPeerProp)
}

const holdLimit = 2500 * time.Millisecond // half of downloader.hashTTL

func thirdPeerProp(c *pbt.C) {
	tcase := time.Now()
	defer func() { c.R.Count("ms_case", int(time.Since(tcase).Milliseconds())) }()
	sh := world()
	s := &session{c: c, sh: sh, validSet: map[uint64]bool{}, poolOK: map[types.Hash]bool{}, goodBlk: map[types.Hash]bool{}, t0: time.Now()}
	s.seed = c.Uint64("seed", 0, 1<<32)
	s.holdWhat = []string{"hash-phase-1", "hash-phase-2", "ancestor"}[c.Weighted("heldRequest", 4, 5, 3)]
	s.k = uint64(c.Int("followerHeight", 1, 9))
	s.tip = s.k + uint64(c.Int("ahead", 2, 5))
	s.k0 = s.k
	b := sh.w.AddNode("B", false)
	s.node = b
	if s.k > 1 {
		if _, err := b.Bridge.InsertChain(sh.a.Range(2, s.k)); err != nil {
			sh.w.Drop(b)
			c.Failf("C15/setup", "follower cannot sync the honest prefix: %v", err)
		}
	}
	s.heightOf = map[types.Hash]uint64{}
	for h := uint64(1); h <= s.tip; h++ {
		s.heightOf[sh.hashes[h]] = h
	}
	s.chainID, s.genesis = s.node.Chain.ChainIdentifier(), sh.hashes[1]
	frontier0, pool0, dump0 := s.node.Frontier().Hash, poolHashes(s.node), s.node.Dump()
	minPeers := c.Int("minPeers", 0, 1)
	s.pm = protocol.NewProtocolManager(minPeers, s.chainID, s.node.Bridge)
	s.pm.Start()
	s.note("follower at height %d, honest peer A presents its chain up to %d; A's answer to the %s request is held back; minPeers=%d", s.k, s.tip, s.holdWhat, minPeers)
	defer s.teardown()
	defer func() {
		s.releaseHeld()
		if traceClass == "all" {
			fmt.Fprintf(os.Stderr, "---- case\n%s\n", strings.Join(s.tr, "\n"))
		}
		if traceClass == "fail" {
			if r := recover(); r != nil {
				s.stopResponder()
				fmt.Fprintf(os.Stderr, "---- failing case (%v)\n%s\n", r, strings.Join(s.tr, "\n"))
				panic(r)
			}
		}
	}()

	// ---- A: honest throughout
	s.policy = "honest"
	for h := s.k + 1; h <= s.tip; h++ {
		s.validSet[h] = true
		for _, blk := range sh.early[h].AccountBlocks {
			s.poolOK[blk.Hash], s.goodBlk[blk.Hash] = true, true
		}
	}
	s.hold, s.holding = make(chan struct{}), make(chan struct{})
	if !s.hostConnect("valid") {
		return
	}
	peerA := s.host
	peerA.name = "A"
	if peerA.gone() {
		c.Failf("C15/honest-refused", "a peer with a valid status was dropped: %v", peerA.res.err)
	}
	trig := &hmsg{code: codeNewBlock, payload: mustEnc(s.momentumAt(s.tip)), reaches: true,
		descr: fmt.Sprintf("A: NewBlock{valid A[%d]} (its newest momentum; the node starts to synchronise with A)", s.tip)}
	trig.size = uint32(len(trig.payload))
	if !s.sendHostile(trig) {
		return
	}
	select {
	case <-s.holding:
	case <-peerA.done:
	case <-time.After(liveDeadline):
	}
	reached := false
	select {
	case <-s.holding:
		reached = true
	default:
	}
	var heldFor time.Duration
	delivered3 := 0
	if reached {
		heldSince := time.Now()
		c.Class("held-" + s.holdWhat)
		s.note("A's answer to the node's %s is held back", s.heldRq)
		// ---- B: valid status, nothing ahead, then unsolicited hash lists
		peerB := s.openPeer("B", uint64(c.Int("b.td", 0, int(s.node.Height()))))
		if peerB == nil {
			return
		}
		n := c.Int("b.deliveries", 1, 3)
		for i := 0; i < n && !s.aborted && !peerB.gone(); i++ {
			label := fmt.Sprintf("b%d", i)
			var hs []types.Hash
			var d string
			kind := c.OneOf(label+".kind", "same-hash-twice", "in-range", "empty", "unknown", "in-range-reversed")
			c.Class("b-sends-" + kind)
			switch kind {
			case "same-hash-twice":
				h, hk := s.pickHash(label + ".hash")
				if c.Bool(label + ".inRange") {
					ht := s.k0 + uint64(c.Int(label+".ht", 0, int(s.tip-s.k0)))
					h, hk = s.hashAt(ht), fmt.Sprintf("A[%d]", ht)
				}
				hs, d = []types.Hash{h, h}, "the same hash twice ("+hk+")"
			case "in-range", "in-range-reversed":
				lo := s.k0 + uint64(c.Int(label+".lo", 0, int(s.tip-s.k0)))
				for h := lo; h <= s.tip; h++ {
					hs = append(hs, s.hashAt(h))
				}
				if kind == "in-range-reversed" {
					for x, y := 0, len(hs)-1; x < y; x, y = x+1, y-1 {
						hs[x], hs[y] = hs[y], hs[x]
					}
				}
				d = fmt.Sprintf("hashes of A[%d..%d] (%s)", lo, s.tip, kind)
			case "empty":
				d = "an empty list"
			default:
				k := c.Int(label+".n", 1, 20)
				for j := 0; j < k; j++ {
					hs = append(hs, unknownHash(s.seed, uint64(1000*i+j)))
				}
				d = fmt.Sprintf("%d unknown hashes", k)
			}
			m := &hmsg{code: codeBlockHashes, payload: encHashes(hs), descr: "B: BlockHashes[" + d + "] (unsolicited, while A's answer is held back)"}
			m.size = uint32(len(m.payload))
			s.host = peerB
			if !s.sendHostile(m) {
				return
			}
			delivered3++
		}
		heldFor = time.Since(heldSince)
		s.host = peerA
	} else {
		c.Class("held-request-never-sent")
	}
	s.releaseHeld()
	s.note("A's answer is released after %d deliveries of B; A goes on answering honestly", delivered3)
	if !s.awaitRest("after A's answer was released") {
		return
	}
	s.unreportedPanics()
	s.unreportedBlocks()

	// ---- the rule
	fr := s.node.Frontier()
	atTip := fr.Height == s.tip && fr.Hash == s.hashAt(s.tip)
	s.note("at rest: node at height %d (A's tip %d), A connected: %v", fr.Height, s.tip, !peerA.gone())
	switch {
	case heldFor > holdLimit:
		c.R.Count("held_too_long", 1)
		c.Class("held-too-long-not-judged")
	default:
		if peerA.gone() || atomic32(&peerA.disc) != 0 {
			reason := "protocol-function-returned"
			if d := atomic32(&peerA.disc); d != 0 {
				reason = strings.ReplaceAll(strings.ToLower(p2p.DiscReason(d-1).String()), " ", "-")
			}
			c.Failf("C15/honest-peer-dropped/"+reason,
				"peer A, which only gave correct answers to the node's requests, was dropped (disconnect requested by the node: %v; its protocol function returned: %v) after another peer's unsolicited hash lists arrived while A's answer to the %s request was outstanding; B still connected: %v; node at height %d of %d.\nsession:\n  %s",
				atomic32(&peerA.disc) != 0, peerA.res.err, s.holdWhat, s.host != nil && !lastB(s).gone(), fr.Height, s.tip, strings.Join(s.hist, "\n  "))
		}
		if !atTip {
			c.Failf("C15/honest-sync-cut-short/"+s.holdWhat,
				"the synchronisation with honest peer A came to rest with the node at height %d/%s instead of A's tip %d/%s (A is still connected) after another peer's unsolicited hash lists arrived while A's answer to the %s request was outstanding.\nsession:\n  %s",
				fr.Height, short(fr.Hash), s.tip, short(s.hashAt(s.tip)), s.holdWhat, strings.Join(s.hist, "\n  "))
		}
		c.Class("A-still-connected-node-at-tip")
	}
	if !s.finish(frontier0, pool0, dump0) {
		return
	}
	if reached && delivered3 > 0 && atTip && strings.HasPrefix(s.holdWhat, "hash-phase") {
		c.NonTrivial()
		c.NonTrivialItem(fmt.Sprintf("third-peer/%s/%d", s.holdWhat, delivered3))
	}
	c.R.Count("messages", s.msgNo)
}

func atomic32(p *int32) int32 { return atomic.LoadInt32(p) }

// lastB returns the connection opened last (B), or A if B was never opened.
func lastB(s *session) *endpoint {
	s.epMu.Lock()
	defer s.epMu.Unlock()
	return s.eps[len(s.eps)-1]
}
