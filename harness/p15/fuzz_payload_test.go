package p15

// FuzzC15Payload: one message (code byte + payload) into the message handler of a real
// ProtocolManager on the long chain, after a valid handshake; same oracles as TestC15Session
// (no handler panic, reply caps, the node's chain unchanged, a well-formed request still answered).

import (
	"bytes"
	"fmt"
	"os"
	"strings"
	"sync"
	"testing"

	"github.com/ethereum/go-ethereum/rlp"

	"github.com/zenon-network/go-zenon/chain/nom"
	"github.com/zenon-network/go-zenon/common/types"
	"github.com/zenon-network/go-zenon/protocol"
)

// knownKeys reads the committed known findings of C15 (the fuzz targets do not run under pbt).
func knownKeys() map[string]bool {
	known := map[string]bool{}
	path := os.Getenv("VERIF_KNOWN")
	if path == "" {
		path = "/verif/KNOWN_FINDINGS.txt"
	}
	data, err := os.ReadFile(path)
	if err != nil {
		return known
	}
	for _, line := range strings.Split(string(data), "\n") {
		line = strings.TrimSpace(line)
		if !strings.HasPrefix(line, "known:") {
			continue
		}
		var prop, key string
		for _, f := range strings.Fields(line) {
			if strings.HasPrefix(f, "property=") {
				prop = strings.TrimPrefix(f, "property=")
			}
			if strings.HasPrefix(f, "key=") {
				key = strings.TrimPrefix(f, "key=")
			}
		}
		if prop == "C15" && key != "" {
			known[key] = true
		}
	}
	return known
}

var (
	fuzzPMOnce sync.Once
	fuzzPM     *protocol.ProtocolManager
	fuzzKnown  map[string]bool
	fuzzExecs  int
)

func FuzzC15Payload(f *testing.F) {
	// seeds: one valid encoding per message code, written with the mirror structures; the hashes
	// are those of the deterministic world every worker builds
	sh := world()
	h := func(i uint64) types.Hash { return sh.hashes[i] }
	f.Add(byte(codeStatus), mustEnc(wStatus{protoVersion, 100, 5, h(5), h(1)}))
	f.Add(byte(codeNewBlockHashes), encHashes([]types.Hash{h(7), unknownHash(1, 1)}))
	f.Add(byte(codeTx), mustEnc(sh.early[3].AccountBlocks))
	f.Add(byte(codeGetBlockHashes), mustEnc(wGetHashes{h(600), 512}))
	f.Add(byte(codeGetBlockHashes), mustEnc(wGetHashes{h(3), 1}))
	f.Add(byte(codeBlockHashes), encHashes([]types.Hash{h(2), h(3)}))
	f.Add(byte(codeGetBlocks), encHashes([]types.Hash{h(2), h(3), h(640)}))
	f.Add(byte(codeBlocks), mustEnc([]*nom.DetailedMomentum{sh.early[2], sh.early[3]}))
	f.Add(byte(codeNewBlock), mustEnc(sh.early[4]))
	f.Add(byte(codeGetBlockHashesFrom), mustEnc(wGetHashesFrom{1, 512}))
	f.Add(byte(codeGetBlockHashesFrom), mustEnc(wGetHashesFrom{100, 3}))
	f.Add(byte(9), []byte{0xC0})
	f.Fuzz(func(t *testing.T, code byte, payload []byte) {
		sh := world()
		fuzzPMOnce.Do(func() {
			fuzzKnown = knownKeys()
			fuzzPM = protocol.NewProtocolManager(0, sh.a.Chain.ChainIdentifier(), sh.a.Bridge)
			fuzzPM.Start()
		})
		fuzzExecs++
		frontier := sh.a.Frontier().Hash
		ep, ok := connect(fuzzPM, "fuzz", 0xF0, false)
		if !ok {
			t.Skip("inconclusive: protocol function did not start reading")
		}
		defer ep.close()
		st := wStatus{protoVersion, uint32(sh.a.Chain.ChainIdentifier()), 1, sh.hashes[1], sh.hashes[1]}
		if o := ep.deliverBytes(codeStatus, mustEnc(st), "status"); o != delivered {
			if o == stalled {
				t.Skip("inconclusive: handshake made no progress")
			}
			t.Fatalf("C15/honest-refused: valid status refused: %v", ep.res.err)
		}
		ep.fresh()
		descr := fmt.Sprintf("%s %x", codeName(uint64(code)), payload)
		o := ep.deliverBytes(uint64(code), payload, descr)
		if o == blocked {
			t.Fatalf("C15/message-loop-blocked/%s: handler parked for good after %s\n%s", ep.wedged.fn, trim(descr, 300), ep.wedged.dump)
		}
		if o == stalled {
			t.Skip("inconclusive: no progress within the deadline")
		}
		if o == dropped && ep.res.panicked {
			key := fmt.Sprintf("C15/handler-panic/%s", codeName(uint64(code)))
			if code == codeGetBlockHashes && strings.Contains(ep.res.stack, "momentum.(*momentumStore).GetMomentumsByHash") {
				key = "C15/handler-panic"
			}
			if fuzzKnown[key] {
				return
			}
			t.Fatalf("%s: handler panic on %s: %v\n%s", key, trim(descr, 300), ep.res.pval, trim(ep.res.stack, 3000))
		}
		for _, m := range ep.fresh() {
			if m.over {
				t.Fatalf("C15/reply-cap/size: %d bytes sent in answer to %s", m.size, trim(descr, 300))
			}
			n, err := rlp.CountValues(listContent(m.data))
			switch m.code {
			case codeBlockHashes:
				if err == nil && n > maxHashReply {
					key := fmt.Sprintf("C15/reply-cap/code%d", code)
					if code == codeGetBlockHashesFrom {
						var q wGetHashesFrom
						if streamDecode(payload, &q) == nil && fromTriggers(q.Number, q.Amount, sh.height) {
							key = "C15/reply-cap"
						}
					}
					if !fuzzKnown[key] {
						t.Fatalf("%s: %d hashes sent in answer to %s", key, n, trim(descr, 300))
					}
				}
			case codeBlocks:
				if err == nil && n > maxBlockReply {
					t.Fatalf("C15/reply-cap/blocks: %d momentums sent in answer to %s", n, trim(descr, 300))
				}
			}
		}
		// the node still answers a well-formed request (on this connection if it survived)
		ask := ep
		if ask.gone() {
			ep2, ok := connect(fuzzPM, "fuzz-honest", 0xF1, false)
			if !ok {
				t.Skip("inconclusive")
			}
			defer ep2.close()
			if o := ep2.deliverBytes(codeStatus, mustEnc(st), "status"); o != delivered {
				if o == stalled {
					t.Skip("inconclusive")
				}
				t.Fatalf("C15/honest-refused: valid status refused after %s: %v", trim(descr, 300), ep2.res.err)
			}
			ask = ep2
		}
		ask.fresh()
		if o := ask.deliverBytes(codeGetBlockHashesFrom, mustEnc(wGetHashesFrom{2, 2}), "honest request"); o != delivered {
			if o == stalled {
				t.Skip("inconclusive")
			}
			t.Fatalf("C15/honest-dropped: well-formed request after %s: panic=%v err=%v", trim(descr, 300), ask.res.panicked, ask.res.err)
		}
		found := false
		for _, m := range ask.fresh() {
			if m.code == codeBlockHashes {
				var got []types.Hash
				if rlp.DecodeBytes(m.data, &got) == nil && len(got) == 2 &&
					((got[0] == sh.hashes[2] && got[1] == sh.hashes[3]) || (got[0] == sh.hashes[3] && got[1] == sh.hashes[2])) {
					found = true
				}
			}
		}
		if !found {
			t.Fatalf("C15/honest-wrong-answer: GetBlockHashesFromNumber{2,2} not answered correctly after %s", trim(descr, 300))
		}
		if sh.a.Frontier().Hash != frontier || len(sh.a.Chain.GetAllUncommittedAccountBlocks()) != 0 {
			t.Fatalf("C15/state-changed: the node's chain or pool changed after %s", trim(descr, 300))
		}
	})
}

var _ = bytes.Equal
