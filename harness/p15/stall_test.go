package p15

// Deciding "no message can block its message loop indefinitely" (instead of filing every wait
// that does not end as inconclusive).
//
// THE RULE. A peer's message loop is reported as blocked (violation
// C15/message-loop-blocked/<function>) only if ALL of the following hold, in TWO goroutine dumps
// taken at least blockGap apart:
//
//  1. PARKED BELOW handleMsg. The goroutine that runs this peer's protocol function (identified by
//     its goroutine id, recorded when the harness started it) has protocol.(*ProtocolManager).handleMsg
//     on its stack and its wait state is a channel operation: "chan send", "chan receive", "select"
//     or "select (no cases)". Running / runnable / syscall / IO wait / sleep / mutex and semaphore
//     waits never qualify: a slow handler is not a blocked handler.
//  2. PARKED IN NODE CODE. The innermost non-runtime frame F lies above handleMsg and is not the
//     message pipe (a handler waiting in ReadMsg is idle, one waiting in WriteMsg waits for the
//     remote reader, which is the harness).
//  3. SAME PLACE. The list of (function, file:line) frames of that goroutine is identical in both
//     dumps.
//  4. NOBODY CAN RELEASE IT. F belongs to a component whose releasers are known, and in BOTH dumps no
//     goroutine other than handlers that are themselves parked below handleMsg is a possible releaser:
//       - F = downloader.(*Downloader).DeliverHashes / DeliverBlocks (waits for a reader of hashCh /
//     blockCh or for the cancel channel of the sync cycle): releasers are goroutines with any frame
//     in downloader.(*Downloader).* (Synchronise, synchronise, syncWithPeer, findAncestor, fetchHashes,
//     fetchBlocks, process, cancel, Terminate), in protocol.(*ProtocolManager).synchronise, in
//     protocol.(*ProtocolManager).Stop, or a not yet started "go pm.synchronise(p)" closure of
//     handleMsg. In addition no sync cycle can START: the only thing that starts one without a new
//     message is the syncer's periodic tick, which syncs with the best peer only if that peer claims
//     more than the node has; so every connection the harness still holds open must have claimed
//     (status TD, heights of the momentums it announced with NewBlockMsg) at most the node's current
//     height.
//       - F = fetcher.(*Fetcher).Notify / Enqueue / Filter: the releaser is the fetcher's loop
//     goroutine (fetcher.(*Fetcher).loop); while it exists the handler is not reported - unless the loop has
//     wedged ITSELF: it is parked in a bare channel operation ("chan send" / "chan receive", not a select)
//     whose innermost non-runtime frame is a function of package protocol/fetcher, with the same stack in
//     both dumps, while no goroutine other than the loop and handlers parked below handleMsg has any frame
//     in package protocol/fetcher (the fetcher's channels are private to the package: nobody is left to
//     take what the loop offers or to offer what it waits for).
//       - F = chain.(*chain).AcquireInsert (the ONE mutex wait that qualifies: the chain's insert lock): every function that
//     takes this lock releases it before returning (chainBridge.InsertChain / AddAccountBlocks, the broadcaster, the pillar
//     worker's generators, chain.Init, the harness' own inserts), so the holder has one of them on its stack; releasers are
//     goroutines with such a frame that are not themselves waiting for the lock. None in both dumps = the lock was left
//     locked by a function that returned.
//       - F = protocol.(*ProtocolManager).syncTransactions: releaser protocol.(*ProtocolManager).txsyncLoop.
//       - any other F: not decided (stays inconclusive).
//
// Everything that does not satisfy the rule stays inconclusive exactly as before (generous deadline,
// counter inconclusive_waits). The rule is evaluated while a delivery is waiting (first after
// blockFirst, then every blockGap), so a structurally blocked loop is reported after about a second
// instead of after the 20 s deadline; a verdict needs two consecutive qualifying samples.

import (
	"fmt"
	"regexp"
	"runtime"
	"strconv"
	"strings"
	"sync/atomic"
	"time"
)

const (
	blockFirst = 500 * time.Millisecond // first look at a delivery that has not come back
	blockGap   = 400 * time.Millisecond // distance between the two dumps of a verdict
)

type gframe struct {
	fn  string // function, arguments stripped
	loc string // file:line
}

type gdump struct {
	id     int64
	state  string // without the ", N minutes" annotation
	frames []gframe
	text   string
}

var (
	reGoHeader = regexp.MustCompile(`^goroutine (\d+) \[([^\]]*)\]:`)
	reOffset   = regexp.MustCompile(` \+0x[0-9a-f]+$`)
)

func parseDump(g gor) gdump {
	d := gdump{text: g.text}
	lines := strings.Split(g.text, "\n")
	if m := reGoHeader.FindStringSubmatch(lines[0]); m != nil {
		d.id, _ = strconv.ParseInt(m[1], 10, 64)
		d.state = m[2]
		if i := strings.Index(d.state, ","); i >= 0 {
			d.state = d.state[:i]
		}
	}
	for i := 1; i+1 < len(lines); i += 2 {
		fn := lines[i]
		if strings.HasPrefix(fn, "created by ") {
			break
		}
		if j := strings.LastIndex(fn, "("); j > 0 {
			fn = fn[:j]
		}
		loc := reOffset.ReplaceAllString(strings.TrimSpace(lines[i+1]), "")
		d.frames = append(d.frames, gframe{fn, loc})
	}
	return d
}

func allDumps() []gdump {
	var out []gdump
	for _, g := range goroutines() {
		out = append(out, parseDump(g))
	}
	return out
}

// curGoroutineID returns the id of the calling goroutine.
func curGoroutineID() int64 {
	var buf [64]byte
	n := runtime.Stack(buf[:], false)
	if m := reGoHeader.FindStringSubmatch(string(buf[:n])); m != nil {
		id, _ := strconv.ParseInt(m[1], 10, 64)
		return id
	}
	// the header may be cut before "]:" by the small buffer
	f := strings.Fields(string(buf[:n]))
	if len(f) >= 2 {
		id, _ := strconv.ParseInt(f[1], 10, 64)
		return id
	}
	return -1
}

const handleMsgFn = "github.com/zenon-network/go-zenon/protocol.(*ProtocolManager).handleMsg"

func shortFn(fn string) string {
	if i := strings.LastIndex(fn, "/"); i >= 0 {
		return fn[i+1:]
	}
	return fn
}

// parkedBelowHandleMsg: clauses 1 and 2 of the rule. It returns the function the handler is parked in.
func parkedBelowHandleMsg(d gdump) (string, bool) {
	mutexWait := false
	switch d.state {
	case "chan send", "chan receive", "select", "select (no cases)":
	case "sync.Mutex.Lock", "semacquire":
		// a mutex wait qualifies for ONE lock only: the chain's insert lock (see releaserExists)
		mutexWait = true
	default:
		return "", false
	}
	hm := -1
	for i, f := range d.frames {
		if f.fn == handleMsgFn {
			hm = i
			break
		}
	}
	if hm <= 0 {
		return "", false
	}
	for i := 0; i < hm; i++ {
		fn := d.frames[i].fn
		if strings.HasPrefix(fn, "runtime.") || strings.HasPrefix(fn, "sync.") || strings.HasPrefix(fn, "internal/sync.") {
			continue
		}
		if strings.Contains(fn, "p2p.(*MsgPipeRW).") || strings.Contains(fn, "p15.(*nodeRW).") {
			return "", false
		}
		if mutexWait && !strings.HasSuffix(fn, acquireInsertFn) {
			return "", false
		}
		return shortFn(fn), true
	}
	return "", false
}

const acquireInsertFn = "chain.(*chain).AcquireInsert"

// waitsForInsertLock: the goroutine is parked in the mutex of the chain's insert lock.
func waitsForInsertLock(d gdump) bool {
	if d.state != "sync.Mutex.Lock" && d.state != "semacquire" {
		return false
	}
	for _, f := range d.frames {
		if strings.HasPrefix(f.fn, "runtime.") || strings.HasPrefix(f.fn, "sync.") || strings.HasPrefix(f.fn, "internal/sync.") {
			continue
		}
		return strings.HasSuffix(f.fn, acquireInsertFn)
	}
	return false
}

// insertLockHolderFns: every function of the repository (and of the harness) that takes the insert lock releases it before
// it returns; a goroutine that holds the lock therefore has one of them on its stack.
var insertLockHolderFns = []string{"protocol.(*chainBridge).", "protocol.(*broadcaster).", "pillar.(*worker).", "chain.(*chain).Init",
	"zenon/mock.", "verifharness/sim.(*Node)."}

func hasFrame(d gdump, pred func(fn string) bool) bool {
	for _, f := range d.frames {
		if pred(f.fn) {
			return true
		}
	}
	return false
}

// releaserExists: clause 4 for the goroutine-dump part. decided=false: F is outside the table.
func releaserExists(fn string, self int64, all []gdump) (exists bool, decided bool, who string) {
	var isReleaser func(f string) bool
	switch {
	case fn == "downloader.(*Downloader).DeliverHashes" || fn == "downloader.(*Downloader).DeliverBlocks":
		isReleaser = func(f string) bool {
			return strings.Contains(f, "protocol/downloader.(*Downloader).") ||
				strings.Contains(f, "protocol.(*ProtocolManager).synchronise") ||
				strings.Contains(f, "protocol.(*ProtocolManager).Stop") ||
				strings.Contains(f, "protocol.(*ProtocolManager).handleMsg.func") || // "go pm.synchronise(p)" not yet running
				strings.Contains(f, "protocol.(*ProtocolManager).syncer.func")
		}
	case strings.HasPrefix(fn, "fetcher.(*Fetcher).Notify") || strings.HasPrefix(fn, "fetcher.(*Fetcher).Enqueue") ||
		strings.HasPrefix(fn, "fetcher.(*Fetcher).Filter"):
		if wedged, loopID := fetcherLoopWedged(all); wedged {
			// the loop cannot release anybody: look for anyone else inside the package
			for _, d := range all {
				if d.id == self || d.id == loopID {
					continue
				}
				if _, parked := parkedBelowHandleMsg(d); parked {
					continue
				}
				if hasFrame(d, func(f string) bool { return strings.Contains(f, "protocol/fetcher.") }) {
					return true, true, fmt.Sprintf("goroutine %d [%s] %s (inside the fetcher while its loop is parked)", d.id, d.state, shortFn(d.frames[0].fn))
				}
			}
			return false, true, ""
		}
		isReleaser = func(f string) bool { return strings.Contains(f, "protocol/fetcher.(*Fetcher).loop") }
	case fn == acquireInsertFn:
		// the insert lock: whoever holds it is inside one of the functions that take it; goroutines that wait for it
		// themselves release nobody
		for _, d := range all {
			if d.id == self || waitsForInsertLock(d) {
				continue
			}
			for _, f := range d.frames {
				for _, h := range insertLockHolderFns {
					if strings.Contains(f.fn, h) {
						return true, true, fmt.Sprintf("goroutine %d [%s] is inside %s", d.id, d.state, shortFn(f.fn))
					}
				}
			}
		}
		return false, true, ""
	case fn == "protocol.(*ProtocolManager).syncTransactions":
		isReleaser = func(f string) bool { return strings.Contains(f, "protocol.(*ProtocolManager).txsyncLoop") }
	default:
		return false, false, ""
	}
	for _, d := range all {
		if d.id == self {
			continue
		}
		if _, parked := parkedBelowHandleMsg(d); parked {
			continue // another wedged handler releases nobody
		}
		if hasFrame(d, isReleaser) {
			return true, true, fmt.Sprintf("goroutine %d [%s] %s", d.id, d.state, shortFn(d.frames[0].fn))
		}
	}
	return false, true, ""
}

// fetcherLoopWedged: the fetcher's loop goroutine is parked in a bare channel operation inside package fetcher.
func fetcherLoopWedged(all []gdump) (bool, int64) {
	for _, d := range all {
		if !hasFrame(d, func(f string) bool { return strings.Contains(f, "protocol/fetcher.(*Fetcher).loop") }) {
			continue
		}
		if d.state != "chan send" && d.state != "chan receive" {
			return false, d.id
		}
		for _, f := range d.frames {
			if strings.HasPrefix(f.fn, "runtime.") {
				continue
			}
			return strings.Contains(f.fn, "protocol/fetcher."), d.id
		}
		return false, d.id
	}
	return false, -1
}

// fetcherLoopStack: the frames of the fetcher's loop goroutine (part of what must not move between two samples).
func fetcherLoopStack(all []gdump) string {
	for _, d := range all {
		if hasFrame(d, func(f string) bool { return strings.Contains(f, "protocol/fetcher.(*Fetcher).loop") }) {
			return fmt.Sprint(d.state, d.frames)
		}
	}
	return ""
}

func sameFrames(a, b []gframe) bool {
	if len(a) != len(b) {
		return false
	}
	for i := range a {
		if a[i] != b[i] {
			return false
		}
	}
	return true
}

// blockVerdict is what the classifier found for one handler.
type blockVerdict struct {
	fn      string // function the handler is parked in
	state   string
	stack   string // the handler's stack
	dump    string // protocol-related goroutines at the time of the verdict
	samples int
}

// blockProbe accumulates samples for one waiting delivery.
type blockProbe struct {
	gid     int64
	noSync  func() bool // clause 4, second part: no sync cycle can start (evaluated by the session)
	last    *gdump
	lastFn  string
	lastAux string
	lastAt  time.Time
	why     string // why the last sample did not qualify (for the inconclusive report)
	samples int
}

// sample takes one dump; it returns a verdict once two consecutive qualifying samples at least
// blockGap apart agree.
func (p *blockProbe) sample() *blockVerdict {
	all := allDumps()
	var me *gdump
	for i := range all {
		if all[i].id == p.gid {
			me = &all[i]
			break
		}
	}
	reset := func(why string) *blockVerdict {
		p.last, p.why = nil, why
		return nil
	}
	if me == nil {
		return reset("the handler goroutine is gone")
	}
	fn, ok := parkedBelowHandleMsg(*me)
	if !ok {
		return reset(fmt.Sprintf("handler is [%s] in %s: not parked in a channel operation below handleMsg", me.state, topFn(*me)))
	}
	exists, decided, who := releaserExists(fn, p.gid, all)
	if !decided {
		return reset(fmt.Sprintf("handler parked in %s [%s]: no releaser table for this function", fn, me.state))
	}
	if exists {
		return reset(fmt.Sprintf("handler parked in %s [%s], but %s can release it", fn, me.state, who))
	}
	if strings.HasPrefix(fn, "downloader.") && p.noSync != nil && !p.noSync() {
		return reset(fmt.Sprintf("handler parked in %s [%s], but a connected peer claims more than the node has: the syncer's tick can start a cycle that drains the channel", fn, me.state))
	}
	now := time.Now()
	aux := ""
	if strings.HasPrefix(fn, "fetcher.") {
		aux = fetcherLoopStack(all)
	}
	if p.last != nil && p.lastAux != aux {
		p.last = nil // the fetcher's loop moved between the samples
	}
	p.lastAux = aux
	if p.last != nil && p.lastFn == fn && sameFrames(p.last.frames, me.frames) && now.Sub(p.lastAt) >= blockGap {
		p.samples++
		var b strings.Builder
		for _, d := range all {
			if strings.Contains(d.text, protoPkg) {
				b.WriteString(d.text)
				b.WriteString("\n\n")
			}
		}
		return &blockVerdict{fn: fn, state: me.state, stack: me.text, dump: trim(b.String(), 12000), samples: p.samples + 1}
	}
	if p.last == nil || p.lastFn != fn || !sameFrames(p.last.frames, me.frames) {
		cp := *me
		p.last, p.lastFn, p.lastAt, p.samples = &cp, fn, now, 0
	}
	p.why = fmt.Sprintf("handler parked in %s [%s], no releaser: waiting for the confirming sample", fn, me.state)
	return nil
}

func topFn(d gdump) string {
	for _, f := range d.frames {
		if !strings.HasPrefix(f.fn, "runtime.") {
			return shortFn(f.fn)
		}
	}
	if len(d.frames) > 0 {
		return shortFn(d.frames[0].fn)
	}
	return "?"
}

// classifyNow is used when a wait has already expired: two samples blockGap apart.
func (p *blockProbe) classifyNow() *blockVerdict {
	if v := p.sample(); v != nil {
		return v
	}
	if p.last == nil {
		return nil
	}
	time.Sleep(blockGap + 20*time.Millisecond)
	return p.sample()
}

var blockedVerdicts int64 // process-wide count (evidence)

func noteVerdict() { atomic.AddInt64(&blockedVerdicts, 1) }
