package p18

// Generic machinery of the paging check: calling an api method directly (reflection, under
// recover) and through the in-process JSON-RPC server, turning the answer into a generic
// {count, list of element ids} observation, and the page / range oracles.

import (
	"bytes"
	"encoding/json"
	"fmt"
	"math"
	"reflect"
	"runtime/debug"
	"strings"

	"github.com/zenon-network/go-zenon/rpc/api"

	"verifharness/pbt"
)

const (
	keyPanic     = "C18/api-panic"
	keyCap       = "C18/page-cap"          // the list methods that lack the page-size check (suspected defect #13)
	keyCapOther  = "C18/page-cap-exceeded" // any other method returning more than its advertised limit
	keyFar       = "C18/far-page-not-empty"
	keySlice     = "C18/slice"
	keyCount     = "C18/count"
	keyWalk      = "C18/page-walk"
	keyServer    = "C18/server-differs"
	keyError     = "C18/unexpected-error"
	keyContent   = "C18/content"
	keyTransport = "C18/server-transport"
	keyDecode    = "C18/server-arg-decoding"
)

// Call is one concrete api invocation.
type Call struct {
	NS     string        // rpc namespace, e.g. "ledger"
	Svc    interface{}   // the api object
	Method string        // Go method name, e.g. "GetAccountBlocksByPage"
	Args   []interface{} // typed arguments
}

func (k Call) RPCName() string {
	return k.NS + "." + strings.ToLower(k.Method[:1]) + k.Method[1:]
}

func (k Call) String() string {
	parts := make([]string, len(k.Args))
	for i, a := range k.Args {
		parts[i] = fmt.Sprint(a)
	}
	return k.RPCName() + "(" + strings.Join(parts, ", ") + ")"
}

// Answer is the outcome of a call in generic form.
type Answer struct {
	Err    string          // "" = success
	JSON   json.RawMessage // the marshalled result of a successful call
	Panic  interface{}
	Stack  string
	Status string // where a failure happened: "call" / "marshal"
}

// Direct performs the Go method call under recover and marshals the result like the server does.
func Direct(k Call) (a Answer) {
	defer func() {
		if p := recover(); p != nil {
			a.Panic = p
			a.Stack = string(debug.Stack())
		}
	}()
	a.Status = "call"
	m := reflect.ValueOf(k.Svc).MethodByName(k.Method)
	if !m.IsValid() {
		panic("harness: no method " + k.Method)
	}
	in := make([]reflect.Value, len(k.Args))
	for i, arg := range k.Args {
		in[i] = reflect.ValueOf(arg).Convert(m.Type().In(i))
	}
	out := m.Call(in)
	if e := out[len(out)-1]; !e.IsNil() {
		a.Err = e.Interface().(error).Error()
		return a
	}
	a.Status = "marshal"
	data, err := json.Marshal(out[0].Interface())
	if err != nil {
		a.Err = "marshal: " + err.Error()
		return a
	}
	a.JSON = data
	return a
}

// ViaServer sends the same call as a JSON-RPC request.
func ViaServer(srv *RPC, k Call) (a Answer, transport error) {
	res, rpcErr, err := srv.Call(k.RPCName(), k.Args...)
	if err != nil {
		return a, err
	}
	if rpcErr != nil {
		a.Err = rpcErr.Message
		return a, nil
	}
	a.JSON = res
	return a, nil
}

func canon(raw []byte) string {
	dec := json.NewDecoder(bytes.NewReader(raw))
	dec.UseNumber()
	var v interface{}
	if err := dec.Decode(&v); err != nil {
		return "!" + string(raw)
	}
	out, _ := json.Marshal(v)
	return string(out)
}

// Env bundles what the oracles need.
type Env struct {
	C *pbt.C
	V *View
	// ViaServerToo: the case also sends every call through the server and compares.
	ViaServerToo bool
}

// Do runs the call directly (and through the server), applies the generic checks (no panic,
// both paths agree) and returns the direct answer.
func (e *Env) Do(k Call) Answer {
	c := e.C
	a := Direct(k)
	c.R.Count("calls", 1)
	if a.Panic != nil {
		c.Failf(keyPanic, "%s on world %s panicked (%s): %v\n%s", k, e.V.Name, a.Status, a.Panic, trim(a.Stack))
		return a
	}
	if e.ViaServerToo {
		// a panic outside the per-call recover would kill the process: journal the case first
		c.Checkpoint()
		b, terr := ViaServer(e.V.Srv, k)
		c.R.Count("calls_via_server", 1)
		if terr != nil {
			c.Failf(keyTransport, "%s through the server: %v", k, terr)
		}
		switch {
		case (a.Err == "") != (b.Err == ""):
			c.Failf(keyServer, "%s: direct call says err=%q, through the server err=%q", k, a.Err, b.Err)
		case a.Err != "" && a.Err != b.Err:
			c.Failf(keyServer, "%s: error text differs: direct %q, server %q", k, a.Err, b.Err)
		case a.Err == "" && canon(a.JSON) != canon(b.JSON):
			c.Failf(keyServer, "%s: direct answer %s, through the server %s", k, clip(a.JSON), clip(b.JSON))
		}
	}
	return a
}

func trim(s string) string {
	if len(s) > 3000 {
		return s[:3000] + "\n..."
	}
	return s
}

// ListObs is the generic observation of a list answer.
type ListObs struct {
	Count int64
	More  bool
	Elems []json.RawMessage
	IDs   []string
}

// ParseList decodes {"count":..,"list":[..]} and extracts element ids.
func (e *Env) ParseList(k Call, a Answer, id func(json.RawMessage) (string, error)) *ListObs {
	c := e.C
	var raw struct {
		Count *int64            `json:"count"`
		More  bool              `json:"more"`
		List  []json.RawMessage `json:"list"`
	}
	if string(a.JSON) == "null" {
		c.Failf(keyContent, "%s answered null without an error", k)
	}
	if err := json.Unmarshal(a.JSON, &raw); err != nil {
		c.Failf(keyContent, "%s: answer is not a list object: %v: %s", k, err, clip(a.JSON))
	}
	if raw.Count == nil {
		c.Failf(keyContent, "%s: answer has no count: %s", k, clip(a.JSON))
	}
	o := &ListObs{Count: *raw.Count, More: raw.More, Elems: raw.List}
	for i, el := range raw.List {
		s, err := id(el)
		if err != nil {
			c.Failf(keyContent, "%s: element %d has no identity (%v): %s", k, i, err, clip(el))
		}
		o.IDs = append(o.IDs, s)
	}
	return o
}

// idField builds an id extractor from top-level JSON fields.
func idField(fields ...string) func(json.RawMessage) (string, error) {
	return func(raw json.RawMessage) (string, error) {
		var m map[string]json.RawMessage
		if err := json.Unmarshal(raw, &m); err != nil {
			return "", err
		}
		parts := make([]string, len(fields))
		for i, f := range fields {
			v, ok := m[f]
			if !ok {
				return "", fmt.Errorf("no field %q", f)
			}
			parts[i] = strings.Trim(string(v), `"`)
		}
		return strings.Join(parts, "/"), nil
	}
}

// ---- the page oracle ------------------------------------------------------------------------

// PageSpec describes the truth a page answer is compared with.
type PageSpec struct {
	Truth     []string // element ids in documented order (or any order if !Ordered)
	Ordered   bool
	WantCount int64  // advertised total
	Limit     uint32 // advertised page-size limit
	Index     uint32
	Size      uint32
}

func wrapRange32(index, size uint32, n int) (int, int) {
	// the node's 32-bit arithmetic (known defect #11), used only to recognise exactly that deviation
	ln := uint32(n)
	start := index * size
	if start >= ln {
		return n, n
	}
	end := start + size
	if end >= ln {
		return int(start), n
	}
	return int(start), int(end)
}

func expectedRange(index, size uint32, n int) (int, int) {
	start := uint64(index) * uint64(size)
	if start >= uint64(n) {
		return n, n
	}
	end := start + uint64(size)
	if end > uint64(n) {
		end = uint64(n)
	}
	return int(start), int(end)
}

// nonTrivialPage implements the property's rule: the requested range touches the end of the
// list (last page, or the first page beyond it) or index*size >= 2^31.
func nonTrivialPage(index, size uint32, n int) (bool, string) {
	prod := uint64(index) * uint64(size)
	if prod >= 1<<31 {
		if prod >= 1<<32 {
			return true, "product>=2^32"
		}
		return true, "product>=2^31"
	}
	if size == 0 || n == 0 {
		return false, ""
	}
	if prod < uint64(n) && prod+uint64(size) >= uint64(n) {
		return true, "last-page"
	}
	if prod >= uint64(n) && prod < uint64(n)+uint64(size) {
		return true, "first-page-beyond-end"
	}
	return false, ""
}

func sameIDs(a, b []string) bool {
	if len(a) != len(b) {
		return false
	}
	for i := range a {
		if a[i] != b[i] {
			return false
		}
	}
	return true
}

// CheckPage compares one successful page answer with the truth.
func (e *Env) CheckPage(k Call, o *ListObs, p PageSpec) {
	c := e.C
	n := len(p.Truth)
	if nt, why := nonTrivialPage(p.Index, p.Size, n); nt {
		c.NonTrivial()
		c.Class("page-" + why)
		c.NonTrivialItem(k.RPCName() + "/" + why)
	}
	if o.Count != p.WantCount {
		c.Failf(keyCount, "%s: count=%d, the ledger holds %d", k, o.Count, p.WantCount)
	}
	if len(o.IDs) > int(p.Limit) {
		if c.Failf(capKey(k), "%s returned %d elements, advertised limit is %d", k, len(o.IDs), p.Limit) {
			c.Class("known-page-cap-hit " + k.RPCName())
		}
	}
	lo, hi := expectedRange(p.Index, p.Size, n)
	if p.Ordered {
		want := p.Truth[lo:hi]
		if sameIDs(o.IDs, want) {
			return
		}
		if lo == n && len(o.IDs) > 0 {
			// a page beyond the end that is not empty; the known defect is exactly "the page the
			// node's 32-bit index*size arithmetic selects"
			wlo, whi := wrapRange32(p.Index, p.Size, n)
			if sameIDs(o.IDs, p.Truth[wlo:whi]) {
				if c.Failf(keyFar, "%s: the list has %d elements, element %d*%d is beyond its end, yet %d elements came back (first %s): the slice [%d:%d] selected by 32-bit arithmetic",
					k, n, p.Index, p.Size, len(o.IDs), o.IDs[0], wlo, whi) {
					c.Class("known-far-page-hit")
				}
				return
			}
		}
		c.Failf(keySlice, "%s: got %s, the documented slice [%d:%d] of the %d-element truth list is %s", k, show(o.IDs), lo, hi, n, show(want))
		return
	}
	// order not documented: size, membership, no duplicates
	set := map[string]bool{}
	for _, id := range p.Truth {
		set[id] = true
	}
	seen := map[string]bool{}
	for _, id := range o.IDs {
		if !set[id] {
			c.Failf(keySlice, "%s returned %s which is not in the truth list of %d elements", k, id, n)
		}
		if seen[id] {
			c.Failf(keySlice, "%s returned %s twice in one page", k, id)
		}
		seen[id] = true
	}
	if len(o.IDs) != hi-lo {
		if lo == n && len(o.IDs) > 0 {
			wlo, whi := wrapRange32(p.Index, p.Size, n)
			if len(o.IDs) == whi-wlo {
				if c.Failf(keyFar, "%s: the list has %d elements, element %d*%d is beyond its end, yet %d elements came back", k, n, p.Index, p.Size, len(o.IDs)) {
					c.Class("known-far-page-hit")
				}
				return
			}
		}
		c.Failf(keySlice, "%s: page has %d elements, the documented slice [%d:%d] of %d has %d", k, len(o.IDs), lo, hi, n, hi-lo)
	}
}

func show(ids []string) string {
	short := make([]string, 0, len(ids))
	for i, s := range ids {
		if i == 6 && len(ids) > 8 {
			short = append(short, fmt.Sprintf("… %d more", len(ids)-6))
			break
		}
		if len(s) > 12 {
			s = s[:12]
		}
		short = append(short, s)
	}
	return "[" + strings.Join(short, " ") + "]"
}

// errorAllowed says whether an error answer is acceptable for these paging arguments.
func pageErrorAllowed(size, limit uint32) bool { return size > limit }

// ---- argument generators ----------------------------------------------------------------------

var u32Bounds = []uint32{0, 1, 2, 49, 50, 51, 1023, 1024, 1025, 1<<22 - 1, 1 << 22, 1<<22 + 1, 1<<31 - 1, 1 << 31, 1<<31 + 1, math.MaxUint32 - 1, math.MaxUint32}

// GenSize draws a page size: small ones (several pages), sizes around the list length and the
// limits, and the far range.
func GenSize(c *pbt.C, label string, n int, limit uint32) uint32 {
	switch c.Weighted(label+".kind", 8, 3, 3, 2, 1) {
	case 0:
		return uint32(c.Int(label+".small", 0, 12))
	case 1:
		return uint32(clampInt(n+c.Int(label+".aroundN", -2, 2), 0, math.MaxInt32))
	case 2:
		return uint32(clampInt(int(limit)+c.Int(label+".aroundLimit", -1, 1), 0, math.MaxInt32))
	case 3:
		return u32Bounds[c.Pick(label+".bound", len(u32Bounds))]
	default:
		return uint32(c.Uint64(label+".any", 0, math.MaxUint32))
	}
}

// GenIndex draws a page index for the given size: near pages, the pages around the end of a list
// of n elements, boundary values, and indices whose product with size overflows 32 bits.
func GenIndex(c *pbt.C, label string, n int, size uint32) uint32 {
	switch c.Weighted(label+".kind", 6, 4, 3, 3, 1) {
	case 0:
		return uint32(c.Int(label+".small", 0, 6))
	case 1:
		if size == 0 {
			return uint32(c.Int(label+".small0", 0, 3))
		}
		last := n / int(size)
		return uint32(clampInt(last+c.Int(label+".aroundEnd", -1, 2), 0, math.MaxInt32))
	case 2:
		return u32Bounds[c.Pick(label+".bound", len(u32Bounds))]
	case 3:
		// index*size = 2^32*k + r with a small r: wraps to a valid start in 32-bit arithmetic
		if size == 0 {
			return math.MaxUint32
		}
		k := uint64(c.Int(label+".wrapK", 1, 3))
		r := uint64(c.Int(label+".wrapR", 0, n+int(size)))
		idx := (k<<32 + r) / uint64(size)
		if idx > math.MaxUint32 {
			idx = math.MaxUint32
		}
		return uint32(idx)
	default:
		return uint32(c.Uint64(label+".any", 0, math.MaxUint32))
	}
}

var u64Bounds = []uint64{0, 1, 2, 1023, 1024, 1025, 1<<22 - 1, 1 << 22, 1<<31 - 1, 1 << 31, 1<<32 - 1, 1 << 32, 1<<32 + 1, 1<<63 - 1, 1 << 63, 1<<63 + 1,
	math.MaxUint64 - 1024, math.MaxUint64 - 1023, math.MaxUint64 - 1, math.MaxUint64}

// GenHeight draws a start height for a chain of n elements.
func GenHeight(c *pbt.C, label string, n int) uint64 {
	switch c.Weighted(label+".kind", 6, 4, 3, 1) {
	case 0:
		return uint64(c.Int(label+".in", 0, n+3))
	case 1:
		return uint64(clampInt(n+c.Int(label+".aroundN", -3, 2), 0, math.MaxInt32))
	case 2:
		return u64Bounds[c.Pick(label+".bound", len(u64Bounds))]
	default:
		return c.Uint64(label+".any", 0, math.MaxUint64)
	}
}

// GenCount draws a count.
func GenCount(c *pbt.C, label string, n int) uint64 {
	switch c.Weighted(label+".kind", 7, 3, 3, 2, 1) {
	case 0:
		return uint64(c.Int(label+".small", 0, 12))
	case 1:
		return uint64(clampInt(n+c.Int(label+".aroundN", -2, 2), 0, math.MaxInt32))
	case 2:
		return uint64(api.RpcMaxCountSize + c.Int(label+".aroundLimit", -1, 1))
	case 3:
		return u64Bounds[c.Pick(label+".bound", len(u64Bounds))]
	default:
		return c.Uint64(label+".any", 0, math.MaxUint64)
	}
}

func clampInt(v, lo, hi int) int {
	if v < lo {
		return lo
	}
	if v > hi {
		return hi
	}
	return v
}

// uncapped lists the methods that apply no page-size check at all (defect #13); only for them an
// over-long page is the known finding.
var uncapped = map[string]bool{"embedded.accelerator.getAll": true, "embedded.bridge.getAllWrapTokenRequests": true, "embedded.bridge.getAllUnsignedWrapTokenRequests": true,
	"embedded.bridge.getAllWrapTokenRequestsByToAddress": true, "embedded.bridge.getAllWrapTokenRequestsByToAddressNetworkClassAndChainId": true,
	"embedded.bridge.getAllUnwrapTokenRequests": true, "embedded.bridge.getAllUnwrapTokenRequestsByToAddress": true}

func capKey(k Call) string {
	if uncapped[k.RPCName()] {
		return keyCap
	}
	return keyCapOther
}
