package p18

// TestC18JsonRoundTrip: every AccountBlock / Momentum / DetailedMomentum the api returns, written as
// JSON and parsed back the way the node parses the argument of ledger.publishRawTransaction
// (json -> *api.AccountBlock -> ToLedgerBlock), is the same block field by field and has the
// same hash; the same for the nom types and for generated blocks with boundary values
// (descendants, huge / negative amounts, nonces, empty vs nil data, extreme integers).

import (
	"crypto/ed25519"
	"encoding/json"
	"fmt"
	"math"
	"math/big"
	"sync"
	"testing"

	"github.com/zenon-network/go-zenon/chain/nom"
	"github.com/zenon-network/go-zenon/common/types"
	"github.com/zenon-network/go-zenon/rpc/api"

	"verifharness/pbt"
)

const (
	keyRT     = "C18/json-round-trip"
	keyRTHash = "C18/json-round-trip-hash"
)

func tokenDiff(a, b *api.Token) string {
	if a == nil || b == nil {
		if a == nil && b == nil {
			return ""
		}
		return fmt.Sprintf("token nil-ness: %v vs %v", a == nil, b == nil)
	}
	if a.TokenName != b.TokenName || a.TokenSymbol != b.TokenSymbol || a.TokenDomain != b.TokenDomain || bigStr(a.TotalSupply) != bigStr(b.TotalSupply) ||
		a.Decimals != b.Decimals || a.Owner != b.Owner || a.ZenonTokenStandard != b.ZenonTokenStandard || bigStr(a.MaxSupply) != bigStr(b.MaxSupply) ||
		a.IsBurnable != b.IsBurnable || a.IsMintable != b.IsMintable || a.IsUtility != b.IsUtility {
		return fmt.Sprintf("token %+v vs %+v", *a, *b)
	}
	return ""
}

func apiBlockDiff(got, want *api.AccountBlock, depth int) string {
	if got == nil || want == nil {
		if got == nil && want == nil {
			return ""
		}
		return fmt.Sprintf("nil-ness differs: %v vs %v", got == nil, want == nil)
	}
	if d := blockDiff(&got.AccountBlock, &want.AccountBlock); d != "" {
		return d
	}
	if d := tokenDiff(got.TokenInfo, want.TokenInfo); d != "" {
		return d
	}
	switch {
	case (got.ConfirmationDetail == nil) != (want.ConfirmationDetail == nil):
		return "confirmationDetail nil-ness differs"
	case got.ConfirmationDetail != nil && *got.ConfirmationDetail != *want.ConfirmationDetail:
		return fmt.Sprintf("confirmationDetail %+v vs %+v", *got.ConfirmationDetail, *want.ConfirmationDetail)
	}
	if depth > 4 {
		return ""
	}
	if d := apiBlockDiff(got.PairedAccountBlock, want.PairedAccountBlock, depth+1); d != "" {
		return "paired block: " + d
	}
	return ""
}

type rtStats struct {
	blocks, momentums                                int
	descendants, nonce, bigAmount, paired, emptyData bool
}

// roundTripBlock checks one api block; truth (may be nil) is the ledger's own copy.
func roundTripBlock(c *pbt.C, where string, b *api.AccountBlock, truth *nom.AccountBlock, st *rtStats) {
	st.blocks++
	data, err := json.Marshal(b)
	if err != nil {
		c.Failf(keyRT, "%s: block %v does not marshal: %v", where, b.Hash, err)
	}
	// the way the server decodes the argument of publishRawTransaction
	back := new(api.AccountBlock)
	if err := json.Unmarshal(data, back); err != nil {
		c.Failf(keyRT, "%s: block %v does not parse back: %v\n%s", where, b.Hash, err, clip(data))
	}
	if d := apiBlockDiff(back, b, 0); d != "" {
		c.Failf(keyRT, "%s: block %v changed in the JSON round trip: %s\n%s", where, b.Hash, d, clip(data))
	}
	lb, err := back.ToLedgerBlock()
	if err != nil {
		c.Failf(keyRT, "%s: ToLedgerBlock: %v", where, err)
	}
	want := b.AccountBlock.ComputeHash()
	if got := lb.ComputeHash(); got != want {
		c.Failf(keyRTHash, "%s: block hashes to %v before and %v after the JSON round trip\n%s", where, want, got, clip(data))
	}
	if h, err := back.ComputeHash(); err != nil || *h != want {
		c.Failf(keyRTHash, "%s: api ComputeHash after the round trip: %v %v, before %v", where, h, err, want)
	}
	if truth != nil {
		if d := blockDiff(lb, truth); d != "" {
			c.Failf(keyRT, "%s: block %v after api->JSON->ledger differs from the stored block: %s", where, truth.Hash, d)
		}
		if lb.ComputeHash() != truth.Hash {
			c.Failf(keyRTHash, "%s: stored block %v re-hashes to %v after the JSON round trip", where, truth.Hash, lb.ComputeHash())
		}
	}
	// the nom type alone
	nd, err := json.Marshal(&b.AccountBlock)
	if err != nil {
		c.Failf(keyRT, "%s: nom block %v does not marshal: %v", where, b.Hash, err)
	}
	nb := new(nom.AccountBlock)
	if err := json.Unmarshal(nd, nb); err != nil {
		c.Failf(keyRT, "%s: nom block %v does not parse back: %v\n%s", where, b.Hash, err, clip(nd))
	}
	if d := blockDiff(nb, &b.AccountBlock); d != "" {
		c.Failf(keyRT, "%s: nom block %v changed in the JSON round trip: %s", where, b.Hash, d)
	}
	if nb.ComputeHash() != want {
		c.Failf(keyRTHash, "%s: nom block hashes to %v before and %v after the round trip", where, want, nb.ComputeHash())
	}
	// a second trip must be a fixed point byte for byte
	again, _ := json.Marshal(back)
	if string(again) != string(data) {
		c.Failf(keyRT, "%s: block %v: JSON differs after parse + marshal:\n%s\n%s", where, b.Hash, clip(data), clip(again))
	}
	if len(b.DescendantBlocks) > 0 {
		st.descendants = true
	}
	if b.Nonce.Data != [8]byte{} {
		st.nonce = true
	}
	if b.Amount != nil && b.Amount.BitLen() > 64 {
		st.bigAmount = true
	}
	if b.PairedAccountBlock != nil {
		st.paired = true
	}
	if b.Data != nil && len(b.Data) == 0 {
		st.emptyData = true
	}
}

func roundTripMomentum(c *pbt.C, where string, m *api.Momentum, truth *nom.Momentum, st *rtStats) {
	st.momentums++
	data, err := json.Marshal(m)
	if err != nil {
		c.Failf(keyRT, "%s: momentum %d does not marshal: %v", where, m.Height, err)
	}
	back := new(api.Momentum)
	if err := json.Unmarshal(data, back); err != nil || back.Momentum == nil {
		c.Failf(keyRT, "%s: momentum %d does not parse back: %v\n%s", where, m.Height, err, clip(data))
	}
	if d := momentumDiff(back.Momentum, m.Momentum); d != "" {
		c.Failf(keyRT, "%s: momentum %d changed in the JSON round trip: %s", where, m.Height, d)
	}
	if back.Producer != m.Producer {
		c.Failf(keyRT, "%s: momentum %d producer %v became %v", where, m.Height, m.Producer, back.Producer)
	}
	if back.Momentum.ComputeHash() != m.Momentum.ComputeHash() {
		c.Failf(keyRTHash, "%s: momentum %d hashes to %v before and %v after the round trip", where, m.Height, m.Momentum.ComputeHash(), back.Momentum.ComputeHash())
	}
	if truth != nil {
		if d := momentumDiff(back.Momentum, truth); d != "" {
			c.Failf(keyRT, "%s: momentum %d after the round trip differs from the store: %s", where, m.Height, d)
		}
		if back.Momentum.ComputeHash() != truth.Hash {
			c.Failf(keyRTHash, "%s: stored momentum %d (%v) re-hashes to %v", where, m.Height, truth.Hash, back.Momentum.ComputeHash())
		}
	}
}

// ---- generated blocks ---------------------------------------------------------------------------

var rtAmounts = func() []*big.Int {
	one := big.NewInt(1)
	p := func(n uint) *big.Int { return new(big.Int).Lsh(one, n) }
	ten100, _ := new(big.Int).SetString("1"+fmt.Sprintf("%0100d", 0), 10)
	return []*big.Int{big.NewInt(0), big.NewInt(1), big.NewInt(math.MaxInt64), p(63), new(big.Int).Sub(p(64), one), p(64), new(big.Int).Sub(p(255), one), p(255),
		new(big.Int).Sub(p(256), one), p(256), p(300), ten100, big.NewInt(-1), big.NewInt(-math.MaxInt64)}
}()

func genU64(c *pbt.C, label string) uint64 {
	switch c.Weighted(label+".k", 3, 2, 1) {
	case 0:
		return uint64(c.Int(label+".small", 0, 5))
	case 1:
		return u64Bounds[c.Pick(label+".b", len(u64Bounds))]
	default:
		return c.Uint64(label+".any", 0, math.MaxUint64)
	}
}

func genBytes(c *pbt.C, label string, lens ...int) []byte {
	switch c.Weighted(label+".k", 2, 2, 4) {
	case 0:
		return nil
	case 1:
		return []byte{}
	default:
		n := lens[c.Pick(label+".len", len(lens))]
		return c.Bytes(label+".b", n, n)
	}
}

func genHash(c *pbt.C, label string) types.Hash {
	if c.Weighted(label+".k", 1, 3) == 0 {
		return types.ZeroHash
	}
	return types.NewHash(c.Bytes(label+".seed", 1, 4))
}

func genAddress(c *pbt.C, label string) types.Address {
	switch c.Weighted(label+".k", 1, 2, 3) {
	case 0:
		return types.ZeroAddress
	case 1:
		return contractList[c.Pick(label+".c", len(contractList))]
	default:
		var a types.Address
		copy(a[:], c.Bytes(label+".raw", 20, 20))
		return a
	}
}

func genNomBlock(c *pbt.C, label string, depth int) *nom.AccountBlock {
	b := &nom.AccountBlock{
		Version: genU64(c, label+".version"), ChainIdentifier: genU64(c, label+".chain"), BlockType: genU64(c, label+".type"),
		Hash: genHash(c, label+".hash"), PreviousHash: genHash(c, label+".prev"), Height: genU64(c, label+".height"),
		MomentumAcknowledged: types.HashHeight{Hash: genHash(c, label+".ackh"), Height: genU64(c, label+".ack")},
		Address:              genAddress(c, label+".addr"), ToAddress: genAddress(c, label+".to"),
		Amount:        new(big.Int).Set(rtAmounts[c.Pick(label+".amount", len(rtAmounts))]),
		FromBlockHash: genHash(c, label+".from"),
		Data:          genBytes(c, label+".data", 1, 4, 33, 200),
		FusedPlasma:   genU64(c, label+".fused"), Difficulty: genU64(c, label+".difficulty"),
		BasePlasma: genU64(c, label+".base"), TotalPlasma: genU64(c, label+".total"), ChangesHash: genHash(c, label+".changes"),
		PublicKey: ed25519.PublicKey(genBytes(c, label+".pub", 32, 31)), Signature: genBytes(c, label+".sig", 64, 1),
	}
	if c.Bool(label + ".zts") {
		copy(b.TokenStandard[:], c.Bytes(label+".ztsraw", 10, 10))
	} else {
		b.TokenStandard = []types.ZenonTokenStandard{types.ZnnTokenStandard, types.QsrTokenStandard, types.ZeroTokenStandard}[c.Pick(label+".ztsk", 3)]
	}
	if c.Bool(label + ".nonce") {
		copy(b.Nonce.Data[:], c.Bytes(label+".nonceraw", 8, 8))
	}
	if depth < 2 {
		n := c.Weighted(label+".desc", 4, 2, 1, 1)
		for i := 0; i < n; i++ {
			b.DescendantBlocks = append(b.DescendantBlocks, genNomBlock(c, fmt.Sprintf("%s.d%d", label, i), depth+1))
		}
	}
	if b.DescendantBlocks == nil && c.Bool(label+".emptydesc") {
		b.DescendantBlocks = []*nom.AccountBlock{}
	}
	return b
}

func genApiBlock(c *pbt.C, label string, depth int) *api.AccountBlock {
	b := &api.AccountBlock{AccountBlock: *genNomBlock(c, label, 0)}
	if c.Bool(label + ".token") {
		b.TokenInfo = &api.Token{TokenName: fmt.Sprintf("Tok-%d", c.Int(label+".tname", 0, 99)), TokenSymbol: "VRF", TokenDomain: "verif.test",
			TotalSupply: new(big.Int).Set(rtAmounts[c.Pick(label+".tsupply", len(rtAmounts))]), MaxSupply: new(big.Int).Set(rtAmounts[c.Pick(label+".tmax", len(rtAmounts))]),
			Decimals: uint8(c.Int(label+".tdec", 0, 255)), Owner: genAddress(c, label+".towner"), ZenonTokenStandard: b.TokenStandard,
			IsBurnable: c.Bool(label + ".tb"), IsMintable: c.Bool(label + ".tm"), IsUtility: c.Bool(label + ".tu")}
	}
	if c.Bool(label + ".conf") {
		b.ConfirmationDetail = &api.AccountBlockConfirmationDetail{NumConfirmations: genU64(c, label+".cn"), MomentumHeight: genU64(c, label+".ch"),
			MomentumHash: genHash(c, label+".chash"), MomentumTimestamp: int64(genU64(c, label+".cts"))}
	}
	if depth < 2 && c.Weighted(label+".paired", 2, 1) == 1 {
		b.PairedAccountBlock = genApiBlock(c, label+".p", depth+1)
	}
	return b
}

func TestC18JsonRoundTrip(t *testing.T) {
	pbt.Check(t, "C18", func(c *pbt.C) {
		st := &rtStats{}
		if c.Weighted("source", 3, 2) == 1 {
			c.Class("generated-blocks")
			n := c.Int("gen.n", 1, 4)
			for i := 0; i < n; i++ {
				b := genApiBlock(c, fmt.Sprintf("g%d", i), 0)
				c.Note("generated block: type %d height %d amount %v data %v (%d bytes) %d descendants nonce %x paired=%v", b.BlockType, b.Height, b.Amount, b.Data != nil, len(b.Data),
					len(b.DescendantBlocks), b.Nonce.Data, b.PairedAccountBlock != nil)
				roundTripBlock(c, "generated block", b, nil, st)
			}
			// list wrapper
			list := &api.AccountBlockList{Count: c.Int("gen.count", 0, 1<<30), More: c.Bool("gen.more")}
			for i := 0; i < n; i++ {
				list.List = append(list.List, genApiBlock(c, fmt.Sprintf("l%d", i), 1))
			}
			data, err := json.Marshal(list)
			if err != nil {
				c.Failf(keyRT, "generated AccountBlockList does not marshal: %v", err)
			}
			back := new(api.AccountBlockList)
			if err := json.Unmarshal(data, back); err != nil {
				c.Failf(keyRT, "generated AccountBlockList does not parse back: %v\n%s", err, clip(data))
			}
			if back.Count != list.Count || back.More != list.More || len(back.List) != len(list.List) {
				c.Failf(keyRT, "AccountBlockList envelope changed: count %d->%d more %v->%v len %d->%d", list.Count, back.Count, list.More, back.More, len(list.List), len(back.List))
			}
			for i := range list.List {
				if d := apiBlockDiff(back.List[i], list.List[i], 0); d != "" {
					c.Failf(keyRT, "AccountBlockList element %d changed in the JSON round trip: %s", i, d)
				}
			}
		} else {
			v := pickView(t, c)
			c.Class("world-" + v.Name)
			led := v.Apis.Ledger
			if v.LongLived {
				exhaustive(c, v, st)
			}
			switch c.Weighted("what", 3, 3, 2, 2, 2, 1) {
			case 0: // a window of an account chain by height
				addr := (&Env{C: c, V: v}).Addr("rt.addr")
				n := len(v.L.Blocks[addr])
				h := uint64(c.Int("rt.height", 1, n+1))
				cnt := uint64(c.Int("rt.count", 1, 40))
				res, err := led.GetAccountBlocksByHeight(addr, h, cnt)
				if err != nil {
					rtErr(c, v, addr, "GetAccountBlocksByHeight", err)
					return
				}
				c.Note("blocks %d..+%d of %v on %s: %d returned", h, cnt, addr, v.Name, len(res.List))
				for _, b := range res.List {
					roundTripBlock(c, "GetAccountBlocksByHeight", b, v.ByHash[b.Hash], st)
				}
				roundTripList(c, res)
			case 1: // newest first
				addr := (&Env{C: c, V: v}).Addr("rt.addr")
				res, err := led.GetAccountBlocksByPage(addr, uint32(c.Int("rt.page", 0, 12)), uint32(c.Int("rt.size", 1, 40)))
				if err != nil {
					rtErr(c, v, addr, "GetAccountBlocksByPage", err)
					return
				}
				c.Note("a page of %v on %s: %d returned", addr, v.Name, len(res.List))
				for _, b := range res.List {
					roundTripBlock(c, "GetAccountBlocksByPage", b, v.ByHash[b.Hash], st)
				}
				roundTripList(c, res)
			case 2: // pooled / unreceived
				addr := (&Env{C: c, V: v}).Addr("rt.addr")
				res, err := led.GetUnconfirmedBlocksByAddress(addr, 0, 50)
				if err != nil {
					rtErr(c, v, addr, "GetUnconfirmedBlocksByAddress", err)
					return
				}
				res2, err := led.GetUnreceivedBlocksByAddress(addr, uint32(c.Int("rt.upage", 0, 5)), 50)
				if err != nil {
					c.Failf(keyError, "GetUnreceivedBlocksByAddress(%v): %v", addr, err)
				}
				c.Note("pooled (%d) and unreceived (%d) blocks of %v on %s", len(res.List), len(res2.List), addr, v.Name)
				for _, b := range append(res.List, res2.List...) {
					roundTripBlock(c, "GetUnconfirmed/UnreceivedBlocksByAddress", b, v.ByHash[b.Hash], st)
				}
			case 3: // detailed momentums
				h := uint64(c.Int("rt.mheight", 1, len(v.Momentums)))
				res, err := led.GetDetailedMomentumsByHeight(h, uint64(c.Int("rt.mcount", 1, 12)))
				if err != nil {
					c.Failf(keyError, "GetDetailedMomentumsByHeight(%d): %v", h, err)
				}
				c.Note("detailed momentums from %d on %s: %d returned", h, v.Name, len(res.List))
				for _, d := range res.List {
					roundTripMomentum(c, "GetDetailedMomentumsByHeight", d.Momentum, v.Momentums[d.Momentum.Height-1], st)
					for _, b := range d.AccountBlocks {
						roundTripBlock(c, "GetDetailedMomentumsByHeight", b, v.ByHash[b.Hash], st)
					}
					data, err := json.Marshal(d)
					if err != nil {
						c.Failf(keyRT, "DetailedMomentum %d does not marshal: %v", d.Momentum.Height, err)
					}
					back := new(api.DetailedMomentum)
					if err := json.Unmarshal(data, back); err != nil || back.Momentum == nil {
						c.Failf(keyRT, "DetailedMomentum %d does not parse back: %v", d.Momentum.Height, err)
					}
					if dd := momentumDiff(back.Momentum.Momentum, d.Momentum.Momentum); dd != "" || len(back.AccountBlocks) != len(d.AccountBlocks) {
						c.Failf(keyRT, "DetailedMomentum %d changed in the round trip: %s (blocks %d->%d)", d.Momentum.Height, dd, len(d.AccountBlocks), len(back.AccountBlocks))
					}
					for i := range d.AccountBlocks {
						if dd := apiBlockDiff(back.AccountBlocks[i], d.AccountBlocks[i], 0); dd != "" {
							c.Failf(keyRT, "DetailedMomentum %d block %d changed in the round trip: %s", d.Momentum.Height, i, dd)
						}
					}
				}
			case 4: // momentums
				res, err := led.GetMomentumsByPage(uint32(c.Int("rt.mpage", 0, 20)), uint32(c.Int("rt.msize", 1, 30)))
				if err != nil {
					c.Failf(keyError, "GetMomentumsByPage: %v", err)
				}
				c.Note("a page of momentums on %s: %d returned", v.Name, len(res.List))
				for _, m := range res.List {
					roundTripMomentum(c, "GetMomentumsByPage", m, v.Momentums[m.Height-1], st)
				}
			default: // single lookups
				e := &Env{C: c, V: v}
				h := e.Hash("rt.hash")
				b, err := led.GetAccountBlockByHash(h)
				if err != nil {
					c.Failf(keyError, "GetAccountBlockByHash(%v): %v", h, err)
				}
				if b != nil {
					roundTripBlock(c, "GetAccountBlockByHash", b, v.ByHash[b.Hash], st)
				}
				faddr := e.Addr("rt.faddr")
				f, err := led.GetFrontierAccountBlock(faddr)
				if err != nil {
					rtErr(c, v, faddr, "GetFrontierAccountBlock", err)
					return
				}
				if f != nil {
					roundTripBlock(c, "GetFrontierAccountBlock", f, v.ByHash[f.Hash], st)
				}
				m, err := led.GetFrontierMomentum()
				if err != nil || m == nil {
					c.Failf(keyError, "GetFrontierMomentum: %v", err)
				}
				roundTripMomentum(c, "GetFrontierMomentum", m, v.Momentums[m.Height-1], st)
			}
		}
		c.R.Count("blocks_round_tripped", st.blocks)
		c.R.Count("momentums_round_tripped", st.momentums)
		for name, on := range map[string]bool{"block-with-descendants": st.descendants, "block-with-nonce": st.nonce, "amount-over-64-bits": st.bigAmount,
			"block-with-paired-block": st.paired, "empty-non-nil-data": st.emptyData} {
			if on {
				c.Class(name)
			}
		}
		if st.descendants || st.nonce || st.bigAmount || st.paired {
			c.NonTrivial()
		}
	})
}

func roundTripList(c *pbt.C, list *api.AccountBlockList) {
	data, err := json.Marshal(list)
	if err != nil {
		c.Failf(keyRT, "AccountBlockList does not marshal: %v", err)
	}
	back := new(api.AccountBlockList)
	if err := json.Unmarshal(data, back); err != nil {
		c.Failf(keyRT, "AccountBlockList does not parse back: %v", err)
	}
	if back.Count != list.Count || back.More != list.More || len(back.List) != len(list.List) {
		c.Failf(keyRT, "AccountBlockList envelope changed: count %d->%d more %v->%v len %d->%d", list.Count, back.Count, list.More, back.More, len(list.List), len(back.List))
	}
	for i := range list.List {
		if d := apiBlockDiff(back.List[i], list.List[i], 0); d != "" {
			c.Failf(keyRT, "AccountBlockList element %d (%v) changed in the JSON round trip: %s", i, list.List[i].Hash, d)
		}
	}
}

var exhausted sync.Map

// exhaustive round-trips every block and momentum of a long-lived world once per process.
func exhaustive(c *pbt.C, v *View, st *rtStats) {
	if _, done := exhausted.Load(v.Name); done {
		return
	}
	led := v.Apis.Ledger
	for _, a := range v.L.Accounts {
		for h := uint64(1); h <= uint64(len(v.L.Blocks[a])); h += api.RpcMaxCountSize {
			res, err := led.GetAccountBlocksByHeight(a, h, api.RpcMaxCountSize)
			if err != nil {
				c.Failf(keyError, "GetAccountBlocksByHeight(%v,%d,%d): %v", a, h, api.RpcMaxCountSize, err)
			}
			for _, b := range res.List {
				roundTripBlock(c, "every block of "+v.Name, b, v.ByHash[b.Hash], st)
			}
		}
	}
	for h := uint64(1); h <= v.Frontier; h += api.RpcMaxCountSize {
		res, err := led.GetDetailedMomentumsByHeight(h, api.RpcMaxCountSize)
		if err != nil {
			c.Failf(keyError, "GetDetailedMomentumsByHeight(%d): %v", h, err)
		}
		for _, d := range res.List {
			roundTripMomentum(c, "every momentum of "+v.Name, d.Momentum, v.Momentums[d.Momentum.Height-1], st)
			for _, b := range d.AccountBlocks {
				roundTripBlock(c, "every momentum of "+v.Name, b, v.ByHash[b.Hash], st)
			}
		}
	}
	exhausted.Store(v.Name, true) // only after a complete pass: a failure repeats in every case
	c.Class("exhaustive-pass-over-" + v.Name)
}

// rtErr: the only error a block query within the limits may answer with is the known
// "unconfirmed token" refusal (see BlockErrOK).
func rtErr(c *pbt.C, v *View, addr types.Address, what string, err error) {
	e := &Env{C: c, V: v}
	if err.Error() == "data non existent" && e.unconfirmedToken(addr) {
		if c.Failf(keyNewToken, "%s(%v) failed (%v): the chain holds an unconfirmed block in a token issued by a not yet confirmed block", what, addr, err) {
			c.Class("known-unconfirmed-token-hit")
			return
		}
	}
	c.Failf(keyError, "%s(%v): %v", what, addr, err)
}
