package p18

import (
	"fmt"
	"os"
	"testing"
)

func TestProbeWorld(t *testing.T) {
	for i := 0; i < bigVariants; i++ {
		v := BigView(t, i)
		fmt.Fprintf(os.Stderr, "accounts=%d frontier=%d\n", len(v.L.Accounts), v.Frontier)
		for _, a := range v.L.Accounts {
			fmt.Fprintf(os.Stderr, "  %s blocks=%d pooled=%d unrecv=%d\n", a, len(v.L.Blocks[a]), len(v.PooledOf(a)), len(v.Unreceived(a)))
		}
		fmt.Fprintln(os.Stderr, "sink unreceived", len(v.Unreceived(v.Sink)))
		tl, err := v.Apis.Token.GetAll(0, 100)
		fmt.Fprintln(os.Stderr, "tokens", tl.Count, err)
		pl, err := v.Apis.Pillar.GetAll(0, 100)
		fmt.Fprintln(os.Stderr, "pillars", pl.Count, err)
		sl, err := v.Apis.Sentinel.GetAllActive(0, 100)
		fmt.Fprintln(os.Stderr, "sentinels", sl.Count, err)
		al, err := v.Apis.Accelerator.GetAll(0, 100)
		fmt.Fprintln(os.Stderr, "projects", al.Count, err)
		sp, err := v.Apis.Spork.GetAll(0, 100)
		fmt.Fprintln(os.Stderr, "sporks", sp.Count, err)
		for _, u := range v.Users {
			f, _ := v.Apis.Plasma.GetEntriesByAddress(u, 0, 100)
			s, _ := v.Apis.Stake.GetEntriesByAddress(u, 0, 100)
			r, _ := v.Apis.Stake.GetFrontierRewardByPage(u, 0, 100)
			fmt.Fprintf(os.Stderr, "  %s fusions=%d stakes=%d rewardEpochs=%d\n", u, f.Count, s.Count, r.Count)
		}
		e, err := v.Apis.Pillar.GetPillarEpochHistory(v.Pillars[0], 0, 100)
		fmt.Fprintln(os.Stderr, "epoch history", e.Count, len(e.List), err)
	}
}
