package p18

import (
	"encoding/json"
	"fmt"
	"math"
	"math/big"
	"sort"
	"strconv"
	"sync"
	"testing"

	"github.com/zenon-network/go-zenon/chain/nom"
	"github.com/zenon-network/go-zenon/common/db"
	"github.com/zenon-network/go-zenon/common/types"
	"github.com/zenon-network/go-zenon/rpc/api"
	"github.com/zenon-network/go-zenon/vm/embedded/definition"

	"verifharness/pbt"
)

const (
	keyFarRange   = "C18/far-range-not-empty"
	keyBeforeTime = "C18/momentum-before-time"
	keyTimeRange  = "C18/before-time-overflow"
)

// ---- drawing addresses and hashes ------------------------------------------------------------

func (e *Env) Addr(label string) types.Address {
	c, v := e.C, e.V
	if len(v.Hot) > 0 && c.Weighted(label+".hot", 2, 1) == 1 {
		c.Class("addr-contract")
		return v.Hot[c.Pick(label+".hotidx", len(v.Hot))]
	}
	switch c.Weighted(label+".kind", 4, 2, 5, 2, 1, 1) {
	case 0:
		c.Class("addr-busy")
		return v.Busy
	case 1:
		c.Class("addr-sink")
		return v.Sink
	case 2:
		a := v.AddrPool[c.Pick(label+".pool", len(v.AddrPool))]
		if types.IsEmbeddedAddress(a) {
			c.Class("addr-contract")
		} else {
			c.Class("addr-known")
		}
		return a
	case 3:
		c.Class("addr-contract")
		return contractList[c.Pick(label+".contract", len(contractList))]
	case 4:
		c.Class("addr-unknown")
		var a types.Address
		copy(a[:], c.Bytes(label+".raw", 20, 20))
		return a
	default:
		c.Class("addr-zero")
		return types.ZeroAddress
	}
}

var contractList = append([]types.Address{}, types.EmbeddedContracts...)

func (e *Env) Hash(label string) types.Hash {
	c, v := e.C, e.V
	switch c.Weighted(label+".kind", 6, 2, 2, 1) {
	case 0:
		if len(v.HashPool) > 0 {
			c.Class("hash-known-block")
			return v.HashPool[c.Pick(label+".pool", len(v.HashPool))]
		}
		fallthrough
	case 1:
		c.Class("hash-momentum")
		return v.Momentums[c.Pick(label+".mom", len(v.Momentums))].Hash
	case 2:
		c.Class("hash-unknown")
		return types.NewHash(c.Bytes(label+".raw", 0, 8))
	default:
		c.Class("hash-zero")
		return types.ZeroHash
	}
}

const keyNewToken = "C18/unconfirmed-token-error"

// unconfirmedToken reports whether the chain of addr holds a pooled block in a token that only an
// unconfirmed block of the token contract has created.
func (e *Env) unconfirmedToken(addr types.Address) bool {
	ms := e.V.N.Chain.GetFrontierMomentumStore()
	for _, b := range e.V.PooledOf(addr) {
		if b.TokenStandard == types.ZeroTokenStandard {
			continue
		}
		if t, err := ms.GetTokenInfoByTs(b.TokenStandard); err != nil || t == nil {
			return true
		}
	}
	return false
}

// BlockErrOK is ErrOK for the methods that return blocks of one account: a request that touches a
// pooled block in a not yet confirmed token fails as a whole ("data non existent").
func (e *Env) BlockErrOK(k Call, a Answer, addr types.Address, outsideLimits bool) {
	if !outsideLimits && a.Err == "data non existent" && e.unconfirmedToken(addr) {
		if e.C.Failf(keyNewToken, "%s failed (%s): the chain holds an unconfirmed block in a token issued by a not yet confirmed block of the token contract", k, a.Err) {
			e.C.Class("known-unconfirmed-token-hit")
			return
		}
	}
	e.ErrOK(k, a, outsideLimits)
}

// ErrOK classifies an error answer.
func (e *Env) ErrOK(k Call, a Answer, outsideLimits bool) {
	if !outsideLimits {
		e.C.Failf(keyError, "%s failed although every argument is within the advertised limits: %s", k, a.Err)
	}
	e.C.Class("error-outside-limits")
}

func blockIDs(l []*nom.AccountBlock) []string {
	out := make([]string, len(l))
	for i, b := range l {
		out[i] = b.Hash.String()
	}
	return out
}

func reversed(l []string) []string {
	out := make([]string, len(l))
	for i := range l {
		out[len(l)-1-i] = l[i]
	}
	return out
}

// ---- the range oracle (height, count) ---------------------------------------------------------

func expectedHeights(height, count uint64, n int) (int, int) {
	if height == 0 {
		return n, n
	}
	if height-1 >= uint64(n) {
		return n, n
	}
	lo := height - 1
	room := uint64(n) - lo
	if count < room {
		room = count
	}
	return int(lo), int(lo + room)
}

func (e *Env) CheckRange(k Call, o *ListObs, truth []string, height, count uint64, wantCount int64, limit uint32) {
	c := e.C
	n := len(truth)
	lo, hi := expectedHeights(height, count, n)
	switch {
	case count > 0 && lo < n && hi == n:
		c.NonTrivial()
		c.Class("range-reaches-end")
		c.NonTrivialItem(k.RPCName() + "/range-reaches-end")
	case count > 0 && n > 0 && height == uint64(n)+1:
		c.NonTrivial()
		c.Class("range-starts-after-end")
		c.NonTrivialItem(k.RPCName() + "/range-starts-after-end")
	case height >= 1<<31 || count >= 1<<31:
		c.NonTrivial()
		c.Class("range-extreme")
		c.NonTrivialItem(k.RPCName() + "/range-extreme")
	}
	if height+count < height {
		c.Class("range-overflows-64-bits")
	}
	if o.Count != wantCount {
		c.Failf(keyCount, "%s: count=%d, the ledger holds %d", k, o.Count, wantCount)
	}
	if len(o.IDs) > int(limit) {
		c.Failf(keyCapOther, "%s returned %d elements, advertised limit is %d", k, len(o.IDs), limit)
	}
	want := truth[lo:hi]
	if sameIDs(o.IDs, want) {
		return
	}
	if height+count < height {
		// the deviation tolerated as a known finding is exactly "heights wrap around 2^64"
		var wrapped []string
		for i := uint64(0); i < count && i < 4096; i++ {
			if h := height + i; h >= 1 && h <= uint64(n) {
				wrapped = append(wrapped, truth[h-1])
			}
		}
		if sameIDs(o.IDs, wrapped) {
			if c.Failf(keyFarRange, "%s: the chain has %d elements; the range runs past 2^64 and %d elements of the START of the chain came back (first %s)", k, n, len(o.IDs), o.IDs[0]) {
				c.Class("known-far-range-hit")
			}
			return
		}
	}
	c.Failf(keySlice, "%s: got %s, heights [%d,%d] of the %d-element truth are %s", k, show(o.IDs), lo+1, hi, n, show(want))
}

// ---- content of blocks and momentums -----------------------------------------------------------

func bigStr(b *big.Int) string {
	if b == nil {
		return "nil"
	}
	return b.String()
}

// blockDiff compares two ledger blocks field by field ("" if equal). Nil and empty byte strings
// are the same value for the ledger (protobuf does not distinguish them).
func blockDiff(got, want *nom.AccountBlock) string {
	if got == nil || want == nil {
		if got == nil && want == nil {
			return ""
		}
		return fmt.Sprintf("nil-ness differs: got %v want %v", got == nil, want == nil)
	}
	type f struct {
		name string
		a, b interface{}
	}
	fields := []f{
		{"version", got.Version, want.Version}, {"chainIdentifier", got.ChainIdentifier, want.ChainIdentifier}, {"blockType", got.BlockType, want.BlockType},
		{"hash", got.Hash, want.Hash}, {"previousHash", got.PreviousHash, want.PreviousHash}, {"height", got.Height, want.Height},
		{"momentumAcknowledged", got.MomentumAcknowledged, want.MomentumAcknowledged}, {"address", got.Address, want.Address},
		{"toAddress", got.ToAddress, want.ToAddress}, {"amount", bigStr(got.Amount), bigStr(want.Amount)}, {"tokenStandard", got.TokenStandard, want.TokenStandard},
		{"fromBlockHash", got.FromBlockHash, want.FromBlockHash}, {"data", string(got.Data), string(want.Data)},
		{"fusedPlasma", got.FusedPlasma, want.FusedPlasma}, {"difficulty", got.Difficulty, want.Difficulty}, {"nonce", got.Nonce.Data, want.Nonce.Data},
		{"basePlasma", got.BasePlasma, want.BasePlasma}, {"usedPlasma", got.TotalPlasma, want.TotalPlasma}, {"changesHash", got.ChangesHash, want.ChangesHash},
		{"publicKey", string(got.PublicKey), string(want.PublicKey)}, {"signature", string(got.Signature), string(want.Signature)},
		{"descendants", len(got.DescendantBlocks), len(want.DescendantBlocks)},
	}
	for _, x := range fields {
		if x.a != x.b {
			return fmt.Sprintf("field %s: got %v want %v", x.name, x.a, x.b)
		}
	}
	for i := range got.DescendantBlocks {
		if d := blockDiff(got.DescendantBlocks[i], want.DescendantBlocks[i]); d != "" {
			return fmt.Sprintf("descendant %d: %s", i, d)
		}
	}
	return ""
}

// CheckBlock compares one api block (JSON) with the ledger.
func (e *Env) CheckBlock(k Call, raw json.RawMessage) {
	c, v := e.C, e.V
	var b api.AccountBlock
	if err := json.Unmarshal(raw, &b); err != nil {
		c.Failf(keyContent, "%s: returned block does not parse back: %v: %s", k, err, clip(raw))
	}
	want := v.ByHash[b.Hash]
	if want == nil {
		c.Failf(keyContent, "%s returned block %v which is on no account chain", k, b.Hash)
	}
	if d := blockDiff(&b.AccountBlock, want); d != "" {
		c.Failf(keyContent, "%s: block %v differs from the ledger: %s", k, b.Hash, d)
	}
	if h := b.AccountBlock.ComputeHash(); h != want.Hash {
		c.Failf(keyContent, "%s: block %v re-hashes to %v", k, want.Hash, h)
	}
	// confirmation detail
	confAt, confirmed := v.ConfAt[b.Hash]
	switch {
	case confirmed && b.ConfirmationDetail == nil:
		c.Failf(keyContent, "%s: block %v is confirmed by momentum %d but carries no confirmationDetail", k, b.Hash, confAt)
	case !confirmed && b.ConfirmationDetail != nil:
		c.Failf(keyContent, "%s: block %v is not in any momentum but carries confirmationDetail %+v", k, b.Hash, *b.ConfirmationDetail)
	case confirmed:
		m := v.Momentums[confAt-1]
		d := b.ConfirmationDetail
		if d.MomentumHeight != confAt || d.MomentumHash != m.Hash || d.NumConfirmations != v.Frontier-confAt+1 || d.MomentumTimestamp != int64(m.TimestampUnix) {
			c.Failf(keyContent, "%s: block %v confirmationDetail %+v, the ledger says momentum %d %v ts %d, %d confirmations", k, b.Hash, *d, confAt, m.Hash,
				m.TimestampUnix, v.Frontier-confAt+1)
		}
	}
	// paired block (only confirmed partners are served)
	if b.BlockType != nom.BlockTypeGenesisReceive {
		var partner *nom.AccountBlock
		if b.IsSendBlock() {
			for _, r := range v.L.Recv[b.Hash] {
				if _, ok := v.ConfAt[r.Hash]; ok {
					partner = r
				}
			}
		} else {
			if s := v.L.Sends[b.FromBlockHash]; s != nil {
				if _, ok := v.ConfAt[s.Hash]; ok {
					partner = s
				}
			}
		}
		switch {
		case partner == nil && b.PairedAccountBlock != nil:
			// a pooled partner may or may not be shown; a partner that exists nowhere is wrong
			if v.ByHash[b.PairedAccountBlock.Hash] == nil {
				c.Failf(keyContent, "%s: block %v is paired with %v which is on no account chain", k, b.Hash, b.PairedAccountBlock.Hash)
			}
		case partner != nil && b.PairedAccountBlock == nil:
			c.Failf(keyContent, "%s: block %v has the confirmed partner %v but pairedAccountBlock is null", k, b.Hash, partner.Hash)
		case partner != nil:
			if d := blockDiff(&b.PairedAccountBlock.AccountBlock, partner); d != "" {
				c.Failf(keyContent, "%s: paired block of %v differs from the ledger: %s", k, b.Hash, d)
			}
		}
	}
	if b.TokenStandard != types.ZeroTokenStandard && b.TokenInfo != nil && b.TokenInfo.ZenonTokenStandard != b.TokenStandard {
		c.Failf(keyContent, "%s: block %v of token %v carries token info of %v", k, b.Hash, b.TokenStandard, b.TokenInfo.ZenonTokenStandard)
	}
}

func (e *Env) CheckBlocks(k Call, o *ListObs) {
	for _, raw := range o.Elems {
		e.CheckBlock(k, raw)
	}
}

// CheckMomentum compares one api momentum (JSON) with the store.
func (e *Env) CheckMomentum(k Call, raw json.RawMessage) *api.Momentum {
	c, v := e.C, e.V
	var m api.Momentum
	if err := json.Unmarshal(raw, &m); err != nil || m.Momentum == nil {
		c.Failf(keyContent, "%s: returned momentum does not parse back: %v: %s", k, err, clip(raw))
	}
	if m.Height == 0 || m.Height > v.Frontier {
		c.Failf(keyContent, "%s returned a momentum of height %d, frontier is %d", k, m.Height, v.Frontier)
	}
	want := v.Momentums[m.Height-1]
	if d := momentumDiff(m.Momentum, want); d != "" {
		c.Failf(keyContent, "%s: momentum %d differs from the store: %s", k, m.Height, d)
	}
	if h := m.Momentum.ComputeHash(); h != want.Hash {
		c.Failf(keyContent, "%s: momentum %d re-hashes to %v, stored hash %v", k, m.Height, h, want.Hash)
	}
	if m.Producer != types.PubKeyToAddress(want.PublicKey) {
		c.Failf(keyContent, "%s: momentum %d producer %v, public key says %v", k, m.Height, m.Producer, types.PubKeyToAddress(want.PublicKey))
	}
	return &m
}

func momentumDiff(got, want *nom.Momentum) string {
	type f struct {
		name string
		a, b interface{}
	}
	fields := []f{{"version", got.Version, want.Version}, {"chainIdentifier", got.ChainIdentifier, want.ChainIdentifier}, {"hash", got.Hash, want.Hash},
		{"previousHash", got.PreviousHash, want.PreviousHash}, {"height", got.Height, want.Height}, {"timestamp", got.TimestampUnix, want.TimestampUnix},
		{"data", string(got.Data), string(want.Data)}, {"changesHash", got.ChangesHash, want.ChangesHash}, {"publicKey", string(got.PublicKey), string(want.PublicKey)},
		{"signature", string(got.Signature), string(want.Signature)}, {"content length", len(got.Content), len(want.Content)}}
	for _, x := range fields {
		if x.a != x.b {
			return fmt.Sprintf("field %s: got %v want %v", x.name, x.a, x.b)
		}
	}
	for i := range got.Content {
		if *got.Content[i] != *want.Content[i] {
			return fmt.Sprintf("content[%d]: got %+v want %+v", i, *got.Content[i], *want.Content[i])
		}
	}
	return ""
}

func momentumIDs(l []*nom.Momentum) []string {
	out := make([]string, len(l))
	for i, m := range l {
		out[i] = m.Hash.String()
	}
	return out
}

// ---- ledger methods -----------------------------------------------------------------------------

type method struct {
	name string
	w    int
	run  func(e *Env)
}

func mAccountBlocksByHeight(e *Env) {
	c, v := e.C, e.V
	addr := e.Addr("abh.addr")
	n := len(v.L.Blocks[addr])
	h, cnt := GenHeight(c, "abh.height", n), GenCount(c, "abh.count", n)
	if c.Weighted("abh.near64", 9, 1) == 1 {
		h, cnt = math.MaxUint64-uint64(c.Int("abh.below", 0, 20)), uint64(c.Int("abh.cnt64", 1, 40))
	}
	checkAccountBlocksByHeight(e, addr, h, cnt)
}

func checkAccountBlocksByHeight(e *Env, addr types.Address, h, cnt uint64) {
	c, v := e.C, e.V
	truth := v.L.Blocks[addr]
	k := Call{"ledger", v.Apis.Ledger, "GetAccountBlocksByHeight", []interface{}{addr, h, cnt}}
	c.Note("%s on %s (chain of %d)", k, v.Name, len(truth))
	a := e.Do(k)
	if a.Err != "" {
		e.BlockErrOK(k, a, addr, h == 0 || cnt > api.RpcMaxCountSize)
		return
	}
	o := e.ParseList(k, a, idField("hash"))
	e.CheckRange(k, o, blockIDs(truth), h, cnt, int64(len(truth)), api.RpcMaxCountSize)
	e.CheckBlocks(k, o)
}

func mAccountBlocksByPage(e *Env) {
	c, v := e.C, e.V
	addr := e.Addr("abp.addr")
	n := len(v.L.Blocks[addr])
	size := GenSize(c, "abp.size", n, api.RpcMaxPageSize)
	idx := GenIndex(c, "abp.index", n, size)
	checkAccountBlocksByPage(e, addr, idx, size)
}

func checkAccountBlocksByPage(e *Env, addr types.Address, idx, size uint32) {
	c, v := e.C, e.V
	truth := v.L.Blocks[addr]
	k := Call{"ledger", v.Apis.Ledger, "GetAccountBlocksByPage", []interface{}{addr, idx, size}}
	c.Note("%s on %s (chain of %d)", k, v.Name, len(truth))
	a := e.Do(k)
	if a.Err != "" {
		e.BlockErrOK(k, a, addr, pageErrorAllowed(size, api.RpcMaxPageSize))
		return
	}
	o := e.ParseList(k, a, idField("hash"))
	e.CheckPage(k, o, PageSpec{Truth: reversed(blockIDs(truth)), Ordered: true, WantCount: int64(len(truth)), Limit: api.RpcMaxPageSize, Index: idx, Size: size})
	e.CheckBlocks(k, o)
}

func mUnconfirmed(e *Env) {
	c, v := e.C, e.V
	addr := e.Addr("unc.addr")
	n := len(v.PooledOf(addr))
	size := GenSize(c, "unc.size", n, api.RpcMaxPageSize)
	idx := GenIndex(c, "unc.index", n, size)
	checkUnconfirmed(e, addr, idx, size)
}

func checkUnconfirmed(e *Env, addr types.Address, idx, size uint32) {
	c, v := e.C, e.V
	truth := v.PooledOf(addr)
	k := Call{"ledger", v.Apis.Ledger, "GetUnconfirmedBlocksByAddress", []interface{}{addr, idx, size}}
	c.Note("%s on %s (%d pooled)", k, v.Name, len(truth))
	a := e.Do(k)
	if a.Err != "" {
		e.BlockErrOK(k, a, addr, pageErrorAllowed(size, api.RpcMaxPageSize))
		return
	}
	o := e.ParseList(k, a, idField("hash"))
	e.CheckPage(k, o, PageSpec{Truth: blockIDs(truth), Ordered: true, WantCount: int64(len(truth)), Limit: api.RpcMaxPageSize, Index: idx, Size: size})
	e.CheckBlocks(k, o)
}

const (
	unreceivedMaxPageSize  = 50 // rpc/api/ledger.go (unexported there)
	unreceivedMaxPageIndex = 10
)

func sortedKeys(m map[types.Hash]bool) []string {
	out := make([]string, 0, len(m))
	for h := range m {
		out = append(out, h.String())
	}
	sort.Strings(out)
	return out
}

func mUnreceived(e *Env) {
	c, v := e.C, e.V
	addr := e.Addr("unr.addr")
	must, _ := v.Unreceived(addr)
	size := GenSize(c, "unr.size", len(must), unreceivedMaxPageSize)
	idx := GenIndex(c, "unr.index", len(must), size)
	checkUnreceived(e, addr, idx, size)
}

func checkUnreceived(e *Env, addr types.Address, idx, size uint32) {
	c, v := e.C, e.V
	must, optional := v.Unreceived(addr)
	truth := sortedKeys(must)
	k := Call{"ledger", v.Apis.Ledger, "GetUnreceivedBlocksByAddress", []interface{}{addr, idx, size}}
	c.Note("%s on %s (%d unreceived, %d with a pooled receive)", k, v.Name, len(truth), len(optional))
	a := e.Do(k)
	if a.Err != "" {
		e.ErrOK(k, a, size > unreceivedMaxPageSize || idx >= unreceivedMaxPageIndex)
		return
	}
	o := e.ParseList(k, a, idField("hash"))
	if len(truth)+len(optional) > unreceivedMaxPageSize*unreceivedMaxPageIndex {
		// the method looks at the first 500 entries only; nothing exact can be said
		c.Class("unreceived-over-500")
		return
	}
	if len(optional) > 0 {
		c.Class("unreceived-with-pooled-receive")
		if o.Count < int64(len(must)) || o.Count > int64(len(must)+len(optional)) {
			c.Failf(keyCount, "%s: count=%d, the ledger holds %d unreceived sends (+%d whose receive is pooled)", k, o.Count, len(must), len(optional))
		}
		if len(o.IDs) > unreceivedMaxPageSize || (size <= unreceivedMaxPageSize && len(o.IDs) > int(size)) {
			c.Failf(keyCapOther, "%s returned %d elements", k, len(o.IDs))
		}
		for _, raw := range o.Elems {
			var b api.AccountBlock
			_ = json.Unmarshal(raw, &b)
			if !must[b.Hash] && !optional[b.Hash] {
				c.Failf(keySlice, "%s returned %v which is not an unreceived send to that address", k, b.Hash)
			}
		}
		return
	}
	e.CheckPage(k, o, PageSpec{Truth: truth, Ordered: false, WantCount: int64(len(truth)), Limit: unreceivedMaxPageSize, Index: idx, Size: size})
	e.CheckBlocks(k, o)
	for _, raw := range o.Elems {
		var b api.AccountBlock
		_ = json.Unmarshal(raw, &b)
		if b.ToAddress != addr || !b.IsSendBlock() {
			c.Failf(keyContent, "%s returned %v which is not a send to that address", k, b.Hash)
		}
	}
}

func mMomentumsByHeight(e *Env) {
	c, v := e.C, e.V
	n := len(v.Momentums)
	h, cnt := GenHeight(c, "mbh.height", n), GenCount(c, "mbh.count", n)
	if c.Weighted("mbh.near64", 9, 1) == 1 {
		h, cnt = math.MaxUint64-uint64(c.Int("mbh.below", 0, 20)), uint64(c.Int("mbh.cnt64", 1, 40))
	}
	checkMomentumsByHeight(e, h, cnt, c.Bool("mbh.detailed"))
}

func checkMomentumsByHeight(e *Env, h, cnt uint64, detailed bool) {
	c, v := e.C, e.V
	n := len(v.Momentums)
	name := "GetMomentumsByHeight"
	if detailed {
		name = "GetDetailedMomentumsByHeight"
	}
	k := Call{"ledger", v.Apis.Ledger, name, []interface{}{h, cnt}}
	c.Note("%s on %s (frontier %d)", k, v.Name, n)
	a := e.Do(k)
	if a.Err != "" {
		e.ErrOK(k, a, h == 0 || cnt > api.RpcMaxCountSize)
		return
	}
	if !detailed {
		o := e.ParseList(k, a, idField("hash"))
		e.CheckRange(k, o, momentumIDs(v.Momentums), h, cnt, int64(n), api.RpcMaxCountSize)
		for _, raw := range o.Elems {
			e.CheckMomentum(k, raw)
		}
		return
	}
	o := e.ParseList(k, a, func(raw json.RawMessage) (string, error) {
		var d struct {
			Momentum json.RawMessage `json:"momentum"`
		}
		if err := json.Unmarshal(raw, &d); err != nil {
			return "", err
		}
		return idField("hash")(d.Momentum)
	})
	e.CheckRange(k, o, momentumIDs(v.Momentums), h, cnt, int64(n), api.RpcMaxCountSize)
	for _, raw := range o.Elems {
		var d struct {
			Blocks   []json.RawMessage `json:"blocks"`
			Momentum json.RawMessage   `json:"momentum"`
		}
		if err := json.Unmarshal(raw, &d); err != nil {
			c.Failf(keyContent, "%s: detailed momentum does not parse: %v", k, err)
		}
		m := e.CheckMomentum(k, d.Momentum)
		want := v.Momentums[m.Height-1]
		if len(d.Blocks) != len(want.Content) {
			c.Failf(keyContent, "%s: momentum %d has %d content entries, %d blocks returned", k, m.Height, len(want.Content), len(d.Blocks))
		}
		for i, braw := range d.Blocks {
			id, err := idField("hash")(braw)
			if err != nil || id != want.Content[i].Hash.String() {
				c.Failf(keyContent, "%s: momentum %d block %d is %s, content says %v", k, m.Height, i, id, want.Content[i].Hash)
			}
			e.CheckBlock(k, braw)
		}
	}
}

func mMomentumsByPage(e *Env) {
	c, v := e.C, e.V
	n := len(v.Momentums)
	size := GenSize(c, "mbp.size", n, api.RpcMaxPageSize)
	checkMomentumsByPage(e, GenIndex(c, "mbp.index", n, size), size)
}

func checkMomentumsByPage(e *Env, idx, size uint32) {
	c, v := e.C, e.V
	n := len(v.Momentums)
	k := Call{"ledger", v.Apis.Ledger, "GetMomentumsByPage", []interface{}{idx, size}}
	c.Note("%s on %s (frontier %d)", k, v.Name, n)
	a := e.Do(k)
	if a.Err != "" {
		e.ErrOK(k, a, pageErrorAllowed(size, api.RpcMaxPageSize))
		return
	}
	o := e.ParseList(k, a, idField("hash"))
	e.CheckPage(k, o, PageSpec{Truth: reversed(momentumIDs(v.Momentums)), Ordered: true, WantCount: int64(n), Limit: api.RpcMaxPageSize, Index: idx, Size: size})
	for _, raw := range o.Elems {
		e.CheckMomentum(k, raw)
	}
}

// maxNanoSec is the largest second count time.Time.UnixNano can represent.
const maxNanoSec = math.MaxInt64 / 1000000000

func mMomentumBeforeTime(e *Env) {
	c, v := e.C, e.V
	var ts int64
	switch c.Weighted("mbt.kind", 6, 3, 2, 2) {
	case 0:
		m := v.Momentums[c.Pick("mbt.mom", len(v.Momentums))]
		ts = int64(m.TimestampUnix) + int64(c.Int("mbt.delta", -2, 2))
	case 1:
		first, last := int64(v.Momentums[0].TimestampUnix), int64(v.Momentums[len(v.Momentums)-1].TimestampUnix)
		ts = first - 5 + int64(c.Uint64("mbt.in", 0, uint64(last-first+10)))
	case 2:
		ts = []int64{0, 1, -1, math.MinInt64, math.MinInt64 + 1, math.MaxInt64, math.MaxInt64 - 1, maxNanoSec, maxNanoSec + 1, -maxNanoSec, -maxNanoSec - 2,
			1 << 31, 1 << 32, 1 << 55, 1 << 62}[c.Pick("mbt.bound", 15)]
	default:
		// same nanosecond value as a real timestamp after 64-bit wrap-around: ts + k*2^55
		m := v.Momentums[c.Pick("mbt.wrapmom", len(v.Momentums))]
		ts = int64(m.TimestampUnix) + int64(c.Int("mbt.wrapk", -3, 3))<<55 + int64(c.Int("mbt.wrapd", -1, 1))
	}
	checkMomentumBeforeTime(e, ts)
}

func checkMomentumBeforeTime(e *Env, ts int64) {
	c, v := e.C, e.V
	k := Call{"ledger", v.Apis.Ledger, "GetMomentumBeforeTime", []interface{}{ts}}
	c.Note("%s on %s (timestamps %d..%d)", k, v.Name, v.Momentums[0].TimestampUnix, v.Momentums[len(v.Momentums)-1].TimestampUnix)
	a := e.Do(k)
	key := keyBeforeTime
	if ts > maxNanoSec || ts < -maxNanoSec {
		key = keyTimeRange
		c.Class("before-time-beyond-nanosecond-range")
	}
	if a.Err != "" {
		c.Failf(key, "%s failed: %s", k, a.Err)
		return
	}
	// reference: the highest momentum with a timestamp strictly before ts
	var want *nom.Momentum
	for _, m := range v.Momentums {
		if int64(m.TimestampUnix) < ts {
			want = m
		}
	}
	if want != nil && (want.Height == v.Frontier || want.Height == 1) {
		c.NonTrivial()
		c.Class("before-time-at-chain-end")
		c.NonTrivialItem("GetMomentumBeforeTime/chain-end")
	}
	if string(a.JSON) == "null" {
		if want != nil {
			if c.Failf(key, "%s answered null, momentum %d (timestamp %d) is before that time", k, want.Height, want.TimestampUnix) {
				c.Class("known-before-time-hit")
			}
		}
		return
	}
	got := e.CheckMomentum(k, a.JSON)
	if want == nil || got.Height != want.Height {
		wh := uint64(0)
		if want != nil {
			wh = want.Height
		}
		if c.Failf(key, "%s answered momentum %d (timestamp %d), the last momentum before that time is %d", k, got.Height, got.TimestampUnix, wh) {
			c.Class("known-before-time-hit")
		}
	}
}

func mBlockByHash(e *Env) {
	c, v := e.C, e.V
	h := e.Hash("bbh.hash")
	k := Call{"ledger", v.Apis.Ledger, "GetAccountBlockByHash", []interface{}{h}}
	c.Note("%s on %s", k, v.Name)
	a := e.Do(k)
	if a.Err != "" {
		c.Failf(keyError, "%s failed: %s", k, a.Err)
	}
	want := v.ByHash[h]
	_, confirmed := v.ConfAt[h]
	if string(a.JSON) == "null" {
		if want != nil && confirmed {
			c.Failf(keyContent, "%s answered null, the block is at height %d of %v (momentum %d)", k, want.Height, want.Address, v.ConfAt[h])
		}
		return
	}
	if want == nil {
		c.Failf(keyContent, "%s answered %s, no account chain holds such a block", k, clip(a.JSON))
	}
	if id, _ := idField("hash")(a.JSON); id != h.String() {
		c.Failf(keyContent, "%s answered block %s", k, id)
	}
	e.CheckBlock(k, a.JSON)
}

func mMomentumByHash(e *Env) {
	c, v := e.C, e.V
	h := e.Hash("mh.hash")
	k := Call{"ledger", v.Apis.Ledger, "GetMomentumByHash", []interface{}{h}}
	c.Note("%s on %s", k, v.Name)
	a := e.Do(k)
	if a.Err != "" {
		c.Failf(keyError, "%s failed: %s", k, a.Err)
	}
	var want *nom.Momentum
	for _, m := range v.Momentums {
		if m.Hash == h {
			want = m
		}
	}
	if string(a.JSON) == "null" {
		if want != nil {
			c.Failf(keyContent, "%s answered null, momentum %d has that hash", k, want.Height)
		}
		return
	}
	got := e.CheckMomentum(k, a.JSON)
	if want == nil || got.Hash != h {
		c.Failf(keyContent, "%s answered momentum %d %v", k, got.Height, got.Hash)
	}
}

func mFrontiers(e *Env) {
	c, v := e.C, e.V
	addr := e.Addr("fr.addr")
	truth := v.L.Blocks[addr]
	k := Call{"ledger", v.Apis.Ledger, "GetFrontierAccountBlock", []interface{}{addr}}
	c.Note("%s on %s", k, v.Name)
	a := e.Do(k)
	if a.Err != "" {
		e.BlockErrOK(k, a, addr, false)
	} else if string(a.JSON) == "null" {
		if len(truth) > 0 {
			c.Failf(keyContent, "%s answered null, the chain has %d blocks", k, len(truth))
		}
	} else {
		id, _ := idField("hash")(a.JSON)
		if len(truth) == 0 || id != truth[len(truth)-1].Hash.String() {
			c.Failf(keyContent, "%s answered block %s, the chain has %d blocks", k, id, len(truth))
		}
		e.CheckBlock(k, a.JSON)
	}
	k2 := Call{"ledger", v.Apis.Ledger, "GetFrontierMomentum", nil}
	a2 := e.Do(k2)
	if a2.Err != "" {
		c.Failf(keyError, "%s failed: %s", k2, a2.Err)
	}
	if m := e.CheckMomentum(k2, a2.JSON); m.Height != v.Frontier {
		c.Failf(keyContent, "%s answered height %d, frontier is %d", k2, m.Height, v.Frontier)
	}
}

func mAccountInfo(e *Env) {
	c, v := e.C, e.V
	addr := e.Addr("ai.addr")
	k := Call{"ledger", v.Apis.Ledger, "GetAccountInfoByAddress", []interface{}{addr}}
	c.Note("%s on %s", k, v.Name)
	a := e.Do(k)
	if a.Err != "" {
		c.Failf(keyError, "%s failed: %s", k, a.Err)
	}
	var info struct {
		Address       types.Address `json:"address"`
		AccountHeight uint64        `json:"accountHeight"`
		Balances      map[string]struct {
			Balance string `json:"balance"`
			Token   *struct {
				ZTS string `json:"tokenStandard"`
			} `json:"token"`
		} `json:"balanceInfoMap"`
	}
	if err := json.Unmarshal(a.JSON, &info); err != nil {
		c.Failf(keyContent, "%s: answer does not parse: %v: %s", k, err, clip(a.JSON))
	}
	if info.Address != addr || info.AccountHeight != uint64(len(v.L.Blocks[addr])) {
		c.Failf(keyContent, "%s: address %v height %d, the chain has %d blocks", k, info.Address, info.AccountHeight, len(v.L.Blocks[addr]))
	}
	known := map[types.ZenonTokenStandard]bool{}
	toks, _ := definition.GetTokenInfoList(e.Storage(types.TokenContract))
	for _, t := range toks {
		known[t.TokenStandard] = true
	}
	for z, bal := range v.L.Balances[addr] {
		got, ok := info.Balances[z.String()]
		if !known[z] {
			continue
		}
		if !ok {
			if bal.Sign() != 0 {
				c.Failf(keyContent, "%s: balance %v of %v is missing", k, bal, z)
			}
			continue
		}
		if got.Balance != bal.String() || got.Token == nil || got.Token.ZTS != z.String() {
			c.Failf(keyContent, "%s: token %v balance %s, the store says %v", k, z, got.Balance, bal)
		}
	}
	for zs := range info.Balances {
		z := types.ParseZTSPanic(zs)
		if v.L.Balances[addr][z] == nil {
			c.Failf(keyContent, "%s: reports a balance in %v, the store has none", k, z)
		}
	}
	if len(v.L.Balances[addr]) > 1 {
		c.Class("account-info-multi-token")
	}
}

func (e *Env) Storage(contract types.Address) db.DB {
	return e.V.N.Chain.GetFrontierAccountStore(contract).Storage()
}

// ---- embedded list methods ------------------------------------------------------------------------

type embList struct {
	name   string
	ns     string
	svc    func(a *Apis) interface{}
	method string
	id     func(json.RawMessage) (string, error)
	// prefix draws the leading arguments; hint is a short label of their class
	prefix func(e *Env) []interface{}
	// truth reads the element ids from the contract storage (any order), or the documented
	// order if ordered is true; count is the advertised total
	truth func(e *Env, prefix []interface{}) (ids []string, ordered bool)
	// sorted, if set, checks the documented ordering constraint on the reference order
	sorted func(elems []json.RawMessage) string
	// capAdvertised: the method rejects sizes above RpcMaxPageSize
	limit uint32
}

func noPrefix(e *Env) []interface{} { return nil }

func userAddr(label string) func(e *Env) []interface{} {
	return func(e *Env) []interface{} {
		c, v := e.C, e.V
		if c.Weighted(label+".kind", 5, 2) == 0 {
			return []interface{}{v.Users[c.Pick(label+".user", len(v.Users))]}
		}
		return []interface{}{e.Addr(label)}
	}
}

func epochsDescending(e *Env, contract types.Address) []string {
	last, err := definition.GetLastEpochUpdate(e.Storage(contract))
	if err != nil {
		e.C.Failf("C18/scan-error", "cannot read the epoch cursor of %v: %v", contract, err)
	}
	var out []string
	for ep := last.LastEpoch; ep >= 0; ep-- {
		out = append(out, strconv.FormatInt(ep, 10))
	}
	return out
}

func rewardPager(ns string, svc func(a *Apis) interface{}, contract types.Address) embList {
	return embList{name: ns + ".getFrontierRewardByPage", ns: ns, svc: svc, method: "GetFrontierRewardByPage", id: idField("epoch"),
		prefix: userAddr("rw.addr"), limit: api.RpcMaxPageSize,
		truth: func(e *Env, p []interface{}) ([]string, bool) { return epochsDescending(e, contract), true }}
}

func jsonField(raw json.RawMessage, field string) string {
	var m map[string]json.RawMessage
	_ = json.Unmarshal(raw, &m)
	return string(m[field])
}

func nonDecreasing(field string) func([]json.RawMessage) string {
	return func(elems []json.RawMessage) string {
		prev := int64(math.MinInt64)
		for i, el := range elems {
			x, err := strconv.ParseInt(jsonField(el, field), 10, 64)
			if err != nil {
				return fmt.Sprintf("element %d has no integer %s", i, field)
			}
			if x < prev {
				return fmt.Sprintf("element %d: %s=%d after %d", i, field, x, prev)
			}
			prev = x
		}
		return ""
	}
}

func nonIncreasing(field string) func([]json.RawMessage) string {
	return func(elems []json.RawMessage) string {
		prev := int64(math.MaxInt64)
		for i, el := range elems {
			x, err := strconv.ParseInt(jsonField(el, field), 10, 64)
			if err != nil {
				return fmt.Sprintf("element %d has no integer %s", i, field)
			}
			if x > prev {
				return fmt.Sprintf("element %d: %s=%d after %d", i, field, x, prev)
			}
			prev = x
		}
		return ""
	}
}

func pillarOrder(elems []json.RawMessage) string {
	var prevW *big.Int
	prevName := ""
	for i, el := range elems {
		var p struct {
			Name   string `json:"name"`
			Rank   int    `json:"rank"`
			Weight string `json:"weight"`
		}
		if err := json.Unmarshal(el, &p); err != nil {
			return err.Error()
		}
		w, ok := new(big.Int).SetString(p.Weight, 10)
		if !ok {
			return fmt.Sprintf("pillar %s: weight %q", p.Name, p.Weight)
		}
		if p.Rank != i {
			return fmt.Sprintf("pillar %s at position %d has rank %d", p.Name, i, p.Rank)
		}
		if prevW != nil && (w.Cmp(prevW) > 0 || (w.Cmp(prevW) == 0 && p.Name < prevName)) {
			return fmt.Sprintf("pillar %s (weight %v) after %s (weight %v)", p.Name, w, prevName, prevW)
		}
		prevW, prevName = w, p.Name
	}
	return ""
}

func embeddedLists() []embList {
	tokenSvc := func(a *Apis) interface{} { return a.Token }
	pillarSvc := func(a *Apis) interface{} { return a.Pillar }
	bridgeSvc := func(a *Apis) interface{} { return a.Bridge }
	str := func(s fmt.Stringer) string { return s.String() }
	wrapTruth := func(filter func(r *definition.WrapTokenRequest) bool) func(e *Env, p []interface{}) ([]string, bool) {
		return func(e *Env, p []interface{}) ([]string, bool) {
			list, err := definition.GetWrapTokenRequests(e.Storage(types.BridgeContract))
			if err != nil {
				e.C.Failf("C18/scan-error", "wrap requests: %v", err)
			}
			var ids []string
			for _, r := range list {
				if filter == nil || filter(r) {
					ids = append(ids, str(r.Id))
				}
			}
			return ids, false
		}
	}
	unwrapTruth := func(e *Env, p []interface{}) ([]string, bool) {
		list, err := definition.GetUnwrapTokenRequests(e.Storage(types.BridgeContract))
		if err != nil {
			e.C.Failf("C18/scan-error", "unwrap requests: %v", err)
		}
		var ids []string
		for _, r := range list {
			if len(p) == 0 || p[0].(string) == "" || r.ToAddress.String() == p[0].(string) {
				ids = append(ids, fmt.Sprintf("%v/%d", r.TransactionHash, r.LogIndex))
			}
		}
		return ids, false
	}
	toAddr := func(e *Env) []interface{} {
		c := e.C
		switch c.Weighted("br.to", 3, 2, 1) {
		case 0:
			return []interface{}{""}
		case 1:
			return []interface{}{bridgeDestinations[c.Pick("br.dest", len(bridgeDestinations))]}
		default:
			return []interface{}{string(c.Bytes("br.rawto", 0, 12))}
		}
	}
	return []embList{
		{name: "embedded.token.getAll", ns: "embedded.token", svc: tokenSvc, method: "GetAll", id: idField("tokenStandard"), prefix: noPrefix, limit: api.RpcMaxPageSize,
			truth: func(e *Env, p []interface{}) ([]string, bool) {
				l, err := definition.GetTokenInfoList(e.Storage(types.TokenContract))
				if err != nil {
					e.C.Failf("C18/scan-error", "token list: %v", err)
				}
				var ids []string
				for _, t := range l {
					ids = append(ids, str(t.TokenStandard))
				}
				return ids, false
			}},
		{name: "embedded.token.getByOwner", ns: "embedded.token", svc: tokenSvc, method: "GetByOwner", id: idField("tokenStandard"), limit: api.RpcMaxPageSize,
			prefix: func(e *Env) []interface{} {
				l, _ := definition.GetTokenInfoList(e.Storage(types.TokenContract))
				if len(l) > 0 && e.C.Weighted("tok.owner", 3, 1) == 0 {
					return []interface{}{l[e.C.Pick("tok.ownerOf", len(l))].Owner}
				}
				return []interface{}{e.Addr("tok.addr")}
			},
			truth: func(e *Env, p []interface{}) ([]string, bool) {
				l, _ := definition.GetTokenInfoList(e.Storage(types.TokenContract))
				var ids []string
				for _, t := range l {
					if t.Owner == p[0].(types.Address) {
						ids = append(ids, str(t.TokenStandard))
					}
				}
				return ids, false
			}},
		{name: "embedded.pillar.getAll", ns: "embedded.pillar", svc: pillarSvc, method: "GetAll", id: idField("name"), prefix: noPrefix, limit: api.RpcMaxPageSize, sorted: pillarOrder,
			truth: func(e *Env, p []interface{}) ([]string, bool) {
				l, err := definition.GetPillarsList(e.Storage(types.PillarContract), true, definition.AnyPillarType)
				if err != nil {
					e.C.Failf("C18/scan-error", "pillar list: %v", err)
				}
				var ids []string
				for _, x := range l {
					ids = append(ids, x.Name)
				}
				return ids, false
			}},
		{name: "embedded.pillar.getPillarEpochHistory", ns: "embedded.pillar", svc: pillarSvc, method: "GetPillarEpochHistory", id: idField("epoch"), limit: api.RpcMaxPageSize,
			prefix: func(e *Env) []interface{} {
				names := append(append([]string{}, e.V.Pillars...), "", "no-such-pillar")
				return []interface{}{names[e.C.Pick("peh.name", len(names))]}
			},
			truth: func(e *Env, p []interface{}) ([]string, bool) { return epochsDescending(e, types.PillarContract), true }},
		{name: "embedded.pillar.getPillarsHistoryByEpoch", ns: "embedded.pillar", svc: pillarSvc, method: "GetPillarsHistoryByEpoch", id: idField("name", "epoch"), limit: api.RpcMaxPageSize,
			prefix: func(e *Env) []interface{} {
				c := e.C
				last, _ := definition.GetLastEpochUpdate(e.Storage(types.PillarContract))
				if c.Weighted("phe.kind", 5, 1) == 0 {
					return []interface{}{uint64(c.Int("phe.epoch", 0, int(last.LastEpoch)+2))}
				}
				return []interface{}{u64Bounds[c.Pick("phe.bound", len(u64Bounds))]}
			},
			truth: func(e *Env, p []interface{}) ([]string, bool) {
				l, err := definition.GetPillarEpochHistoryList(e.Storage(types.PillarContract), p[0].(uint64))
				if err != nil {
					e.C.Failf("C18/scan-error", "epoch history: %v", err)
				}
				var ids []string
				for _, x := range l {
					ids = append(ids, fmt.Sprintf("%s/%d", x.Name, x.Epoch))
				}
				return ids, false
			}},
		rewardPager("embedded.pillar", pillarSvc, types.PillarContract),
		rewardPager("embedded.stake", func(a *Apis) interface{} { return a.Stake }, types.StakeContract),
		rewardPager("embedded.sentinel", func(a *Apis) interface{} { return a.Sentinel }, types.SentinelContract),
		rewardPager("embedded.liquidity", func(a *Apis) interface{} { return a.Liquidity }, types.LiquidityContract),
		{name: "embedded.plasma.getEntriesByAddress", ns: "embedded.plasma", svc: func(a *Apis) interface{} { return a.Plasma }, method: "GetEntriesByAddress", id: idField("id"),
			prefix: userAddr("pl.addr"), limit: api.RpcMaxPageSize, sorted: nonDecreasing("expirationHeight"),
			truth: func(e *Env, p []interface{}) ([]string, bool) {
				l, _, err := definition.GetFusionInfoListByOwner(e.Storage(types.PlasmaContract), p[0].(types.Address))
				if err != nil {
					e.C.Failf("C18/scan-error", "fusion list: %v", err)
				}
				var ids []string
				for _, x := range l {
					ids = append(ids, str(x.Id))
				}
				return ids, false
			}},
		{name: "embedded.stake.getEntriesByAddress", ns: "embedded.stake", svc: func(a *Apis) interface{} { return a.Stake }, method: "GetEntriesByAddress", id: idField("id"),
			prefix: userAddr("st.addr"), limit: api.RpcMaxPageSize, sorted: nonDecreasing("expirationTimestamp"),
			truth: func(e *Env, p []interface{}) ([]string, bool) {
				l, _, _, err := definition.GetStakeListByAddress(e.Storage(types.StakeContract), p[0].(types.Address))
				if err != nil {
					e.C.Failf("C18/scan-error", "stake list: %v", err)
				}
				var ids []string
				for _, x := range l {
					ids = append(ids, str(x.Id))
				}
				return ids, false
			}},
		{name: "embedded.liquidity.getLiquidityStakeEntriesByAddress", ns: "embedded.liquidity", svc: func(a *Apis) interface{} { return a.Liquidity },
			method: "GetLiquidityStakeEntriesByAddress", id: idField("id"), prefix: userAddr("lq.addr"), limit: api.RpcMaxPageSize, sorted: nonDecreasing("expirationTime"),
			truth: func(e *Env, p []interface{}) ([]string, bool) {
				l, _, _, err := definition.GetLiquidityStakeListByAddress(e.Storage(types.LiquidityContract), p[0].(types.Address))
				if err != nil {
					e.C.Failf("C18/scan-error", "liquidity stake list: %v", err)
				}
				var ids []string
				for _, x := range l {
					ids = append(ids, str(x.Id))
				}
				return ids, false
			}},
		{name: "embedded.sentinel.getAllActive", ns: "embedded.sentinel", svc: func(a *Apis) interface{} { return a.Sentinel }, method: "GetAllActive", id: idField("owner"),
			prefix: noPrefix, limit: api.RpcMaxPageSize,
			truth: func(e *Env, p []interface{}) ([]string, bool) {
				var ids []string
				for _, x := range definition.GetAllSentinelInfo(e.Storage(types.SentinelContract)) {
					if x.RevokeTimestamp == 0 {
						ids = append(ids, str(x.Owner))
					}
				}
				return ids, false
			}},
		{name: "embedded.spork.getAll", ns: "embedded.spork", svc: func(a *Apis) interface{} { return a.Spork }, method: "GetAll", id: idField("id"), prefix: noPrefix, limit: api.RpcMaxPageSize,
			truth: func(e *Env, p []interface{}) ([]string, bool) {
				var ids []string
				for _, x := range definition.GetAllSporks(e.Storage(types.SporkContract)) {
					ids = append(ids, str(x.Id))
				}
				return ids, false
			}},
		{name: "embedded.accelerator.getAll", ns: "embedded.accelerator", svc: func(a *Apis) interface{} { return a.Accelerator }, method: "GetAll", id: idField("id"), prefix: noPrefix,
			limit: api.RpcMaxPageSize, sorted: nonIncreasing("lastUpdateTimestamp"),
			truth: func(e *Env, p []interface{}) ([]string, bool) {
				l, err := definition.GetProjectList(e.Storage(types.AcceleratorContract))
				if err != nil {
					e.C.Failf("C18/scan-error", "project list: %v", err)
				}
				var ids []string
				for _, x := range l {
					ids = append(ids, str(x.Id))
				}
				return ids, false
			}},
		{name: "embedded.bridge.getAllNetworks", ns: "embedded.bridge", svc: bridgeSvc, method: "GetAllNetworks", id: idField("networkClass", "chainId"), prefix: noPrefix, limit: api.RpcMaxPageSize,
			truth: func(e *Env, p []interface{}) ([]string, bool) {
				l, err := definition.GetNetworkList(e.Storage(types.BridgeContract))
				if err != nil {
					e.C.Failf("C18/scan-error", "network list: %v", err)
				}
				var ids []string
				for _, x := range l {
					ids = append(ids, fmt.Sprintf("%d/%d", x.NetworkClass, x.Id))
				}
				return ids, false
			}},
		{name: "embedded.bridge.getAllWrapTokenRequests", ns: "embedded.bridge", svc: bridgeSvc, method: "GetAllWrapTokenRequests", id: idField("id"), prefix: noPrefix, limit: api.RpcMaxPageSize,
			truth: wrapTruth(nil)},
		{name: "embedded.bridge.getAllUnsignedWrapTokenRequests", ns: "embedded.bridge", svc: bridgeSvc, method: "GetAllUnsignedWrapTokenRequests", id: idField("id"), prefix: noPrefix,
			limit: api.RpcMaxPageSize, truth: wrapTruth(func(r *definition.WrapTokenRequest) bool { return r.Signature == "" })},
		{name: "embedded.bridge.getAllWrapTokenRequestsByToAddress", ns: "embedded.bridge", svc: bridgeSvc, method: "GetAllWrapTokenRequestsByToAddress", id: idField("id"), prefix: toAddr,
			limit: api.RpcMaxPageSize,
			truth: func(e *Env, p []interface{}) ([]string, bool) {
				return wrapTruth(func(r *definition.WrapTokenRequest) bool { return p[0].(string) == "" || r.ToAddress == p[0].(string) })(e, p)
			}},
		{name: "embedded.bridge.getAllWrapTokenRequestsByToAddressNetworkClassAndChainId", ns: "embedded.bridge", svc: bridgeSvc,
			method: "GetAllWrapTokenRequestsByToAddressNetworkClassAndChainId", id: idField("id"), limit: api.RpcMaxPageSize,
			prefix: func(e *Env) []interface{} {
				c := e.C
				p := toAddr(e)
				class, chain := uint32(2), uint32(c.Int("br.chain", 122, 125))
				if c.Weighted("br.netkind", 4, 1) == 1 {
					class, chain = u32Bounds[c.Pick("br.class", len(u32Bounds))], u32Bounds[c.Pick("br.chainb", len(u32Bounds))]
				}
				return append(p, class, chain)
			},
			truth: func(e *Env, p []interface{}) ([]string, bool) {
				return wrapTruth(func(r *definition.WrapTokenRequest) bool {
					return r.NetworkClass == p[1].(uint32) && r.ChainId == p[2].(uint32) && (p[0].(string) == "" || r.ToAddress == p[0].(string))
				})(e, p)
			}},
		{name: "embedded.bridge.getAllUnwrapTokenRequests", ns: "embedded.bridge", svc: bridgeSvc, method: "GetAllUnwrapTokenRequests", id: idField("transactionHash", "logIndex"),
			prefix: noPrefix, limit: api.RpcMaxPageSize, truth: unwrapTruth},
		{name: "embedded.bridge.getAllUnwrapTokenRequestsByToAddress", ns: "embedded.bridge", svc: bridgeSvc, method: "GetAllUnwrapTokenRequestsByToAddress",
			id: idField("transactionHash", "logIndex"), limit: api.RpcMaxPageSize,
			prefix: func(e *Env) []interface{} {
				if e.C.Bool("br.unwrapAll") {
					return []interface{}{""}
				}
				return []interface{}{e.Addr("br.unwrapTo").String()}
			},
			truth: unwrapTruth},
	}
}

var bridgeDestinations = []string{"0xb794f5ea0ba39494ce839613fffba74279579268", "0x323b5d4c32345ced77393b3530b1eed0f346429d", "0x0000000000000000000000000000000000000001"}

// pageCall performs m with (prefix..., idx, size).
func (e *Env) pageCall(m *embList, prefix []interface{}, idx, size uint32) (Call, Answer) {
	args := append(append([]interface{}{}, prefix...), idx, size)
	k := Call{m.ns, m.svc(e.V.Apis), m.method, args}
	return k, e.Do(k)
}

// refOrder obtains the order in which the api serves the whole list (pages of the maximal size)
// and checks it against the truth read from the store: same elements, each once, and the
// documented ordering constraint. The documented order of a list is thereby fixed and every
// other page answer must be a slice of it.
func (e *Env) refOrder(m *embList, prefix []interface{}, truth []string, ordered bool) []string {
	c := e.C
	if ordered {
		return truth
	}
	cacheKey := fmt.Sprint(m.name, prefix)
	if e.V.LongLived {
		e.V.refMu.Lock()
		cached, ok := e.V.refCache[cacheKey]
		e.V.refMu.Unlock()
		if ok {
			return cached
		}
	}
	var ref []string
	var elems []json.RawMessage
	for page := uint32(0); len(ref) < len(truth) || page == 0; page++ {
		k, a := e.pageCall(m, prefix, page, m.limit)
		if a.Err != "" {
			c.Failf(keyError, "%s failed although every argument is within the advertised limits: %s", k, a.Err)
		}
		o := e.ParseList(k, a, m.id)
		if len(o.IDs) == 0 {
			break
		}
		ref = append(ref, o.IDs...)
		elems = append(elems, o.Elems...)
		if len(ref) > len(truth)+int(m.limit) {
			break
		}
	}
	want := append([]string{}, truth...)
	got := append([]string{}, ref...)
	sort.Strings(want)
	sort.Strings(got)
	if !sameIDs(want, got) {
		c.Failf(keyWalk, "%s%v: pages of size %d hold %d elements %s, the store holds %d elements %s", m.name, prefix, m.limit, len(got), show(got), len(want), show(want))
	}
	if m.sorted != nil {
		if msg := m.sorted(elems); msg != "" {
			c.Failf("C18/order", "%s%v: documented order violated: %s", m.name, prefix, msg)
		}
	}
	if e.V.LongLived {
		e.V.refMu.Lock()
		e.V.refCache[cacheKey] = ref
		e.V.refMu.Unlock()
	}
	return ref
}

func (m *embList) run(e *Env) {
	c := e.C
	prefix := m.prefix(e)
	truth, ordered := m.truth(e, prefix)
	n := len(truth)
	ref := e.refOrder(m, prefix, truth, ordered)
	if n > 1 {
		c.Class("embedded-list-with-2+")
	}
	if n == 0 {
		c.Class("embedded-list-empty")
	}
	size := GenSize(c, "emb.size", n, m.limit)
	idx := GenIndex(c, "emb.index", n, size)
	m.check(e, prefix, ref, idx, size)
}

func (m *embList) check(e *Env, prefix []interface{}, ref []string, idx, size uint32) {
	c := e.C
	n := len(ref)
	k, a := e.pageCall(m, prefix, idx, size)
	c.Note("%s on %s (list of %d)", k, e.V.Name, n)
	if a.Err != "" {
		e.ErrOK(k, a, pageErrorAllowed(size, m.limit))
		return
	}
	o := e.ParseList(k, a, m.id)
	e.CheckPage(k, o, PageSpec{Truth: ref, Ordered: true, WantCount: int64(n), Limit: m.limit, Index: idx, Size: size})
}

// ---- boundary sweep ------------------------------------------------------------------------------------

var swept sync.Map

// sweep asks every paged / ranged method about every boundary value of its integer arguments
// once per process and long-lived world (deterministic, no draws of the case are consumed, so a
// recorded case replays identically; a failure here reproduces in any fresh process).
func sweep(e *Env, emb []embList) {
	if !e.V.LongLived {
		return
	}
	if _, done := swept.Load(e.V.Name); done {
		return
	}
	// (marked as done only after a complete pass: a violation found here fails every case of
	// this process in the same way, so the driver sees a stable, minimal failure)
	c, v := e.C, e.V
	saved := c.Src
	c.Src = &detSrc{s: 1818}
	defer func() { c.Src = saved }()
	via := e.ViaServerToo
	e.ViaServerToo = false
	defer func() { e.ViaServerToo = via }()
	calls := 0
	for i := range emb {
		m := &emb[i]
		for p := 0; p < 2; p++ {
			prefix := m.prefix(e)
			truth, ordered := m.truth(e, prefix)
			ref := e.refOrder(m, prefix, truth, ordered)
			for _, idx := range u32Bounds {
				for _, size := range []uint32{1, 7, m.limit} {
					m.check(e, prefix, ref, idx, size)
					calls++
				}
			}
			for _, size := range u32Bounds {
				m.check(e, prefix, ref, 0, size)
				m.check(e, prefix, ref, 1, size)
				calls += 2
			}
		}
	}
	addrs := []types.Address{v.Busy, v.Sink, types.TokenContract, types.ZeroAddress}
	for _, a := range v.AddrPool {
		if len(v.PooledOf(a)) > 1 {
			addrs = append(addrs, a)
			break
		}
	}
	for _, addr := range addrs {
		for _, idx := range u32Bounds {
			for _, size := range []uint32{1, 7, api.RpcMaxPageSize} {
				checkAccountBlocksByPage(e, addr, idx, size)
				checkUnconfirmed(e, addr, idx, size)
				calls += 2
			}
			for _, size := range []uint32{1, 7, unreceivedMaxPageSize} {
				checkUnreceived(e, addr, idx, size)
				calls++
			}
		}
		for _, h := range u64Bounds {
			for _, cnt := range []uint64{1, 7, api.RpcMaxCountSize} {
				checkAccountBlocksByHeight(e, addr, h, cnt)
				calls++
			}
		}
		for _, cnt := range u64Bounds {
			checkAccountBlocksByHeight(e, addr, 1, cnt)
			checkAccountBlocksByHeight(e, addr, 2, cnt)
			calls += 2
		}
	}
	for _, idx := range u32Bounds {
		for _, size := range []uint32{1, 7, api.RpcMaxPageSize} {
			checkMomentumsByPage(e, idx, size)
			calls++
		}
	}
	for _, h := range u64Bounds {
		for _, cnt := range []uint64{1, 7, api.RpcMaxCountSize} {
			checkMomentumsByHeight(e, h, cnt, false)
			checkMomentumsByHeight(e, h, cnt, cnt != api.RpcMaxCountSize)
			calls += 2
		}
	}
	for _, ts := range []int64{0, 1, -1, math.MinInt64, math.MinInt64 + 1, math.MaxInt64, math.MaxInt64 - 1, maxNanoSec, maxNanoSec + 1, -maxNanoSec, -maxNanoSec - 2, 1 << 31, 1 << 32, 1 << 55, 1 << 62} {
		checkMomentumBeforeTime(e, ts)
		calls++
	}
	swept.Store(v.Name, true)
	c.Class("boundary-sweep-over-" + v.Name)
	c.R.Count("boundary_sweep_calls", calls)
}

// walk pages through the whole list with page size `size` and compares the concatenation.
func (m *embList) walk(e *Env) {
	c := e.C
	prefix := m.prefix(e)
	truth, ordered := m.truth(e, prefix)
	ref := e.refOrder(m, prefix, truth, ordered)
	n := len(ref)
	lo := n/40 + 1
	size := uint32(c.Int("walk.size", lo, lo+12))
	var got []string
	pages := uint32(n)/size + 2
	for p := uint32(0); p < pages; p++ {
		k, a := e.pageCall(m, prefix, p, size)
		if a.Err != "" {
			e.ErrOK(k, a, pageErrorAllowed(size, m.limit))
			return
		}
		o := e.ParseList(k, a, m.id)
		if len(o.IDs) > int(size) {
			c.Failf(keyWalk, "%s returned %d elements for page size %d", k, len(o.IDs), size)
		}
		got = append(got, o.IDs...)
	}
	c.Note("walk %s%v with size %d over %d elements on %s", m.name, prefix, size, n, e.V.Name)
	if !sameIDs(got, ref) {
		c.Failf(keyWalk, "%s%v: pages 0..%d of size %d concatenate to %s, the list is %s", m.name, prefix, pages-1, size, show(got), show(ref))
	}
	if n > int(size) {
		c.NonTrivial()
		c.Class("walk-multi-page")
		c.NonTrivialItem(m.name + "/walk")
	}
}

// ---- ledger walks ---------------------------------------------------------------------------------

func walkLedger(e *Env) {
	c, v := e.C, e.V
	kind := c.Weighted("lwalk.kind", 3, 2, 2, 2, 2)
	var ref []string
	var call func(idx, size uint32) Call
	limit := uint32(api.RpcMaxPageSize)
	byHeight := false
	switch kind {
	case 0:
		addr := e.Addr("lwalk.addr")
		ref = reversed(blockIDs(v.L.Blocks[addr]))
		call = func(i, s uint32) Call {
			return Call{"ledger", v.Apis.Ledger, "GetAccountBlocksByPage", []interface{}{addr, i, s}}
		}
	case 1:
		ref = reversed(momentumIDs(v.Momentums))
		call = func(i, s uint32) Call {
			return Call{"ledger", v.Apis.Ledger, "GetMomentumsByPage", []interface{}{i, s}}
		}
	case 2:
		addr := e.Addr("lwalk.addr")
		ref = blockIDs(v.PooledOf(addr))
		call = func(i, s uint32) Call {
			return Call{"ledger", v.Apis.Ledger, "GetUnconfirmedBlocksByAddress", []interface{}{addr, i, s}}
		}
	case 3:
		addr := e.Addr("lwalk.addr")
		ref = blockIDs(v.L.Blocks[addr])
		byHeight = true
		call = func(i, s uint32) Call {
			return Call{"ledger", v.Apis.Ledger, "GetAccountBlocksByHeight", []interface{}{addr, uint64(i)*uint64(s) + 1, uint64(s)}}
		}
	default:
		addr := e.Addr("lwalk.addr")
		must, optional := v.Unreceived(addr)
		truth := sortedKeys(must)
		limit = unreceivedMaxPageSize
		if len(truth) > unreceivedMaxPageSize*unreceivedMaxPageIndex || len(optional) > 0 {
			return
		}
		// order of the mailbox is not documented: the walk must yield every element exactly once
		n := len(truth)
		lo := n/9 + 1
		if lo > unreceivedMaxPageSize {
			lo = unreceivedMaxPageSize
		}
		size := uint32(c.Int("lwalk.usize", lo, unreceivedMaxPageSize))
		var got []string
		for p := uint32(0); p < unreceivedMaxPageIndex && p*size <= uint32(n)+size; p++ {
			k := Call{"ledger", v.Apis.Ledger, "GetUnreceivedBlocksByAddress", []interface{}{addr, p, size}}
			a := e.Do(k)
			if a.Err != "" {
				c.Failf(keyError, "%s failed within the advertised limits: %s", k, a.Err)
			}
			got = append(got, e.ParseList(k, a, idField("hash")).IDs...)
		}
		c.Note("walk unreceived of %v with size %d over %d elements on %s", addr, size, n, v.Name)
		sort.Strings(got)
		if uint32(n) <= size*unreceivedMaxPageIndex && !sameIDs(got, truth) {
			c.Failf(keyWalk, "GetUnreceivedBlocksByAddress(%v): pages of size %d yield %d elements %s, the ledger has %d unreceived sends %s", addr, size, len(got), show(got), n, show(truth))
		}
		if n > int(size) {
			c.NonTrivial()
			c.Class("walk-multi-page")
			c.NonTrivialItem("GetUnreceivedBlocksByAddress/walk")
		}
		return
	}
	n := len(ref)
	lo := n/40 + 1
	size := uint32(c.Int("lwalk.size", lo, lo+12))
	if size > limit {
		size = limit
	}
	var got []string
	pages := uint32(n)/size + 2
	var name string
	for p := uint32(0); p < pages; p++ {
		k := call(p, size)
		name = k.Method
		a := e.Do(k)
		if a.Err != "" {
			if addr, ok := k.Args[0].(types.Address); ok {
				e.BlockErrOK(k, a, addr, false)
				return
			}
			c.Failf(keyError, "%s failed within the advertised limits: %s", k, a.Err)
		}
		o := e.ParseList(k, a, idField("hash"))
		if len(o.IDs) > int(size) {
			c.Failf(keyWalk, "%s returned %d elements for page size %d", k, len(o.IDs), size)
		}
		got = append(got, o.IDs...)
	}
	_ = byHeight
	c.Note("walk %s with size %d over %d elements on %s", name, size, n, v.Name)
	if !sameIDs(got, ref) {
		c.Failf(keyWalk, "%s: pages 0..%d of size %d concatenate to %s, the ledger order is %s", name, pages-1, size, show(got), show(ref))
	}
	if n > int(size) {
		c.NonTrivial()
		c.Class("walk-multi-page")
		c.NonTrivialItem(name + "/walk")
	}
}

// ---- the test ------------------------------------------------------------------------------------------

func ledgerMethods() []method {
	return []method{
		{"ledger.getAccountBlocksByHeight", 4, mAccountBlocksByHeight},
		{"ledger.getAccountBlocksByPage", 4, mAccountBlocksByPage},
		{"ledger.getUnconfirmedBlocksByAddress", 3, mUnconfirmed},
		{"ledger.getUnreceivedBlocksByAddress", 3, mUnreceived},
		{"ledger.get(Detailed)MomentumsByHeight", 4, mMomentumsByHeight},
		{"ledger.getMomentumsByPage", 3, mMomentumsByPage},
		{"ledger.getMomentumBeforeTime", 2, mMomentumBeforeTime},
		{"ledger.getAccountBlockByHash", 2, mBlockByHash},
		{"ledger.getMomentumByHash", 1, mMomentumByHash},
		{"ledger.getFrontierAccountBlock+Momentum", 1, mFrontiers},
		{"ledger.getAccountInfoByAddress", 1, mAccountInfo},
	}
}

func pickView(t *testing.T, c *pbt.C) *View {
	switch c.Weighted("world", 5, 4, 2) {
	case 0:
		return BigView(t, 0)
	case 1:
		return BigView(t, 1)
	default:
		return SmallView(c)
	}
}

func TestC18Paging(t *testing.T) {
	ledger := ledgerMethods()
	emb := embeddedLists()
	var weights []int
	for _, m := range ledger {
		weights = append(weights, m.w)
	}
	pbt.Check(t, "C18", func(c *pbt.C) {
		v := pickView(t, c)
		c.Class("world-" + v.Name)
		e := &Env{C: c, V: v, ViaServerToo: c.Weighted("via-server", 2, 1) == 1}
		if e.ViaServerToo {
			c.Class("also-through-rpc-server")
		}
		sweep(e, emb)
		calls := c.Int("calls", 3, 10)
		for i := 0; i < calls; i++ {
			switch c.Weighted("family", 5, 5, 1, 1) {
			case 0:
				m := ledger[c.Weighted("ledger.method", weights...)]
				c.Class("m-" + m.name)
				m.run(e)
			case 1:
				m := &emb[c.Pick("embedded.method", len(emb))]
				c.Class("m-" + m.name)
				m.run(e)
			case 2:
				c.Class("walk-ledger")
				walkLedger(e)
			default:
				m := &emb[c.Pick("walk.method", len(emb))]
				c.Class("walk-embedded")
				m.walk(e)
			}
		}
	})
}

// TestC18PageCap asks the list methods for pages of a world that holds more than RpcMaxPageSize
// projects / wrap requests / unwrap requests (the lists suspected to be served without a cap).
func TestC18PageCap(t *testing.T) {
	emb := embeddedLists()
	var big []*embList
	for i := range emb {
		switch emb[i].name {
		case "embedded.accelerator.getAll", "embedded.bridge.getAllWrapTokenRequests", "embedded.bridge.getAllUnsignedWrapTokenRequests",
			"embedded.bridge.getAllWrapTokenRequestsByToAddress", "embedded.bridge.getAllWrapTokenRequestsByToAddressNetworkClassAndChainId",
			"embedded.bridge.getAllUnwrapTokenRequests", "embedded.bridge.getAllUnwrapTokenRequestsByToAddress":
			big = append(big, &emb[i])
		}
	}
	pbt.Check(t, "C18", func(c *pbt.C) {
		v := HugeView(t)
		c.Class("world-huge")
		e := &Env{C: c, V: v, ViaServerToo: c.Weighted("via-server", 4, 1) == 1}
		sweep(e, emb)
		if c.Weighted("cap.family", 3, 2) == 1 {
			capLedger(e)
			return
		}
		m := big[c.Pick("method", len(big))]
		c.Class("m-" + m.name)
		prefix := m.prefix(e)
		truth, ordered := m.truth(e, prefix)
		n := len(truth)
		ref := e.refOrder(m, prefix, truth, ordered)
		var size uint32
		switch c.Weighted("cap.size", 3, 3, 2, 1) {
		case 0:
			size = uint32(int(m.limit) + c.Int("cap.aroundLimit", -1, 8))
		case 1:
			size = uint32(clampInt(n+c.Int("cap.aroundN", -3, 3), 0, math.MaxInt32))
		case 2:
			size = u32Bounds[c.Pick("cap.bound", len(u32Bounds))]
		default:
			size = GenSize(c, "cap.gen", n, m.limit)
		}
		idx := uint32(0)
		if c.Weighted("cap.index", 3, 1) == 1 {
			idx = GenIndex(c, "cap.idx", n, size)
		}
		k, a := e.pageCall(m, prefix, idx, size)
		c.Note("%s on %s (list of %d)", k, v.Name, n)
		if n > int(m.limit) && size > m.limit && idx == 0 {
			c.NonTrivial()
			c.Class("asks-for-more-than-the-limit-of-a-longer-list")
		}
		if a.Err != "" {
			e.ErrOK(k, a, pageErrorAllowed(size, m.limit))
			return
		}
		o := e.ParseList(k, a, m.id)
		e.CheckPage(k, o, PageSpec{Truth: ref, Ordered: true, WantCount: int64(n), Limit: m.limit, Index: idx, Size: size})
	})
}

// capLedger asks the ledger's paged methods about chains longer than the advertised limits.
func capLedger(e *Env) {
	c, v := e.C, e.V
	long := []types.Address{v.Busy, types.AcceleratorContract, types.BridgeContract}
	addr := long[c.Pick("capl.addr", len(long))]
	n := len(v.L.Blocks[addr])
	nm := len(v.Momentums)
	around := func(label string, total int) uint64 {
		switch c.Weighted(label+".k", 3, 2, 1) {
		case 0:
			return uint64(api.RpcMaxCountSize + c.Int(label+".limit", -1, 2))
		case 1:
			return uint64(clampInt(total+c.Int(label+".n", -2, 2), 0, math.MaxInt32))
		default:
			return u64Bounds[c.Pick(label+".b", len(u64Bounds))]
		}
	}
	var k Call
	var truth []string
	var byHeight bool
	var h, cnt uint64
	id := idField("hash")
	switch c.Pick("capl.method", 5) {
	case 0:
		h, cnt, byHeight = uint64(c.Int("capl.h", 1, 3)), around("capl.cnt", n), true
		k, truth = Call{"ledger", v.Apis.Ledger, "GetAccountBlocksByHeight", []interface{}{addr, h, cnt}}, blockIDs(v.L.Blocks[addr])
	case 1:
		cnt = around("capl.size", n)
		k, truth = Call{"ledger", v.Apis.Ledger, "GetAccountBlocksByPage", []interface{}{addr, uint32(0), uint32(cnt)}}, reversed(blockIDs(v.L.Blocks[addr]))
	case 2:
		h, cnt, byHeight = uint64(c.Int("capl.mh", 1, 3)), around("capl.mcnt", nm), true
		k, truth = Call{"ledger", v.Apis.Ledger, "GetMomentumsByHeight", []interface{}{h, cnt}}, momentumIDs(v.Momentums)
	case 3:
		cnt = around("capl.msize", nm)
		k, truth = Call{"ledger", v.Apis.Ledger, "GetMomentumsByPage", []interface{}{uint32(0), uint32(cnt)}}, reversed(momentumIDs(v.Momentums))
	default:
		h, cnt, byHeight = uint64(c.Int("capl.dh", 1, 3)), around("capl.dcnt", nm), true
		k, truth = Call{"ledger", v.Apis.Ledger, "GetDetailedMomentumsByHeight", []interface{}{h, cnt}}, momentumIDs(v.Momentums)
		id = func(raw json.RawMessage) (string, error) {
			var d struct {
				Momentum json.RawMessage `json:"momentum"`
			}
			if err := json.Unmarshal(raw, &d); err != nil {
				return "", err
			}
			return idField("hash")(d.Momentum)
		}
	}
	c.Class("m-ledger." + k.Method)
	c.Note("%s on %s (list of %d)", k, v.Name, len(truth))
	if len(truth) > api.RpcMaxCountSize && cnt > api.RpcMaxCountSize {
		c.NonTrivial()
		c.Class("asks-for-more-than-the-limit-of-a-longer-list")
	}
	a := e.Do(k)
	if a.Err != "" {
		e.ErrOK(k, a, cnt > api.RpcMaxCountSize)
		return
	}
	o := e.ParseList(k, a, id)
	if byHeight {
		e.CheckRange(k, o, truth, h, cnt, int64(len(truth)), api.RpcMaxCountSize)
	} else {
		e.CheckPage(k, o, PageSpec{Truth: truth, Ordered: true, WantCount: int64(len(truth)), Limit: api.RpcMaxPageSize, Index: 0, Size: uint32(cnt)})
	}
}
