package p18

// C18 — the non-paged ("point") queries of the embedded-contract apis.
//
// Every point query of rpc/api/embedded is asked, directly and through the in-process JSON-RPC
// server, with generated arguments (existing / unknown / contract addresses, existing / unknown
// ids and names, names differing in case, transaction hashes with a wrong log index, ...) about
// worlds whose contracts hold non-default state, and every field of the answer is compared with
// ground truth obtained without rpc/api: the contract storage at the frontier is scanned (the
// list scanners of vm/embedded/definition, raw key-prefix iteration where no scanner exists,
// never the by-key getter the api itself uses), and derived fields are recomputed from their
// meaning (confirmationsToFinality, redeemableIn, revoke windows, registration cost, vote
// breakdown, swap decay, plasma, rank). Where the entity was created by an account block whose
// hash is its id (projects, phases, hash-time-locks, wrap requests) the answer is also compared
// with that block.
//
// This file: the point worlds (extension of the world construction of world_test.go).

import (
	"crypto/sha256"
	"encoding/base64"
	"encoding/binary"
	"fmt"
	"math/big"
	"os"
	"sort"
	"sync"
	"testing"
	"time"

	"github.com/zenon-network/go-zenon/chain/nom"
	"github.com/zenon-network/go-zenon/common/crypto"
	"github.com/zenon-network/go-zenon/common/db"
	"github.com/zenon-network/go-zenon/common/types"
	"github.com/zenon-network/go-zenon/vm/constants"
	"github.com/zenon-network/go-zenon/vm/embedded/definition"
	"github.com/zenon-network/go-zenon/vm/embedded/implementation"

	"verifharness/pbt"
	"verifharness/sim"
)

// ---- point worlds ---------------------------------------------------------------------------------

const pointVariants = 2

var (
	pointOnce  [pointVariants]sync.Once
	pointViews [pointVariants]*View
	pointErr   [pointVariants]error
)

// PointView returns point world `variant` (built on first use, read-only afterwards).
func PointView(t *testing.T, variant int) *View {
	pointOnce[variant].Do(func() {
		start := time.Now()
		out, journal := os.Getenv("VERIF_OUT"), os.Getenv("VERIF_JOURNAL")
		os.Unsetenv("VERIF_OUT")
		os.Unsetenv("VERIF_JOURNAL")
		defer func() {
			if out != "" {
				os.Setenv("VERIF_OUT", out)
			}
			if journal != "" {
				os.Setenv("VERIF_JOURNAL", journal)
			}
		}()
		for attempt := 0; attempt < 4 && pointViews[variant] == nil; attempt++ {
			seed := uint64(18100 + 100*variant + attempt)
			pbt.CheckOnce(t, "C18", func(c *pbt.C) {
				c.Src = &detSrc{s: seed}
				v, err := buildPoint(c, variant)
				if err != nil {
					pointErr[variant] = err
					return
				}
				pointViews[variant] = v
				pointErr[variant] = nil
			})
		}
		if v := pointViews[variant]; v != nil {
			fmt.Fprintf(os.Stderr, "C18: point world %d built in %.1fs: %d momentums, %d accounts; %s\n", variant, time.Since(start).Seconds(),
				v.Frontier, len(v.L.Accounts), scanTruth(v).Summary())
		}
	})
	if pointViews[variant] == nil {
		t.Fatalf("C18: point world %d could not be built: %v", variant, pointErr[variant])
	}
	return pointViews[variant]
}

// PointScriptNotes collects refusals of scripted steps (the world stays usable; shown by the dump).
var PointScriptNotes []string

func pointNote(format string, args ...interface{}) {
	PointScriptNotes = append(PointScriptNotes, fmt.Sprintf(format, args...))
	if os.Getenv("C18_DEBUG") != "" {
		fmt.Fprintf(os.Stderr, "C18 point script: "+format+"\n", args...)
	}
}

// buildPoint: a world in which every embedded contract holds state that differs from its defaults and from the
// state of its neighbours (so that an answer taken from the wrong contract, account, id or epoch is visible):
// configured bridge with signed / unsigned wrap requests, redeemed / revoked / pending unwrap requests and
// accumulated fees; liquidity with its own guardians, token tuples and stakes; pending time challenges in both;
// sentinels (one revoked), second-generation pillars (one revoked, with backers), unconsumed QSR deposits in the
// pillar and the sentinel contract; accelerator projects with phases and yes / no / abstain votes; hash time locks
// and proxy-unlock settings; legacy swap entries (one retrieved) and legacy pillar slots; several epochs of
// rewards, some collected; unconfirmed blocks at the end.
func buildPoint(c *pbt.C, variant int) (*View, error) {
	spec := sim.DefaultSpec(3+variant, 5)
	spec.ActiveSporks = 2
	addSpecTokens(c, spec, 2)
	spec.Swap = []sim.SwapSpec{{Key: 0, Znn: 120, Qsr: 1500, Pillars: 1}, {Key: 1, Znn: 75, Qsr: 0}, {Key: 2, Znn: 0, Qsr: 900, Pillars: 2}, {Key: 3, Znn: 10, Qsr: 10}}
	otherReward := sim.UserKey(1).Address
	spec.Pillars[1].Reward = &otherReward
	var fuser types.Address
	copy(fuser[:], types.NewHash([]byte("c18-point-fuser")).Bytes()[:20])
	fuser[0] = 0
	for i := 0; i < 5; i++ {
		spec.Fusions = append(spec.Fusions, sim.FusionSpec{Owner: fuser, Beneficiary: sim.UserKey(i).Address, Amount: int64(3000 + 700*i), Id: types.NewHash([]byte(fmt.Sprintf("c18-point-fusion-%d", i)))})
	}
	for i := 0; i < 3; i++ {
		spec.Fusions = append(spec.Fusions, sim.FusionSpec{Owner: sim.UserKey(0).Address, Beneficiary: sim.ExtraKey(i).Address, Amount: 2000, Id: types.NewHash([]byte(fmt.Sprintf("c18-point-extra-fusion-%d", i)))})
	}
	h := newHistNoCleanup(c, spec, worldOpts())
	var randomIntents []sim.Intent
	for _, in := range sim.DefaultIntents() {
		switch in.Name {
		case "pillar-revoke", "sentinel-revoke", "pillar-register", "pillar-register-legacy", "sentinel-register", "withdraw-qsr":
			// scripted below (a revoked producer or a consumed deposit at the wrong moment would undo the script)
		default:
			randomIntents = append(randomIntents, in)
		}
	}
	for _, in := range sim.BridgeIntents() {
		switch in.Name {
		case "bridge-wrap", "bridge-unwrap", "bridge-redeem", "bridge-revoke-unwrap", "bridge-update-wrap", "liquidity-stake", "liquidity-cancel", "liquidity-additional-reward":
			randomIntents = append(randomIntents, in)
		}
	}
	h.Intents = randomIntents
	intent := func(name string) bool {
		for _, in := range append(sim.DefaultIntents(), sim.BridgeIntents()...) {
			if in.Name == name {
				return in.Try(h)
			}
		}
		panic("no intent " + name)
	}
	zero := big.NewInt(0)
	submit := func(from, to types.Address, z types.ZenonTokenStandard, amt *big.Int, data []byte, descr string) *nom.AccountBlock {
		b, err := h.Submit(&nom.AccountBlock{Address: from, ToAddress: to, TokenStandard: z, Amount: new(big.Int).Set(amt), Data: data}, "point "+descr)
		if err != nil || b == nil {
			pointNote("%s refused: %v", descr, err)
			return nil
		}
		return b
	}
	produce := func(n int) error {
		for i := 0; i < n; i++ {
			if !h.Produce(0) {
				return fmt.Errorf("point script: producer stopped: %v", h.A.Preflight)
			}
		}
		return nil
	}
	u := func(i int) types.Address { return sim.UserKey(i).Address }
	zq := func(v int64) *big.Int { return new(big.Int).Mul(big.NewInt(v), big.NewInt(sim.Zexp)) }
	storage := func(ct types.Address) interface {
		Get([]byte) ([]byte, error)
	} {
		return h.A.Chain.GetFrontierAccountStore(ct).Storage()
	}
	_ = storage

	if err := produce(3); err != nil {
		return nil, err
	}
	// 1. bridge and liquidity administration
	if err := bridgeScriptN(h, 14+4*variant, 10); err != nil {
		BridgeScriptErr = err
		pointNote("%v", err)
	}
	if err := sim.LiquidityScript(h); err != nil {
		pointNote("%v", err)
	}
	// liquidity gets guardians of its own (other members, other order than the bridge's)
	liqGuardians := []types.Address{u(4), u(3), u(1), u(0)}
	for i := 0; i < 2; i++ {
		submit(bridgeAdmin(), types.LiquidityContract, types.ZnnTokenStandard, zero, definition.ABILiquidity.PackMethodPanic(definition.NominateGuardiansMethodName, liqGuardians), "liquidity.NominateGuardians(own set)")
		if err := produce(int(constants.MinAdministratorDelay) + 2); err != nil {
			return nil, err
		}
	}
	for i := 0; i < 3; i++ {
		intent("liquidity-stake")
	}
	// 2. sentinel, second-generation pillar, stake, accepted project with a phase, hash time lock
	if _, err := sim.EcosystemScript(h); err != nil {
		return nil, err
	}
	// 3. registrations of our own: a second sentinel and a pillar that will be revoked, by users that can afford them
	pst := func() []*definition.PillarInfo {
		l, _ := definition.GetPillarsList(h.A.Chain.GetFrontierAccountStore(types.PillarContract).Storage(), false, definition.AnyPillarType)
		return l
	}
	ownsPillar := func(a types.Address) bool {
		for _, p := range pst() {
			if p.StakeAddress == a {
				return true
			}
		}
		return false
	}
	pillarCost := func() *big.Int {
		n := 0
		for _, p := range pst() {
			if p.RevokeTime == 0 && p.PillarType == definition.NormalPillarType {
				n++
			}
		}
		cost := new(big.Int).Mul(constants.PillarQsrStakeIncreaseAmount, big.NewInt(int64(n)))
		return cost.Add(cost, constants.PillarQsrStakeBaseAmount)
	}
	hasPillar := func(name string) bool {
		for _, p := range pst() {
			if p.Name == name {
				return true
			}
		}
		return false
	}
	freeProducer := func() types.Address {
		used := map[types.Address]bool{}
		for _, p := range pst() {
			used[p.BlockProducingAddress] = true
		}
		for i := 0; i < 3; i++ {
			if !used[sim.ExtraKey(i).Address] {
				return sim.ExtraKey(i).Address
			}
		}
		return sim.ExtraKey(0).Address
	}
	for ni, name := range []string{"VP-script", "VP-gone"} {
		if hasPillar(name) {
			continue
		}
		for _, i := range []int{3, 2, 1, 0, 4} {
			if ownsPillar(u(i)) || h.Balance(u(i), types.ZnnTokenStandard).Cmp(constants.PillarStakeAmount) < 0 || h.Balance(u(i), types.QsrTokenStandard).Cmp(pillarCost()) < 0 {
				continue
			}
			if submit(u(i), types.PillarContract, types.QsrTokenStandard, pillarCost(), definition.ABICommon.PackMethodPanic(definition.DepositQsrMethodName), "pillar.DepositQsr for "+name) == nil {
				continue
			}
			if err := produce(2); err != nil {
				return nil, err
			}
			submit(u(i), types.PillarContract, types.ZnnTokenStandard, constants.PillarStakeAmount,
				definition.ABIPillars.PackMethodPanic(definition.RegisterMethodName, name, freeProducer(), u((i+1)%5), uint8(7+ni), uint8(93-ni)), "pillar.Register "+name)
			if err := produce(2); err != nil {
				return nil, err
			}
			if hasPillar(name) {
				break
			}
		}
		if !hasPillar(name) {
			pointNote("no user could register %s", name)
		}
	}
	sentinels := func() []*definition.SentinelInfo {
		return definition.GetAllSentinelInfo(h.A.Chain.GetFrontierAccountStore(types.SentinelContract).Storage())
	}
	hasSentinel := func(a types.Address) bool {
		for _, s := range sentinels() {
			if s.Owner == a {
				return true
			}
		}
		return false
	}
	registered := 0
	for _, i := range []int{0, 1, 4, 2, 3} {
		if registered >= 2 {
			break
		}
		if hasSentinel(u(i)) || h.Balance(u(i), types.ZnnTokenStandard).Cmp(constants.SentinelZnnRegisterAmount) < 0 || h.Balance(u(i), types.QsrTokenStandard).Cmp(constants.SentinelQsrDepositAmount) < 0 {
			continue
		}
		if submit(u(i), types.SentinelContract, types.QsrTokenStandard, constants.SentinelQsrDepositAmount, definition.ABICommon.PackMethodPanic(definition.DepositQsrMethodName), "sentinel.DepositQsr") == nil {
			continue
		}
		if err := produce(2); err != nil {
			return nil, err
		}
		if submit(u(i), types.SentinelContract, types.ZnnTokenStandard, constants.SentinelZnnRegisterAmount, definition.ABISentinel.PackMethodPanic(definition.RegisterSentinelMethodName), "sentinel.Register") != nil {
			registered++
		}
	}
	if err := produce(2); err != nil {
		return nil, err
	}
	// 4. deposits that stay unconsumed (different amounts in the two contracts), backers, proxy-unlock settings
	for i := 0; i < 5; i++ {
		if h.Balance(u(i), types.QsrTokenStandard).Cmp(zq(3000)) < 0 {
			continue
		}
		if i%2 == 0 {
			submit(u(i), types.PillarContract, types.QsrTokenStandard, zq(int64(700+i)), definition.ABICommon.PackMethodPanic(definition.DepositQsrMethodName), "pillar.DepositQsr (stays)")
		}
		if i%3 != 2 {
			submit(u(i), types.SentinelContract, types.QsrTokenStandard, zq(int64(300+7*i)), definition.ABICommon.PackMethodPanic(definition.DepositQsrMethodName), "sentinel.DepositQsr (stays)")
		}
	}
	if hasPillar("VP-gone") {
		submit(u(1), types.PillarContract, types.ZnnTokenStandard, zero, definition.ABIPillars.PackMethodPanic(definition.DelegateMethodName, "VP-gone"), "pillar.Delegate(VP-gone)")
		submit(sim.ExtraKey(0).Address, types.PillarContract, types.ZnnTokenStandard, zero, definition.ABIPillars.PackMethodPanic(definition.DelegateMethodName, "VP-gone"), "pillar.Delegate(VP-gone) by extra")
	}
	submit(u(3), types.PillarContract, types.ZnnTokenStandard, zero, definition.ABIPillars.PackMethodPanic(definition.DelegateMethodName, spec.Pillars[0].Name), "pillar.Delegate")
	submit(u(0), types.PillarContract, types.ZnnTokenStandard, zero, definition.ABIPillars.PackMethodPanic(definition.UndelegateMethodName), "pillar.Undelegate")
	submit(u(2), types.HtlcContract, types.ZnnTokenStandard, zero, definition.ABIHtlc.PackMethodPanic(definition.DenyHtlcProxyUnlockMethodName), "htlc.DenyProxyUnlock")
	submit(u(4), types.HtlcContract, types.ZnnTokenStandard, zero, definition.ABIHtlc.PackMethodPanic(definition.DenyHtlcProxyUnlockMethodName), "htlc.DenyProxyUnlock")
	submit(u(3), types.HtlcContract, types.ZnnTokenStandard, zero, definition.ABIHtlc.PackMethodPanic(definition.AllowHtlcProxyUnlockMethodName), "htlc.AllowProxyUnlock")
	if err := produce(2); err != nil {
		return nil, err
	}
	submit(u(4), types.HtlcContract, types.ZnnTokenStandard, zero, definition.ABIHtlc.PackMethodPanic(definition.AllowHtlcProxyUnlockMethodName), "htlc.AllowProxyUnlock (after deny)")
	// 5. a legacy key retrieves its assets, another uses one of its pillar slots' signatures for nothing
	{
		prv, pub := sim.SwapKey(1)
		pubB64 := base64Std(pub)
		if sig, err := implementation.SignRetrieveAssetsMessage(u(4), prv, pubB64); err == nil {
			submit(u(4), types.SwapContract, types.ZnnTokenStandard, zero, definition.ABISwap.PackMethodPanic(definition.RetrieveAssetsMethodName, pubB64, sig), "swap.RetrieveAssets(key 1)")
		}
	}
	// 6. projects in every state: accepted with a paid and a second phase, accepted with a replaced phase under vote,
	// rejected, not voted; explicit yes / no / abstain votes
	projectList := func() []*definition.Project {
		l, _ := definition.GetProjectList(h.A.Chain.GetFrontierAccountStore(types.AcceleratorContract).Storage())
		return l
	}
	project := func(id types.Hash) *definition.Project {
		for _, p := range projectList() {
			if p.Id == id {
				return p
			}
		}
		return nil
	}
	voteAll := func(id types.Hash, votes ...uint8) {
		for pi, ps := range spec.Pillars {
			vote := votes[pi%len(votes)]
			if vote > definition.VoteAbstain {
				continue
			}
			submit(sim.PillarKey(ps.Key).Address, types.AcceleratorContract, types.ZnnTokenStandard, zero,
				definition.ABICommon.PackMethodPanic(definition.VoteByNameMethodName, id, ps.Name, vote), fmt.Sprintf("accelerator.VoteByName(%s, %s, %d)", id.String()[:8], ps.Name, vote))
		}
	}
	const skipVote = uint8(9)
	var mine []types.Hash
	for i := 0; i < 4; i++ {
		owner := u(i)
		if h.Balance(owner, types.ZnnTokenStandard).Cmp(constants.ProjectCreationAmount) < 0 {
			continue
		}
		if b := submit(owner, types.AcceleratorContract, types.ZnnTokenStandard, constants.ProjectCreationAmount, definition.ABIAccelerator.PackMethodPanic(definition.CreateProjectMethodName,
			fmt.Sprintf("Point-Project-%d", i), fmt.Sprintf("description %d of the point world", i), "www.verif.test", zq(int64(40+i)), zq(int64(400+10*i))), fmt.Sprintf("accelerator.CreateProject %d", i)); b != nil {
			mine = append(mine, b.Hash)
			h.Projects = append(h.Projects, b.Hash)
		}
	}
	submit(u(0), types.AcceleratorContract, types.ZnnTokenStandard, zq(300), definition.ABICommon.PackMethodPanic(definition.DonateMethodName), "accelerator.Donate znn")
	submit(u(0), types.AcceleratorContract, types.QsrTokenStandard, zq(3000), definition.ABICommon.PackMethodPanic(definition.DonateMethodName), "accelerator.Donate qsr")
	if err := produce(2); err != nil {
		return nil, err
	}
	for i, id := range mine {
		switch i {
		case 0:
			voteAll(id, definition.VoteYes)
		case 1:
			voteAll(id, definition.VoteYes, definition.VoteYes, definition.VoteNo)
		case 2:
			voteAll(id, definition.VoteNo, definition.VoteAbstain, definition.VoteYes, definition.VoteNo)
		}
	}
	if err := produce(int(constants.UpdateMinNumMomentums) + 2); err != nil {
		return nil, err
	}
	var phases []types.Hash
	for i, id := range mine {
		if p := project(id); p != nil && p.Status == definition.ActiveStatus {
			if b := submit(p.Owner, types.AcceleratorContract, types.ZnnTokenStandard, zero, definition.ABIAccelerator.PackMethodPanic(definition.AddPhaseMethodName, id,
				fmt.Sprintf("Point-Phase-%d", i), "first phase", "www.verif.test/phase", zq(int64(3+i)), zq(int64(30+i))), fmt.Sprintf("accelerator.AddPhase %d", i)); b != nil {
				phases = append(phases, b.Hash)
			}
		}
	}
	if err := produce(2); err != nil {
		return nil, err
	}
	for i, id := range phases {
		if i == 0 {
			voteAll(id, definition.VoteYes)
		} else {
			voteAll(id, definition.VoteYes, definition.VoteNo, skipVote)
		}
	}
	if err := produce(int(constants.UpdateMinNumMomentums) + 2); err != nil {
		return nil, err
	}
	for i, id := range mine {
		p := project(id)
		if p == nil || p.Status != definition.ActiveStatus {
			continue
		}
		method, name := definition.AddPhaseMethodName, "second phase"
		if i > 0 {
			method, name = definition.UpdatePhaseMethodName, "replaced phase"
		}
		if b := submit(p.Owner, types.AcceleratorContract, types.ZnnTokenStandard, zero, definition.ABIAccelerator.PackMethodPanic(method, id,
			fmt.Sprintf("Point-Phase-%d-b", i), name, "www.verif.test/phase2", zq(int64(5+i)), zq(int64(50+i))), fmt.Sprintf("accelerator.%s %d", method, i)); b != nil && i > 0 {
			if err := produce(2); err != nil {
				return nil, err
			}
			voteAll(b.Hash, definition.VoteNo, definition.VoteYes, definition.VoteAbstain)
		}
	}
	for i := 0; i < 2; i++ {
		intent("accelerator-project")
		intent("htlc-create")
	}
	if err := produce(2); err != nil {
		return nil, err
	}
	for i := 0; i < 4; i++ {
		intent("accelerator-vote")
	}
	// the bridge's first unwrap requests are redeemable by now: two are redeemed, one is revoked by the administrator
	if unwraps, err := definition.GetUnwrapTokenRequests(h.A.Chain.GetFrontierAccountStore(types.BridgeContract).Storage()); err == nil {
		for i, r := range unwraps {
			switch {
			case i%5 == 0 || i%5 == 3:
				submit(u(i%5), types.BridgeContract, types.ZnnTokenStandard, zero, definition.ABIBridge.PackMethodPanic(definition.RedeemUnwrapMethodName, r.TransactionHash, r.LogIndex), "bridge.Redeem")
			case i%5 == 1:
				submit(bridgeAdmin(), types.BridgeContract, types.ZnnTokenStandard, zero, definition.ABIBridge.PackMethodPanic(definition.RevokeUnwrapRequestMethodName, r.TransactionHash, r.LogIndex), "bridge.RevokeUnwrapRequest")
			}
		}
	}
	if err := produce(2); err != nil {
		return nil, err
	}
	// 7. random life over several epochs (rewards accrue; some are collected)
	momentums := 70 - 20*variant
	for m := 0; m < momentums && !h.Dead; m++ {
		for k := 0; k < 3; k++ {
			switch c.Weighted("point.act", 2, 2, 8, 1) {
			case 0:
				h.ActTransfer()
			case 1:
				h.ActReceive()
			case 2:
				h.ActIntent()
			default:
				h.ActCallABI()
			}
		}
		if m%9 == 4 {
			intent("accelerator-vote")
			intent("collect-reward")
		}
		skip := 0
		switch {
		case m%10 == 9:
			skip = 50 + c.Int("point.skip", 0, 70)
		case m%4 == 2:
			skip = c.Int("point.skipsmall", 1, 3)
		}
		if !h.Produce(skip) {
			break
		}
	}
	if h.Dead {
		h.W.Close()
		return nil, fmt.Errorf("point script wedged the producer: %v", h.A.Preflight)
	}
	// 8. revocations in their windows
	waitWindow := func(registration, lock, window int64) error {
		for tries := 0; tries < 4; tries++ {
			now := h.A.Frontier().Timestamp.Unix()
			t := (now - registration) % (lock + window)
			if t >= lock && t < lock+window-40 {
				return nil
			}
			wait := lock - t
			if t >= lock {
				wait = lock + window - t + lock
			}
			if !h.Produce(int(wait/10) + 1) {
				return fmt.Errorf("point script: producer stopped")
			}
		}
		return nil
	}
	for _, p := range pst() {
		if p.Name == "VP-gone" && p.RevokeTime == 0 {
			if err := waitWindow(p.RegistrationTime, constants.PillarEpochLockTime, constants.PillarEpochRevokeTime); err != nil {
				return nil, err
			}
			submit(p.StakeAddress, types.PillarContract, types.ZnnTokenStandard, zero, definition.ABIPillars.PackMethodPanic(definition.RevokeMethodName, p.Name), "pillar.Revoke VP-gone")
			if err := produce(2); err != nil {
				return nil, err
			}
		}
	}
	if all := sentinels(); len(all) > 1 {
		s := all[len(all)-1]
		if err := waitWindow(s.RegistrationTimestamp, constants.SentinelLockTimeWindow, constants.SentinelRevokeTimeWindow); err != nil {
			return nil, err
		}
		submit(s.Owner, types.SentinelContract, types.ZnnTokenStandard, zero, definition.ABISentinel.PackMethodPanic(definition.RevokeSentinelMethodName), "sentinel.Revoke")
		if err := produce(2); err != nil {
			return nil, err
		}
	}
	// 9. variant 1: the administrator changes delays, metadata and the orchestrator parameters; a time jump far
	// enough for the legacy assets to decay
	if variant == 1 {
		// (epoch 0 starts at genesis; the decay of the legacy assets starts with epoch SwapAssetDecayEpochsOffset)
		t0 := time.Now()
		for jumps := 0; jumps < 4; jumps++ {
			if !h.Produce(60*constants.SwapAssetDecayTickEpochs - 7) {
				return nil, fmt.Errorf("point script: producer stopped in the time jump: %v", h.A.Preflight)
			}
			if err := produce(2); err != nil {
				return nil, err
			}
		}
		if os.Getenv("C18_DEBUG") != "" {
			fmt.Fprintf(os.Stderr, "C18 point script: time jump took %.1fs\n", time.Since(t0).Seconds())
		}
		admin := bridgeAdmin()
		submit(admin, types.BridgeContract, types.ZnnTokenStandard, zero, definition.ABIBridge.PackMethodPanic(definition.SetBridgeMetadataMethodName, `{"verif":18}`), "bridge.SetBridgeMetadata")
		submit(admin, types.BridgeContract, types.ZnnTokenStandard, zero, definition.ABIBridge.PackMethodPanic(definition.SetNetworkMetadataMethodName, uint32(2), uint32(124), `{"k":"v"}`), "bridge.SetNetworkMetadata")
		submit(admin, types.BridgeContract, types.ZnnTokenStandard, zero, definition.ABIBridge.PackMethodPanic(definition.SetOrchestratorInfoMethodName, uint64(9), uint32(4), uint32(25), uint32(11)), "bridge.SetOrchestratorInfo")
		submit(admin, types.BridgeContract, types.ZnnTokenStandard, zero, definition.ABIBridge.PackMethodPanic(definition.SetAllowKeygenMethodName, true), "bridge.SetAllowKeyGen")
		if err := produce(2); err != nil {
			return nil, err
		}
	}
	// 10. fresh requests (not yet final / not yet redeemable) and pending time challenges
	for i := 0; i < 4; i++ {
		intent("bridge-wrap")
		intent("bridge-unwrap")
	}
	if err := produce(1); err != nil {
		return nil, err
	}
	intent("bridge-redeem")
	intent("bridge-revoke-unwrap")
	intent("bridge-update-wrap")
	submit(bridgeAdmin(), types.BridgeContract, types.ZnnTokenStandard, zero, definition.ABIBridge.PackMethodPanic(definition.SetTokenPairMethod, uint32(2), uint32(123), types.QsrTokenStandard,
		"0x7fbdb2315678afecb367f032d93f642f64180aa3", true, true, false, big.NewInt(50), uint32(20), uint32(9), `{"pending":true}`), "bridge.SetTokenPair (challenge only)")
	submit(bridgeAdmin(), types.BridgeContract, types.ZnnTokenStandard, zero, definition.ABIBridge.PackMethodPanic(definition.ChangeAdministratorMethodName, u(3)), "bridge.ChangeAdministrator (challenge only)")
	submit(bridgeAdmin(), types.LiquidityContract, types.ZnnTokenStandard, zero, definition.ABILiquidity.PackMethodPanic(definition.SetAdditionalRewardMethodName, big.NewInt(187), big.NewInt(1001)), "liquidity.SetAdditionalReward (challenge only)")
	if err := produce(2); err != nil {
		return nil, err
	}
	for i := 0; i < 2; i++ {
		intent("bridge-wrap")
		intent("bridge-unwrap")
	}
	if err := produce(1); err != nil {
		return nil, err
	}
	// hash time locks that stay: user and contract beneficiaries, both hash types, ZNN / QSR / a custom token
	{
		now := h.A.Frontier().Timestamp.Unix()
		type lock struct {
			from, locked types.Address
			z            types.ZenonTokenStandard
			amt          int64
			hashType     uint8
			keyMax       uint8
			exp          int64
		}
		for i, l := range []lock{{u(0), u(1), types.ZnnTokenStandard, 5 * sim.Zexp, definition.HashTypeSHA3, 32, now + 86400}, {u(1), types.BridgeContract, types.QsrTokenStandard, 777, definition.HashTypeSHA256, 255, now + 3600},
			{u(2), u(2), spec.Tokens[0].Zts, 7, definition.HashTypeSHA3, 1, now + 100000}, {u(3), sim.ExtraKey(2).Address, types.ZnnTokenStandard, 1, definition.HashTypeSHA256, 64, now + 700}} {
			pre := []byte(fmt.Sprintf("point-preimage-%d", i))
			var lockHash []byte
			if l.hashType == definition.HashTypeSHA3 {
				lockHash = crypto.Hash(pre)
			} else {
				s := sha256.Sum256(pre)
				lockHash = s[:]
			}
			if h.Balance(l.from, l.z).Cmp(big.NewInt(l.amt)) < 0 {
				continue
			}
			if b := submit(l.from, types.HtlcContract, l.z, big.NewInt(l.amt), definition.ABIHtlc.PackMethodPanic(definition.CreateHtlcMethodName, l.locked, l.exp, l.hashType, l.keyMax, lockHash), fmt.Sprintf("htlc.Create %d", i)); b != nil {
				h.Htlcs = append(h.Htlcs, sim.HtlcSecret{Id: b.Hash, Preimage: pre, Creator: l.from, Locked: l.locked})
			}
		}
		if err := produce(2); err != nil {
			return nil, err
		}
	}
	// 11. the pool at the end: unconfirmed blocks of several users (their plasma is in use), contract receives pending
	for k := 0; k < 3; k++ {
		submit(u(k), u((k+1)%5), types.ZnnTokenStandard, big.NewInt(int64(11+k)), []byte(fmt.Sprintf("pooled-%d", k)), "pooled send")
	}
	submit(u(0), u(2), types.QsrTokenStandard, big.NewInt(5), nil, "pooled send")
	intent("bridge-wrap")
	intent("plasma-fuse")
	h.ActReceive()
	v, err := NewView(fmt.Sprintf("point%d", variant), h.A, h.Users, pillarNames(h), true)
	if err != nil {
		return nil, err
	}
	v.Pillars = append(v.Pillars, "VP-script", "VP-gone")
	return v, nil
}

func base64Std(b []byte) string { return base64.StdEncoding.EncodeToString(b) }

// ---- ground truth: the contract state at the frontier, scanned without rpc/api -----------------------------------

type amounts struct{ Znn, Qsr *big.Int }

type htlcEntry struct {
	Id             types.Hash
	TimeLocked     types.Address
	HashLocked     types.Address
	TokenStandard  types.ZenonTokenStandard
	Amount         *big.Int
	ExpirationTime int64
	HashType       uint8
	KeyMaxSize     uint8
	HashLock       []byte
}

type fusionEntry struct {
	Owner            types.Address
	Id               types.Hash
	Amount           *big.Int
	ExpirationHeight uint64
	Beneficiary      types.Address
}

// Truth is what the contracts hold at the frontier the apis read: the pool frontier of every contract's account
// store (rpc/api/utils.go GetFrontierContext), the confirmed momentum store where the api reads that.
type Truth struct {
	V *View

	Pillars     []*definition.PillarInfo // active and revoked
	Delegations map[types.Address]string
	Legacy      []*definition.LegacyPillarEntry
	Deposits    map[types.Address]map[types.Address]*big.Int // contract -> depositor -> QSR
	Rewards     map[types.Address]map[types.Address]amounts  // contract -> address -> uncollected reward
	RewardHist  map[types.Address]map[string]amounts         // contract -> "address/epoch" -> reward of that epoch
	LastEpoch   map[types.Address]int64
	PillarHist  map[string]*definition.PillarEpochHistory // "name/epoch"
	Sentinels   []*definition.SentinelInfo
	Stakes      []*definition.StakeInfo
	Fusions     []fusionEntry              // pool frontier of the plasma contract
	FusedConf   map[types.Address]*big.Int // confirmed state: beneficiary -> sum of the fusion entries
	ConfBalance func(a types.Address, z types.ZenonTokenStandard) *big.Int
	Swap        []*definition.SwapAssets
	Tokens      map[types.ZenonTokenStandard]*definition.TokenInfo
	Htlcs       map[types.Hash]*htlcEntry
	Proxy       map[types.Address]bool
	Projects    []*definition.Project
	Phases      map[types.Hash]*definition.Phase
	Votes       map[types.Hash][]*definition.PillarVote

	BridgeInfo   *definition.BridgeInfoVariable
	Orchestrator *definition.OrchestratorInfo
	BridgeSec    *definition.SecurityInfoVariable
	Networks     []*definition.NetworkInfo
	Wraps        []*definition.WrapTokenRequest
	Unwraps      []*definition.UnwrapTokenRequest
	Fees         map[types.ZenonTokenStandard]*big.Int
	BridgeTC     map[string]*definition.TimeChallengeInfo

	LiqInfo   *definition.LiquidityInfo
	LiqSec    *definition.SecurityInfoVariable
	LiqTC     map[string]*definition.TimeChallengeInfo
	LiqStakes []*definition.LiquidityStakeEntry

	// consensus view of the frontier momentum (the data source of weight / currentStats, not part of rpc/api)
	Weights map[string]*big.Int
	Stats   map[string][2]uint64
	Epoch   uint64
}

func (t *Truth) Summary() string {
	active, revoked := 0, 0
	for _, p := range t.Pillars {
		if p.RevokeTime == 0 {
			active++
		} else {
			revoked++
		}
	}
	sa, sr := 0, 0
	for _, s := range t.Sentinels {
		if s.RevokeTimestamp == 0 {
			sa++
		} else {
			sr++
		}
	}
	nz := func(m map[types.Address]amounts) int {
		n := 0
		for _, a := range m {
			if a.Znn.Sign() > 0 || a.Qsr.Sign() > 0 {
				n++
			}
		}
		return n
	}
	votes := 0
	for _, l := range t.Votes {
		votes += len(l)
	}
	signed, redeemed, revokedU := 0, 0, 0
	for _, w := range t.Wraps {
		if w.Signature != "" {
			signed++
		}
	}
	for _, u := range t.Unwraps {
		if u.Redeemed != 0 {
			redeemed++
		}
		if u.Revoked != 0 {
			revokedU++
		}
	}
	names := ""
	for _, p := range t.Pillars {
		names += fmt.Sprintf(" %s(type %d, revoked %d)", p.Name, p.PillarType, p.RevokeTime)
	}
	return fmt.Sprintf("epoch %d;"+names+"; pillars %d active %d revoked, %d backers, %d legacy slots; deposits pillar %d sentinel %d; uncollected rewards pillar %d sentinel %d stake %d liquidity %d; "+
		"sentinels %d active %d revoked; %d stakes; %d fusions; %d swap entries; %d tokens; %d htlcs, %d proxy settings; %d projects %d phases %d votes; "+
		"bridge: %d networks, %d wraps (%d signed), %d unwraps (%d redeemed %d revoked), %d fee entries, %d challenges; liquidity: %d tuples, %d stakes, %d challenges",
		t.Epoch, active, revoked, len(t.Delegations), len(t.Legacy), len(t.Deposits[types.PillarContract]), len(t.Deposits[types.SentinelContract]),
		nz(t.Rewards[types.PillarContract]), nz(t.Rewards[types.SentinelContract]), nz(t.Rewards[types.StakeContract]), nz(t.Rewards[types.LiquidityContract]),
		sa, sr, len(t.Stakes), len(t.Fusions), len(t.Swap), len(t.Tokens), len(t.Htlcs), len(t.Proxy), len(t.Projects), len(t.Phases), votes,
		len(t.Networks), len(t.Wraps), signed, len(t.Unwraps), redeemed, revokedU, len(t.Fees), len(t.BridgeTC), len(t.LiqInfo.TokenTuples), len(t.LiqStakes), len(t.LiqTC))
}

var truthCache sync.Map // *View -> *Truth (long-lived views only)

func scanTruth(v *View) *Truth {
	if v.LongLived {
		if t, ok := truthCache.Load(v); ok {
			return t.(*Truth)
		}
	}
	t, err := scanTruthNow(v)
	if err != nil {
		panic(fmt.Sprintf("C18: ground-truth scan of %s failed: %v", v.Name, err))
	}
	if v.LongLived {
		truthCache.Store(v, t)
	}
	return t
}

// scanRaw walks the live entries under a key prefix.
func scanRaw(st db.DB, prefix []byte, f func(key, value []byte) error) error {
	it := st.NewIterator(prefix)
	defer it.Release()
	for it.Next() {
		if len(it.Value()) == 0 {
			continue
		}
		k, val := append([]byte{}, it.Key()...), append([]byte{}, it.Value()...)
		if err := f(k, val); err != nil {
			return err
		}
	}
	return it.Error()
}

func scanChallenges(st db.DB) (map[string]*definition.TimeChallengeInfo, error) {
	out := map[string]*definition.TimeChallengeInfo{}
	err := scanRaw(st, definition.TimeChallengeKeyPrefix, func(k, val []byte) error {
		tc := new(definition.TimeChallengeInfo)
		if err := definition.ABICommon.UnpackVariable(tc, "timeChallengeInfo", val); err != nil {
			return err
		}
		out[tc.MethodName] = tc
		return nil
	})
	return out, err
}

func scanTruthNow(v *View) (*Truth, error) {
	n := v.N
	st := func(ct types.Address) db.DB { return n.Chain.GetFrontierAccountStore(ct).Storage() }
	ms := n.Chain.GetFrontierMomentumStore()
	t := &Truth{V: v, Delegations: map[types.Address]string{}, Deposits: map[types.Address]map[types.Address]*big.Int{}, Rewards: map[types.Address]map[types.Address]amounts{},
		RewardHist: map[types.Address]map[string]amounts{}, LastEpoch: map[types.Address]int64{}, PillarHist: map[string]*definition.PillarEpochHistory{},
		FusedConf: map[types.Address]*big.Int{}, Tokens: map[types.ZenonTokenStandard]*definition.TokenInfo{}, Htlcs: map[types.Hash]*htlcEntry{}, Proxy: map[types.Address]bool{},
		Phases: map[types.Hash]*definition.Phase{}, Votes: map[types.Hash][]*definition.PillarVote{}, Fees: map[types.ZenonTokenStandard]*big.Int{}}
	var err error
	// pillar contract
	ps := st(types.PillarContract)
	if t.Pillars, err = definition.GetPillarsList(ps, false, definition.AnyPillarType); err != nil {
		return nil, err
	}
	dl, err := definition.GetDelegationsList(ps)
	if err != nil {
		return nil, err
	}
	for _, d := range dl {
		t.Delegations[d.Backer] = d.Name
	}
	if t.Legacy, err = definition.GetLegacyPillarList(ps); err != nil {
		return nil, err
	}
	// shared variables: deposits, rewards, reward history, epoch cursor
	for _, ct := range []types.Address{types.PillarContract, types.SentinelContract, types.StakeContract, types.LiquidityContract} {
		cs := st(ct)
		t.Deposits[ct], t.Rewards[ct], t.RewardHist[ct] = map[types.Address]*big.Int{}, map[types.Address]amounts{}, map[string]amounts{}
		if err := scanRaw(cs, []byte{130}, func(k, val []byte) error {
			var d struct{ Qsr *big.Int }
			if err := definition.ABICommon.UnpackVariable(&d, definition.QsrDepositVariableName, val); err != nil {
				return err
			}
			a, err := types.BytesToAddress(k[1:])
			if err != nil {
				return err
			}
			t.Deposits[ct][a] = d.Qsr
			return nil
		}); err != nil {
			return nil, err
		}
		if err := scanRaw(cs, []byte{128}, func(k, val []byte) error {
			var d amounts
			if err := definition.ABICommon.UnpackVariable(&d, definition.RewardDepositVariableName, val); err != nil {
				return err
			}
			a, err := types.BytesToAddress(k[1:])
			if err != nil {
				return err
			}
			t.Rewards[ct][a] = d
			return nil
		}); err != nil {
			return nil, err
		}
		if err := scanRaw(cs, []byte{132}, func(k, val []byte) error {
			var d amounts
			if err := definition.ABICommon.UnpackVariable(&d, definition.RewardDepositHistoryVariableName, val); err != nil {
				return err
			}
			if len(k) != 1+types.AddressSize+8 {
				return fmt.Errorf("reward history key of length %d", len(k))
			}
			a, err := types.BytesToAddress(k[1 : 1+types.AddressSize])
			if err != nil {
				return err
			}
			t.RewardHist[ct][fmt.Sprintf("%v/%d", a, binary.LittleEndian.Uint64(k[1+types.AddressSize:]))] = d
			return nil
		}); err != nil {
			return nil, err
		}
		le, err := definition.GetLastEpochUpdate(cs)
		if err != nil {
			return nil, err
		}
		t.LastEpoch[ct] = le.LastEpoch
	}
	for ep := int64(0); ep <= t.LastEpoch[types.PillarContract]; ep++ {
		l, err := definition.GetPillarEpochHistoryList(ps, uint64(ep))
		if err != nil {
			return nil, err
		}
		for _, x := range l {
			t.PillarHist[fmt.Sprintf("%s/%d", x.Name, x.Epoch)] = x
		}
	}
	t.Sentinels = definition.GetAllSentinelInfo(st(types.SentinelContract))
	if err := definition.IterateStakeEntries(st(types.StakeContract), func(s *definition.StakeInfo) error { t.Stakes = append(t.Stakes, s); return nil }); err != nil {
		return nil, err
	}
	// plasma: entries at the pool frontier (lists) and at the confirmed state (fused amounts)
	fusions := func(s db.DB) ([]fusionEntry, error) {
		var out []fusionEntry
		err := scanRaw(s, []byte{1}, func(k, val []byte) error {
			if len(k) != 1+types.AddressSize+types.HashSize {
				return fmt.Errorf("fusion key of length %d", len(k))
			}
			var fv struct {
				Amount           *big.Int
				ExpirationHeight uint64
				Beneficiary      types.Address
			}
			if err := definition.ABIPlasma.UnpackVariable(&fv, "fusionInfo", val); err != nil {
				return err
			}
			e := fusionEntry{Amount: fv.Amount, ExpirationHeight: fv.ExpirationHeight, Beneficiary: fv.Beneficiary}
			copy(e.Owner[:], k[1:1+types.AddressSize])
			copy(e.Id[:], k[1+types.AddressSize:])
			out = append(out, e)
			return nil
		})
		return out, err
	}
	if t.Fusions, err = fusions(st(types.PlasmaContract)); err != nil {
		return nil, err
	}
	conf, err := fusions(ms.GetAccountStore(types.PlasmaContract).Storage())
	if err != nil {
		return nil, err
	}
	for _, f := range conf {
		if t.FusedConf[f.Beneficiary] == nil {
			t.FusedConf[f.Beneficiary] = new(big.Int)
		}
		t.FusedConf[f.Beneficiary].Add(t.FusedConf[f.Beneficiary], f.Amount)
	}
	t.ConfBalance = func(a types.Address, z types.ZenonTokenStandard) *big.Int {
		b, err := ms.GetAccountStore(a).GetBalance(z)
		if err != nil || b == nil {
			return new(big.Int)
		}
		return b
	}
	if t.Swap, err = definition.GetSwapAssets(st(types.SwapContract)); err != nil {
		return nil, err
	}
	toks, err := definition.GetTokenInfoList(st(types.TokenContract))
	if err != nil {
		return nil, err
	}
	for _, ti := range toks {
		t.Tokens[ti.TokenStandard] = ti
	}
	// hash time locks
	hs := st(types.HtlcContract)
	if err := scanRaw(hs, []byte{1}, func(k, val []byte) error {
		e := new(htlcEntry)
		if err := definition.ABIHtlc.UnpackVariable(e, "htlcInfo", val); err != nil {
			return err
		}
		if len(k) != 1+types.HashSize {
			return fmt.Errorf("htlc key of length %d", len(k))
		}
		copy(e.Id[:], k[1:])
		t.Htlcs[e.Id] = e
		return nil
	}); err != nil {
		return nil, err
	}
	if err := scanRaw(hs, []byte{2}, func(k, val []byte) error {
		var p struct{ Allowed bool }
		if err := definition.ABIHtlc.UnpackVariable(&p, "htlcProxyUnlockInfo", val); err != nil {
			return err
		}
		a, err := types.BytesToAddress(k[1:])
		if err != nil {
			return err
		}
		t.Proxy[a] = p.Allowed
		return nil
	}); err != nil {
		return nil, err
	}
	// accelerator
	as := st(types.AcceleratorContract)
	if t.Projects, err = definition.GetProjectList(as); err != nil {
		return nil, err
	}
	phasePrefix := (&definition.Phase{}).Key()[:1]
	if err := scanRaw(as, phasePrefix, func(k, val []byte) error {
		ph := new(definition.Phase)
		if err := definition.ABIAccelerator.UnpackVariable(ph, definition.PhaseVariableName, val); err != nil {
			return err
		}
		t.Phases[ph.Id] = ph
		return nil
	}); err != nil {
		return nil, err
	}
	if err := scanRaw(as, []byte{133}, func(k, val []byte) error {
		pv := new(definition.PillarVote)
		if err := definition.ABICommon.UnpackVariable(pv, definition.PillarVoteVariableName, val); err != nil {
			return err
		}
		t.Votes[pv.Id] = append(t.Votes[pv.Id], pv)
		return nil
	}); err != nil {
		return nil, err
	}
	// bridge
	bs := st(types.BridgeContract)
	if t.BridgeInfo, err = definition.GetBridgeInfoVariable(bs); err != nil {
		return nil, err
	}
	if t.Orchestrator, err = definition.GetOrchestratorInfoVariable(bs); err != nil {
		return nil, err
	}
	if t.BridgeSec, err = definition.GetSecurityInfoVariable(bs); err != nil {
		return nil, err
	}
	if t.Networks, err = definition.GetNetworkList(bs); err != nil {
		return nil, err
	}
	if t.Wraps, err = definition.GetWrapTokenRequests(bs); err != nil {
		return nil, err
	}
	if t.Unwraps, err = definition.GetUnwrapTokenRequests(bs); err != nil {
		return nil, err
	}
	if err := scanRaw(bs, definition.FeeTokenPairKeyPrefix, func(k, val []byte) error {
		var f struct{ AccumulatedFee *big.Int }
		if err := definition.ABIBridge.UnpackVariable(&f, "feeTokenPair", val); err != nil {
			return err
		}
		var z types.ZenonTokenStandard
		if err := z.SetBytes(k[1:]); err != nil {
			return err
		}
		t.Fees[z] = f.AccumulatedFee
		return nil
	}); err != nil {
		return nil, err
	}
	if t.BridgeTC, err = scanChallenges(bs); err != nil {
		return nil, err
	}
	// liquidity
	ls := st(types.LiquidityContract)
	if t.LiqInfo, err = definition.GetLiquidityInfo(ls); err != nil {
		return nil, err
	}
	if t.LiqSec, err = definition.GetSecurityInfoVariable(ls); err != nil {
		return nil, err
	}
	if t.LiqTC, err = scanChallenges(ls); err != nil {
		return nil, err
	}
	t.LiqStakes = definition.GetAllLiquidityStakeEntries(ls)
	// consensus
	front := n.Frontier()
	reader := n.Cons.FixedPillarReader(front.Identifier())
	t.Epoch = reader.EpochTicker().ToTick(*front.Timestamp)
	if t.Weights, err = reader.GetPillarWeights(); err != nil {
		return nil, err
	}
	t.Stats = map[string][2]uint64{}
	stats, err := reader.EpochStats(t.Epoch)
	if err != nil {
		return nil, err
	}
	if stats != nil {
		for name, s := range stats.Pillars {
			t.Stats[name] = [2]uint64{s.BlockNum, s.ExceptedBlockNum}
		}
	}
	return t, nil
}

// TestC18PointDump prints what the point worlds hold (diagnostic; runs only with C18_DUMP set).
func TestC18PointDump(t *testing.T) {
	if os.Getenv("C18_DUMP") == "" {
		t.Skip("diagnostic")
	}
	for i := 0; i < pointVariants; i++ {
		PointView(t, i)
	}
	for _, s := range PointScriptNotes {
		fmt.Fprintln(os.Stderr, "  script:", s)
	}
	for i := 0; i < bigVariants; i++ {
		v := BigView(t, i)
		fmt.Fprintf(os.Stderr, "C18: %s: %s\n", v.Name, scanTruth(v).Summary())
	}
}

var _ = sort.Strings
