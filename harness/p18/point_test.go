package p18

// C18 — the non-paged ("point") queries of the embedded-contract apis.
//
// Every point query of rpc/api/embedded is asked, directly and through the in-process JSON-RPC
// server, with generated arguments (existing / unknown / contract addresses, existing / unknown
// ids and names, names differing in case, transaction hashes with a wrong log index, ...) about
// worlds whose contracts hold non-default state, and every field of the answer is compared with
// ground truth obtained without rpc/api: the contract storage at the frontier is scanned (the
// list scanners of vm/embedded/definition, raw key-prefix iteration where no scanner exists,
// never the by-key getter the api itself uses), and derived fields are recomputed from their
// meaning (confirmationsToFinality, redeemableIn, revoke windows, registration cost, vote
// breakdown, swap decay, plasma, rank). Where the entity was created by an account block whose
// hash is its id (projects, phases, hash-time-locks, wrap requests) the answer is also compared
// with that block.
//
// This file: the point worlds (extension of the world construction of world_test.go).

import (
	"bytes"
	"context"
	"crypto/sha256"
	"encoding/base64"
	"encoding/binary"
	"encoding/json"
	"fmt"
	"math/big"
	"os"
	"reflect"
	"sort"
	"strings"
	"sync"
	"testing"
	"time"

	"github.com/zenon-network/go-zenon/chain/nom"
	"github.com/zenon-network/go-zenon/common"
	"github.com/zenon-network/go-zenon/common/crypto"
	"github.com/zenon-network/go-zenon/common/db"
	"github.com/zenon-network/go-zenon/common/types"
	"github.com/zenon-network/go-zenon/rpc/api/embedded"
	"github.com/zenon-network/go-zenon/rpc/api/subscribe"
	rpcserver "github.com/zenon-network/go-zenon/rpc/server"
	"github.com/zenon-network/go-zenon/vm/constants"
	"github.com/zenon-network/go-zenon/vm/embedded/definition"
	"github.com/zenon-network/go-zenon/vm/embedded/implementation"

	ecommon "github.com/ethereum/go-ethereum/common"

	"verifharness/pbt"
	"verifharness/sim"
)

// ---- point worlds ---------------------------------------------------------------------------------

const pointVariants = 2

var (
	pointOnce  [pointVariants]sync.Once
	pointViews [pointVariants]*View
	pointErr   [pointVariants]error
)

// PointView returns point world `variant` (built on first use, read-only afterwards).
func PointView(t *testing.T, variant int) *View {
	pointOnce[variant].Do(func() {
		start := time.Now()
		out, journal := os.Getenv("VERIF_OUT"), os.Getenv("VERIF_JOURNAL")
		os.Unsetenv("VERIF_OUT")
		os.Unsetenv("VERIF_JOURNAL")
		defer func() {
			if out != "" {
				os.Setenv("VERIF_OUT", out)
			}
			if journal != "" {
				os.Setenv("VERIF_JOURNAL", journal)
			}
		}()
		for attempt := 0; attempt < 4 && pointViews[variant] == nil; attempt++ {
			seed := uint64(18100 + 100*variant + attempt)
			pbt.CheckOnce(t, "C18", func(c *pbt.C) {
				c.Src = &detSrc{s: seed}
				v, err := buildPoint(c, variant)
				if err != nil {
					pointErr[variant] = err
					return
				}
				if miss := scanTruth(v).missing(variant); len(miss) > 0 && attempt < 3 {
					pointErr[variant] = fmt.Errorf("the world lacks %v", miss)
					fmt.Fprintf(os.Stderr, "C18: point world %d, attempt %d lacks %v\n", variant, attempt, miss)
					truthCache.Delete(v)
					func() {
						defer func() { _ = recover() }()
						v.N.Destroy()
					}()
					return
				}
				pointViews[variant] = v
				pointErr[variant] = nil
			})
		}
		if v := pointViews[variant]; v != nil {
			fmt.Fprintf(os.Stderr, "C18: point world %d built in %.1fs: %d momentums, %d accounts; %s\n", variant, time.Since(start).Seconds(),
				v.Frontier, len(v.L.Accounts), scanTruth(v).Summary())
		}
	})
	if pointViews[variant] == nil {
		t.Fatalf("C18: point world %d could not be built: %v", variant, pointErr[variant])
	}
	return pointViews[variant]
}

// missing lists the kinds of state a point world is built for and does not hold (the histories are not
// reproducible bit by bit: proof-of-work nonces make block hashes differ between processes, and with them every
// order that depends on a hash; the script is repeated with another seed if something essential is missing).
func (t *Truth) missing(variant int) []string {
	var out []string
	need := func(ok bool, what string) {
		if !ok {
			out = append(out, what)
		}
	}
	activeNew, revoked, backerOfRevoked := false, map[string]bool{}, false
	for _, p := range t.Pillars {
		if p.RevokeTime != 0 {
			revoked[p.Name] = true
		} else if p.PillarType == definition.NormalPillarType {
			activeNew = true
		}
	}
	for _, n := range t.Delegations {
		if revoked[n] {
			backerOfRevoked = true
		}
	}
	need(activeNew, "an active pillar registered after genesis")
	need(len(revoked) > 0, "a revoked pillar")
	need(backerOfRevoked, "a backer of a revoked pillar")
	sa, sr := 0, 0
	for _, s := range t.Sentinels {
		if s.RevokeTimestamp == 0 {
			sa++
		} else {
			sr++
		}
	}
	need(sa > 0 && sr > 0, "an active and a revoked sentinel")
	need(len(t.Deposits[types.PillarContract]) > 0 && len(t.Deposits[types.SentinelContract]) > 0, "QSR deposits in the pillar and the sentinel contract")
	withRewards := 0
	for _, m := range t.Rewards {
		for _, r := range m {
			if r.Znn.Sign() > 0 || r.Qsr.Sign() > 0 {
				withRewards++
				break
			}
		}
	}
	need(withRewards >= 3, "uncollected rewards in three contracts")
	denied := false
	for _, allowed := range t.Proxy {
		denied = denied || !allowed
	}
	need(len(t.Htlcs) >= 3 && denied, "three hash time locks and a denied proxy unlock")
	yes, no, abstain := false, false, false
	for _, l := range t.Votes {
		for _, v := range l {
			yes, no, abstain = yes || v.Vote == definition.VoteYes, no || v.Vote == definition.VoteNo, abstain || v.Vote == definition.VoteAbstain
		}
	}
	need(len(t.Phases) >= 2 && yes && no && abstain, "two phases and yes / no / abstain votes")
	signed, fresh, redeemed, revokedU, waiting := false, false, false, false, false
	for _, w := range t.Wraps {
		signed = signed || w.Signature != ""
		fresh = fresh || remaining(w.CreationMomentumHeight, uint64(t.Orchestrator.ConfirmationsToFinality), t.V.Frontier) > 0
	}
	for _, u := range t.Unwraps {
		redeemed, revokedU = redeemed || u.Redeemed != 0, revokedU || u.Revoked != 0
		if p := t.pairOf(u); p != nil && remaining(u.RegistrationMomentumHeight, uint64(p.RedeemDelay), t.V.Frontier) > 0 {
			waiting = true
		}
	}
	need(signed && fresh, "a signed and a not yet final wrap request")
	need(redeemed && revokedU && waiting, "a redeemed, a revoked and a not yet redeemable unwrap request")
	pending := func(m map[string]*definition.TimeChallengeInfo) bool {
		for _, tc := range m {
			if !tc.ParamsHash.IsZero() {
				return true
			}
		}
		return false
	}
	need(len(t.Fees) > 0 && pending(t.BridgeTC) && pending(t.LiqTC), "accumulated bridge fees and pending time challenges in bridge and liquidity")
	need(len(t.LiqInfo.TokenTuples) > 0 && len(t.LiqSec.Guardians) > 0 && !reflect.DeepEqual(t.LiqSec.Guardians, t.BridgeSec.Guardians), "liquidity token tuples and guardians of its own")
	full, empty := false, false
	for _, s := range t.Swap {
		full, empty = full || s.Znn.Sign() > 0 || s.Qsr.Sign() > 0, empty || (s.Znn.Sign() == 0 && s.Qsr.Sign() == 0)
	}
	need(full && empty && len(t.Legacy) > 0, "legacy assets (some retrieved) and legacy pillar slots")
	if variant == 1 {
		need(swapShare(t.Epoch) < 100, "an epoch in which the legacy assets have decayed")
	}
	pooled := false
	for _, a := range t.V.Users {
		if f, _, cur, ok := t.plasmaOf(a); ok && f.Sign() > 0 && cur < fusedToPlasma(f) {
			pooled = true
		}
	}
	need(pooled, "an account whose plasma is partly used by unconfirmed blocks")
	return out
}

// PointScriptNotes collects refusals of scripted steps (the world stays usable; shown by the dump).
var PointScriptNotes []string

func pointNote(format string, args ...interface{}) {
	PointScriptNotes = append(PointScriptNotes, fmt.Sprintf(format, args...))
	if os.Getenv("C18_DEBUG") != "" {
		fmt.Fprintf(os.Stderr, "C18 point script: "+format+"\n", args...)
	}
}

// buildPoint: a world in which every embedded contract holds state that differs from its defaults and from the
// state of its neighbours (so that an answer taken from the wrong contract, account, id or epoch is visible):
// configured bridge with signed / unsigned wrap requests, redeemed / revoked / pending unwrap requests and
// accumulated fees; liquidity with its own guardians, token tuples and stakes; pending time challenges in both;
// sentinels (one revoked), second-generation pillars (one revoked, with backers), unconsumed QSR deposits in the
// pillar and the sentinel contract; accelerator projects with phases and yes / no / abstain votes; hash time locks
// and proxy-unlock settings; legacy swap entries (one retrieved) and legacy pillar slots; several epochs of
// rewards, some collected; unconfirmed blocks at the end.
func buildPoint(c *pbt.C, variant int) (*View, error) {
	spec := sim.DefaultSpec(3+variant, 5)
	spec.ActiveSporks = 2
	addSpecTokens(c, spec, 2)
	spec.Swap = []sim.SwapSpec{{Key: 0, Znn: 120, Qsr: 1500, Pillars: 1}, {Key: 1, Znn: 75, Qsr: 0}, {Key: 2, Znn: 0, Qsr: 900, Pillars: 2}, {Key: 3, Znn: 10, Qsr: 10}}
	otherReward := sim.UserKey(1).Address
	spec.Pillars[1].Reward = &otherReward
	var fuser types.Address
	copy(fuser[:], types.NewHash([]byte("c18-point-fuser")).Bytes()[:20])
	fuser[0] = 0
	for i := 0; i < 5; i++ {
		spec.Fusions = append(spec.Fusions, sim.FusionSpec{Owner: fuser, Beneficiary: sim.UserKey(i).Address, Amount: int64(3000 + 700*i), Id: types.NewHash([]byte(fmt.Sprintf("c18-point-fusion-%d", i)))})
	}
	for i := 0; i < 3; i++ {
		spec.Fusions = append(spec.Fusions, sim.FusionSpec{Owner: sim.UserKey(0).Address, Beneficiary: sim.ExtraKey(i).Address, Amount: 2000, Id: types.NewHash([]byte(fmt.Sprintf("c18-point-extra-fusion-%d", i)))})
	}
	h := newHistNoCleanup(c, spec, worldOpts())
	var randomIntents []sim.Intent
	for _, in := range sim.DefaultIntents() {
		switch in.Name {
		case "pillar-revoke", "sentinel-revoke", "pillar-register", "pillar-register-legacy", "sentinel-register", "withdraw-qsr":
			// scripted below (a revoked producer or a consumed deposit at the wrong moment would undo the script)
		default:
			randomIntents = append(randomIntents, in)
		}
	}
	for _, in := range sim.BridgeIntents() {
		switch in.Name {
		case "bridge-wrap", "bridge-unwrap", "bridge-redeem", "bridge-revoke-unwrap", "bridge-update-wrap", "liquidity-stake", "liquidity-cancel", "liquidity-additional-reward":
			randomIntents = append(randomIntents, in)
		}
	}
	h.Intents = randomIntents
	intent := func(name string) bool {
		for _, in := range append(sim.DefaultIntents(), sim.BridgeIntents()...) {
			if in.Name == name {
				return in.Try(h)
			}
		}
		panic("no intent " + name)
	}
	zero := big.NewInt(0)
	submit := func(from, to types.Address, z types.ZenonTokenStandard, amt *big.Int, data []byte, descr string) *nom.AccountBlock {
		b, err := h.Submit(&nom.AccountBlock{Address: from, ToAddress: to, TokenStandard: z, Amount: new(big.Int).Set(amt), Data: data}, "point "+descr)
		if err != nil || b == nil {
			pointNote("%s refused: %v", descr, err)
			return nil
		}
		return b
	}
	produce := func(n int) error {
		for i := 0; i < n; i++ {
			if !h.Produce(0) {
				return fmt.Errorf("point script: producer stopped: %v", h.A.Preflight)
			}
		}
		return nil
	}
	u := func(i int) types.Address { return sim.UserKey(i).Address }
	zq := func(v int64) *big.Int { return new(big.Int).Mul(big.NewInt(v), big.NewInt(sim.Zexp)) }
	if err := produce(3); err != nil {
		return nil, err
	}
	// 1. bridge and liquidity administration
	if err := bridgeScriptN(h, 14+4*variant, 10); err != nil {
		pointNote("%v", err)
	}
	if err := sim.LiquidityScript(h); err != nil {
		pointNote("%v", err)
	}
	// liquidity gets guardians of its own (other members, other order than the bridge's)
	liqGuardians := []types.Address{u(4), u(3), u(1), u(0)}
	for i := 0; i < 2; i++ {
		submit(bridgeAdmin(), types.LiquidityContract, types.ZnnTokenStandard, zero, definition.ABILiquidity.PackMethodPanic(definition.NominateGuardiansMethodName, liqGuardians), "liquidity.NominateGuardians(own set)")
		if err := produce(int(constants.MinAdministratorDelay) + 2); err != nil {
			return nil, err
		}
	}
	for i := 0; i < 3; i++ {
		intent("liquidity-stake")
	}
	// 2. sentinel, second-generation pillar, stake, accepted project with a phase, hash time lock
	if _, err := sim.EcosystemScript(h); err != nil {
		return nil, err
	}
	// 3. registrations of our own: a second sentinel and a pillar that will be revoked, by users that can afford them
	pst := func() []*definition.PillarInfo {
		l, _ := definition.GetPillarsList(h.A.Chain.GetFrontierAccountStore(types.PillarContract).Storage(), false, definition.AnyPillarType)
		return l
	}
	ownsPillar := func(a types.Address) bool {
		for _, p := range pst() {
			if p.StakeAddress == a {
				return true
			}
		}
		return false
	}
	pillarCost := func() *big.Int {
		n := 0
		for _, p := range pst() {
			if p.RevokeTime == 0 && p.PillarType == definition.NormalPillarType {
				n++
			}
		}
		cost := new(big.Int).Mul(constants.PillarQsrStakeIncreaseAmount, big.NewInt(int64(n)))
		return cost.Add(cost, constants.PillarQsrStakeBaseAmount)
	}
	hasPillar := func(name string) bool {
		for _, p := range pst() {
			if p.Name == name {
				return true
			}
		}
		return false
	}
	freeProducer := func() types.Address {
		used := map[types.Address]bool{}
		for _, p := range pst() {
			used[p.BlockProducingAddress] = true
		}
		for i := 0; i < 3; i++ {
			if !used[sim.ExtraKey(i).Address] {
				return sim.ExtraKey(i).Address
			}
		}
		return sim.ExtraKey(0).Address
	}
	for ni, name := range []string{"VP-script", "VP-gone"} {
		if hasPillar(name) {
			continue
		}
		for _, i := range []int{3, 2, 1, 0, 4} {
			if ownsPillar(u(i)) || h.Balance(u(i), types.ZnnTokenStandard).Cmp(constants.PillarStakeAmount) < 0 || h.Balance(u(i), types.QsrTokenStandard).Cmp(pillarCost()) < 0 {
				continue
			}
			if submit(u(i), types.PillarContract, types.QsrTokenStandard, pillarCost(), definition.ABICommon.PackMethodPanic(definition.DepositQsrMethodName), "pillar.DepositQsr for "+name) == nil {
				continue
			}
			if err := produce(2); err != nil {
				return nil, err
			}
			submit(u(i), types.PillarContract, types.ZnnTokenStandard, constants.PillarStakeAmount,
				definition.ABIPillars.PackMethodPanic(definition.RegisterMethodName, name, freeProducer(), u((i+1)%5), uint8(7+ni), uint8(93-ni)), "pillar.Register "+name)
			if err := produce(2); err != nil {
				return nil, err
			}
			if hasPillar(name) {
				break
			}
		}
		if !hasPillar(name) {
			pointNote("no user could register %s", name)
		}
	}
	sentinels := func() []*definition.SentinelInfo {
		return definition.GetAllSentinelInfo(h.A.Chain.GetFrontierAccountStore(types.SentinelContract).Storage())
	}
	hasSentinel := func(a types.Address) bool {
		for _, s := range sentinels() {
			if s.Owner == a {
				return true
			}
		}
		return false
	}
	registered := 0
	for _, i := range []int{0, 1, 4, 2, 3} {
		if registered >= 2 {
			break
		}
		if hasSentinel(u(i)) || h.Balance(u(i), types.ZnnTokenStandard).Cmp(constants.SentinelZnnRegisterAmount) < 0 || h.Balance(u(i), types.QsrTokenStandard).Cmp(constants.SentinelQsrDepositAmount) < 0 {
			continue
		}
		if submit(u(i), types.SentinelContract, types.QsrTokenStandard, constants.SentinelQsrDepositAmount, definition.ABICommon.PackMethodPanic(definition.DepositQsrMethodName), "sentinel.DepositQsr") == nil {
			continue
		}
		if err := produce(2); err != nil {
			return nil, err
		}
		if submit(u(i), types.SentinelContract, types.ZnnTokenStandard, constants.SentinelZnnRegisterAmount, definition.ABISentinel.PackMethodPanic(definition.RegisterSentinelMethodName), "sentinel.Register") != nil {
			registered++
		}
	}
	if err := produce(2); err != nil {
		return nil, err
	}
	// 4. deposits that stay unconsumed (different amounts in the two contracts), backers, proxy-unlock settings
	for i := 0; i < 5; i++ {
		if h.Balance(u(i), types.QsrTokenStandard).Cmp(zq(3000)) < 0 {
			continue
		}
		if i%2 == 0 {
			submit(u(i), types.PillarContract, types.QsrTokenStandard, zq(int64(700+i)), definition.ABICommon.PackMethodPanic(definition.DepositQsrMethodName), "pillar.DepositQsr (stays)")
		}
		if i%3 != 2 {
			submit(u(i), types.SentinelContract, types.QsrTokenStandard, zq(int64(300+7*i)), definition.ABICommon.PackMethodPanic(definition.DepositQsrMethodName), "sentinel.DepositQsr (stays)")
		}
	}
	if hasPillar("VP-gone") {
		submit(u(1), types.PillarContract, types.ZnnTokenStandard, zero, definition.ABIPillars.PackMethodPanic(definition.DelegateMethodName, "VP-gone"), "pillar.Delegate(VP-gone)")
		submit(sim.ExtraKey(0).Address, types.PillarContract, types.ZnnTokenStandard, zero, definition.ABIPillars.PackMethodPanic(definition.DelegateMethodName, "VP-gone"), "pillar.Delegate(VP-gone) by extra")
	}
	submit(u(3), types.PillarContract, types.ZnnTokenStandard, zero, definition.ABIPillars.PackMethodPanic(definition.DelegateMethodName, spec.Pillars[0].Name), "pillar.Delegate")
	submit(u(0), types.PillarContract, types.ZnnTokenStandard, zero, definition.ABIPillars.PackMethodPanic(definition.UndelegateMethodName), "pillar.Undelegate")
	submit(u(2), types.HtlcContract, types.ZnnTokenStandard, zero, definition.ABIHtlc.PackMethodPanic(definition.DenyHtlcProxyUnlockMethodName), "htlc.DenyProxyUnlock")
	submit(u(4), types.HtlcContract, types.ZnnTokenStandard, zero, definition.ABIHtlc.PackMethodPanic(definition.DenyHtlcProxyUnlockMethodName), "htlc.DenyProxyUnlock")
	submit(u(3), types.HtlcContract, types.ZnnTokenStandard, zero, definition.ABIHtlc.PackMethodPanic(definition.AllowHtlcProxyUnlockMethodName), "htlc.AllowProxyUnlock")
	if err := produce(2); err != nil {
		return nil, err
	}
	submit(u(4), types.HtlcContract, types.ZnnTokenStandard, zero, definition.ABIHtlc.PackMethodPanic(definition.AllowHtlcProxyUnlockMethodName), "htlc.AllowProxyUnlock (after deny)")
	// 5. a legacy key retrieves its assets, another uses one of its pillar slots' signatures for nothing
	{
		prv, pub := sim.SwapKey(1)
		pubB64 := base64Std(pub)
		if sig, err := implementation.SignRetrieveAssetsMessage(u(4), prv, pubB64); err == nil {
			submit(u(4), types.SwapContract, types.ZnnTokenStandard, zero, definition.ABISwap.PackMethodPanic(definition.RetrieveAssetsMethodName, pubB64, sig), "swap.RetrieveAssets(key 1)")
		}
	}
	// 6. projects in every state: accepted with a paid and a second phase, accepted with a replaced phase under vote,
	// rejected, not voted; explicit yes / no / abstain votes
	projectList := func() []*definition.Project {
		l, _ := definition.GetProjectList(h.A.Chain.GetFrontierAccountStore(types.AcceleratorContract).Storage())
		return l
	}
	project := func(id types.Hash) *definition.Project {
		for _, p := range projectList() {
			if p.Id == id {
				return p
			}
		}
		return nil
	}
	voteAll := func(id types.Hash, votes ...uint8) {
		for pi, ps := range spec.Pillars {
			vote := votes[pi%len(votes)]
			if vote > definition.VoteAbstain {
				continue
			}
			submit(sim.PillarKey(ps.Key).Address, types.AcceleratorContract, types.ZnnTokenStandard, zero,
				definition.ABICommon.PackMethodPanic(definition.VoteByNameMethodName, id, ps.Name, vote), fmt.Sprintf("accelerator.VoteByName(%s, %s, %d)", id.String()[:8], ps.Name, vote))
		}
	}
	const skipVote = uint8(9)
	var mine []types.Hash
	for i := 0; i < 4; i++ {
		owner := u(i)
		if h.Balance(owner, types.ZnnTokenStandard).Cmp(constants.ProjectCreationAmount) < 0 {
			continue
		}
		if b := submit(owner, types.AcceleratorContract, types.ZnnTokenStandard, constants.ProjectCreationAmount, definition.ABIAccelerator.PackMethodPanic(definition.CreateProjectMethodName,
			fmt.Sprintf("Point-Project-%d", i), fmt.Sprintf("description %d of the point world", i), "www.verif.test", zq(int64(40+i)), zq(int64(400+10*i))), fmt.Sprintf("accelerator.CreateProject %d", i)); b != nil {
			mine = append(mine, b.Hash)
			h.Projects = append(h.Projects, b.Hash)
		}
	}
	submit(u(0), types.AcceleratorContract, types.ZnnTokenStandard, zq(300), definition.ABICommon.PackMethodPanic(definition.DonateMethodName), "accelerator.Donate znn")
	submit(u(0), types.AcceleratorContract, types.QsrTokenStandard, zq(3000), definition.ABICommon.PackMethodPanic(definition.DonateMethodName), "accelerator.Donate qsr")
	if err := produce(2); err != nil {
		return nil, err
	}
	for i, id := range mine {
		switch i {
		case 0:
			voteAll(id, definition.VoteYes)
		case 1:
			voteAll(id, definition.VoteYes, definition.VoteYes, definition.VoteNo)
		case 2:
			voteAll(id, definition.VoteNo, definition.VoteAbstain, definition.VoteYes, definition.VoteNo)
		}
	}
	if err := produce(int(constants.UpdateMinNumMomentums) + 2); err != nil {
		return nil, err
	}
	var phases []types.Hash
	for i, id := range mine {
		if p := project(id); p != nil && p.Status == definition.ActiveStatus {
			if b := submit(p.Owner, types.AcceleratorContract, types.ZnnTokenStandard, zero, definition.ABIAccelerator.PackMethodPanic(definition.AddPhaseMethodName, id,
				fmt.Sprintf("Point-Phase-%d", i), "first phase", "www.verif.test/phase", zq(int64(3+i)), zq(int64(30+i))), fmt.Sprintf("accelerator.AddPhase %d", i)); b != nil {
				phases = append(phases, b.Hash)
			}
		}
	}
	if err := produce(2); err != nil {
		return nil, err
	}
	for i, id := range phases {
		if i == 0 {
			voteAll(id, definition.VoteYes)
		} else {
			voteAll(id, definition.VoteYes, definition.VoteNo, skipVote)
		}
	}
	if err := produce(int(constants.UpdateMinNumMomentums) + 2); err != nil {
		return nil, err
	}
	for i, id := range mine {
		p := project(id)
		if p == nil || p.Status != definition.ActiveStatus {
			continue
		}
		method, name := definition.AddPhaseMethodName, "second phase"
		if i > 0 {
			method, name = definition.UpdatePhaseMethodName, "replaced phase"
		}
		if b := submit(p.Owner, types.AcceleratorContract, types.ZnnTokenStandard, zero, definition.ABIAccelerator.PackMethodPanic(method, id,
			fmt.Sprintf("Point-Phase-%d-b", i), name, "www.verif.test/phase2", zq(int64(5+i)), zq(int64(50+i))), fmt.Sprintf("accelerator.%s %d", method, i)); b != nil && i > 0 {
			if err := produce(2); err != nil {
				return nil, err
			}
			voteAll(b.Hash, definition.VoteNo, definition.VoteYes, definition.VoteAbstain)
		}
	}
	for i := 0; i < 2; i++ {
		intent("accelerator-project")
		intent("htlc-create")
	}
	if err := produce(2); err != nil {
		return nil, err
	}
	for i := 0; i < 4; i++ {
		intent("accelerator-vote")
	}
	// the bridge's first unwrap requests are redeemable by now: two are redeemed, one is revoked by the administrator
	if unwraps, err := definition.GetUnwrapTokenRequests(h.A.Chain.GetFrontierAccountStore(types.BridgeContract).Storage()); err == nil {
		for i, r := range unwraps {
			switch {
			case i%5 == 0 || i%5 == 3:
				submit(u(i%5), types.BridgeContract, types.ZnnTokenStandard, zero, definition.ABIBridge.PackMethodPanic(definition.RedeemUnwrapMethodName, r.TransactionHash, r.LogIndex), "bridge.Redeem")
			case i%5 == 1:
				submit(bridgeAdmin(), types.BridgeContract, types.ZnnTokenStandard, zero, definition.ABIBridge.PackMethodPanic(definition.RevokeUnwrapRequestMethodName, r.TransactionHash, r.LogIndex), "bridge.RevokeUnwrapRequest")
			}
		}
	}
	if err := produce(2); err != nil {
		return nil, err
	}
	// 7. random life over several epochs (rewards accrue; some are collected)
	momentums := 70 - 20*variant
	for m := 0; m < momentums && !h.Dead; m++ {
		for k := 0; k < 3; k++ {
			switch c.Weighted("point.act", 2, 2, 8, 1) {
			case 0:
				h.ActTransfer()
			case 1:
				h.ActReceive()
			case 2:
				h.ActIntent()
			default:
				h.ActCallABI()
			}
		}
		if m%9 == 4 {
			intent("accelerator-vote")
			intent("collect-reward")
		}
		skip := 0
		switch {
		case m%10 == 9:
			skip = 50 + c.Int("point.skip", 0, 70)
		case m%4 == 2:
			skip = c.Int("point.skipsmall", 1, 3)
		}
		if !h.Produce(skip) {
			break
		}
	}
	if h.Dead {
		h.W.Close()
		return nil, fmt.Errorf("point script wedged the producer: %v", h.A.Preflight)
	}
	// 8. revocations in their windows
	waitWindow := func(registration, lock, window int64) error {
		for tries := 0; tries < 4; tries++ {
			now := h.A.Frontier().Timestamp.Unix()
			t := (now - registration) % (lock + window)
			if t >= lock && t < lock+window-40 {
				return nil
			}
			wait := lock - t
			if t >= lock {
				wait = lock + window - t + lock
			}
			if !h.Produce(int(wait/10) + 1) {
				return fmt.Errorf("point script: producer stopped")
			}
		}
		return nil
	}
	for _, p := range pst() {
		if p.Name == "VP-gone" && p.RevokeTime == 0 {
			if err := waitWindow(p.RegistrationTime, constants.PillarEpochLockTime, constants.PillarEpochRevokeTime); err != nil {
				return nil, err
			}
			// (its backers stay behind)
			submit(u(1), types.PillarContract, types.ZnnTokenStandard, zero, definition.ABIPillars.PackMethodPanic(definition.DelegateMethodName, "VP-gone"), "pillar.Delegate(VP-gone)")
			submit(sim.ExtraKey(0).Address, types.PillarContract, types.ZnnTokenStandard, zero, definition.ABIPillars.PackMethodPanic(definition.DelegateMethodName, "VP-gone"), "pillar.Delegate(VP-gone) by extra")
			if err := produce(2); err != nil {
				return nil, err
			}
			submit(p.StakeAddress, types.PillarContract, types.ZnnTokenStandard, zero, definition.ABIPillars.PackMethodPanic(definition.RevokeMethodName, p.Name), "pillar.Revoke VP-gone")
			if err := produce(2); err != nil {
				return nil, err
			}
		}
	}
	if all := sentinels(); len(all) > 1 {
		s := all[len(all)-1]
		if err := waitWindow(s.RegistrationTimestamp, constants.SentinelLockTimeWindow, constants.SentinelRevokeTimeWindow); err != nil {
			return nil, err
		}
		submit(s.Owner, types.SentinelContract, types.ZnnTokenStandard, zero, definition.ABISentinel.PackMethodPanic(definition.RevokeSentinelMethodName), "sentinel.Revoke")
		if err := produce(2); err != nil {
			return nil, err
		}
	}
	// 9. variant 1: the administrator changes delays, metadata and the orchestrator parameters; a time jump far
	// enough for the legacy assets to decay
	if variant == 1 {
		// (epoch 0 starts at genesis; the decay of the legacy assets starts with epoch SwapAssetDecayEpochsOffset)
		t0 := time.Now()
		for jumps := 0; jumps < 4; jumps++ {
			if !h.Produce(60*constants.SwapAssetDecayTickEpochs - 7) {
				return nil, fmt.Errorf("point script: producer stopped in the time jump: %v", h.A.Preflight)
			}
			if err := produce(2); err != nil {
				return nil, err
			}
		}
		if os.Getenv("C18_DEBUG") != "" {
			fmt.Fprintf(os.Stderr, "C18 point script: time jump took %.1fs\n", time.Since(t0).Seconds())
		}
		admin := bridgeAdmin()
		submit(admin, types.BridgeContract, types.ZnnTokenStandard, zero, definition.ABIBridge.PackMethodPanic(definition.SetBridgeMetadataMethodName, `{"verif":18}`), "bridge.SetBridgeMetadata")
		submit(admin, types.BridgeContract, types.ZnnTokenStandard, zero, definition.ABIBridge.PackMethodPanic(definition.SetNetworkMetadataMethodName, uint32(2), uint32(124), `{"k":"v"}`), "bridge.SetNetworkMetadata")
		submit(admin, types.BridgeContract, types.ZnnTokenStandard, zero, definition.ABIBridge.PackMethodPanic(definition.SetOrchestratorInfoMethodName, uint64(9), uint32(4), uint32(25), uint32(11)), "bridge.SetOrchestratorInfo")
		submit(admin, types.BridgeContract, types.ZnnTokenStandard, zero, definition.ABIBridge.PackMethodPanic(definition.SetAllowKeygenMethodName, true), "bridge.SetAllowKeyGen")
		if err := produce(2); err != nil {
			return nil, err
		}
	}
	// 10. fresh requests (not yet final / not yet redeemable) and pending time challenges
	for i := 0; i < 4; i++ {
		intent("bridge-wrap")
		intent("bridge-unwrap")
	}
	if err := produce(1); err != nil {
		return nil, err
	}
	intent("bridge-redeem")
	intent("bridge-revoke-unwrap")
	intent("bridge-update-wrap")
	// the orchestrators' signature arrives for some of the older wrap requests
	{
		bst := h.A.Chain.GetFrontierAccountStore(types.BridgeContract).Storage()
		if reqs, err := definition.GetWrapTokenRequests(bst); err == nil {
			for i, r := range reqs {
				if i%4 != 3 || r.Signature != "" {
					continue
				}
				ni, err := definition.GetNetworkInfoVariable(bst, r.NetworkClass, r.ChainId)
				if err != nil || ni == nil {
					continue
				}
				ca := ecommon.HexToAddress(ni.ContractAddress)
				msg, err := implementation.GetWrapTokenRequestMessage(r, &ca)
				if err != nil {
					continue
				}
				if sig, err := tssSign(msg); err == nil {
					submit(u(i%5), types.BridgeContract, types.ZnnTokenStandard, zero, definition.ABIBridge.PackMethodPanic(definition.UpdateWrapRequestMethodName, r.Id, sig), "bridge.UpdateWrapRequest")
				}
			}
		}
	}
	submit(bridgeAdmin(), types.BridgeContract, types.ZnnTokenStandard, zero, definition.ABIBridge.PackMethodPanic(definition.SetTokenPairMethod, uint32(2), uint32(123), types.QsrTokenStandard,
		"0x7fbdb2315678afecb367f032d93f642f64180aa3", true, true, false, big.NewInt(50), uint32(20), uint32(9), `{"pending":true}`), "bridge.SetTokenPair (challenge only)")
	submit(bridgeAdmin(), types.BridgeContract, types.ZnnTokenStandard, zero, definition.ABIBridge.PackMethodPanic(definition.ChangeAdministratorMethodName, u(3)), "bridge.ChangeAdministrator (challenge only)")
	submit(bridgeAdmin(), types.LiquidityContract, types.ZnnTokenStandard, zero, definition.ABILiquidity.PackMethodPanic(definition.SetAdditionalRewardMethodName, big.NewInt(187), big.NewInt(1001)), "liquidity.SetAdditionalReward (challenge only)")
	if err := produce(2); err != nil {
		return nil, err
	}
	for i := 0; i < 2; i++ {
		intent("bridge-wrap")
		intent("bridge-unwrap")
	}
	if err := produce(1); err != nil {
		return nil, err
	}
	submit(u(2), types.HtlcContract, types.ZnnTokenStandard, zero, definition.ABIHtlc.PackMethodPanic(definition.DenyHtlcProxyUnlockMethodName), "htlc.DenyProxyUnlock (stays)")
	submit(sim.ExtraKey(1).Address, types.HtlcContract, types.ZnnTokenStandard, zero, definition.ABIHtlc.PackMethodPanic(definition.DenyHtlcProxyUnlockMethodName), "htlc.DenyProxyUnlock (stays)")
	// hash time locks that stay: user and contract beneficiaries, both hash types, ZNN / QSR / a custom token
	{
		now := h.A.Frontier().Timestamp.Unix()
		type lock struct {
			from, locked types.Address
			z            types.ZenonTokenStandard
			amt          int64
			hashType     uint8
			keyMax       uint8
			exp          int64
		}
		for i, l := range []lock{{u(0), u(1), types.ZnnTokenStandard, 5 * sim.Zexp, definition.HashTypeSHA3, 32, now + 86400}, {u(1), types.BridgeContract, types.QsrTokenStandard, 777, definition.HashTypeSHA256, 255, now + 3600},
			{u(2), u(2), spec.Tokens[0].Zts, 7, definition.HashTypeSHA3, 1, now + 100000}, {u(3), sim.ExtraKey(2).Address, types.ZnnTokenStandard, 1, definition.HashTypeSHA256, 64, now + 700}} {
			pre := []byte(fmt.Sprintf("point-preimage-%d", i))
			var lockHash []byte
			if l.hashType == definition.HashTypeSHA3 {
				lockHash = crypto.Hash(pre)
			} else {
				s := sha256.Sum256(pre)
				lockHash = s[:]
			}
			if h.Balance(l.from, l.z).Cmp(big.NewInt(l.amt)) < 0 {
				continue
			}
			if b := submit(l.from, types.HtlcContract, l.z, big.NewInt(l.amt), definition.ABIHtlc.PackMethodPanic(definition.CreateHtlcMethodName, l.locked, l.exp, l.hashType, l.keyMax, lockHash), fmt.Sprintf("htlc.Create %d", i)); b != nil {
				h.Htlcs = append(h.Htlcs, sim.HtlcSecret{Id: b.Hash, Preimage: pre, Creator: l.from, Locked: l.locked})
			}
		}
		if err := produce(2); err != nil {
			return nil, err
		}
	}
	// 11. the pool at the end: unconfirmed blocks of several users (their plasma is in use), contract receives pending
	for k := 0; k < 3; k++ {
		submit(u(k), u((k+1)%5), types.ZnnTokenStandard, big.NewInt(int64(11+k)), []byte(fmt.Sprintf("pooled-%d", k)), "pooled send")
	}
	submit(u(0), u(2), types.QsrTokenStandard, big.NewInt(5), nil, "pooled send")
	intent("bridge-wrap")
	intent("plasma-fuse")
	h.ActReceive()
	v, err := NewView(fmt.Sprintf("point%d", variant), h.A, h.Users, pillarNames(h), true)
	if err != nil {
		return nil, err
	}
	v.Pillars = append(v.Pillars, "VP-script", "VP-gone")
	return v, nil
}

func base64Std(b []byte) string { return base64.StdEncoding.EncodeToString(b) }

// ---- ground truth: the contract state at the frontier, scanned without rpc/api -----------------------------------

type amounts struct{ Znn, Qsr *big.Int }

type htlcEntry struct {
	Id             types.Hash
	TimeLocked     types.Address
	HashLocked     types.Address
	TokenStandard  types.ZenonTokenStandard
	Amount         *big.Int
	ExpirationTime int64
	HashType       uint8
	KeyMaxSize     uint8
	HashLock       []byte
}

type fusionEntry struct {
	Owner            types.Address
	Id               types.Hash
	Amount           *big.Int
	ExpirationHeight uint64
	Beneficiary      types.Address
}

// Truth is what the contracts hold at the frontier the apis read: the pool frontier of every contract's account
// store (rpc/api/utils.go GetFrontierContext), the confirmed momentum store where the api reads that.
type Truth struct {
	V *View

	Pillars     []*definition.PillarInfo // active and revoked
	Delegations map[types.Address]string
	Legacy      []*definition.LegacyPillarEntry
	Deposits    map[types.Address]map[types.Address]*big.Int // contract -> depositor -> QSR
	Rewards     map[types.Address]map[types.Address]amounts  // contract -> address -> uncollected reward
	RewardHist  map[types.Address]map[string]amounts         // contract -> "address/epoch" -> reward of that epoch
	LastEpoch   map[types.Address]int64
	PillarHist  map[string]*definition.PillarEpochHistory // "name/epoch"
	Sentinels   []*definition.SentinelInfo
	Stakes      []*definition.StakeInfo
	Fusions     []fusionEntry              // pool frontier of the plasma contract
	FusedConf   map[types.Address]*big.Int // confirmed state: beneficiary -> sum of the fusion entries
	ConfBalance func(a types.Address, z types.ZenonTokenStandard) *big.Int
	Swap        []*definition.SwapAssets
	Tokens      map[types.ZenonTokenStandard]*definition.TokenInfo
	Htlcs       map[types.Hash]*htlcEntry
	Proxy       map[types.Address]bool
	Projects    []*definition.Project
	Phases      map[types.Hash]*definition.Phase
	Votes       map[types.Hash][]*definition.PillarVote

	BridgeInfo   *definition.BridgeInfoVariable
	Orchestrator *definition.OrchestratorInfo
	BridgeSec    *definition.SecurityInfoVariable
	Networks     []*definition.NetworkInfo
	Wraps        []*definition.WrapTokenRequest
	Unwraps      []*definition.UnwrapTokenRequest
	Fees         map[types.ZenonTokenStandard]*big.Int
	BridgeTC     map[string]*definition.TimeChallengeInfo

	LiqInfo   *definition.LiquidityInfo
	LiqSec    *definition.SecurityInfoVariable
	LiqTC     map[string]*definition.TimeChallengeInfo
	LiqStakes []*definition.LiquidityStakeEntry

	// consensus view of the frontier momentum (the data source of weight / currentStats, not part of rpc/api)
	Weights map[string]*big.Int
	Stats   map[string][2]uint64
	Epoch   uint64
}

func (t *Truth) Summary() string {
	active, revoked := 0, 0
	for _, p := range t.Pillars {
		if p.RevokeTime == 0 {
			active++
		} else {
			revoked++
		}
	}
	sa, sr := 0, 0
	for _, s := range t.Sentinels {
		if s.RevokeTimestamp == 0 {
			sa++
		} else {
			sr++
		}
	}
	nz := func(m map[types.Address]amounts) int {
		n := 0
		for _, a := range m {
			if a.Znn.Sign() > 0 || a.Qsr.Sign() > 0 {
				n++
			}
		}
		return n
	}
	votes := 0
	for _, l := range t.Votes {
		votes += len(l)
	}
	signed, redeemed, revokedU := 0, 0, 0
	for _, w := range t.Wraps {
		if w.Signature != "" {
			signed++
		}
	}
	for _, u := range t.Unwraps {
		if u.Redeemed != 0 {
			redeemed++
		}
		if u.Revoked != 0 {
			revokedU++
		}
	}
	names := ""
	for _, p := range t.Pillars {
		names += fmt.Sprintf(" %s(type %d, revoked %d)", p.Name, p.PillarType, p.RevokeTime)
	}
	return fmt.Sprintf("epoch %d;"+names+"; pillars %d active %d revoked, %d backers, %d legacy slots; deposits pillar %d sentinel %d; uncollected rewards pillar %d sentinel %d stake %d liquidity %d; "+
		"sentinels %d active %d revoked; %d stakes; %d fusions; %d swap entries; %d tokens; %d htlcs, %d proxy settings; %d projects %d phases %d votes; "+
		"bridge: %d networks, %d wraps (%d signed), %d unwraps (%d redeemed %d revoked), %d fee entries, %d challenges; liquidity: %d tuples, %d stakes, %d challenges",
		t.Epoch, active, revoked, len(t.Delegations), len(t.Legacy), len(t.Deposits[types.PillarContract]), len(t.Deposits[types.SentinelContract]),
		nz(t.Rewards[types.PillarContract]), nz(t.Rewards[types.SentinelContract]), nz(t.Rewards[types.StakeContract]), nz(t.Rewards[types.LiquidityContract]),
		sa, sr, len(t.Stakes), len(t.Fusions), len(t.Swap), len(t.Tokens), len(t.Htlcs), len(t.Proxy), len(t.Projects), len(t.Phases), votes,
		len(t.Networks), len(t.Wraps), signed, len(t.Unwraps), redeemed, revokedU, len(t.Fees), len(t.BridgeTC), len(t.LiqInfo.TokenTuples), len(t.LiqStakes), len(t.LiqTC))
}

var truthCache sync.Map // *View -> *Truth (long-lived views only)

func scanTruth(v *View) *Truth {
	if v.LongLived {
		if t, ok := truthCache.Load(v); ok {
			return t.(*Truth)
		}
	}
	t, err := scanTruthNow(v)
	if err != nil {
		panic(fmt.Sprintf("C18: ground-truth scan of %s failed: %v", v.Name, err))
	}
	if v.LongLived {
		truthCache.Store(v, t)
	}
	return t
}

// scanRaw walks the live entries under a key prefix.
func scanRaw(st db.DB, prefix []byte, f func(key, value []byte) error) error {
	it := st.NewIterator(prefix)
	defer it.Release()
	for it.Next() {
		if len(it.Value()) == 0 {
			continue
		}
		k, val := append([]byte{}, it.Key()...), append([]byte{}, it.Value()...)
		if err := f(k, val); err != nil {
			return err
		}
	}
	return it.Error()
}

func scanChallenges(st db.DB) (map[string]*definition.TimeChallengeInfo, error) {
	out := map[string]*definition.TimeChallengeInfo{}
	err := scanRaw(st, definition.TimeChallengeKeyPrefix, func(k, val []byte) error {
		tc := new(definition.TimeChallengeInfo)
		if err := definition.ABICommon.UnpackVariable(tc, "timeChallengeInfo", val); err != nil {
			return err
		}
		out[tc.MethodName] = tc
		return nil
	})
	return out, err
}

func scanTruthNow(v *View) (*Truth, error) {
	n := v.N
	st := func(ct types.Address) db.DB { return n.Chain.GetFrontierAccountStore(ct).Storage() }
	ms := n.Chain.GetFrontierMomentumStore()
	t := &Truth{V: v, Delegations: map[types.Address]string{}, Deposits: map[types.Address]map[types.Address]*big.Int{}, Rewards: map[types.Address]map[types.Address]amounts{},
		RewardHist: map[types.Address]map[string]amounts{}, LastEpoch: map[types.Address]int64{}, PillarHist: map[string]*definition.PillarEpochHistory{},
		FusedConf: map[types.Address]*big.Int{}, Tokens: map[types.ZenonTokenStandard]*definition.TokenInfo{}, Htlcs: map[types.Hash]*htlcEntry{}, Proxy: map[types.Address]bool{},
		Phases: map[types.Hash]*definition.Phase{}, Votes: map[types.Hash][]*definition.PillarVote{}, Fees: map[types.ZenonTokenStandard]*big.Int{}}
	var err error
	// pillar contract
	ps := st(types.PillarContract)
	if t.Pillars, err = definition.GetPillarsList(ps, false, definition.AnyPillarType); err != nil {
		return nil, err
	}
	dl, err := definition.GetDelegationsList(ps)
	if err != nil {
		return nil, err
	}
	for _, d := range dl {
		t.Delegations[d.Backer] = d.Name
	}
	if t.Legacy, err = definition.GetLegacyPillarList(ps); err != nil {
		return nil, err
	}
	// shared variables: deposits, rewards, reward history, epoch cursor
	for _, ct := range []types.Address{types.PillarContract, types.SentinelContract, types.StakeContract, types.LiquidityContract} {
		cs := st(ct)
		t.Deposits[ct], t.Rewards[ct], t.RewardHist[ct] = map[types.Address]*big.Int{}, map[types.Address]amounts{}, map[string]amounts{}
		if err := scanRaw(cs, []byte{130}, func(k, val []byte) error {
			var d struct{ Qsr *big.Int }
			if err := definition.ABICommon.UnpackVariable(&d, definition.QsrDepositVariableName, val); err != nil {
				return err
			}
			a, err := types.BytesToAddress(k[1:])
			if err != nil {
				return err
			}
			t.Deposits[ct][a] = d.Qsr
			return nil
		}); err != nil {
			return nil, err
		}
		if err := scanRaw(cs, []byte{128}, func(k, val []byte) error {
			var d amounts
			if err := definition.ABICommon.UnpackVariable(&d, definition.RewardDepositVariableName, val); err != nil {
				return err
			}
			a, err := types.BytesToAddress(k[1:])
			if err != nil {
				return err
			}
			t.Rewards[ct][a] = d
			return nil
		}); err != nil {
			return nil, err
		}
		if err := scanRaw(cs, []byte{132}, func(k, val []byte) error {
			var d amounts
			if err := definition.ABICommon.UnpackVariable(&d, definition.RewardDepositHistoryVariableName, val); err != nil {
				return err
			}
			if len(k) != 1+types.AddressSize+8 {
				return fmt.Errorf("reward history key of length %d", len(k))
			}
			a, err := types.BytesToAddress(k[1 : 1+types.AddressSize])
			if err != nil {
				return err
			}
			t.RewardHist[ct][fmt.Sprintf("%v/%d", a, binary.LittleEndian.Uint64(k[1+types.AddressSize:]))] = d
			return nil
		}); err != nil {
			return nil, err
		}
		le, err := definition.GetLastEpochUpdate(cs)
		if err != nil {
			return nil, err
		}
		t.LastEpoch[ct] = le.LastEpoch
	}
	for ep := int64(0); ep <= t.LastEpoch[types.PillarContract]; ep++ {
		l, err := definition.GetPillarEpochHistoryList(ps, uint64(ep))
		if err != nil {
			return nil, err
		}
		for _, x := range l {
			t.PillarHist[fmt.Sprintf("%s/%d", x.Name, x.Epoch)] = x
		}
	}
	t.Sentinels = definition.GetAllSentinelInfo(st(types.SentinelContract))
	if err := definition.IterateStakeEntries(st(types.StakeContract), func(s *definition.StakeInfo) error { t.Stakes = append(t.Stakes, s); return nil }); err != nil {
		return nil, err
	}
	// plasma: entries at the pool frontier (lists) and at the confirmed state (fused amounts)
	fusions := func(s db.DB) ([]fusionEntry, error) {
		var out []fusionEntry
		err := scanRaw(s, []byte{1}, func(k, val []byte) error {
			if len(k) != 1+types.AddressSize+types.HashSize {
				return fmt.Errorf("fusion key of length %d", len(k))
			}
			var fv struct {
				Amount           *big.Int
				ExpirationHeight uint64
				Beneficiary      types.Address
			}
			if err := definition.ABIPlasma.UnpackVariable(&fv, "fusionInfo", val); err != nil {
				return err
			}
			e := fusionEntry{Amount: fv.Amount, ExpirationHeight: fv.ExpirationHeight, Beneficiary: fv.Beneficiary}
			copy(e.Owner[:], k[1:1+types.AddressSize])
			copy(e.Id[:], k[1+types.AddressSize:])
			out = append(out, e)
			return nil
		})
		return out, err
	}
	if t.Fusions, err = fusions(st(types.PlasmaContract)); err != nil {
		return nil, err
	}
	conf, err := fusions(ms.GetAccountStore(types.PlasmaContract).Storage())
	if err != nil {
		return nil, err
	}
	for _, f := range conf {
		if t.FusedConf[f.Beneficiary] == nil {
			t.FusedConf[f.Beneficiary] = new(big.Int)
		}
		t.FusedConf[f.Beneficiary].Add(t.FusedConf[f.Beneficiary], f.Amount)
	}
	t.ConfBalance = func(a types.Address, z types.ZenonTokenStandard) *big.Int {
		b, err := ms.GetAccountStore(a).GetBalance(z)
		if err != nil || b == nil {
			return new(big.Int)
		}
		return b
	}
	if t.Swap, err = definition.GetSwapAssets(st(types.SwapContract)); err != nil {
		return nil, err
	}
	toks, err := definition.GetTokenInfoList(st(types.TokenContract))
	if err != nil {
		return nil, err
	}
	for _, ti := range toks {
		t.Tokens[ti.TokenStandard] = ti
	}
	// hash time locks
	hs := st(types.HtlcContract)
	if err := scanRaw(hs, []byte{1}, func(k, val []byte) error {
		e := new(htlcEntry)
		if err := definition.ABIHtlc.UnpackVariable(e, "htlcInfo", val); err != nil {
			return err
		}
		if len(k) != 1+types.HashSize {
			return fmt.Errorf("htlc key of length %d", len(k))
		}
		copy(e.Id[:], k[1:])
		t.Htlcs[e.Id] = e
		return nil
	}); err != nil {
		return nil, err
	}
	if err := scanRaw(hs, []byte{2}, func(k, val []byte) error {
		var p struct{ Allowed bool }
		if err := definition.ABIHtlc.UnpackVariable(&p, "htlcProxyUnlockInfo", val); err != nil {
			return err
		}
		a, err := types.BytesToAddress(k[1:])
		if err != nil {
			return err
		}
		t.Proxy[a] = p.Allowed
		return nil
	}); err != nil {
		return nil, err
	}
	// accelerator
	as := st(types.AcceleratorContract)
	if t.Projects, err = definition.GetProjectList(as); err != nil {
		return nil, err
	}
	phasePrefix := (&definition.Phase{}).Key()[:1]
	if err := scanRaw(as, phasePrefix, func(k, val []byte) error {
		ph := new(definition.Phase)
		if err := definition.ABIAccelerator.UnpackVariable(ph, definition.PhaseVariableName, val); err != nil {
			return err
		}
		t.Phases[ph.Id] = ph
		return nil
	}); err != nil {
		return nil, err
	}
	if err := scanRaw(as, []byte{133}, func(k, val []byte) error {
		pv := new(definition.PillarVote)
		if err := definition.ABICommon.UnpackVariable(pv, definition.PillarVoteVariableName, val); err != nil {
			return err
		}
		t.Votes[pv.Id] = append(t.Votes[pv.Id], pv)
		return nil
	}); err != nil {
		return nil, err
	}
	// bridge
	bs := st(types.BridgeContract)
	if t.BridgeInfo, err = definition.GetBridgeInfoVariable(bs); err != nil {
		return nil, err
	}
	if t.Orchestrator, err = definition.GetOrchestratorInfoVariable(bs); err != nil {
		return nil, err
	}
	if t.BridgeSec, err = definition.GetSecurityInfoVariable(bs); err != nil {
		return nil, err
	}
	if t.Networks, err = definition.GetNetworkList(bs); err != nil {
		return nil, err
	}
	if t.Wraps, err = definition.GetWrapTokenRequests(bs); err != nil {
		return nil, err
	}
	if t.Unwraps, err = definition.GetUnwrapTokenRequests(bs); err != nil {
		return nil, err
	}
	if err := scanRaw(bs, definition.FeeTokenPairKeyPrefix, func(k, val []byte) error {
		var f struct{ AccumulatedFee *big.Int }
		if err := definition.ABIBridge.UnpackVariable(&f, "feeTokenPair", val); err != nil {
			return err
		}
		var z types.ZenonTokenStandard
		if err := z.SetBytes(k[1:]); err != nil {
			return err
		}
		t.Fees[z] = f.AccumulatedFee
		return nil
	}); err != nil {
		return nil, err
	}
	if t.BridgeTC, err = scanChallenges(bs); err != nil {
		return nil, err
	}
	// liquidity
	ls := st(types.LiquidityContract)
	if t.LiqInfo, err = definition.GetLiquidityInfo(ls); err != nil {
		return nil, err
	}
	if t.LiqSec, err = definition.GetSecurityInfoVariable(ls); err != nil {
		return nil, err
	}
	if t.LiqTC, err = scanChallenges(ls); err != nil {
		return nil, err
	}
	t.LiqStakes = definition.GetAllLiquidityStakeEntries(ls)
	// consensus
	front := n.Frontier()
	reader := n.Cons.FixedPillarReader(front.Identifier())
	t.Epoch = reader.EpochTicker().ToTick(*front.Timestamp)
	if t.Weights, err = reader.GetPillarWeights(); err != nil {
		return nil, err
	}
	t.Stats = map[string][2]uint64{}
	stats, err := reader.EpochStats(t.Epoch)
	if err != nil {
		return nil, err
	}
	if stats != nil {
		for name, s := range stats.Pillars {
			t.Stats[name] = [2]uint64{s.BlockNum, s.ExceptedBlockNum}
		}
	}
	return t, nil
}

// TestC18PointDump prints what the point worlds hold (diagnostic; runs only with C18_DUMP set).
func TestC18PointDump(t *testing.T) {
	if os.Getenv("C18_DUMP") == "" {
		t.Skip("diagnostic")
	}
	for i := 0; i < pointVariants; i++ {
		PointView(t, i)
	}
	for _, s := range PointScriptNotes {
		fmt.Fprintln(os.Stderr, "  script:", s)
	}
	for i := 0; i < bigVariants; i++ {
		v := BigView(t, i)
		fmt.Fprintf(os.Stderr, "C18: %s: %s\n", v.Name, scanTruth(v).Summary())
	}
}

// ---- comparing an answer with the expected value, field by field ------------------------------------------------------

type obj = map[string]interface{}

// emptyList stands for a list without elements, which the apis render as [] or as null depending on how the value
// was built; both say the same about the chain.
type emptyList struct{}

func (emptyList) MarshalJSON() ([]byte, error) { return []byte(`[]`), nil }

func decodeJSON(raw []byte) (interface{}, error) {
	dec := json.NewDecoder(bytes.NewReader(raw))
	dec.UseNumber()
	var v interface{}
	err := dec.Decode(&v)
	return v, err
}

func normalize(want interface{}) interface{} {
	raw, err := json.Marshal(want)
	if err != nil {
		panic(fmt.Sprintf("harness: expected value does not marshal: %v", err))
	}
	v, err := decodeJSON(raw)
	if err != nil {
		panic(err)
	}
	return v
}

func short(v interface{}) string {
	raw, _ := json.Marshal(v)
	return clip(raw)
}

// jsonDiff returns the path of the first difference and a description ("" if the values agree).
func jsonDiff(path string, got, want interface{}) (string, string) {
	if l, ok := want.([]interface{}); ok && len(l) == 0 && got == nil {
		return "", "" // empty list rendered as null
	}
	switch w := want.(type) {
	case map[string]interface{}:
		g, ok := got.(map[string]interface{})
		if !ok {
			return path, fmt.Sprintf("got %s, expected an object %s", short(got), short(want))
		}
		keys := make([]string, 0, len(w))
		for k := range w {
			keys = append(keys, k)
		}
		sort.Strings(keys)
		for _, k := range keys {
			gv, ok := g[k]
			if !ok {
				return path + "." + k, "field is missing"
			}
			if p, msg := jsonDiff(path+"."+k, gv, w[k]); msg != "" {
				return p, msg
			}
		}
		extra := make([]string, 0)
		for k := range g {
			if _, ok := w[k]; !ok {
				extra = append(extra, k)
			}
		}
		sort.Strings(extra)
		if len(extra) > 0 {
			return path + "." + extra[0], fmt.Sprintf("field the oracle does not know: %s", short(g[extra[0]]))
		}
		return "", ""
	case []interface{}:
		g, ok := got.([]interface{})
		if !ok {
			return path, fmt.Sprintf("got %s, expected a list of %d", short(got), len(w))
		}
		if len(g) != len(w) {
			return path, fmt.Sprintf("list of %d elements, the chain holds %d: got %s, expected %s", len(g), len(w), short(got), short(want))
		}
		for i := range w {
			if p, msg := jsonDiff(fmt.Sprintf("%s[%d]", path, i), g[i], w[i]); msg != "" {
				return p, msg
			}
		}
		return "", ""
	default:
		if !reflect.DeepEqual(got, want) {
			return path, fmt.Sprintf("got %s, the chain says %s", short(got), short(want))
		}
		return "", ""
	}
}

func topField(path string) string {
	path = strings.TrimPrefix(path, ".")
	if strings.HasPrefix(path, "[") {
		return "element"
	}
	for i, r := range path {
		if r == '.' || r == '[' {
			return path[:i]
		}
	}
	if path == "" {
		return "value"
	}
	return path
}

func pk(k Call, what string) string { return "C18/point/" + k.RPCName() + "/" + what }

// point performs the call (directly, and through the server if the case says so) and counts it.
func (e *Env) point(ns string, svc interface{}, method string, args ...interface{}) (Call, Answer) {
	k := Call{ns, svc, method, args}
	e.C.Class("m-" + k.RPCName())
	e.C.Note("%s on %s", k, e.V.Name)
	return k, e.Do(k)
}

// expect compares a successful answer with the expected value.
func (e *Env) expect(k Call, a Answer, want interface{}) {
	c := e.C
	if a.Err != "" {
		c.Failf(pk(k, "error"), "%s on %s failed (%s); the chain holds %s", k, e.V.Name, a.Err, short(want))
		return
	}
	got, err := decodeJSON(a.JSON)
	if err != nil {
		c.Failf(pk(k, "not-json"), "%s: answer is not JSON: %v: %s", k, err, clip(a.JSON))
		return
	}
	if path, msg := jsonDiff("", got, normalize(want)); msg != "" {
		c.Failf(pk(k, topField(path)), "%s on %s (frontier %d): %s: %s\n  answer:   %s\n  expected: %s", k, e.V.Name, e.V.Frontier, strings.TrimPrefix(path, "."), msg, clip(a.JSON), short(want))
	}
}

// expectErr: the documented answer for something the chain does not hold is this error.
func (e *Env) expectErr(k Call, a Answer, wantErr string, why string) {
	c := e.C
	c.Class("not-found " + k.RPCName())
	if a.Err == "" {
		c.Failf(pk(k, "answer-for-unknown"), "%s on %s answered %s; %s, the documented answer is the error %q", k, e.V.Name, clip(a.JSON), why, wantErr)
		return
	}
	if wantErr != "" && a.Err != wantErr {
		c.Failf(pk(k, "error-text"), "%s on %s failed with %q; %s, the documented answer is the error %q", k, e.V.Name, a.Err, why, wantErr)
	}
}

const errNonExistent = "data non existent"

func bigS(b *big.Int) string {
	if b == nil {
		return "0"
	}
	return b.String()
}

func strList(n int, f func(i int) string) interface{} {
	if n == 0 {
		return emptyList{}
	}
	out := make([]interface{}, n)
	for i := range out {
		out[i] = f(i)
	}
	return out
}

// ---- generators of arguments ----------------------------------------------------------------------------------------

// pick / weighted: like c.Pick / c.Weighted, but (nearly) uniform. rapid's integer ranges favour small values, which
// with thirty methods and dozens of entities per world would leave most of them to chance; the draw is six bytes
// that are mixed before they are reduced. (Replay is unaffected: the draw itself is recorded.)
func (e *Env) pick(label string, n int) int {
	if n <= 1 {
		return 0
	}
	x := uint64(0)
	for _, b := range e.C.Bytes(label, 6, 6) {
		x = x<<8 | uint64(b)
	}
	x += 0x9e3779b97f4a7c15
	x = (x ^ (x >> 30)) * 0xbf58476d1ce4e5b9
	x = (x ^ (x >> 27)) * 0x94d049bb133111eb
	x ^= x >> 31
	return int(x % uint64(n))
}

func (e *Env) weighted(label string, weights ...int) int {
	sum := 0
	for _, w := range weights {
		sum += w
	}
	x := e.pick(label, sum)
	for i, w := range weights {
		if x < w {
			return i
		}
		x -= w
	}
	return len(weights) - 1
}

// addrArg: an address of interest for the query (hot), another key of the ring, or anything (contracts, unknown, zero).
func (e *Env) addrArg(label string, hot []types.Address) types.Address {
	c := e.C
	switch e.weighted(label+".src", 6, 3, 3) {
	case 0:
		if len(hot) > 0 {
			c.Class("arg-address-with-state")
			return hot[e.pick(label+".hot", len(hot))]
		}
		fallthrough
	case 1:
		c.Class("arg-address-of-the-ring")
		return e.V.Users[e.pick(label+".user", len(e.V.Users))]
	default:
		return e.Addr(label + ".any")
	}
}

func sortedAddrs(m map[types.Address]bool) []types.Address {
	out := make([]types.Address, 0, len(m))
	for a := range m {
		out = append(out, a)
	}
	sort.Slice(out, func(i, j int) bool { return out[i].String() < out[j].String() })
	return out
}

// hashArg: an id the query knows (hot), an id of another kind of entity (cold), one that differs from a known id in
// one bit, or any hash (block, momentum, unknown, zero).
func (e *Env) hashArg(label string, hot, cold []types.Hash) types.Hash {
	c := e.C
	switch e.weighted(label+".src", 6, 2, 1, 2) {
	case 0:
		if len(hot) > 0 {
			c.Class("arg-id-existing")
			return hot[e.pick(label+".hot", len(hot))]
		}
		fallthrough
	case 1:
		if len(cold) > 0 {
			c.Class("arg-id-of-another-kind")
			return cold[e.pick(label+".cold", len(cold))]
		}
		fallthrough
	case 2:
		if len(hot) > 0 {
			c.Class("arg-id-one-bit-off")
			h := hot[e.pick(label+".near", len(hot))]
			h[e.pick(label+".byte", types.HashSize)] ^= 1 << uint(e.pick(label+".bit", 8))
			return h
		}
		fallthrough
	default:
		return e.Hash(label + ".any")
	}
}

func sortedHashes(in []types.Hash) []types.Hash {
	out := append([]types.Hash{}, in...)
	sort.Slice(out, func(i, j int) bool { return out[i].String() < out[j].String() })
	return out
}

// nameArg: a registered name, the same name in another case / with a blank / truncated, or an unknown one.
func (e *Env) nameArg(label string, names []string) string {
	c := e.C
	if len(names) == 0 {
		names = []string{"nobody"}
	}
	n := names[e.pick(label+".name", len(names))]
	switch e.weighted(label+".form", 8, 2, 2, 1, 1, 1, 1) {
	case 0:
		c.Class("arg-name-as-registered")
		return n
	case 1:
		c.Class("arg-name-other-case")
		return strings.ToUpper(n)
	case 2:
		c.Class("arg-name-other-case")
		return strings.ToLower(n)
	case 3:
		c.Class("arg-name-with-blank")
		return n + " "
	case 4:
		c.Class("arg-name-truncated")
		if len(n) > 1 {
			return n[:len(n)-1]
		}
		return ""
	case 5:
		c.Class("arg-name-empty")
		return ""
	default:
		c.Class("arg-name-unknown")
		return fmt.Sprintf("no-such-name-%d", c.Int(label+".unknown", 0, 99))
	}
}

// ---- expected objects --------------------------------------------------------------------------------------------------

func tokenObj(ti *definition.TokenInfo) interface{} {
	if ti == nil {
		return nil
	}
	return obj{"name": ti.TokenName, "symbol": ti.TokenSymbol, "domain": ti.TokenDomain, "totalSupply": bigS(ti.TotalSupply), "decimals": ti.Decimals, "owner": ti.Owner.String(),
		"tokenStandard": ti.TokenStandard.String(), "maxSupply": bigS(ti.MaxSupply), "isBurnable": ti.IsBurnable, "isMintable": ti.IsMintable, "isUtility": ti.IsUtility}
}

func rewardObj(a types.Address, r amounts) obj {
	return obj{"address": a.String(), "znnAmount": bigS(r.Znn), "qsrAmount": bigS(r.Qsr)}
}

func (t *Truth) breakdown(id types.Hash) obj {
	var yes, no uint32
	for _, v := range t.Votes[id] {
		switch v.Vote {
		case definition.VoteYes:
			yes++
		case definition.VoteNo:
			no++
		}
	}
	return obj{"id": id.String(), "total": len(t.Votes[id]), "yes": yes, "no": no}
}

func phaseObj(ph *definition.Phase) obj {
	return obj{"id": ph.Id.String(), "projectID": ph.ProjectId.String(), "name": ph.Name, "description": ph.Description, "url": ph.Url, "znnFundsNeeded": bigS(ph.ZnnFundsNeeded),
		"qsrFundsNeeded": bigS(ph.QsrFundsNeeded), "creationTimestamp": ph.CreationTimestamp, "acceptedTimestamp": ph.AcceptedTimestamp, "status": ph.Status}
}

func (t *Truth) phaseWithVotes(id types.Hash) interface{} {
	ph := t.Phases[id]
	if ph == nil {
		return nil
	}
	return obj{"phase": phaseObj(ph), "votes": t.breakdown(id)}
}

func (t *Truth) projectObj(p *definition.Project) obj {
	phases := make([]interface{}, len(p.PhaseIds))
	for i, id := range p.PhaseIds {
		phases[i] = t.phaseWithVotes(id)
	}
	var phaseList interface{} = phases
	if len(phases) == 0 {
		phaseList = emptyList{}
	}
	return obj{"id": p.Id.String(), "owner": p.Owner.String(), "name": p.Name, "description": p.Description, "url": p.Url, "znnFundsNeeded": bigS(p.ZnnFundsNeeded),
		"qsrFundsNeeded": bigS(p.QsrFundsNeeded), "creationTimestamp": p.CreationTimestamp, "lastUpdateTimestamp": p.LastUpdateTimestamp, "status": p.Status,
		"phaseIds": strList(len(p.PhaseIds), func(i int) string { return p.PhaseIds[i].String() }), "votes": t.breakdown(p.Id), "phases": phaseList}
}

func (t *Truth) project(id types.Hash) *definition.Project {
	for _, p := range t.Projects {
		if p.Id == id {
			return p
		}
	}
	return nil
}

func pairObj(p *definition.TokenPair) obj {
	return obj{"tokenStandard": p.TokenStandard.String(), "tokenAddress": p.TokenAddress, "bridgeable": p.Bridgeable, "redeemable": p.Redeemable, "owned": p.Owned, "minAmount": bigS(p.MinAmount),
		"feePercentage": p.FeePercentage, "redeemDelay": p.RedeemDelay, "metadata": p.Metadata}
}

func networkObj(n *definition.NetworkInfo) obj {
	var pairs interface{} = emptyList{}
	if len(n.TokenPairs) > 0 {
		l := make([]interface{}, len(n.TokenPairs))
		for i := range n.TokenPairs {
			l[i] = pairObj(&n.TokenPairs[i])
		}
		pairs = l
	}
	return obj{"networkClass": n.NetworkClass, "chainId": n.Id, "name": n.Name, "contractAddress": n.ContractAddress, "metadata": n.Metadata, "tokenPairs": pairs}
}

func (t *Truth) network(class, chain uint32) *definition.NetworkInfo {
	for _, n := range t.Networks {
		if n.NetworkClass == class && n.Id == chain {
			return n
		}
	}
	return nil
}

func securityObj(s *definition.SecurityInfoVariable) obj {
	return obj{"guardians": strList(len(s.Guardians), func(i int) string { return s.Guardians[i].String() }),
		"guardiansVotes":     strList(len(s.GuardiansVotes), func(i int) string { return s.GuardiansVotes[i].String() }),
		"administratorDelay": s.AdministratorDelay, "softDelay": s.SoftDelay}
}

// remaining: how many momentums are still missing until start+delay, seen from the frontier (never negative).
func remaining(start, delay, frontier uint64) uint64 {
	if frontier >= start && frontier-start >= delay {
		return 0
	}
	return start + delay - frontier
}

func (t *Truth) wrapObj(w *definition.WrapTokenRequest) obj {
	return obj{"networkClass": w.NetworkClass, "chainId": w.ChainId, "id": w.Id.String(), "toAddress": w.ToAddress, "tokenStandard": w.TokenStandard.String(), "tokenAddress": w.TokenAddress,
		"amount": bigS(w.Amount), "fee": bigS(w.Fee), "signature": w.Signature, "creationMomentumHeight": w.CreationMomentumHeight, "token": tokenObj(t.Tokens[w.TokenStandard]),
		"confirmationsToFinality": remaining(w.CreationMomentumHeight, uint64(t.Orchestrator.ConfirmationsToFinality), t.V.Frontier)}
}

func (t *Truth) wrap(id types.Hash) *definition.WrapTokenRequest {
	for _, w := range t.Wraps {
		if w.Id == id {
			return w
		}
	}
	return nil
}

// pairOf: the token pair an unwrap request refers to (its network must exist and hold a pair with that foreign token
// address, or whose token standard is spelled there); nil if the administrator has removed it since.
func (t *Truth) pairOf(u *definition.UnwrapTokenRequest) *definition.TokenPair {
	n := t.network(u.NetworkClass, u.ChainId)
	if n == nil || n.Name == "" {
		return nil
	}
	for i := range n.TokenPairs {
		if n.TokenPairs[i].TokenAddress == u.TokenAddress || n.TokenPairs[i].TokenStandard.String() == u.TokenAddress {
			return &n.TokenPairs[i]
		}
	}
	return nil
}

func (t *Truth) unwrapObj(u *definition.UnwrapTokenRequest, pair *definition.TokenPair) obj {
	return obj{"registrationMomentumHeight": u.RegistrationMomentumHeight, "networkClass": u.NetworkClass, "chainId": u.ChainId, "transactionHash": u.TransactionHash.String(), "logIndex": u.LogIndex,
		"toAddress": u.ToAddress.String(), "tokenAddress": u.TokenAddress, "tokenStandard": u.TokenStandard.String(), "amount": bigS(u.Amount), "signature": u.Signature, "redeemed": u.Redeemed,
		"revoked": u.Revoked, "token": tokenObj(t.Tokens[u.TokenStandard]), "redeemableIn": remaining(u.RegistrationMomentumHeight, uint64(pair.RedeemDelay), t.V.Frontier)}
}

func (t *Truth) unwrap(h types.Hash, log uint32) *definition.UnwrapTokenRequest {
	for _, u := range t.Unwraps {
		if u.TransactionHash == h && u.LogIndex == log {
			return u
		}
	}
	return nil
}

// window: the lock / revoke cycle of pillars and sentinels. After registration the entry is locked for `lock`
// seconds, then revocable for `open` seconds, and so on; the answer says which and for how much longer.
func window(now, registration, lock, open int64) (revocable bool, cooldown int64) {
	pos := (now - registration) % (lock + open)
	if pos < lock {
		return false, lock - pos
	}
	return true, lock + open - pos
}

func (t *Truth) now() int64 { return int64(t.V.Momentums[len(t.V.Momentums)-1].TimestampUnix) }

// ranked: the active pillars in the documented order (weight descending, name ascending).
func (t *Truth) ranked() []*definition.PillarInfo {
	var l []*definition.PillarInfo
	for _, p := range t.Pillars {
		if p.RevokeTime == 0 {
			l = append(l, p)
		}
	}
	sort.SliceStable(l, func(i, j int) bool {
		if r := t.weight(l[i].Name).Cmp(t.weight(l[j].Name)); r != 0 {
			return r > 0
		}
		return l[i].Name < l[j].Name
	})
	return l
}

func (t *Truth) weight(name string) *big.Int {
	if w := t.Weights[name]; w != nil {
		return w
	}
	return new(big.Int)
}

func (t *Truth) pillarObj(p *definition.PillarInfo, rank int) obj {
	revocable, cooldown := window(t.now(), p.RegistrationTime, constants.PillarEpochLockTime, constants.PillarEpochRevokeTime)
	return obj{"name": p.Name, "rank": rank, "type": p.PillarType, "ownerAddress": p.StakeAddress.String(), "producerAddress": p.BlockProducingAddress.String(),
		"withdrawAddress": p.RewardWithdrawAddress.String(), "isRevocable": revocable, "revokeCooldown": cooldown, "revokeTimestamp": p.RevokeTime,
		"giveMomentumRewardPercentage": p.GiveBlockRewardPercentage, "giveDelegateRewardPercentage": p.GiveDelegateRewardPercentage,
		"currentStats": obj{"producedMomentums": t.Stats[p.Name][0], "expectedMomentums": t.Stats[p.Name][1]}, "weight": t.weight(p.Name).String()}
}

func htlcObj(h *htlcEntry) obj {
	return obj{"id": h.Id.String(), "timeLocked": h.TimeLocked.String(), "hashLocked": h.HashLocked.String(), "tokenStandard": h.TokenStandard.String(), "amount": bigS(h.Amount),
		"expirationTime": h.ExpirationTime, "hashType": h.HashType, "keyMaxSize": h.KeyMaxSize, "hashLock": base64Std(h.HashLock)}
}

// swapShare: the percentage of the legacy assets still retrievable in `epoch` (10% are lost per 30 epochs once 90
// epochs have passed).
func swapShare(epoch uint64) int64 {
	if int64(epoch) < int64(constants.SwapAssetDecayEpochsOffset) {
		return 100
	}
	lost := int64(constants.SwapAssetDecayTickValuePercentage) * ((int64(epoch) - int64(constants.SwapAssetDecayEpochsOffset) + 1) / int64(constants.SwapAssetDecayTickEpochs))
	if lost > 100 {
		return 0
	}
	return 100 - lost
}

func share(x *big.Int, pct int64) string {
	v := new(big.Int).Mul(x, big.NewInt(pct))
	return v.Quo(v, big.NewInt(100)).String()
}

func fusedToPlasma(amount *big.Int) uint64 {
	if amount == nil || amount.Sign() <= 0 {
		return 0
	}
	if amount.Cmp(constants.MaxFussedAmountForAccountBig) >= 0 {
		return constants.MaxFusionPlasmaForAccount
	}
	return amount.Uint64() / constants.CostPerFusionUnit * constants.PlasmaPerFusionUnit
}

// plasmaOf: plasma the fused QSR of the account yields at the confirmed frontier, and what is left of it once the
// account's unconfirmed blocks are paid (ok=false: they use more than there is).
func (t *Truth) plasmaOf(a types.Address) (fused *big.Int, max uint64, current uint64, ok bool) {
	fused = t.FusedConf[a]
	if fused == nil {
		fused = new(big.Int)
	}
	max = fusedToPlasma(fused)
	used := uint64(0)
	for _, b := range t.V.PooledOf(a) {
		used += b.FusedPlasma
	}
	if used > max {
		return fused, max, 0, false
	}
	return fused, max, max - used, true
}

// ---- the checks ---------------------------------------------------------------------------------------------------------

type pointMethod struct {
	name string
	w    int
	run  func(e *Env, t *Truth)
}

// seen marks the case as non-trivial: it asked about an entity the chain holds with non-default content.
func (e *Env) seen(k Call, class string) {
	e.C.NonTrivial()
	e.C.NonTrivialItem(k.RPCName())
	if class != "" {
		e.C.Class(class)
	}
}

func (t *Truth) ids() (projects, phases, htlcs, wraps, unwrapTx []types.Hash) {
	for _, p := range t.Projects {
		projects = append(projects, p.Id)
	}
	for id := range t.Phases {
		phases = append(phases, id)
	}
	for id := range t.Htlcs {
		htlcs = append(htlcs, id)
	}
	for _, w := range t.Wraps {
		wraps = append(wraps, w.Id)
	}
	seen := map[types.Hash]bool{}
	for _, u := range t.Unwraps {
		if !seen[u.TransactionHash] {
			seen[u.TransactionHash] = true
			unwrapTx = append(unwrapTx, u.TransactionHash)
		}
	}
	return sortedHashes(projects), sortedHashes(phases), sortedHashes(htlcs), sortedHashes(wraps), sortedHashes(unwrapTx)
}

func joinHashes(ls ...[]types.Hash) []types.Hash {
	var out []types.Hash
	for _, l := range ls {
		out = append(out, l...)
	}
	return out
}

// -- accelerator

// creatingCall decodes the accelerator call whose send block has the hash id (projects and phases are named after it).
func (e *Env) creatingCall(id types.Hash, method string) (*nom.AccountBlock, *definition.AcceleratorParam) {
	b := e.V.ByHash[id]
	if b == nil || b.ToAddress != types.AcceleratorContract || !b.IsSendBlock() {
		return nil, nil
	}
	param := new(definition.AcceleratorParam)
	if err := definition.ABIAccelerator.UnpackMethod(param, method, b.Data); err != nil {
		return b, nil
	}
	return b, param
}

func pProjectById(e *Env, t *Truth) {
	c, v := e.C, e.V
	projects, phases, htlcs, wraps, _ := t.ids()
	for _, p := range t.Projects {
		if len(p.PhaseIds) > 0 {
			projects = append(projects, p.Id, p.Id) // drawn more often
		}
	}
	id := e.hashArg("proj.id", projects, joinHashes(phases, htlcs, wraps))
	k, a := e.point("embedded.accelerator", v.Apis.Accelerator, "GetProjectById", id)
	p := t.project(id)
	if p == nil {
		e.expectErr(k, a, errNonExistent, "no project has that id")
		return
	}
	e.expect(k, a, t.projectObj(p))
	e.seen(k, "")
	if len(p.PhaseIds) > 0 {
		c.Class("project-with-phases")
	}
	if len(t.Votes[p.Id]) > 0 {
		c.Class("project-with-votes")
	}
	c.Class(fmt.Sprintf("project-status-%d", p.Status))
	// the project is named after the block that created it
	var got struct {
		Owner          types.Address `json:"owner"`
		Name           string        `json:"name"`
		Description    string        `json:"description"`
		Url            string        `json:"url"`
		ZnnFundsNeeded string        `json:"znnFundsNeeded"`
		QsrFundsNeeded string        `json:"qsrFundsNeeded"`
	}
	_ = json.Unmarshal(a.JSON, &got)
	if b, param := e.creatingCall(id, definition.CreateProjectMethodName); b == nil || param == nil {
		c.Failf(pk(k, "creating-block"), "%s: the project id is not the hash of a CreateProject call on any account chain", k)
	} else if got.Owner != b.Address || got.Name != param.Name || got.Description != param.Description || got.Url != param.Url || got.ZnnFundsNeeded != bigS(param.ZnnFundsNeeded) || got.QsrFundsNeeded != bigS(param.QsrFundsNeeded) {
		c.Failf(pk(k, "creating-block"), "%s answers %+v, the creating call of %v says name %q description %q url %q funds %v / %v", k, got, b.Address, param.Name, param.Description, param.Url, param.ZnnFundsNeeded, param.QsrFundsNeeded)
	}
}

func pPhaseById(e *Env, t *Truth) {
	c, v := e.C, e.V
	projects, phases, htlcs, _, _ := t.ids()
	id := e.hashArg("phase.id", phases, joinHashes(projects, htlcs))
	k, a := e.point("embedded.accelerator", v.Apis.Accelerator, "GetPhaseById", id)
	ph := t.Phases[id]
	if ph == nil {
		e.expectErr(k, a, errNonExistent, "no phase has that id")
		return
	}
	e.expect(k, a, t.phaseWithVotes(id))
	e.seen(k, "")
	if len(t.Votes[id]) > 0 {
		c.Class("phase-with-votes")
	}
	c.Class(fmt.Sprintf("phase-status-%d", ph.Status))
	var got struct {
		Phase struct {
			ProjectId      types.Hash `json:"projectID"`
			Name           string     `json:"name"`
			ZnnFundsNeeded string     `json:"znnFundsNeeded"`
			QsrFundsNeeded string     `json:"qsrFundsNeeded"`
		} `json:"phase"`
	}
	_ = json.Unmarshal(a.JSON, &got)
	b, param := e.creatingCall(id, definition.AddPhaseMethodName)
	if param == nil {
		b, param = e.creatingCall(id, definition.UpdatePhaseMethodName)
	}
	if b == nil || param == nil {
		c.Failf(pk(k, "creating-block"), "%s: the phase id is not the hash of an AddPhase / UpdatePhase call on any account chain", k)
	} else if got.Phase.ProjectId != param.Id || got.Phase.Name != param.Name || got.Phase.ZnnFundsNeeded != bigS(param.ZnnFundsNeeded) || got.Phase.QsrFundsNeeded != bigS(param.QsrFundsNeeded) {
		c.Failf(pk(k, "creating-block"), "%s answers %+v, the creating call says project %v name %q funds %v / %v", k, got.Phase, param.Id, param.Name, param.ZnnFundsNeeded, param.QsrFundsNeeded)
	}
	if pr := t.project(ph.ProjectId); pr == nil {
		c.Class("phase-of-no-project")
	}
}

func pVoteBreakdown(e *Env, t *Truth) {
	c, v := e.C, e.V
	projects, phases, htlcs, _, _ := t.ids()
	var voted []types.Hash
	for id := range t.Votes {
		voted = append(voted, id)
	}
	id := e.hashArg("vb.id", joinHashes(sortedHashes(voted), projects, phases), htlcs)
	k, a := e.point("embedded.accelerator", v.Apis.Accelerator, "GetVoteBreakdown", id)
	e.expect(k, a, t.breakdown(id))
	if n := len(t.Votes[id]); n > 0 {
		e.seen(k, "")
		if bd := t.breakdown(id); bd["yes"].(uint32) > 0 && bd["no"].(uint32) > 0 {
			c.Class("breakdown-with-yes-and-no")
		}
		if bd := t.breakdown(id); int(bd["yes"].(uint32)+bd["no"].(uint32)) < n {
			c.Class("breakdown-with-abstention")
		}
	} else {
		c.Class("not-found " + k.RPCName())
	}
}

func (t *Truth) pillarNames() []string {
	set := map[string]bool{}
	for _, p := range t.Pillars {
		set[p.Name] = true
	}
	for _, l := range t.Votes {
		for _, v := range l {
			set[v.Name] = true
		}
	}
	for _, n := range t.Delegations {
		set[n] = true
	}
	out := make([]string, 0, len(set))
	for n := range set {
		out = append(out, n)
	}
	sort.Strings(out)
	return out
}

func pPillarVotes(e *Env, t *Truth) {
	c, v := e.C, e.V
	projects, phases, htlcs, _, _ := t.ids()
	var voted []types.Hash
	for id := range t.Votes {
		voted = append(voted, id)
	}
	voted = sortedHashes(voted)
	name := e.nameArg("pv.name", t.pillarNames())
	n := c.Int("pv.n", 0, 5)
	hashes := make([]types.Hash, n)
	for i := range hashes {
		hashes[i] = e.hashArg(fmt.Sprintf("pv.id%d", i), joinHashes(voted, voted, projects, phases), htlcs)
	}
	k, a := e.point("embedded.accelerator", v.Apis.Accelerator, "GetPillarVotes", name, hashes)
	want := make([]interface{}, n)
	hits := 0
	for i, id := range hashes {
		for _, pv := range t.Votes[id] {
			if pv.Name == name {
				want[i] = obj{"id": id.String(), "name": pv.Name, "vote": pv.Vote}
				hits++
			}
		}
	}
	if n == 0 {
		e.expect(k, a, emptyList{})
		return
	}
	e.expect(k, a, want)
	if hits > 0 {
		e.seen(k, "")
		if hits < n {
			c.Class("pillar-votes-some-missing")
		}
	} else {
		c.Class("not-found " + k.RPCName())
	}
}

// -- bridge

func pBridgeInfo(e *Env, t *Truth) {
	b := t.BridgeInfo
	k, a := e.point("embedded.bridge", e.V.Apis.Bridge, "GetBridgeInfo")
	e.expect(k, a, obj{"administrator": b.Administrator.String(), "compressedTssECDSAPubKey": b.CompressedTssECDSAPubKey, "decompressedTssECDSAPubKey": b.DecompressedTssECDSAPubKey,
		"allowKeyGen": b.AllowKeyGen, "halted": b.Halted, "unhaltedAt": b.UnhaltedAt, "unhaltDurationInMomentums": b.UnhaltDurationInMomentums, "tssNonce": b.TssNonce, "metadata": b.Metadata})
	if b.CompressedTssECDSAPubKey != "" {
		e.seen(k, "")
	}
}

func pOrchestratorInfo(e *Env, t *Truth) {
	o := t.Orchestrator
	k, a := e.point("embedded.bridge", e.V.Apis.Bridge, "GetOrchestratorInfo")
	e.expect(k, a, obj{"windowSize": o.WindowSize, "keyGenThreshold": o.KeyGenThreshold, "confirmationsToFinality": o.ConfirmationsToFinality, "estimatedMomentumTime": o.EstimatedMomentumTime,
		"allowKeyGenHeight": o.AllowKeyGenHeight})
	if o.WindowSize != 0 {
		e.seen(k, "")
	}
}

func pSecurityInfo(e *Env, t *Truth) {
	ns, svc, sec, other := "embedded.bridge", interface{}(e.V.Apis.Bridge), t.BridgeSec, t.LiqSec
	if e.C.Bool("sec.liquidity") {
		ns, svc, sec, other = "embedded.liquidity", e.V.Apis.Liquidity, t.LiqSec, t.BridgeSec
	}
	k, a := e.point(ns, svc, "GetSecurityInfo")
	e.expect(k, a, securityObj(sec))
	if len(sec.Guardians) > 0 {
		e.seen(k, "")
		if !reflect.DeepEqual(sec.Guardians, other.Guardians) {
			e.C.Class("security-info-differs-between-bridge-and-liquidity")
		}
	}
}

func pTimeChallenges(e *Env, t *Truth) {
	c := e.C
	ns, svc, tcs := "embedded.bridge", interface{}(e.V.Apis.Bridge), t.BridgeTC
	if c.Bool("tc.liquidity") {
		ns, svc, tcs = "embedded.liquidity", e.V.Apis.Liquidity, t.LiqTC
	}
	k, a := e.point(ns, svc, "GetTimeChallengesInfo")
	if a.Err != "" {
		c.Failf(pk(k, "error"), "%s failed: %s", k, a.Err)
		return
	}
	// the order of the challenges is not documented: compared by method name
	var got struct {
		Count int                      `json:"count"`
		List  []map[string]interface{} `json:"list"`
	}
	dec := json.NewDecoder(bytes.NewReader(a.JSON))
	dec.UseNumber()
	if err := dec.Decode(&got); err != nil {
		c.Failf(pk(k, "not-json"), "%s: %v: %s", k, err, clip(a.JSON))
	}
	names := make([]string, 0, len(tcs))
	for n := range tcs {
		names = append(names, n)
	}
	sort.Strings(names)
	if got.Count != len(tcs) || len(got.List) != len(tcs) {
		c.Failf(pk(k, "count"), "%s: count %d with %d entries, the contract storage holds %d challenges %v: %s", k, got.Count, len(got.List), len(tcs), names, clip(a.JSON))
	}
	sort.SliceStable(got.List, func(i, j int) bool {
		return fmt.Sprint(got.List[i]["MethodName"]) < fmt.Sprint(got.List[j]["MethodName"])
	})
	pending := false
	for i, n := range names {
		tc := tcs[n]
		want := obj{"MethodName": tc.MethodName, "ParamsHash": tc.ParamsHash.String(), "ChallengeStartHeight": tc.ChallengeStartHeight}
		if path, msg := jsonDiff("", interface{}(got.List[i]), normalize(want)); msg != "" {
			c.Failf(pk(k, topField(path)), "%s: challenge of %s: %s: %s: %s", k, n, path, msg, clip(a.JSON))
		}
		if !tc.ParamsHash.IsZero() {
			pending = true
		}
	}
	if len(tcs) > 0 {
		e.seen(k, "")
	}
	if pending {
		c.Class("time-challenge-pending")
	}
}

func pNetworkInfo(e *Env, t *Truth) {
	c := e.C
	class, chain := uint32(2), uint32(123)
	switch e.weighted("net.kind", 6, 3, 1, 1) {
	case 0:
		if len(t.Networks) > 0 {
			n := t.Networks[e.pick("net.idx", len(t.Networks))]
			class, chain = n.NetworkClass, n.Id
		}
	case 1:
		class, chain = uint32(c.Int("net.class", 0, 3)), uint32(c.Int("net.chain", 121, 126))
	case 2:
		if len(t.Networks) > 0 {
			n := t.Networks[e.pick("net.idx", len(t.Networks))]
			class, chain = n.Id, n.NetworkClass
		}
	default:
		class, chain = u32Bounds[e.pick("net.bclass", len(u32Bounds))], u32Bounds[e.pick("net.bchain", len(u32Bounds))]
	}
	k, a := e.point("embedded.bridge", e.V.Apis.Bridge, "GetNetworkInfo", class, chain)
	n := t.network(class, chain)
	if n == nil {
		c.Class("not-found " + k.RPCName())
		e.expect(k, a, obj{"networkClass": 0, "chainId": 0, "name": "", "contractAddress": "", "metadata": "{}", "tokenPairs": emptyList{}})
		return
	}
	e.expect(k, a, networkObj(n))
	e.seen(k, "")
	if len(n.TokenPairs) > 0 {
		c.Class("network-with-token-pairs")
	}
}

func pWrapById(e *Env, t *Truth) {
	c, v := e.C, e.V
	projects, _, htlcs, wraps, unwrapTx := t.ids()
	id := e.hashArg("wrap.id", wraps, joinHashes(unwrapTx, projects, htlcs))
	k, a := e.point("embedded.bridge", v.Apis.Bridge, "GetWrapTokenRequestById", id)
	w := t.wrap(id)
	if w == nil {
		e.expectErr(k, a, errNonExistent, "no wrap request has that id")
		return
	}
	want := t.wrapObj(w)
	e.expect(k, a, want)
	e.seen(k, "")
	if want["confirmationsToFinality"].(uint64) > 0 {
		c.Class("wrap-request-not-yet-final")
	} else {
		c.Class("wrap-request-final")
	}
	if w.Signature != "" {
		c.Class("wrap-request-signed")
	}
	// the request is named after the send block that filed it
	b := v.ByHash[id]
	param := new(definition.WrapTokenParam)
	if b == nil || b.ToAddress != types.BridgeContract || definition.ABIBridge.UnpackMethod(param, definition.WrapTokenMethodName, b.Data) != nil {
		c.Failf(pk(k, "creating-block"), "%s: the request id is not the hash of a WrapToken call on any account chain", k)
		return
	}
	if w.Amount.Cmp(b.Amount) != 0 || w.Fee.Cmp(w.Amount) > 0 || w.TokenStandard != b.TokenStandard || w.NetworkClass != param.NetworkClass || w.ChainId != param.ChainId ||
		!strings.EqualFold(w.ToAddress, param.ToAddress) {
		c.Failf(pk(k, "creating-block"), "%s answers %s; the filing block sent %v %v to network %d/%d for %s", k, clip(a.JSON), b.Amount, b.TokenStandard, param.NetworkClass, param.ChainId, param.ToAddress)
	}
}

func pUnwrapByHashAndLog(e *Env, t *Truth) {
	c, v := e.C, e.V
	_, _, htlcs, wraps, unwrapTx := t.ids()
	var h types.Hash
	var log uint32
	switch e.weighted("unwrap.kind", 6, 3, 2) {
	case 0:
		if len(t.Unwraps) > 0 {
			u := t.Unwraps[e.pick("unwrap.idx", len(t.Unwraps))]
			h, log = u.TransactionHash, u.LogIndex
			c.Class("arg-id-existing")
			break
		}
		fallthrough
	case 1:
		// a transaction hash the bridge knows with a log index it may not know under that hash
		if len(t.Unwraps) > 0 {
			u := t.Unwraps[e.pick("unwrap.idx", len(t.Unwraps))]
			h = u.TransactionHash
			switch e.weighted("unwrap.log", 3, 2, 1) {
			case 0:
				log = uint32(int64(u.LogIndex) + int64(c.Int("unwrap.delta", -2, 2)))
			case 1:
				log = t.Unwraps[e.pick("unwrap.otherLog", len(t.Unwraps))].LogIndex
			default:
				log = u32Bounds[e.pick("unwrap.blog", len(u32Bounds))]
			}
			c.Class("arg-known-hash-other-log-index")
			break
		}
		fallthrough
	default:
		h = e.hashArg("unwrap.hash", unwrapTx, joinHashes(wraps, htlcs))
		log = uint32(c.Int("unwrap.anylog", 0, 20))
	}
	k, a := e.point("embedded.bridge", v.Apis.Bridge, "GetUnwrapTokenRequestByHashAndLog", h, log)
	u := t.unwrap(h, log)
	if u == nil {
		e.expectErr(k, a, errNonExistent, "no unwrap request has that transaction hash and log index")
		return
	}
	pair := t.pairOf(u)
	if pair == nil {
		c.Class("unwrap-request-whose-token-pair-is-gone")
		if a.Err == "" {
			c.Failf(pk(k, "redeemableIn"), "%s answered %s, but network %d/%d holds no pair for %s any more: there is no redeem delay to count from", k, clip(a.JSON), u.NetworkClass, u.ChainId, u.TokenAddress)
		}
		return
	}
	want := t.unwrapObj(u, pair)
	e.expect(k, a, want)
	e.seen(k, "")
	switch {
	case u.Redeemed != 0:
		c.Class("unwrap-request-redeemed")
	case u.Revoked != 0:
		c.Class("unwrap-request-revoked")
	case want["redeemableIn"].(uint64) > 0:
		c.Class("unwrap-request-not-yet-redeemable")
	default:
		c.Class("unwrap-request-redeemable")
	}
}

func (e *Env) ztsArg(label string, t *Truth, hot []types.ZenonTokenStandard) types.ZenonTokenStandard {
	c := e.C
	switch e.weighted(label+".src", 5, 4, 2, 1) {
	case 0:
		if len(hot) > 0 {
			c.Class("arg-token-with-state")
			return hot[e.pick(label+".hot", len(hot))]
		}
		fallthrough
	case 1:
		all := make([]types.ZenonTokenStandard, 0, len(t.Tokens))
		for z := range t.Tokens {
			all = append(all, z)
		}
		sort.Slice(all, func(i, j int) bool { return all[i].String() < all[j].String() })
		c.Class("arg-token-known")
		return all[e.pick(label+".known", len(all))]
	case 2:
		c.Class("arg-token-unknown")
		var z types.ZenonTokenStandard
		copy(z[:], c.Bytes(label+".raw", types.ZenonTokenStandardSize, types.ZenonTokenStandardSize))
		return z
	default:
		c.Class("arg-token-zero")
		return types.ZeroTokenStandard
	}
}

func pFeeTokenPair(e *Env, t *Truth) {
	var hot []types.ZenonTokenStandard
	for z := range t.Fees {
		hot = append(hot, z)
	}
	sort.Slice(hot, func(i, j int) bool { return hot[i].String() < hot[j].String() })
	z := e.ztsArg("fee.zts", t, hot)
	k, a := e.point("embedded.bridge", e.V.Apis.Bridge, "GetFeeTokenPair", z)
	e.expect(k, a, obj{"tokenStandard": z.String(), "accumulatedFee": bigS(t.Fees[z])})
	if f := t.Fees[z]; f != nil && f.Sign() > 0 {
		e.seen(k, "")
	} else {
		e.C.Class("not-found " + k.RPCName())
	}
}

// pBridgeLists: the content of the elements the list methods serve (which elements a page holds is the paging
// check's business): every element must be the request of that id with its derived fields.
func pBridgeLists(e *Env, t *Truth) {
	c, v := e.C, e.V
	idx, size := uint32(c.Int("bl.index", 0, 3)), uint32(c.Int("bl.size", 1, 12))
	dest := ""
	if len(t.Wraps) > 0 && c.Bool("bl.dest") {
		dest = t.Wraps[e.pick("bl.destOf", len(t.Wraps))].ToAddress
	}
	kind := e.pick("bl.method", 6)
	var k Call
	var a Answer
	switch kind {
	case 0:
		k, a = e.point("embedded.bridge", v.Apis.Bridge, "GetAllWrapTokenRequests", idx, size)
	case 1:
		k, a = e.point("embedded.bridge", v.Apis.Bridge, "GetAllUnsignedWrapTokenRequests", idx, size)
	case 2:
		k, a = e.point("embedded.bridge", v.Apis.Bridge, "GetAllWrapTokenRequestsByToAddress", dest, idx, size)
	case 3:
		k, a = e.point("embedded.bridge", v.Apis.Bridge, "GetAllWrapTokenRequestsByToAddressNetworkClassAndChainId", dest, uint32(2), uint32(c.Int("bl.chain", 123, 124)), idx, size)
	case 4:
		k, a = e.point("embedded.bridge", v.Apis.Bridge, "GetAllUnwrapTokenRequests", idx, size)
	default:
		to := ""
		if len(t.Unwraps) > 0 && c.Bool("bl.to") {
			to = t.Unwraps[e.pick("bl.toOf", len(t.Unwraps))].ToAddress.String()
		}
		k, a = e.point("embedded.bridge", v.Apis.Bridge, "GetAllUnwrapTokenRequestsByToAddress", to, idx, size)
	}
	if a.Err != "" {
		if kind >= 4 {
			for _, u := range t.Unwraps {
				if t.pairOf(u) == nil {
					c.Class("unwrap-request-whose-token-pair-is-gone")
					return
				}
			}
		}
		c.Failf(pk(k, "error"), "%s failed: %s", k, a.Err)
		return
	}
	var got struct {
		List []json.RawMessage `json:"list"`
	}
	if err := json.Unmarshal(a.JSON, &got); err != nil {
		c.Failf(pk(k, "not-json"), "%s: %v: %s", k, err, clip(a.JSON))
	}
	for i, raw := range got.List {
		el, err := decodeJSON(raw)
		if err != nil {
			c.Failf(pk(k, "not-json"), "%s: element %d: %v", k, i, err)
		}
		var want obj
		if kind < 4 {
			var id struct {
				Id types.Hash `json:"id"`
			}
			_ = json.Unmarshal(raw, &id)
			w := t.wrap(id.Id)
			if w == nil {
				c.Failf(pk(k, "phantom"), "%s: element %d (%s) is no wrap request of the contract storage", k, i, clip(raw))
			}
			want = t.wrapObj(w)
		} else {
			var id struct {
				Hash types.Hash `json:"transactionHash"`
				Log  uint32     `json:"logIndex"`
			}
			_ = json.Unmarshal(raw, &id)
			u := t.unwrap(id.Hash, id.Log)
			if u == nil {
				c.Failf(pk(k, "phantom"), "%s: element %d (%s) is no unwrap request of the contract storage", k, i, clip(raw))
			}
			pair := t.pairOf(u)
			if pair == nil {
				c.Failf(pk(k, "redeemableIn"), "%s: element %d (%s): the token pair of that request is gone, there is no redeem delay to count from", k, i, clip(raw))
			}
			want = t.unwrapObj(u, pair)
		}
		if path, msg := jsonDiff("", el, normalize(want)); msg != "" {
			c.Failf(pk(k, topField(path)), "%s on %s (frontier %d): element %d: %s: %s\n  element:  %s\n  expected: %s", k, v.Name, v.Frontier, i, strings.TrimPrefix(path, "."), msg, clip(raw), short(want))
		}
	}
	if len(got.List) > 0 {
		e.seen(k, "")
	}
}

// -- liquidity

func pLiquidityInfo(e *Env, t *Truth) {
	l := t.LiqInfo
	var tuples interface{} = emptyList{}
	if len(l.TokenTuples) > 0 {
		list := make([]interface{}, len(l.TokenTuples))
		for i, tt := range l.TokenTuples {
			list[i] = obj{"tokenStandard": tt.TokenStandard, "znnPercentage": tt.ZnnPercentage, "qsrPercentage": tt.QsrPercentage, "minAmount": bigS(tt.MinAmount)}
		}
		tuples = list
	}
	k, a := e.point("embedded.liquidity", e.V.Apis.Liquidity, "GetLiquidityInfo")
	e.expect(k, a, obj{"administrator": l.Administrator.String(), "isHalted": l.IsHalted, "znnReward": bigS(l.ZnnReward), "qsrReward": bigS(l.QsrReward), "tokenTuples": tuples})
	if len(l.TokenTuples) > 0 {
		e.seen(k, "")
	}
}

// -- the variables shared by pillar / sentinel / stake / liquidity

type sharedContract struct {
	ns       string
	svc      func(a *Apis) interface{}
	contract types.Address
}

var rewardContracts = []sharedContract{
	{"embedded.pillar", func(a *Apis) interface{} { return a.Pillar }, types.PillarContract},
	{"embedded.sentinel", func(a *Apis) interface{} { return a.Sentinel }, types.SentinelContract},
	{"embedded.stake", func(a *Apis) interface{} { return a.Stake }, types.StakeContract},
	{"embedded.liquidity", func(a *Apis) interface{} { return a.Liquidity }, types.LiquidityContract},
}

// rewardAddrs: every address with an uncollected reward in ANY of the four contracts (an answer read from the wrong
// contract shows for such an address).
func (t *Truth) rewardAddrs() []types.Address {
	set := map[types.Address]bool{}
	for _, m := range t.Rewards {
		for a, r := range m {
			if r.Znn.Sign() > 0 || r.Qsr.Sign() > 0 {
				set[a] = true
			}
		}
	}
	return sortedAddrs(set)
}

func pUncollectedReward(e *Env, t *Truth) {
	c := e.C
	sc := rewardContracts[e.pick("rw.contract", len(rewardContracts))]
	addr := e.addrArg("rw.addr", t.rewardAddrs())
	k, a := e.point(sc.ns, sc.svc(e.V.Apis), "GetUncollectedReward", addr)
	r, ok := t.Rewards[sc.contract][addr]
	if !ok {
		r = amounts{new(big.Int), new(big.Int)}
	}
	e.expect(k, a, rewardObj(addr, r))
	if r.Znn.Sign() > 0 || r.Qsr.Sign() > 0 {
		e.seen(k, "")
	} else {
		c.Class("not-found " + k.RPCName())
	}
}

func pDepositedQsr(e *Env, t *Truth) {
	c := e.C
	sc := rewardContracts[e.pick("dq.contract", 2)]
	set := map[types.Address]bool{}
	for _, ct := range []types.Address{types.PillarContract, types.SentinelContract} {
		for a, d := range t.Deposits[ct] {
			if d.Sign() > 0 {
				set[a] = true
			}
		}
	}
	addr := e.addrArg("dq.addr", sortedAddrs(set))
	k, a := e.point(sc.ns, sc.svc(e.V.Apis), "GetDepositedQsr", addr)
	d := t.Deposits[sc.contract][addr]
	e.expect(k, a, bigS(d))
	if d != nil && d.Sign() > 0 {
		e.seen(k, "")
	} else {
		c.Class("not-found " + k.RPCName())
	}
}

// pRewardHistory: the amounts of the reward history pages (the paging check compares epochs only).
func pRewardHistory(e *Env, t *Truth) {
	c := e.C
	sc := rewardContracts[e.pick("rh.contract", len(rewardContracts))]
	set := map[types.Address]bool{}
	for _, m := range t.RewardHist {
		for key := range m {
			set[types.ParseAddressPanic(key[:strings.IndexByte(key, '/')])] = true
		}
	}
	addr := e.addrArg("rh.addr", sortedAddrs(set))
	last := t.LastEpoch[sc.contract]
	size := uint32(c.Int("rh.size", 1, 8))
	idx := uint32(0)
	if last >= 0 {
		idx = uint32(c.Int("rh.index", 0, int(last)/int(size)+1))
	}
	k, a := e.point(sc.ns, sc.svc(e.V.Apis), "GetFrontierRewardByPage", addr, idx, size)
	var want []interface{}
	hits := 0
	for ep := last - int64(idx)*int64(size); ep >= 0 && len(want) < int(size); ep-- {
		r, ok := t.RewardHist[sc.contract][fmt.Sprintf("%v/%d", addr, ep)]
		if !ok {
			r = amounts{new(big.Int), new(big.Int)}
		} else if r.Znn.Sign() > 0 || r.Qsr.Sign() > 0 {
			hits++
		}
		want = append(want, obj{"epoch": ep, "znnAmount": bigS(r.Znn), "qsrAmount": bigS(r.Qsr)})
	}
	var list interface{} = want
	if len(want) == 0 {
		list = emptyList{}
	}
	e.expect(k, a, obj{"count": last + 1, "list": list})
	if hits > 0 {
		e.seen(k, "")
	}
}

// -- pillar

func (t *Truth) owners() []types.Address {
	set := map[types.Address]bool{}
	for _, p := range t.Pillars {
		set[p.StakeAddress] = true
		set[p.BlockProducingAddress] = true
		set[p.RewardWithdrawAddress] = true
	}
	return sortedAddrs(set)
}

func pPillarByOwner(e *Env, t *Truth) {
	c := e.C
	addr := e.addrArg("po.addr", t.owners())
	k, a := e.point("embedded.pillar", e.V.Apis.Pillar, "GetByOwner", addr)
	var want []interface{}
	for rank, p := range t.ranked() {
		if p.StakeAddress == addr {
			want = append(want, t.pillarObj(p, rank))
		}
	}
	if len(want) == 0 {
		c.Class("not-found " + k.RPCName())
		for _, p := range t.Pillars {
			if p.StakeAddress == addr {
				c.Class("owner-of-a-revoked-pillar-only")
			}
			if p.StakeAddress != addr && (p.BlockProducingAddress == addr || p.RewardWithdrawAddress == addr) {
				c.Class("producer-or-withdraw-address-of-a-pillar")
			}
		}
		e.expect(k, a, emptyList{})
		return
	}
	e.expect(k, a, want)
	e.seen(k, "")
}

func pPillarByName(e *Env, t *Truth) {
	c := e.C
	name := e.nameArg("pn.name", t.pillarNames())
	k, a := e.point("embedded.pillar", e.V.Apis.Pillar, "GetByName", name)
	for rank, p := range t.ranked() {
		if p.Name == name {
			e.expect(k, a, t.pillarObj(p, rank))
			e.seen(k, "")
			if p.PillarType == definition.NormalPillarType {
				c.Class("pillar-registered-after-genesis")
			}
			if rev, _ := window(t.now(), p.RegistrationTime, constants.PillarEpochLockTime, constants.PillarEpochRevokeTime); rev {
				c.Class("pillar-in-revoke-window")
			}
			return
		}
	}
	c.Class("not-found " + k.RPCName())
	for _, p := range t.Pillars {
		if p.Name == name {
			c.Class("name-of-a-revoked-pillar")
		}
	}
	e.expect(k, a, nil)
}

func pNameAvailability(e *Env, t *Truth) {
	c := e.C
	name := e.nameArg("na.name", t.pillarNames())
	k, a := e.point("embedded.pillar", e.V.Apis.Pillar, "CheckNameAvailability", name)
	free := true
	for _, p := range t.Pillars {
		if p.Name == name {
			free = false
			if p.RevokeTime != 0 {
				c.Class("name-of-a-revoked-pillar")
			}
		}
	}
	e.expect(k, a, free)
	if !free {
		e.seen(k, "")
	}
}

func pQsrRegistrationCost(e *Env, t *Truth) {
	n := int64(0)
	for _, p := range t.Pillars {
		if p.RevokeTime == 0 && p.PillarType != definition.LegacyPillarType {
			n++
		}
	}
	cost := new(big.Int).Mul(constants.PillarQsrStakeIncreaseAmount, big.NewInt(n))
	cost.Add(cost, constants.PillarQsrStakeBaseAmount)
	k, a := e.point("embedded.pillar", e.V.Apis.Pillar, "GetQsrRegistrationCost")
	e.expect(k, a, cost.String())
	if n > 0 {
		e.seen(k, "")
		if n < int64(len(t.ranked())) {
			e.C.Class("cost-with-legacy-and-new-pillars")
		}
	}
}

func pDelegatedPillar(e *Env, t *Truth) {
	c := e.C
	backers := map[types.Address]bool{}
	for a := range t.Delegations {
		backers[a] = true
	}
	addr := e.addrArg("dp.addr", sortedAddrs(backers))
	k, a := e.point("embedded.pillar", e.V.Apis.Pillar, "GetDelegatedPillar", addr)
	name, ok := t.Delegations[addr]
	if !ok {
		c.Class("not-found " + k.RPCName())
		e.expect(k, a, nil)
		return
	}
	status := 2
	for _, p := range t.Pillars {
		if p.Name == name && p.RevokeTime == 0 {
			status = 1
		}
	}
	e.expect(k, a, obj{"name": name, "status": status, "weight": t.ConfBalance(addr, types.ZnnTokenStandard).String()})
	e.seen(k, "")
	if status == 2 {
		c.Class("backer-of-a-revoked-pillar")
	}
	if pool := e.V.L.Balances[addr][types.ZnnTokenStandard]; pool != nil && pool.Cmp(t.ConfBalance(addr, types.ZnnTokenStandard)) != 0 {
		c.Class("backer-with-unconfirmed-balance-change")
	}
}

func historyObj(h *definition.PillarEpochHistory) obj {
	return obj{"name": h.Name, "epoch": h.Epoch, "giveBlockRewardPercentage": h.GiveBlockRewardPercentage, "giveDelegateRewardPercentage": h.GiveDelegateRewardPercentage,
		"producedBlockNum": h.ProducedBlockNum, "expectedBlockNum": h.ExpectedBlockNum, "weight": bigS(h.Weight)}
}

// pPillarHistory: content of the epoch history pages of one pillar (the paging check compares epochs only).
func pPillarHistory(e *Env, t *Truth) {
	c := e.C
	name := e.nameArg("ph.name", t.pillarNames())
	last := t.LastEpoch[types.PillarContract]
	size := uint32(c.Int("ph.size", 1, 8))
	idx := uint32(0)
	if last >= 0 {
		idx = uint32(c.Int("ph.index", 0, int(last)/int(size)+1))
	}
	k, a := e.point("embedded.pillar", e.V.Apis.Pillar, "GetPillarEpochHistory", name, idx, size)
	var want []interface{}
	hits := 0
	for ep := last - int64(idx)*int64(size); ep >= 0 && len(want) < int(size); ep-- {
		if h := t.PillarHist[fmt.Sprintf("%s/%d", name, ep)]; h != nil {
			want = append(want, historyObj(h))
			hits++
		} else {
			want = append(want, obj{"name": name, "epoch": ep, "giveBlockRewardPercentage": 0, "giveDelegateRewardPercentage": 0, "producedBlockNum": 0, "expectedBlockNum": 0, "weight": "0"})
		}
	}
	var list interface{} = want
	if len(want) == 0 {
		list = emptyList{}
	}
	e.expect(k, a, obj{"count": last + 1, "list": list})
	if hits > 0 {
		e.seen(k, "")
	}
}

// -- sentinel

func pSentinelByOwner(e *Env, t *Truth) {
	c := e.C
	set := map[types.Address]bool{}
	for _, s := range t.Sentinels {
		set[s.Owner] = true
	}
	addr := e.addrArg("so.addr", sortedAddrs(set))
	k, a := e.point("embedded.sentinel", e.V.Apis.Sentinel, "GetByOwner", addr)
	for _, s := range t.Sentinels {
		if s.Owner == addr {
			revocable, cooldown := window(t.now(), s.RegistrationTimestamp, constants.SentinelLockTimeWindow, constants.SentinelRevokeTimeWindow)
			e.expect(k, a, obj{"owner": s.Owner.String(), "registrationTimestamp": s.RegistrationTimestamp, "isRevocable": revocable, "revokeCooldown": cooldown, "active": s.RevokeTimestamp == 0})
			e.seen(k, "")
			if s.RevokeTimestamp != 0 {
				c.Class("sentinel-revoked")
			}
			if revocable {
				c.Class("sentinel-in-revoke-window")
			}
			return
		}
	}
	c.Class("not-found " + k.RPCName())
	e.expect(k, a, nil)
}

// -- plasma

func (t *Truth) beneficiaries() []types.Address {
	set := map[types.Address]bool{}
	for a := range t.FusedConf {
		set[a] = true
	}
	for _, a := range t.V.AddrPool {
		if len(t.V.PooledOf(a)) > 0 {
			set[a] = true
		}
	}
	return sortedAddrs(set)
}

func pPlasmaGet(e *Env, t *Truth) {
	c := e.C
	addr := e.addrArg("pg.addr", t.beneficiaries())
	k, a := e.point("embedded.plasma", e.V.Apis.Plasma, "Get", addr)
	fused, max, current, ok := t.plasmaOf(addr)
	if !ok {
		c.Class("plasma-overdrawn-by-unconfirmed-blocks")
		if a.Err == "" {
			e.expect(k, a, obj{"currentPlasma": 0, "maxPlasma": max, "qsrAmount": fused.String()})
		}
		return
	}
	e.expect(k, a, obj{"currentPlasma": current, "maxPlasma": max, "qsrAmount": fused.String()})
	if fused.Sign() > 0 {
		e.seen(k, "")
		if current < max {
			c.Class("plasma-partly-used-by-unconfirmed-blocks")
		}
	} else {
		c.Class("not-found " + k.RPCName())
	}
}

// pRequiredPoW: parameters of a block the ledger holds (its recorded base plasma is what the network accepted for
// exactly these parameters) or a synthetic plain transfer / receive.
func pRequiredPoW(e *Env, t *Truth) {
	c, v := e.C, e.V
	var param embedded.GetRequiredParam
	var base uint64
	switch e.weighted("pow.kind", 5, 3, 2) {
	case 0:
		// an existing block of a user account
		var users []types.Address
		for _, a := range v.L.Accounts {
			if !types.IsEmbeddedAddress(a) && len(v.L.Blocks[a]) > 1 {
				users = append(users, a)
			}
		}
		if len(users) > 0 {
			acc := users[e.pick("pow.acc", len(users))]
			bl := v.L.Blocks[acc]
			b := bl[1+e.pick("pow.block", len(bl)-1)]
			if b.BlockType == nom.BlockTypeUserSend || b.BlockType == nom.BlockTypeUserReceive {
				to := b.ToAddress
				param = embedded.GetRequiredParam{SelfAddr: e.addrArg("pow.self", append(t.beneficiaries(), acc)), BlockType: b.BlockType, ToAddr: &to, Data: b.Data}
				base = b.BasePlasma
				if types.IsEmbeddedAddress(to) && b.IsSendBlock() {
					c.Class("pow-for-a-contract-call")
				}
				break
			}
		}
		fallthrough
	case 1:
		to := e.addrArg("pow.to", nil)
		for types.IsEmbeddedAddress(to) {
			to = v.Users[e.pick("pow.toUser", len(v.Users))]
		}
		data := c.Bytes("pow.data", 0, 60)
		if e.weighted("pow.long", 6, 1) == 1 {
			data = bytes.Repeat([]byte{7}, c.Int("pow.len", 1000, 1200))
		}
		param = embedded.GetRequiredParam{SelfAddr: e.addrArg("pow.self", t.beneficiaries()), BlockType: nom.BlockTypeUserSend, ToAddr: &to, Data: data}
		base = uint64(constants.AccountBlockBasePlasma + len(data)*constants.ABByteDataPlasma)
		c.Class("pow-for-a-plain-transfer")
	default:
		param = embedded.GetRequiredParam{SelfAddr: e.addrArg("pow.self", t.beneficiaries()), BlockType: nom.BlockTypeUserReceive, Data: c.Bytes("pow.rdata", 0, 8)}
		if c.Bool("pow.withTo") {
			to := e.addrArg("pow.rto", nil)
			param.ToAddr = &to
		}
		base = constants.AccountBlockBasePlasma
		c.Class("pow-for-a-receive")
	}
	if types.IsEmbeddedAddress(param.SelfAddr) {
		base = 0 // contracts pay no plasma
		c.Class("pow-for-a-contract-account")
	}
	k, a := e.point("embedded.plasma", v.Apis.Plasma, "GetRequiredPoWForAccountBlock", param)
	_, _, avail, ok := t.plasmaOf(param.SelfAddr)
	if !ok {
		c.Class("plasma-overdrawn-by-unconfirmed-blocks")
		return
	}
	need := uint64(0)
	if base > avail {
		need = base - avail
	}
	if need > constants.MaxPoWPlasmaForAccountBlock {
		c.Class("pow-beyond-the-maximum")
		if a.Err == "" {
			c.Failf(pk(k, "requiredDifficulty"), "%s answered %s: %d plasma are missing, more than proof of work may supply (%d)", k, clip(a.JSON), need, uint64(constants.MaxPoWPlasmaForAccountBlock))
		}
		return
	}
	e.expect(k, a, obj{"availablePlasma": avail, "basePlasma": base, "requiredDifficulty": need * constants.PoWDifficultyPerPlasma})
	if avail > 0 {
		e.seen(k, "")
	}
	if need > 0 {
		c.Class("pow-needed")
	}
}

// pEntryTotals: totals and element content of the fusion / stake / liquidity-stake lists of one owner.
func pEntryTotals(e *Env, t *Truth) {
	c, v := e.C, e.V
	idx, size := uint32(c.Int("et.index", 0, 2)), uint32(c.Int("et.size", 1, 10))
	page := func(n int) (int, int) { return expectedRange(idx, size, n) }
	switch e.pick("et.kind", 3) {
	case 0:
		owners := map[types.Address]bool{}
		for _, f := range t.Fusions {
			owners[f.Owner] = true
		}
		addr := e.addrArg("et.addr", sortedAddrs(owners))
		k, a := e.point("embedded.plasma", v.Apis.Plasma, "GetEntriesByAddress", addr, idx, size)
		total, byId := new(big.Int), map[string]obj{}
		for _, f := range t.Fusions {
			if f.Owner == addr {
				total.Add(total, f.Amount)
				byId[f.Id.String()] = obj{"qsrAmount": bigS(f.Amount), "beneficiary": f.Beneficiary.String(), "expirationHeight": f.ExpirationHeight, "id": f.Id.String()}
			}
		}
		lo, hi := page(len(byId))
		e.checkEntryPage(k, a, obj{"qsrAmount": total.String(), "count": len(byId)}, byId, hi-lo)
	case 1:
		owners := map[types.Address]bool{}
		for _, s := range t.Stakes {
			owners[s.StakeAddress] = true
		}
		addr := e.addrArg("et.addr", sortedAddrs(owners))
		k, a := e.point("embedded.stake", v.Apis.Stake, "GetEntriesByAddress", addr, idx, size)
		total, weighted, byId := new(big.Int), new(big.Int), map[string]obj{}
		for _, s := range t.Stakes {
			if s.StakeAddress == addr && s.RevokeTime == 0 {
				total.Add(total, s.Amount)
				weighted.Add(weighted, s.WeightedAmount)
				byId[s.Id.String()] = obj{"amount": bigS(s.Amount), "weightedAmount": bigS(s.WeightedAmount), "startTimestamp": s.StartTime, "expirationTimestamp": s.ExpirationTime,
					"address": s.StakeAddress.String(), "id": s.Id.String()}
			}
		}
		lo, hi := page(len(byId))
		e.checkEntryPage(k, a, obj{"totalAmount": total.String(), "totalWeightedAmount": weighted.String(), "count": len(byId)}, byId, hi-lo)
	default:
		owners := map[types.Address]bool{}
		for _, s := range t.LiqStakes {
			owners[s.StakeAddress] = true
		}
		addr := e.addrArg("et.addr", sortedAddrs(owners))
		k, a := e.point("embedded.liquidity", v.Apis.Liquidity, "GetLiquidityStakeEntriesByAddress", addr, idx, size)
		total, weighted, byId := new(big.Int), new(big.Int), map[string]obj{}
		for _, s := range t.LiqStakes {
			if s.StakeAddress == addr && s.RevokeTime == 0 {
				total.Add(total, s.Amount)
				weighted.Add(weighted, s.WeightedAmount)
				byId[s.Id.String()] = obj{"amount": bigS(s.Amount), "tokenStandard": s.TokenStandard.String(), "weightedAmount": bigS(s.WeightedAmount), "startTime": s.StartTime, "revokeTime": s.RevokeTime,
					"expirationTime": s.ExpirationTime, "stakeAddress": s.StakeAddress.String(), "id": s.Id.String()}
			}
		}
		lo, hi := page(len(byId))
		e.checkEntryPage(k, a, obj{"totalAmount": total.String(), "totalWeightedAmount": weighted.String(), "count": len(byId)}, byId, hi-lo)
	}
}

// checkEntryPage compares the header fields of a list answer and every element (found by its id) with the truth.
func (e *Env) checkEntryPage(k Call, a Answer, header obj, byId map[string]obj, wantLen int) {
	c := e.C
	if a.Err != "" {
		c.Failf(pk(k, "error"), "%s failed: %s", k, a.Err)
		return
	}
	gotAny, err := decodeJSON(a.JSON)
	got, ok := gotAny.(map[string]interface{})
	if err != nil || !ok {
		c.Failf(pk(k, "not-json"), "%s: %v: %s", k, err, clip(a.JSON))
	}
	list, _ := got["list"].([]interface{})
	delete(got, "list")
	if path, msg := jsonDiff("", interface{}(got), normalize(header)); msg != "" {
		c.Failf(pk(k, topField(path)), "%s on %s: %s: %s\n  answer: %s\n  expected totals: %s", k, e.V.Name, strings.TrimPrefix(path, "."), msg, clip(a.JSON), short(header))
	}
	if len(list) != wantLen {
		c.Failf(pk(k, "list"), "%s: page of %d elements, the owner has %d entries: %d expected", k, len(list), len(byId), wantLen)
	}
	for i, el := range list {
		m, _ := el.(map[string]interface{})
		want, ok := byId[fmt.Sprint(m["id"])]
		if !ok {
			c.Failf(pk(k, "phantom"), "%s: element %d (%s) is no entry of that owner in the contract storage", k, i, short(el))
		}
		if path, msg := jsonDiff("", el, normalize(want)); msg != "" {
			c.Failf(pk(k, topField(path)), "%s: element %d: %s: %s\n  element:  %s\n  expected: %s", k, i, strings.TrimPrefix(path, "."), msg, short(el), short(want))
		}
	}
	if len(byId) > 0 {
		e.seen(k, "")
	}
}

// -- swap

func pSwapByKeyIdHash(e *Env, t *Truth) {
	c := e.C
	var hot, cold []types.Hash
	for _, s := range t.Swap {
		hot = append(hot, s.KeyIdHash)
	}
	for _, l := range t.Legacy {
		cold = append(cold, l.KeyIdHash)
	}
	id := e.hashArg("swap.id", sortedHashes(hot), sortedHashes(cold))
	k, a := e.point("embedded.swap", e.V.Apis.Swap, "GetAssetsByKeyIdHash", id)
	pct := swapShare(t.Epoch)
	for _, s := range t.Swap {
		if s.KeyIdHash == id {
			e.expect(k, a, obj{"keyIdHash": id.String(), "znn": share(s.Znn, pct), "qsr": share(s.Qsr, pct)})
			if s.Znn.Sign() > 0 || s.Qsr.Sign() > 0 {
				e.seen(k, "")
				if pct < 100 {
					c.Class("legacy-assets-decayed")
				}
			} else {
				c.Class("legacy-assets-retrieved")
			}
			return
		}
	}
	c.Class("not-found " + k.RPCName())
	e.expect(k, a, obj{"keyIdHash": id.String(), "znn": "0", "qsr": "0"})
}

func pSwapAll(e *Env, t *Truth) {
	pct := swapShare(t.Epoch)
	if e.C.Bool("swap.legacy") {
		k, a := e.point("embedded.swap", e.V.Apis.Swap, "GetLegacyPillars")
		if a.Err != "" {
			e.C.Failf(pk(k, "error"), "%s failed: %s", k, a.Err)
			return
		}
		// the order of the entries is not documented
		var got []map[string]interface{}
		dec := json.NewDecoder(bytes.NewReader(a.JSON))
		dec.UseNumber()
		if err := dec.Decode(&got); err != nil {
			e.C.Failf(pk(k, "not-json"), "%s: %v: %s", k, err, clip(a.JSON))
		}
		sort.SliceStable(got, func(i, j int) bool { return fmt.Sprint(got[i]["keyIdHash"]) < fmt.Sprint(got[j]["keyIdHash"]) })
		legacy := append([]*definition.LegacyPillarEntry{}, t.Legacy...)
		sort.Slice(legacy, func(i, j int) bool { return legacy[i].KeyIdHash.String() < legacy[j].KeyIdHash.String() })
		want := make([]interface{}, len(legacy))
		for i, l := range legacy {
			want[i] = obj{"keyIdHash": l.KeyIdHash.String(), "numPillars": l.PillarCount}
		}
		gotList := make([]interface{}, len(got))
		for i := range got {
			gotList[i] = got[i]
		}
		if path, msg := jsonDiff("", interface{}(gotList), normalize(want)); msg != "" {
			e.C.Failf(pk(k, topField(path)), "%s: %s: %s\n  answer:   %s\n  expected: %s", k, path, msg, clip(a.JSON), short(want))
		}
		if len(legacy) > 0 {
			e.seen(k, "")
		}
		return
	}
	k, a := e.point("embedded.swap", e.V.Apis.Swap, "GetAssets")
	want := obj{}
	for _, s := range t.Swap {
		want[s.KeyIdHash.String()] = obj{"znn": share(s.Znn, pct), "qsr": share(s.Qsr, pct)}
	}
	if a.Err == "" {
		// (per entry first, so that the violation is named after the field and not after the key of the entry)
		var got map[string]json.RawMessage
		_ = json.Unmarshal(a.JSON, &got)
		for id, w := range want {
			if raw, ok := got[id]; ok {
				if el, err := decodeJSON(raw); err == nil {
					if path, msg := jsonDiff("", el, normalize(w)); msg != "" {
						e.C.Failf(pk(k, topField(path)), "%s on %s (epoch %d): entry %s: %s: %s", k, e.V.Name, t.Epoch, id, strings.TrimPrefix(path, "."), msg)
					}
				}
			}
		}
		if len(got) != len(want) {
			e.C.Failf(pk(k, "entries"), "%s on %s: %d entries, the contract storage holds %d: %s", k, e.V.Name, len(got), len(want), clip(a.JSON))
		}
	}
	e.expect(k, a, want)
	if len(t.Swap) > 0 {
		e.seen(k, "")
		if pct < 100 {
			e.C.Class("legacy-assets-decayed")
		}
	}
}

// -- token, htlc

func pTokenByZts(e *Env, t *Truth) {
	var custom []types.ZenonTokenStandard
	for z := range t.Tokens {
		if z != types.ZnnTokenStandard && z != types.QsrTokenStandard {
			custom = append(custom, z)
		}
	}
	sort.Slice(custom, func(i, j int) bool { return custom[i].String() < custom[j].String() })
	z := e.ztsArg("tok.zts", t, custom)
	k, a := e.point("embedded.token", e.V.Apis.Token, "GetByZts", z)
	ti := t.Tokens[z]
	e.expect(k, a, tokenObj(ti))
	if ti != nil {
		e.seen(k, "")
	} else {
		e.C.Class("not-found " + k.RPCName())
	}
}

func pHtlcById(e *Env, t *Truth) {
	c, v := e.C, e.V
	projects, _, htlcs, wraps, _ := t.ids()
	id := e.hashArg("htlc.id", htlcs, joinHashes(projects, wraps))
	k, a := e.point("embedded.htlc", v.Apis.Htlc, "GetById", id)
	h := t.Htlcs[id]
	if h == nil {
		e.expectErr(k, a, errNonExistent, "no hash time lock has that id")
		return
	}
	e.expect(k, a, htlcObj(h))
	e.seen(k, "")
	if types.IsEmbeddedAddress(h.HashLocked) {
		c.Class("htlc-locked-for-a-contract")
	}
	// the lock is named after the send block that created it
	b := v.ByHash[id]
	param := new(definition.CreateHtlcParam)
	if b == nil || b.ToAddress != types.HtlcContract || definition.ABIHtlc.UnpackMethod(param, definition.CreateHtlcMethodName, b.Data) != nil {
		c.Failf(pk(k, "creating-block"), "%s: the id is not the hash of a Create call on any account chain", k)
		return
	}
	if h.TimeLocked != b.Address || h.TokenStandard != b.TokenStandard || h.Amount.Cmp(b.Amount) != 0 || h.HashLocked != param.HashLocked || h.ExpirationTime != param.ExpirationTime ||
		h.HashType != param.HashType || h.KeyMaxSize != param.KeyMaxSize || !bytes.Equal(h.HashLock, param.HashLock) {
		c.Failf(pk(k, "creating-block"), "%s answers %s; the creating block of %v locked %v %v for %v until %d", k, clip(a.JSON), b.Address, b.Amount, b.TokenStandard, param.HashLocked, param.ExpirationTime)
	}
}

func pProxyUnlock(e *Env, t *Truth) {
	c := e.C
	set := map[types.Address]bool{}
	for a := range t.Proxy {
		set[a] = true
	}
	addr := e.addrArg("px.addr", sortedAddrs(set))
	k, a := e.point("embedded.htlc", e.V.Apis.Htlc, "GetProxyUnlockStatus", addr)
	allowed, ok := t.Proxy[addr]
	if !ok {
		allowed = true
		c.Class("not-found " + k.RPCName())
	} else {
		e.seen(k, "")
		if !allowed {
			c.Class("proxy-unlock-denied")
		}
	}
	e.expect(k, a, allowed)
}

func pointMethods() []pointMethod {
	return []pointMethod{
		{"accelerator.getProjectById", 4, pProjectById}, {"accelerator.getPhaseById", 3, pPhaseById}, {"accelerator.getVoteBreakdown", 3, pVoteBreakdown},
		{"accelerator.getPillarVotes", 3, pPillarVotes},
		{"bridge.getBridgeInfo", 1, pBridgeInfo}, {"bridge.getOrchestratorInfo", 1, pOrchestratorInfo}, {"bridge+liquidity.getSecurityInfo", 2, pSecurityInfo},
		{"bridge+liquidity.getTimeChallengesInfo", 2, pTimeChallenges}, {"bridge.getNetworkInfo", 3, pNetworkInfo}, {"bridge.getWrapTokenRequestById", 4, pWrapById},
		{"bridge.getUnwrapTokenRequestByHashAndLog", 4, pUnwrapByHashAndLog}, {"bridge.getFeeTokenPair", 2, pFeeTokenPair}, {"bridge.lists-content", 6, pBridgeLists},
		{"liquidity.getLiquidityInfo", 1, pLiquidityInfo},
		{"*.getUncollectedReward", 6, pUncollectedReward}, {"pillar+sentinel.getDepositedQsr", 4, pDepositedQsr}, {"*.getFrontierRewardByPage-content", 2, pRewardHistory},
		{"pillar.getByOwner", 3, pPillarByOwner}, {"pillar.getByName", 4, pPillarByName}, {"pillar.checkNameAvailability", 3, pNameAvailability},
		{"pillar.getQsrRegistrationCost", 1, pQsrRegistrationCost}, {"pillar.getDelegatedPillar", 4, pDelegatedPillar}, {"pillar.getPillarEpochHistory-content", 2, pPillarHistory},
		{"sentinel.getByOwner", 3, pSentinelByOwner},
		{"plasma.get", 4, pPlasmaGet}, {"plasma.getRequiredPoWForAccountBlock", 4, pRequiredPoW}, {"plasma+stake+liquidity.entries-totals", 3, pEntryTotals},
		{"swap.getAssetsByKeyIdHash", 3, pSwapByKeyIdHash}, {"swap.getAssets+getLegacyPillars", 2, pSwapAll},
		{"token.getByZts", 3, pTokenByZts}, {"htlc.getById", 4, pHtlcById}, {"htlc.getProxyUnlockStatus", 3, pProxyUnlock},
	}
}

func pickPointView(t *testing.T, c *pbt.C) *View {
	switch c.Weighted("world", 4, 4, 1, 1, 2) {
	case 0:
		return PointView(t, 0)
	case 1:
		return PointView(t, 1)
	case 2:
		return BigView(t, 0)
	case 3:
		return BigView(t, 1)
	default:
		return SmallView(c)
	}
}

// TestC18Point: the point queries of the embedded apis answer what the contracts hold at the frontier.
func TestC18Point(t *testing.T) {
	methods := pointMethods()
	var weights []int
	for _, m := range methods {
		weights = append(weights, m.w)
	}
	pbt.Check(t, "C18", func(c *pbt.C) {
		v := pickPointView(t, c)
		c.Class("world-" + v.Name)
		e := &Env{C: c, V: v, ViaServerToo: c.Weighted("via-server", 1, 1) == 1}
		if e.ViaServerToo {
			c.Class("also-through-rpc-server")
		}
		truth := scanTruth(v)
		calls := c.Int("calls", 4, 12)
		for i := 0; i < calls; i++ {
			m := methods[e.weighted("method", weights...)]
			m.run(e, truth)
		}
	})
}

// ---- subscriptions ------------------------------------------------------------------------------------------------------
//
// TestC18Subscribe: the four subscriptions of rpc/api/subscribe (momentums, allAccountBlocks, accountBlocksByAddress,
// unreceivedAccountBlocksByAddress), taken over the in-process client of rpc/server, deliver exactly what the chain
// inserts afterwards: every momentum once and in order of height, and for every momentum that holds matching account
// blocks one notification with exactly those blocks (descendants of contract blocks included).
//
// How the asynchronous service is driven soundly: a subscription is installed by the service's worker some time after
// ledger.subscribe has answered, so the claim starts with the first notification a subscription delivers (warm-up
// momentums, each with a block that matches all four filters, are produced until every subscription has delivered
// one; waiting for that is synchronisation only). From there on nothing may be missing: a final momentum that
// matches all four filters is produced and each stream is read until that momentum's notification arrives; a lost,
// duplicated or reordered notification shows in the sequence read up to there, not in a timeout (the only wall-clock
// guard is against a stream that stops altogether). Fewer than 100 momentums are produced per case, the capacity of
// the service's queues, so that the documented overflow behaviour (events are dropped when a queue is full) cannot occur.

type subWorld struct {
	h   *sim.Hist
	srv *rpcserver.Server
}

var (
	subWorldOnce sync.Once
	theSubWorld  *subWorld
	subWorldWhy  string
)

// getSubWorld builds the world of the subscription check: a chain that keeps growing, with the process-wide
// subscription service bound to it (possible only if no other long-lived world of this process has claimed it).
func getSubWorld(t *testing.T) *subWorld {
	subWorldOnce.Do(func() {
		out, journal := os.Getenv("VERIF_OUT"), os.Getenv("VERIF_JOURNAL")
		os.Unsetenv("VERIF_OUT")
		os.Unsetenv("VERIF_JOURNAL")
		defer func() {
			if out != "" {
				os.Setenv("VERIF_OUT", out)
			}
			if journal != "" {
				os.Setenv("VERIF_JOURNAL", journal)
			}
		}()
		pbt.CheckOnce(t, "C18", func(c *pbt.C) { buildSubWorld(c) })
	})
	return theSubWorld
}

func buildSubWorld(c *pbt.C) {
	{
		c.Src = &detSrc{s: 18500}
		spec := sim.DefaultSpec(2, 4)
		spec.ActiveSporks = 2
		h := newHistNoCleanup(c, spec, worldOpts())
		bound := false
		subOnce.Do(func() {
			srv := subscribe.GetSubscribeServer(h.A.Chain)
			common.DealWithErr(srv.Init())
			common.DealWithErr(srv.Start())
			bound = true
		})
		if !bound {
			subWorldWhy = "the process-wide subscription service is already bound to the chain of another world of this process"
			h.W.Close()
			return
		}
		for _, in := range sim.DefaultIntents() {
			switch in.Name {
			case "token-issue", "token-mint", "plasma-fuse", "stake", "stake-cancel", "pillar-delegate", "htlc-create", "htlc-unlock", "htlc-reclaim", "collect-reward", "deposit-qsr", "withdraw-qsr":
				// (nothing that takes funds or plasma out of the ring for good: the world serves every case of the process)
				h.Intents = append(h.Intents, in)
			}
		}
		for i := 0; i < 3; i++ {
			h.Produce(0)
		}
		s := rpcserver.NewServer()
		if err := s.RegisterName("ledger", subscribe.GetSubscribeApi()); err != nil {
			subWorldWhy = err.Error()
			return
		}
		theSubWorld = &subWorld{h: h, srv: s}
	}
}

type subStream struct {
	name string
	ch   chan json.RawMessage
	sub  *rpcserver.ClientSubscription
	got  []json.RawMessage
}

// take moves what has arrived so far into got (never blocks).
func (s *subStream) take() {
	for {
		select {
		case raw := <-s.ch:
			s.got = append(s.got, raw)
		default:
			return
		}
	}
}

type subBlock struct {
	BlockType uint64        `json:"blockType"`
	Hash      types.Hash    `json:"hash"`
	Height    uint64        `json:"height"`
	Address   types.Address `json:"address"`
	ToAddress types.Address `json:"toAddress"`
	FromHash  types.Hash    `json:"fromHash"`
}

func flatten(b *nom.AccountBlock, out []*nom.AccountBlock) []*nom.AccountBlock {
	out = append(out, b)
	for _, d := range b.DescendantBlocks {
		out = flatten(d, out)
	}
	return out
}

const subStall = 240 * time.Second // far beyond any scheduling delay: only a notification that never comes gets here

// keySubDuplicate: InsertMomentum (rpc/api/subscribe/api.go) converts every block of the momentum's content with
// newAccountBlock, which also walks the block's DescendantBlocks; the descendants (the sends a contract generates
// while receiving) are listed in the content themselves, so each of them is notified twice.
const keySubDuplicate = "C18/subscribe/descendant-notified-twice"

func TestC18Subscribe(t *testing.T) {
	w := getSubWorld(t)
	if w == nil {
		t.Skipf("C18 subscribe: %s", subWorldWhy)
	}
	pbt.Check(t, "C18", func(c *pbt.C) {
		h := w.h
		h.C = c
		if h.Dead {
			c.Failf("C18/subscribe/world-dead", "the producer of the subscription world has stopped: %v", h.A.Preflight)
		}
		users := h.Users
		a := users[c.Pick("sub.a", len(h.W.Spec.Users))] // a funded user
		b := users[c.Pick("sub.b", len(users))]
		switch c.Weighted("sub.bkind", 4, 1, 1, 1) {
		case 3:
			b = types.ZeroAddress // (the addressee receive blocks name)
			c.Class("unreceived-filter-on-the-zero-address")
		case 1:
			b = types.HtlcContract
			c.Class("unreceived-filter-on-a-contract")
		case 2:
			b = a
			c.Class("both-filters-on-one-address")
		}
		client := rpcserver.DialInProc(w.srv)
		defer client.Close()
		ctx, cancel := context.WithCancel(context.Background())
		defer cancel()
		streams := []*subStream{{name: "momentums"}, {name: "allAccountBlocks"}, {name: "accountBlocksByAddress"}, {name: "unreceivedAccountBlocksByAddress"}}
		for i, s := range streams {
			s.ch = make(chan json.RawMessage, 4096)
			args := []interface{}{s.name}
			if i == 2 {
				args = append(args, a)
			}
			if i == 3 {
				args = append(args, b)
			}
			sub, err := client.Subscribe(ctx, "ledger", s.ch, args...)
			if err != nil {
				c.Failf("C18/subscribe/refused", "ledger.subscribe %v failed: %v", args, err)
			}
			s.sub = sub
			defer sub.Unsubscribe()
		}
		// a block that matches every filter: a send of a to b
		marker := func(tag string) *nom.AccountBlock {
			// (costs nothing: an empty transfer with a note, or a call that sets what is set already)
			data := []byte(tag)
			if types.IsEmbeddedAddress(b) {
				data = definition.ABIHtlc.PackMethodPanic(definition.AllowHtlcProxyUnlockMethodName)
			}
			blk, err := h.Submit(&nom.AccountBlock{Address: a, ToAddress: b, TokenStandard: types.ZnnTokenStandard, Amount: big.NewInt(0), Data: data}, "marker "+tag)
			if err != nil {
				return nil
			}
			return blk
		}
		// warm-up (synchronisation, not part of the claim)
		warm := 0
		for {
			if marker(fmt.Sprintf("warm-up %d", warm)) == nil || !h.Produce(0) {
				c.Note("the marker block was refused or the producer stopped: nothing to observe")
				c.Class("ended-early: marker block refused")
				h.Produce(0)
				return
			}
			warm++
			all := false
			for wait := 0; wait < 100 && !all; wait++ {
				all = true
				for _, s := range streams {
					s.take()
					all = all && len(s.got) > 0
				}
				if !all {
					time.Sleep(5 * time.Millisecond)
				}
			}
			if all {
				break
			}
			if warm >= 8 {
				for _, s := range streams {
					if len(s.got) == 0 {
						c.Failf("C18/subscribe/never-delivers", "subscription %s has not delivered anything although %d momentums with a matching block were inserted after ledger.subscribe answered", s.name, warm)
					}
				}
			}
		}
		if warm > 1 {
			c.Class("subscription-installed-late")
		}
		// the observed life of the chain
		n := 1 + (&Env{C: c}).pick("sub.momentums", 24)
		for m := 0; m < n && !h.Dead; m++ {
			for k := (&Env{C: c}).pick("sub.actions", 5); k > 0; k-- {
				switch c.Weighted("sub.act", 3, 2, 2, 2, 1) {
				case 0:
					from, to := users[c.Pick("sub.trFrom", len(users))], users[c.Pick("sub.trTo", len(users))]
					z := []types.ZenonTokenStandard{types.ZnnTokenStandard, types.QsrTokenStandard}[c.Pick("sub.trToken", 2)]
					_, _ = h.Submit(&nom.AccountBlock{Address: from, ToAddress: to, TokenStandard: z, Amount: big.NewInt(int64(c.Int("sub.trAmount", 0, 100)))}, "transfer inside the ring")
				case 1:
					h.ActReceive()
				case 2:
					h.ActIntent()
				case 3:
					marker(fmt.Sprintf("m%d", m))
				default:
					_, _ = h.Submit(&nom.AccountBlock{Address: users[c.Pick("sub.from", len(h.W.Spec.Users))], ToAddress: b, TokenStandard: types.ZnnTokenStandard, Amount: big.NewInt(2)}, "send of somebody else to b")
				}
			}
			if !h.Produce(c.Weighted("sub.skip", 6, 1, 1)) {
				return
			}
		}
		var last *nom.AccountBlock
		for tries := 0; tries < 3 && last == nil; tries++ {
			last = marker("flush")
		}
		if last == nil || !h.Produce(0) {
			c.Note("the final marker block was refused: nothing to conclude")
			c.Class("ended-early: marker block refused")
			h.Produce(0)
			return
		}
		flush := h.A.Height()
		// read every stream up to the notification of the final momentum
		guard := time.NewTimer(subStall)
		defer guard.Stop()
		reached := func(s *subStream, i int) bool {
			for _, raw := range s.got {
				if i == 0 {
					var ms []subscribe.Momentum
					if json.Unmarshal(raw, &ms) == nil {
						for _, m := range ms {
							if m.Height >= flush {
								return true
							}
						}
					}
					continue
				}
				var bs []subBlock
				if json.Unmarshal(raw, &bs) == nil {
					for _, x := range bs {
						if x.Hash == last.Hash {
							return true
						}
					}
				}
			}
			return false
		}
		for i, s := range streams {
			s.take()
			for !reached(s, i) {
				select {
				case raw := <-s.ch:
					s.got = append(s.got, raw)
				case err := <-s.sub.Err():
					c.Failf("C18/subscribe/closed", "subscription %s was closed by the server: %v", s.name, err)
				case <-guard.C:
					c.Failf("C18/subscribe/stalled", "subscription %s: the notification of momentum %d has not arrived %v after its insertion (%d notifications received)", s.name, flush, subStall, len(s.got))
				}
			}
		}
		// ground truth from the store
		store := h.A.Chain.GetFrontierMomentumStore()
		type perMomentum struct {
			m      *nom.Momentum
			blocks []*nom.AccountBlock
		}
		byHeight := map[uint64]*perMomentum{}
		confirmedIn := map[types.Hash]uint64{}
		descendantIn, parentOf, dupNote := map[types.Hash]bool{}, map[types.Hash]types.Hash{}, ""
		first := flush
		for ht := flush; ht > 0 && ht+uint64(n+warm+4) > flush; ht-- {
			m, err := store.GetMomentumByHeight(ht)
			if err != nil || m == nil {
				c.Failf("C18/scan-error", "momentum %d: %v", ht, err)
			}
			pm := &perMomentum{m: m}
			for _, hdr := range m.Content {
				blk, err := store.GetAccountBlock(*hdr)
				if err != nil || blk == nil {
					c.Failf("C18/scan-error", "block %v of momentum %d: %v", hdr.Hash, ht, err)
				}
				pm.blocks = flatten(blk, pm.blocks)
			}
			for _, x := range pm.blocks {
				confirmedIn[x.Hash] = ht
				for _, d := range x.DescendantBlocks {
					descendantIn[d.Hash] = true
					parentOf[d.Hash] = x.Hash
				}
			}
			byHeight[ht] = pm
			first = ht
		}
		matches := func(i int, x *nom.AccountBlock) bool {
			switch i {
			case 1:
				return true
			case 2:
				return x.Address == a
			default:
				return x.IsSendBlock() && x.ToAddress == b
			}
		}
		busy := 0
		for i, s := range streams {
			if i == 0 {
				var heights []uint64
				for _, raw := range s.got {
					var ms []subscribe.Momentum
					if err := json.Unmarshal(raw, &ms); err != nil || len(ms) != 1 {
						c.Failf("C18/subscribe/momentums", "notification %s is not a list of one momentum (%v)", clip(raw), err)
					}
					pm := byHeight[ms[0].Height]
					if pm == nil || pm.m.Hash != ms[0].Hash {
						c.Failf("C18/subscribe/momentums", "notification %s: the chain holds no such momentum (heights %d..%d were inserted)", clip(raw), first, flush)
					}
					heights = append(heights, ms[0].Height)
				}
				for j, ht := range heights {
					if ht != heights[0]+uint64(j) {
						c.Failf("C18/subscribe/momentums", "momentums were notified as heights %v: after the first one (%d) every inserted momentum up to %d is due exactly once and in order", heights, heights[0], flush)
					}
				}
				if heights[len(heights)-1] != flush {
					c.Failf("C18/subscribe/momentums", "momentums were notified as heights %v, the last inserted one is %d", heights, flush)
				}
				continue
			}
			// block streams: one notification per momentum with matching blocks, from the first notified momentum on
			var gotHeights []uint64
			for _, raw := range s.got {
				var bs []subBlock
				if err := json.Unmarshal(raw, &bs); err != nil || len(bs) == 0 {
					c.Failf("C18/subscribe/"+s.name, "notification %s is not a non-empty list of blocks (%v)", clip(raw), err)
				}
				ht, ok := confirmedIn[bs[0].Hash]
				if !ok {
					c.Failf("C18/subscribe/"+s.name, "notified block %v is in none of the momentums %d..%d", bs[0].Hash, first, flush)
				}
				gotHeights = append(gotHeights, ht)
				var want []*nom.AccountBlock
				wantSet := map[types.Hash]*nom.AccountBlock{}
				for _, x := range byHeight[ht].blocks {
					if matches(i, x) && wantSet[x.Hash] == nil {
						want = append(want, x)
						wantSet[x.Hash] = x
					}
				}
				seen := map[types.Hash]int{}
				lastHeight := map[types.Address]uint64{}
				for _, x := range bs {
					blk := wantSet[x.Hash]
					if blk == nil {
						c.Failf("C18/subscribe/"+s.name, "momentum %d: notified block %v (%v/%d to %v) is not one of the %d blocks of that momentum the subscription is about", ht, x.Hash, x.Address, x.Height, x.ToAddress, len(want))
					}
					if x.BlockType != blk.BlockType || x.Height != blk.Height || x.Address != blk.Address || x.ToAddress != blk.ToAddress || x.FromHash != blk.FromBlockHash {
						c.Failf("C18/subscribe/"+s.name, "momentum %d: notified %+v, the ledger block is type %d %v/%d to %v from %v", ht, x, blk.BlockType, blk.Address, blk.Height, blk.ToAddress, blk.FromBlockHash)
					}
					seen[x.Hash]++
					if seen[x.Hash] > 1 {
						// FINDING (see keySubDuplicate): a block generated by a contract (a descendant of the contract's
						// receive block) is listed in the momentum's content AND attached to its parent; the service
						// walks both and notifies it twice. Exactly that is tolerated: the second copy of a descendant.
						if seen[x.Hash] == 2 && descendantIn[x.Hash] {
							dupNote = fmt.Sprintf("subscription %s, momentum %d: block %v (%v/%d, generated by the contract while it received %v) is notified twice in one notification", s.name, ht, x.Hash, x.Address, x.Height, parentOf[x.Hash])
							continue
						}
						c.Failf("C18/subscribe/"+s.name, "momentum %d: block %v notified %d times", ht, x.Hash, seen[x.Hash])
					}
					if x.Height <= lastHeight[x.Address] {
						c.Failf("C18/subscribe/"+s.name, "momentum %d: blocks of %v notified out of chain order (height %d after %d)", ht, x.Address, x.Height, lastHeight[x.Address])
					}
					lastHeight[x.Address] = x.Height
				}
				if len(seen) != len(want) {
					c.Failf("C18/subscribe/"+s.name, "momentum %d: %d different blocks notified, the momentum holds %d the subscription is about", ht, len(seen), len(want))
				}
				if len(want) > 1 {
					busy++
				}
				for _, x := range want {
					if len(x.DescendantBlocks) > 0 {
						c.Class("notified-contract-block-with-descendants")
					}
				}
			}
			var wantHeights []uint64
			for ht := gotHeights[0]; ht <= flush; ht++ {
				for _, x := range byHeight[ht].blocks {
					if matches(i, x) {
						wantHeights = append(wantHeights, ht)
						break
					}
				}
			}
			if fmt.Sprint(gotHeights) != fmt.Sprint(wantHeights) {
				c.Failf("C18/subscribe/"+s.name, "notifications arrived for momentums %v; from the first one on, the momentums that hold blocks the subscription is about are %v", gotHeights, wantHeights)
			}
		}
		if dupNote != "" {
			// a genuine defect of rpc/api/subscribe when this check was written (repaired in the repository since; see
			// KNOWN_FINDINGS.txt): a block announced twice in one notification is a violation
			c.Class("descendant-notified-twice")
			c.Failf(keySubDuplicate, "%s", dupNote)
		}
		c.Note("a=%v b=%v: %d warm-up + %d momentums, heights %d..%d; notifications: %d / %d / %d / %d", a, b, warm, n, first, flush, len(streams[0].got), len(streams[1].got), len(streams[2].got), len(streams[3].got))
		if n >= 3 && busy > 0 {
			c.NonTrivial()
		}
		if len(streams[2].got) > 2 && len(streams[3].got) > 2 {
			c.Class("address-filters-matched-in-several-momentums")
		}
	})
}

var _ = sort.Strings
