package p18

// C18 — the non-paged ("point") queries of the embedded-contract apis.
//
// Every point query of rpc/api/embedded is asked, directly and through the in-process JSON-RPC
// server, with generated arguments (existing / unknown / contract addresses, existing / unknown
// ids and names, names differing in case, transaction hashes with a wrong log index, ...) about
// worlds whose contracts hold non-default state, and every field of the answer is compared with
// ground truth obtained without rpc/api: the contract storage at the frontier is scanned (the
// list scanners of vm/embedded/definition, raw key-prefix iteration where no scanner exists,
// never the by-key getter the api itself uses), and derived fields are recomputed from their
// meaning (confirmationsToFinality, redeemableIn, revoke windows, registration cost, vote
// breakdown, swap decay, plasma, rank). Where the entity was created by an account block whose
// hash is its id (projects, phases, hash-time-locks, wrap requests) the answer is also compared
// with that block.
//
// This file: the point worlds (extension of the world construction of world_test.go).

import (
	"fmt"
	"math/big"
	"os"
	"sort"
	"sync"
	"testing"
	"time"

	"github.com/zenon-network/go-zenon/chain/nom"
	"github.com/zenon-network/go-zenon/common/types"
	"github.com/zenon-network/go-zenon/vm/constants"
	"github.com/zenon-network/go-zenon/vm/embedded/definition"
	"github.com/zenon-network/go-zenon/vm/embedded/implementation"

	"verifharness/pbt"
	"verifharness/sim"
)

// ---- point worlds ---------------------------------------------------------------------------------

const pointVariants = 2

var (
	pointOnce  [pointVariants]sync.Once
	pointViews [pointVariants]*View
	pointErr   [pointVariants]error
)

// PointView returns point world `variant` (built on first use, read-only afterwards).
func PointView(t *testing.T, variant int) *View {
	pointOnce[variant].Do(func() {
		start := time.Now()
		out, journal := os.Getenv("VERIF_OUT"), os.Getenv("VERIF_JOURNAL")
		os.Unsetenv("VERIF_OUT")
		os.Unsetenv("VERIF_JOURNAL")
		defer func() {
			if out != "" {
				os.Setenv("VERIF_OUT", out)
			}
			if journal != "" {
				os.Setenv("VERIF_JOURNAL", journal)
			}
		}()
		for attempt := 0; attempt < 4 && pointViews[variant] == nil; attempt++ {
			seed := uint64(18100 + 100*variant + attempt)
			pbt.CheckOnce(t, "C18", func(c *pbt.C) {
				c.Src = &detSrc{s: seed}
				v, err := buildPoint(c, variant)
				if err != nil {
					pointErr[variant] = err
					return
				}
				pointViews[variant] = v
				pointErr[variant] = nil
			})
		}
		if v := pointViews[variant]; v != nil {
			fmt.Fprintf(os.Stderr, "C18: point world %d built in %.1fs: %d momentums, %d accounts; %s\n", variant, time.Since(start).Seconds(),
				v.Frontier, len(v.L.Accounts), scanTruth(v).Summary())
		}
	})
	if pointViews[variant] == nil {
		t.Fatalf("C18: point world %d could not be built: %v", variant, pointErr[variant])
	}
	return pointViews[variant]
}

// PointScriptNotes collects refusals of scripted steps (the world stays usable; shown by the dump).
var PointScriptNotes []string

func pointNote(format string, args ...interface{}) {
	PointScriptNotes = append(PointScriptNotes, fmt.Sprintf(format, args...))
	if os.Getenv("C18_DEBUG") != "" {
		fmt.Fprintf(os.Stderr, "C18 point script: "+format+"\n", args...)
	}
}

// buildPoint: a world in which every embedded contract holds state that differs from its defaults and from the
// state of its neighbours (so that an answer taken from the wrong contract, account, id or epoch is visible):
// configured bridge with signed / unsigned wrap requests, redeemed / revoked / pending unwrap requests and
// accumulated fees; liquidity with its own guardians, token tuples and stakes; pending time challenges in both;
// sentinels (one revoked), second-generation pillars (one revoked, with backers), unconsumed QSR deposits in the
// pillar and the sentinel contract; accelerator projects with phases and yes / no / abstain votes; hash time locks
// and proxy-unlock settings; legacy swap entries (one retrieved) and legacy pillar slots; several epochs of
// rewards, some collected; unconfirmed blocks at the end.
func buildPoint(c *pbt.C, variant int) (*View, error) {
	spec := sim.DefaultSpec(3+variant, 5)
	spec.ActiveSporks = 2
	addSpecTokens(c, spec, 2)
	spec.Swap = []sim.SwapSpec{{Key: 0, Znn: 120, Qsr: 1500, Pillars: 1}, {Key: 1, Znn: 75, Qsr: 0}, {Key: 2, Znn: 0, Qsr: 900, Pillars: 2}, {Key: 3, Znn: 10, Qsr: 10}}
	otherReward := sim.UserKey(1).Address
	spec.Pillars[1].Reward = &otherReward
	var fuser types.Address
	copy(fuser[:], types.NewHash([]byte("c18-point-fuser")).Bytes()[:20])
	fuser[0] = 0
	for i := 0; i < 5; i++ {
		spec.Fusions = append(spec.Fusions, sim.FusionSpec{Owner: fuser, Beneficiary: sim.UserKey(i).Address, Amount: int64(3000 + 700*i), Id: types.NewHash([]byte(fmt.Sprintf("c18-point-fusion-%d", i)))})
	}
	h := newHistNoCleanup(c, spec, worldOpts())
	var randomIntents []sim.Intent
	for _, in := range sim.DefaultIntents() {
		switch in.Name {
		case "pillar-revoke", "sentinel-revoke", "pillar-register", "pillar-register-legacy", "sentinel-register", "withdraw-qsr":
			// scripted below (a revoked producer or a consumed deposit at the wrong moment would undo the script)
		default:
			randomIntents = append(randomIntents, in)
		}
	}
	for _, in := range sim.BridgeIntents() {
		switch in.Name {
		case "bridge-wrap", "bridge-unwrap", "bridge-redeem", "bridge-revoke-unwrap", "bridge-update-wrap", "liquidity-stake", "liquidity-cancel", "liquidity-additional-reward":
			randomIntents = append(randomIntents, in)
		}
	}
	h.Intents = randomIntents
	intent := func(name string) bool {
		for _, in := range append(sim.DefaultIntents(), sim.BridgeIntents()...) {
			if in.Name == name {
				return in.Try(h)
			}
		}
		panic("no intent " + name)
	}
	zero := big.NewInt(0)
	submit := func(from, to types.Address, z types.ZenonTokenStandard, amt *big.Int, data []byte, descr string) *nom.AccountBlock {
		b, err := h.Submit(&nom.AccountBlock{Address: from, ToAddress: to, TokenStandard: z, Amount: new(big.Int).Set(amt), Data: data}, "point "+descr)
		if err != nil || b == nil {
			pointNote("%s refused: %v", descr, err)
			return nil
		}
		return b
	}
	produce := func(n int) error {
		for i := 0; i < n; i++ {
			if !h.Produce(0) {
				return fmt.Errorf("point script: producer stopped: %v", h.A.Preflight)
			}
		}
		return nil
	}
	u := func(i int) types.Address { return sim.UserKey(i).Address }
	zq := func(v int64) *big.Int { return new(big.Int).Mul(big.NewInt(v), big.NewInt(sim.Zexp)) }
	storage := func(ct types.Address) interface {
		Get([]byte) ([]byte, error)
	} {
		return h.A.Chain.GetFrontierAccountStore(ct).Storage()
	}
	_ = storage

	if err := produce(3); err != nil {
		return nil, err
	}
	// 1. bridge and liquidity administration
	if err := bridgeScriptN(h, 14+4*variant, 10); err != nil {
		BridgeScriptErr = err
		pointNote("%v", err)
	}
	if err := sim.LiquidityScript(h); err != nil {
		pointNote("%v", err)
	}
	// liquidity gets guardians of its own (other members, other order than the bridge's)
	liqGuardians := []types.Address{u(4), u(3), u(1), u(0)}
	for i := 0; i < 2; i++ {
		submit(bridgeAdmin(), types.LiquidityContract, types.ZnnTokenStandard, zero, definition.ABILiquidity.PackMethodPanic(definition.NominateGuardiansMethodName, liqGuardians), "liquidity.NominateGuardians(own set)")
		if err := produce(int(constants.MinAdministratorDelay) + 2); err != nil {
			return nil, err
		}
	}
	for i := 0; i < 3; i++ {
		intent("liquidity-stake")
	}
	// 2. sentinel, second-generation pillar, stake, accepted project with a phase, hash time lock
	if _, err := sim.EcosystemScript(h); err != nil {
		return nil, err
	}
	// 3. registrations of our own: a second sentinel and a pillar that will be revoked, by users that can afford them
	pst := func() []*definition.PillarInfo {
		l, _ := definition.GetPillarsList(h.A.Chain.GetFrontierAccountStore(types.PillarContract).Storage(), false, definition.AnyPillarType)
		return l
	}
	ownsPillar := func(a types.Address) bool {
		for _, p := range pst() {
			if p.StakeAddress == a {
				return true
			}
		}
		return false
	}
	pillarCost := func() *big.Int {
		n := 0
		for _, p := range pst() {
			if p.RevokeTime == 0 && p.PillarType == definition.NormalPillarType {
				n++
			}
		}
		cost := new(big.Int).Mul(constants.PillarQsrStakeIncreaseAmount, big.NewInt(int64(n)))
		return cost.Add(cost, constants.PillarQsrStakeBaseAmount)
	}
	var goneOwner types.Address
	for i := 4; i >= 0 && goneOwner.IsZero(); i-- {
		if ownsPillar(u(i)) || h.Balance(u(i), types.ZnnTokenStandard).Cmp(constants.PillarStakeAmount) < 0 || h.Balance(u(i), types.QsrTokenStandard).Cmp(pillarCost()) < 0 {
			continue
		}
		if submit(u(i), types.PillarContract, types.QsrTokenStandard, pillarCost(), definition.ABICommon.PackMethodPanic(definition.DepositQsrMethodName), "pillar.DepositQsr for VP-gone") == nil {
			continue
		}
		if err := produce(2); err != nil {
			return nil, err
		}
		if submit(u(i), types.PillarContract, types.ZnnTokenStandard, constants.PillarStakeAmount,
			definition.ABIPillars.PackMethodPanic(definition.RegisterMethodName, "VP-gone", sim.ExtraKey(1+variant).Address, u((i+1)%5), uint8(7), uint8(93)), "pillar.Register VP-gone") != nil {
			goneOwner = u(i)
		}
	}
	if err := produce(2); err != nil {
		return nil, err
	}
	sentinels := func() []*definition.SentinelInfo {
		return definition.GetAllSentinelInfo(h.A.Chain.GetFrontierAccountStore(types.SentinelContract).Storage())
	}
	hasSentinel := func(a types.Address) bool {
		for _, s := range sentinels() {
			if s.Owner == a {
				return true
			}
		}
		return false
	}
	registered := 0
	for i := 0; i < 5 && registered < 2; i++ {
		if hasSentinel(u(i)) || h.Balance(u(i), types.ZnnTokenStandard).Cmp(constants.SentinelZnnRegisterAmount) < 0 || h.Balance(u(i), types.QsrTokenStandard).Cmp(constants.SentinelQsrDepositAmount) < 0 {
			continue
		}
		if submit(u(i), types.SentinelContract, types.QsrTokenStandard, constants.SentinelQsrDepositAmount, definition.ABICommon.PackMethodPanic(definition.DepositQsrMethodName), "sentinel.DepositQsr") == nil {
			continue
		}
		if err := produce(2); err != nil {
			return nil, err
		}
		if submit(u(i), types.SentinelContract, types.ZnnTokenStandard, constants.SentinelZnnRegisterAmount, definition.ABISentinel.PackMethodPanic(definition.RegisterSentinelMethodName), "sentinel.Register") != nil {
			registered++
		}
	}
	if err := produce(2); err != nil {
		return nil, err
	}
	// 4. deposits that stay unconsumed (different amounts in the two contracts), backers, proxy-unlock settings
	for i := 0; i < 5; i++ {
		if h.Balance(u(i), types.QsrTokenStandard).Cmp(zq(3000)) < 0 {
			continue
		}
		if i%2 == 0 {
			submit(u(i), types.PillarContract, types.QsrTokenStandard, zq(int64(700+i)), definition.ABICommon.PackMethodPanic(definition.DepositQsrMethodName), "pillar.DepositQsr (stays)")
		}
		if i%3 != 2 {
			submit(u(i), types.SentinelContract, types.QsrTokenStandard, zq(int64(300+7*i)), definition.ABICommon.PackMethodPanic(definition.DepositQsrMethodName), "sentinel.DepositQsr (stays)")
		}
	}
	if goneOwner != (types.Address{}) {
		submit(u(1), types.PillarContract, types.ZnnTokenStandard, zero, definition.ABIPillars.PackMethodPanic(definition.DelegateMethodName, "VP-gone"), "pillar.Delegate(VP-gone)")
		submit(sim.ExtraKey(0).Address, types.PillarContract, types.ZnnTokenStandard, zero, definition.ABIPillars.PackMethodPanic(definition.DelegateMethodName, "VP-gone"), "pillar.Delegate(VP-gone) by extra")
	}
	submit(u(3), types.PillarContract, types.ZnnTokenStandard, zero, definition.ABIPillars.PackMethodPanic(definition.DelegateMethodName, spec.Pillars[0].Name), "pillar.Delegate")
	submit(u(0), types.PillarContract, types.ZnnTokenStandard, zero, definition.ABIPillars.PackMethodPanic(definition.UndelegateMethodName), "pillar.Undelegate")
	submit(u(2), types.HtlcContract, types.ZnnTokenStandard, zero, definition.ABIHtlc.PackMethodPanic(definition.DenyHtlcProxyUnlockMethodName), "htlc.DenyProxyUnlock")
	submit(u(4), types.HtlcContract, types.ZnnTokenStandard, zero, definition.ABIHtlc.PackMethodPanic(definition.DenyHtlcProxyUnlockMethodName), "htlc.DenyProxyUnlock")
	submit(u(3), types.HtlcContract, types.ZnnTokenStandard, zero, definition.ABIHtlc.PackMethodPanic(definition.AllowHtlcProxyUnlockMethodName), "htlc.AllowProxyUnlock")
	if err := produce(2); err != nil {
		return nil, err
	}
	submit(u(4), types.HtlcContract, types.ZnnTokenStandard, zero, definition.ABIHtlc.PackMethodPanic(definition.AllowHtlcProxyUnlockMethodName), "htlc.AllowProxyUnlock (after deny)")
	// 5. a legacy key retrieves its assets, another uses one of its pillar slots' signatures for nothing
	{
		prv, pub := sim.SwapKey(1)
		pubB64 := base64Std(pub)
		if sig, err := implementation.SignRetrieveAssetsMessage(u(4), prv, pubB64); err == nil {
			submit(u(4), types.SwapContract, types.ZnnTokenStandard, zero, definition.ABISwap.PackMethodPanic(definition.RetrieveAssetsMethodName, pubB64, sig), "swap.RetrieveAssets(key 1)")
		}
	}
	// 6. projects, phases, votes; hash time locks
	for i := 0; i < 3; i++ {
		intent("accelerator-project")
		intent("htlc-create")
	}
	if err := produce(2); err != nil {
		return nil, err
	}
	for i := 0; i < 8; i++ {
		intent("accelerator-vote")
	}
	// explicit no / abstain votes on the newest project
	if n := len(h.Projects); n > 0 {
		for pi, ps := range spec.Pillars {
			vote := []uint8{definition.VoteNo, definition.VoteAbstain, definition.VoteYes, definition.VoteNo}[pi%4]
			submit(sim.PillarKey(ps.Key).Address, types.AcceleratorContract, types.ZnnTokenStandard, zero,
				definition.ABICommon.PackMethodPanic(definition.VoteByNameMethodName, h.Projects[n-1], ps.Name, vote), fmt.Sprintf("accelerator.VoteByName(%d)", vote))
		}
	}
	if err := produce(int(constants.UpdateMinNumMomentums) + 2); err != nil {
		return nil, err
	}
	for i := 0; i < 3; i++ {
		intent("accelerator-add-phase")
	}
	if err := produce(2); err != nil {
		return nil, err
	}
	// 7. random life over several epochs (rewards accrue; some are collected)
	momentums := 70 - 20*variant
	for m := 0; m < momentums && !h.Dead; m++ {
		for k := 0; k < 3; k++ {
			switch c.Weighted("point.act", 2, 2, 8, 1) {
			case 0:
				h.ActTransfer()
			case 1:
				h.ActReceive()
			case 2:
				h.ActIntent()
			default:
				h.ActCallABI()
			}
		}
		if m%9 == 4 {
			intent("accelerator-vote")
			intent("collect-reward")
		}
		skip := 0
		switch {
		case m%10 == 9:
			skip = 50 + c.Int("point.skip", 0, 70)
		case m%4 == 2:
			skip = c.Int("point.skipsmall", 1, 3)
		}
		if !h.Produce(skip) {
			break
		}
	}
	if h.Dead {
		h.W.Close()
		return nil, fmt.Errorf("point script wedged the producer: %v", h.A.Preflight)
	}
	// 8. revocations in their windows
	waitWindow := func(registration, lock, window int64) error {
		for tries := 0; tries < 4; tries++ {
			now := h.A.Frontier().Timestamp.Unix()
			t := (now - registration) % (lock + window)
			if t >= lock && t < lock+window-40 {
				return nil
			}
			wait := lock - t
			if t >= lock {
				wait = lock + window - t + lock
			}
			if !h.Produce(int(wait/10) + 1) {
				return fmt.Errorf("point script: producer stopped")
			}
		}
		return nil
	}
	for _, p := range pst() {
		if p.Name == "VP-gone" && p.RevokeTime == 0 {
			if err := waitWindow(p.RegistrationTime, constants.PillarEpochLockTime, constants.PillarEpochRevokeTime); err != nil {
				return nil, err
			}
			submit(p.StakeAddress, types.PillarContract, types.ZnnTokenStandard, zero, definition.ABIPillars.PackMethodPanic(definition.RevokeMethodName, p.Name), "pillar.Revoke VP-gone")
			if err := produce(2); err != nil {
				return nil, err
			}
		}
	}
	if all := sentinels(); len(all) > 1 {
		s := all[len(all)-1]
		if err := waitWindow(s.RegistrationTimestamp, constants.SentinelLockTimeWindow, constants.SentinelRevokeTimeWindow); err != nil {
			return nil, err
		}
		submit(s.Owner, types.SentinelContract, types.ZnnTokenStandard, zero, definition.ABISentinel.PackMethodPanic(definition.RevokeSentinelMethodName), "sentinel.Revoke")
		if err := produce(2); err != nil {
			return nil, err
		}
	}
	// 9. variant 1: the administrator changes delays, metadata and the orchestrator parameters; a time jump far
	// enough for the legacy assets to decay
	if variant == 1 {
		admin := bridgeAdmin()
		submit(admin, types.BridgeContract, types.ZnnTokenStandard, zero, definition.ABIBridge.PackMethodPanic(definition.SetBridgeMetadataMethodName, `{"verif":18}`), "bridge.SetBridgeMetadata")
		submit(admin, types.BridgeContract, types.ZnnTokenStandard, zero, definition.ABIBridge.PackMethodPanic(definition.SetNetworkMetadataMethodName, uint32(2), uint32(124), `{"k":"v"}`), "bridge.SetNetworkMetadata")
		submit(admin, types.BridgeContract, types.ZnnTokenStandard, zero, definition.ABIBridge.PackMethodPanic(definition.SetOrchestratorInfoMethodName, uint64(9), uint32(4), uint32(25), uint32(11)), "bridge.SetOrchestratorInfo")
		submit(admin, types.BridgeContract, types.ZnnTokenStandard, zero, definition.ABIBridge.PackMethodPanic(definition.SetAllowKeygenMethodName, true), "bridge.SetAllowKeyGen")
		if err := produce(2); err != nil {
			return nil, err
		}
	}
	// 10. fresh requests (not yet final / not yet redeemable) and pending time challenges
	for i := 0; i < 4; i++ {
		intent("bridge-wrap")
		intent("bridge-unwrap")
	}
	if err := produce(1); err != nil {
		return nil, err
	}
	intent("bridge-redeem")
	intent("bridge-revoke-unwrap")
	intent("bridge-update-wrap")
	submit(bridgeAdmin(), types.BridgeContract, types.ZnnTokenStandard, zero, definition.ABIBridge.PackMethodPanic(definition.SetTokenPairMethod, uint32(2), uint32(123), types.QsrTokenStandard,
		"0x7fbdb2315678afecb367f032d93f642f64180aa3", true, true, false, big.NewInt(50), uint32(20), uint32(9), `{"pending":true}`), "bridge.SetTokenPair (challenge only)")
	submit(bridgeAdmin(), types.BridgeContract, types.ZnnTokenStandard, zero, definition.ABIBridge.PackMethodPanic(definition.ChangeAdministratorMethodName, u(3)), "bridge.ChangeAdministrator (challenge only)")
	submit(bridgeAdmin(), types.LiquidityContract, types.ZnnTokenStandard, zero, definition.ABILiquidity.PackMethodPanic(definition.SetAdditionalRewardMethodName, big.NewInt(187), big.NewInt(1001)), "liquidity.SetAdditionalReward (challenge only)")
	if err := produce(2); err != nil {
		return nil, err
	}
	for i := 0; i < 2; i++ {
		intent("bridge-wrap")
		intent("bridge-unwrap")
	}
	if err := produce(1); err != nil {
		return nil, err
	}
	// 11. the pool at the end: unconfirmed blocks of several users (their plasma is in use), contract receives pending
	for k := 0; k < 3; k++ {
		submit(u(k), u((k+1)%5), types.ZnnTokenStandard, big.NewInt(int64(11+k)), []byte(fmt.Sprintf("pooled-%d", k)), "pooled send")
	}
	submit(u(0), u(2), types.QsrTokenStandard, big.NewInt(5), nil, "pooled send")
	intent("bridge-wrap")
	intent("plasma-fuse")
	h.ActReceive()
	v, err := NewView(fmt.Sprintf("point%d", variant), h.A, h.Users, pillarNames(h), true)
	if err != nil {
		return nil, err
	}
	v.Pillars = append(v.Pillars, "VP-script", "VP-gone")
	return v, nil
}

var _ = sort.Strings
