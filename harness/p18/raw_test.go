package p18

// TestC18RawRequests / FuzzC18Request: raw JSON-RPC request bytes against the in-process
// rpc/server (ServeHTTP on a recorder). Oracle, independent of the server: a small model of
// JSON-RPC 2.0 says for every request body which responses are REQUIRED (an error response for
// everything malformed, a response echoing the id for every call); the body that comes back
// must be one well-formed JSON value holding well-formed response objects; no panic leaves
// ServeHTTP; a valid sentinel request is answered correctly afterwards.

import (
	"bytes"
	"encoding/json"
	"fmt"
	"io"
	"math/big"
	"mime"
	"strings"
	"testing"
	"unicode/utf8"

	"github.com/zenon-network/go-zenon/chain/nom"
	"github.com/zenon-network/go-zenon/common/types"

	"verifharness/pbt"
	"verifharness/sim"
)

const (
	keySrvPanic = "C18/server-panic"
	keySrvResp  = "C18/server-response-malformed"
	keySrvMiss  = "C18/server-no-response"
	keySrvDead  = "C18/server-dead"
	keySrvCode  = "C18/server-wrong-error"
	maxBody     = 5 * 1024 * 1024 // rpc/server/http.go maxRequestContentLength
)

// ---- the request model -----------------------------------------------------------------------------

type elemClass struct {
	required bool            // a response object is required
	echoID   json.RawMessage // if non-nil the response must carry this id
	mustErr  bool            // the required response must be an error response
	why      string
}

func foldKeys(m map[string]json.RawMessage, name string) (vals []json.RawMessage) {
	for k, v := range m {
		if strings.EqualFold(k, name) {
			vals = append(vals, v)
		}
	}
	return vals
}

func jsonKind(raw json.RawMessage) byte {
	t := bytes.TrimLeft(raw, " \t\r\n")
	if len(t) == 0 {
		return 0
	}
	switch t[0] {
	case '{', '[', '"', 't', 'f', 'n':
		return t[0]
	}
	return '0'
}

// classifyElem decides what JSON-RPC 2.0 demands for one element (single request or batch member).
func classifyElem(raw json.RawMessage) elemClass {
	if jsonKind(raw) != '{' {
		return elemClass{required: true, mustErr: true, why: "not an object"}
	}
	var m map[string]json.RawMessage
	if err := json.Unmarshal(raw, &m); err != nil {
		return elemClass{why: "object not decodable: " + err.Error()}
	}
	ids, methods := foldKeys(m, "id"), foldKeys(m, "method")
	if len(ids) > 1 || len(methods) > 1 || hasDuplicateKeys(raw) {
		return elemClass{why: "ambiguous keys"}
	}
	if len(foldKeys(m, "result"))+len(foldKeys(m, "error")) > 0 {
		return elemClass{why: "response-shaped"}
	}
	method := ""
	if len(methods) == 1 && jsonKind(methods[0]) == '"' {
		_ = json.Unmarshal(methods[0], &method)
	}
	if len(ids) == 0 {
		if method != "" {
			return elemClass{why: "notification"}
		}
		return elemClass{required: true, mustErr: true, why: "neither id nor method"}
	}
	switch jsonKind(ids[0]) {
	case '{', '[':
		return elemClass{required: true, mustErr: true, why: "structured id"}
	case '"', '0', 'n':
		if _, exact := m["id"]; !exact {
			return elemClass{why: "id key in another case"}
		}
		if method == "" {
			return elemClass{required: true, mustErr: true, echoID: ids[0], why: "id without method"}
		}
		return elemClass{required: true, echoID: ids[0], why: "call"}
	}
	return elemClass{why: "boolean id"}
}

func hasDuplicateKeys(raw json.RawMessage) bool {
	dec := json.NewDecoder(bytes.NewReader(raw))
	if t, err := dec.Token(); err != nil || t != json.Delim('{') {
		return false
	}
	seen := map[string]bool{}
	for dec.More() {
		t, err := dec.Token()
		if err != nil {
			return false
		}
		k, _ := t.(string)
		k = strings.ToLower(k)
		if seen[k] {
			return true
		}
		seen[k] = true
		var skip json.RawMessage
		if err := dec.Decode(&skip); err != nil {
			return false
		}
	}
	return false
}

type bodyClass struct {
	kind  string // "empty" "invalid-json" "single" "batch" "empty-batch"
	elems []elemClass
}

func classifyBody(body []byte) bodyClass {
	dec := json.NewDecoder(bytes.NewReader(body))
	var raw json.RawMessage
	if err := dec.Decode(&raw); err != nil {
		if err == io.EOF {
			return bodyClass{kind: "empty"}
		}
		return bodyClass{kind: "invalid-json"}
	}
	if jsonKind(raw) == '[' {
		var elems []json.RawMessage
		if err := json.Unmarshal(raw, &elems); err != nil {
			return bodyClass{kind: "invalid-json"}
		}
		if len(elems) == 0 {
			return bodyClass{kind: "empty-batch"}
		}
		bc := bodyClass{kind: "batch"}
		for _, e := range elems {
			bc.elems = append(bc.elems, classifyElem(e))
		}
		return bc
	}
	return bodyClass{kind: "single", elems: []elemClass{classifyElem(raw)}}
}

// ---- response validation -----------------------------------------------------------------------------

type respObj struct {
	id      json.RawMessage
	isError bool
	code    int
	message string
}

func parseResponseObject(raw json.RawMessage) (respObj, error) {
	var r respObj
	if jsonKind(raw) != '{' {
		return r, fmt.Errorf("response is not an object: %s", clip(raw))
	}
	var m map[string]json.RawMessage
	if err := json.Unmarshal(raw, &m); err != nil {
		return r, err
	}
	var v string
	if err := json.Unmarshal(m["jsonrpc"], &v); err != nil || v != "2.0" {
		return r, fmt.Errorf("jsonrpc member is %s", string(m["jsonrpc"]))
	}
	id, ok := m["id"]
	if !ok {
		return r, fmt.Errorf("no id member")
	}
	r.id = id
	_, hasRes := m["result"]
	rawErr, hasErr := m["error"]
	if hasRes == hasErr {
		return r, fmt.Errorf("result present=%v, error present=%v", hasRes, hasErr)
	}
	if hasErr {
		var e struct {
			Code    *int    `json:"code"`
			Message *string `json:"message"`
		}
		if err := json.Unmarshal(rawErr, &e); err != nil || e.Code == nil || e.Message == nil {
			return r, fmt.Errorf("error member malformed: %s", clip(rawErr))
		}
		r.isError, r.code, r.message = true, *e.Code, *e.Message
	}
	for k := range m {
		switch k {
		case "jsonrpc", "id", "result", "error":
		default:
			return r, fmt.Errorf("unexpected member %q", k)
		}
	}
	return r, nil
}

func sameJSON(a, b json.RawMessage) bool { return canon(a) == canon(b) }

// judge applies the model to one exchange; returns (key, message) or ("", "").
func judge(sent []byte, chunked bool, contentType string, res HTTPResult) (string, string) {
	if res.Panic != nil {
		return keySrvPanic, fmt.Sprintf("ServeHTTP panicked: %v\n%s", res.Panic, trim(res.Stack))
	}
	effective := sent
	if len(effective) > maxBody {
		if !chunked {
			if res.Status != 413 {
				return keySrvResp, fmt.Sprintf("a body of %d bytes with Content-Length was answered with status %d, want 413", len(sent), res.Status)
			}
			return "", ""
		}
		effective = effective[:maxBody]
	}
	if res.Status != 200 {
		if res.Status >= 400 && res.Status < 500 && !acceptedContentType(contentType) {
			return "", "" // HTTP-level refusal of a bad content type
		}
		return keySrvResp, fmt.Sprintf("status %d for a POST of %d bytes with content type %q: %s", res.Status, len(sent), contentType, clip(res.Body))
	}
	bc := classifyBody(effective)
	body := bytes.TrimSpace(res.Body)
	// (an id holding invalid UTF-8 is echoed byte for byte; the JSON decoder reads both alike, so
	// the response is not required to be valid UTF-8 when the request was not)
	if !utf8.Valid(body) && utf8.Valid(effective) {
		return keySrvResp, "the response to a valid UTF-8 request is not valid UTF-8: " + clip(body)
	}
	var first json.RawMessage
	if len(body) > 0 {
		dec := json.NewDecoder(bytes.NewReader(body))
		if err := dec.Decode(&first); err != nil {
			return keySrvResp, fmt.Sprintf("the response is not JSON (%v): %s", err, clip(body))
		}
		if rest, _ := io.ReadAll(dec.Buffered()); len(bytes.TrimSpace(rest)) > 0 || dec.More() {
			return keySrvResp, "more than one JSON value in the response: " + clip(body)
		}
	}
	single := func(want elemClass) (string, string) {
		if len(body) == 0 {
			if want.required {
				return keySrvMiss, fmt.Sprintf("no response body; a response is required (%s)", want.why)
			}
			return "", ""
		}
		r, err := parseResponseObject(first)
		if err != nil {
			return keySrvResp, fmt.Sprintf("%v: %s", err, clip(body))
		}
		if want.required {
			if want.mustErr && !r.isError {
				return keySrvCode, fmt.Sprintf("a malformed request (%s) got a success response: %s", want.why, clip(body))
			}
			if want.echoID != nil && !sameJSON(r.id, want.echoID) {
				return keySrvResp, fmt.Sprintf("response id %s, request id %s", r.id, want.echoID)
			}
			if want.echoID == nil && string(bytes.TrimSpace(r.id)) != "null" {
				return keySrvResp, fmt.Sprintf("response id %s for a request without a usable id (%s)", r.id, want.why)
			}
		}
		return "", ""
	}
	switch bc.kind {
	case "empty":
		if len(body) != 0 {
			if _, err := parseResponseObject(first); err != nil {
				return keySrvResp, fmt.Sprintf("%v: %s", err, clip(body))
			}
		}
		return "", ""
	case "invalid-json":
		k, msg := single(elemClass{required: true, mustErr: true, why: "invalid JSON"})
		if k == "" {
			if r, _ := parseResponseObject(first); r.code != -32700 {
				return keySrvCode, fmt.Sprintf("invalid JSON answered with error code %d (%s), want -32700", r.code, r.message)
			}
		}
		return k, msg
	case "empty-batch":
		return single(elemClass{required: true, mustErr: true, why: "empty batch"})
	case "single":
		return single(bc.elems[0])
	}
	// batch
	required := 0
	for _, e := range bc.elems {
		if e.required {
			required++
		}
	}
	if len(body) == 0 {
		if required > 0 {
			return keySrvMiss, fmt.Sprintf("no response body; the batch holds %d elements that require a response", required)
		}
		return "", ""
	}
	if jsonKind(first) != '[' {
		return keySrvResp, "a batch was answered with a non-array: " + clip(body)
	}
	var raws []json.RawMessage
	if err := json.Unmarshal(first, &raws); err != nil {
		return keySrvResp, err.Error()
	}
	if len(raws) < required || len(raws) > len(bc.elems) {
		return keySrvMiss, fmt.Sprintf("batch of %d elements (%d require a response) answered with %d responses", len(bc.elems), required, len(raws))
	}
	got := map[string]int{}
	for _, raw := range raws {
		r, err := parseResponseObject(raw)
		if err != nil {
			return keySrvResp, fmt.Sprintf("batch response element: %v: %s", err, clip(raw))
		}
		got[canon(r.id)]++
	}
	for _, e := range bc.elems {
		if e.required && e.echoID != nil {
			if got[canon(e.echoID)] == 0 {
				return keySrvMiss, fmt.Sprintf("no response with id %s in the batch answer", e.echoID)
			}
			got[canon(e.echoID)]--
		}
	}
	return "", ""
}

func acceptedContentType(ct string) bool {
	mt, _, err := mime.ParseMediaType(ct)
	if err != nil {
		return false // a malformed header may be refused at the HTTP level
	}
	return mt == "application/json" || mt == "application/json-rpc" || mt == "application/jsonrequest"
}

// sentinel asks for the frontier momentum and checks the answer against the store.
func sentinel(v *View) string {
	res, rpcErr, err := v.Srv.Call("ledger.getFrontierMomentum")
	if err != nil {
		return err.Error()
	}
	if rpcErr != nil {
		return "sentinel request failed: " + rpcErr.Message
	}
	var m struct {
		Height uint64 `json:"height"`
		Hash   string `json:"hash"`
	}
	if err := json.Unmarshal(res, &m); err != nil || m.Height != v.Frontier || m.Hash != v.Momentums[v.Frontier-1].Hash.String() {
		return fmt.Sprintf("sentinel answer %s, frontier is %d", clip(res), v.Frontier)
	}
	return ""
}

// ---- request generation --------------------------------------------------------------------------------

type template struct {
	method string
	params func(v *View) []interface{}
}

func templates() []template {
	busy := func(v *View) interface{} { return v.Busy }
	return []template{
		{"ledger.getFrontierMomentum", func(v *View) []interface{} { return []interface{}{} }},
		{"ledger.getAccountBlocksByPage", func(v *View) []interface{} { return []interface{}{busy(v), 0, 3} }},
		{"ledger.getAccountBlocksByHeight", func(v *View) []interface{} { return []interface{}{busy(v), 1, 2} }},
		{"ledger.getUnreceivedBlocksByAddress", func(v *View) []interface{} { return []interface{}{v.Sink, 0, 2} }},
		{"ledger.getUnconfirmedBlocksByAddress", func(v *View) []interface{} { return []interface{}{busy(v), 0, 5} }},
		{"ledger.getMomentumsByPage", func(v *View) []interface{} { return []interface{}{0, 2} }},
		{"ledger.getMomentumsByHeight", func(v *View) []interface{} { return []interface{}{1, 2} }},
		{"ledger.getDetailedMomentumsByHeight", func(v *View) []interface{} { return []interface{}{2, 1} }},
		{"ledger.getMomentumBeforeTime", func(v *View) []interface{} { return []interface{}{v.Momentums[3].TimestampUnix} }},
		{"ledger.getMomentumByHash", func(v *View) []interface{} { return []interface{}{v.Momentums[1].Hash} }},
		{"ledger.getAccountBlockByHash", func(v *View) []interface{} { return []interface{}{v.HashPool[0]} }},
		{"ledger.getFrontierAccountBlock", func(v *View) []interface{} { return []interface{}{busy(v)} }},
		{"ledger.getAccountInfoByAddress", func(v *View) []interface{} { return []interface{}{busy(v)} }},
		{"ledger.publishRawTransaction", func(v *View) []interface{} { return []interface{}{v.L.Blocks[v.Busy][1]} }},
		{"ledger.subscribe", func(v *View) []interface{} { return []interface{}{"momentums"} }},
		{"ledger.subscribe", func(v *View) []interface{} { return []interface{}{"accountBlocksByAddress", busy(v)} }},
		{"ledger.unsubscribe", func(v *View) []interface{} { return []interface{}{"0x1234"} }},
		{"rpc.modules", func(v *View) []interface{} { return []interface{}{} }},
		{"embedded.token.getAll", func(v *View) []interface{} { return []interface{}{0, 2} }},
		{"embedded.token.getByOwner", func(v *View) []interface{} { return []interface{}{busy(v), 0, 2} }},
		{"embedded.token.getByZts", func(v *View) []interface{} { return []interface{}{"zts1znnxxxxxxxxxxxxx9z4ulx"} }},
		{"embedded.pillar.getAll", func(v *View) []interface{} { return []interface{}{0, 2} }},
		{"embedded.pillar.getByName", func(v *View) []interface{} { return []interface{}{v.Pillars[0]} }},
		{"embedded.pillar.getPillarEpochHistory", func(v *View) []interface{} { return []interface{}{v.Pillars[0], 0, 2} }},
		{"embedded.pillar.getPillarsHistoryByEpoch", func(v *View) []interface{} { return []interface{}{1, 0, 2} }},
		{"embedded.pillar.getDelegatedPillar", func(v *View) []interface{} { return []interface{}{busy(v)} }},
		{"embedded.pillar.getDepositedQsr", func(v *View) []interface{} { return []interface{}{busy(v)} }},
		{"embedded.plasma.get", func(v *View) []interface{} { return []interface{}{busy(v)} }},
		{"embedded.plasma.getEntriesByAddress", func(v *View) []interface{} { return []interface{}{busy(v), 0, 2} }},
		{"embedded.plasma.getRequiredPoWForAccountBlock", func(v *View) []interface{} {
			return []interface{}{map[string]interface{}{"address": busy(v), "blockType": 2, "toAddress": v.Sink, "data": "AAEC"}}
		}},
		{"embedded.stake.getEntriesByAddress", func(v *View) []interface{} { return []interface{}{busy(v), 0, 2} }},
		{"embedded.stake.getFrontierRewardByPage", func(v *View) []interface{} { return []interface{}{busy(v), 0, 2} }},
		{"embedded.sentinel.getAllActive", func(v *View) []interface{} { return []interface{}{0, 2} }},
		{"embedded.sentinel.getByOwner", func(v *View) []interface{} { return []interface{}{busy(v)} }},
		{"embedded.spork.getAll", func(v *View) []interface{} { return []interface{}{0, 2} }},
		{"embedded.swap.getAssets", func(v *View) []interface{} { return []interface{}{} }},
		{"embedded.swap.getLegacyPillars", func(v *View) []interface{} { return []interface{}{} }},
		{"embedded.accelerator.getAll", func(v *View) []interface{} { return []interface{}{0, 2} }},
		{"embedded.accelerator.getProjectById", func(v *View) []interface{} { return []interface{}{v.HashPool[0]} }},
		{"embedded.accelerator.getPillarVotes", func(v *View) []interface{} {
			return []interface{}{v.Pillars[0], []interface{}{v.HashPool[0], v.HashPool[1]}}
		}},
		{"embedded.htlc.getById", func(v *View) []interface{} { return []interface{}{v.HashPool[0]} }},
		{"embedded.htlc.getProxyUnlockStatus", func(v *View) []interface{} { return []interface{}{busy(v)} }},
		{"embedded.bridge.getBridgeInfo", func(v *View) []interface{} { return []interface{}{} }},
		{"embedded.bridge.getAllNetworks", func(v *View) []interface{} { return []interface{}{0, 2} }},
		{"embedded.bridge.getNetworkInfo", func(v *View) []interface{} { return []interface{}{2, 123} }},
		{"embedded.bridge.getAllWrapTokenRequests", func(v *View) []interface{} { return []interface{}{0, 2} }},
		{"embedded.bridge.getAllUnwrapTokenRequestsByToAddress", func(v *View) []interface{} { return []interface{}{"", 0, 2} }},
		{"embedded.bridge.getWrapTokenRequestById", func(v *View) []interface{} { return []interface{}{v.HashPool[0]} }},
		{"embedded.bridge.getUnwrapTokenRequestByHashAndLog", func(v *View) []interface{} { return []interface{}{v.HashPool[0], 0} }},
		{"embedded.bridge.getFeeTokenPair", func(v *View) []interface{} { return []interface{}{"zts1znnxxxxxxxxxxxxx9z4ulx"} }},
		{"embedded.liquidity.getLiquidityInfo", func(v *View) []interface{} { return []interface{}{} }},
		{"embedded.liquidity.getLiquidityStakeEntriesByAddress", func(v *View) []interface{} { return []interface{}{busy(v), 0, 2} }},
	}
}

func mustJSON(v interface{}) []byte {
	b, err := json.Marshal(v)
	if err != nil {
		panic(err)
	}
	return b
}

// hostile JSON fragments used in place of an argument, an id, a method ...
var hostile = []string{`null`, `true`, `-1`, `1.5`, `1e400`, `-0`, `4294967296`, `18446744073709551616`, `99999999999999999999999999999999999999999999999999`,
	`""`, `"x"`, `"0x10"`, `"18446744073709551615"`, `[]`, `[[]]`, `{}`, `{"a":{"a":{"a":[]}}}`, `"z1qqqqqqqqqqqqqqqqqqqqqqqqqqqqqqqqsggv2f"`, `"z1invalid"`,
	`"0000000000000000000000000000000000000000000000000000000000000000"`, `"zz"`, `"\u0000"`, `"\ud800"`, `1E+2`, `0.0000000000000000000000000001`, `[1,2,3]`, `"` + strings.Repeat("A", 300) + `"`}

func genValid(c *pbt.C, v *View, tpls []template, label string) (req map[string]json.RawMessage, tpl template) {
	tpl = tpls[c.Pick(label+".tpl", len(tpls))]
	req = map[string]json.RawMessage{
		"jsonrpc": json.RawMessage(`"2.0"`),
		"id":      json.RawMessage(fmt.Sprint(c.Int(label+".id", 0, 999))),
		"method":  mustJSON(tpl.method),
		"params":  mustJSON(tpl.params(v)),
	}
	return req, tpl
}

func encodeReq(req map[string]json.RawMessage) []byte {
	// fixed member order so that a recorded case is stable
	var b bytes.Buffer
	b.WriteByte('{')
	first := true
	for _, k := range []string{"jsonrpc", "id", "method", "params"} {
		if v, ok := req[k]; ok {
			if !first {
				b.WriteByte(',')
			}
			first = false
			b.Write(mustJSON(k))
			b.WriteByte(':')
			b.Write(v)
		}
	}
	for _, k := range []string{"result", "error", "ID", "Method", "extra"} {
		if v, ok := req[k]; ok {
			b.WriteByte(',')
			b.Write(mustJSON(k))
			b.WriteByte(':')
			b.Write(v)
		}
	}
	b.WriteByte('}')
	return b.Bytes()
}

const anyError = 1

type rawCase struct {
	body        []byte
	contentType string
	chunked     bool
	class       string
	// expectations known by construction (beyond the generic model)
	wantCode int  // != 0: a single error response with this code
	wantOK   bool // a single success response
}

func genStructural(c *pbt.C, v *View, tpls []template, label string) rawCase {
	req, tpl := genValid(c, v, tpls, label)
	rc := rawCase{contentType: "application/json"}
	kinds := []string{"valid", "unknown-method", "method-no-dot", "method-not-string", "missing-params", "extra-param", "wrong-type-param", "params-object", "params-scalar",
		"id-variant", "no-id", "no-jsonrpc", "response-shaped", "key-case", "subscribe-unknown", "missing-method"}
	kind := kinds[c.Pick(label+".kind", len(kinds))]
	rc.class = "structural/" + kind
	var params []json.RawMessage
	_ = json.Unmarshal(req["params"], &params)
	switch kind {
	case "valid":
		if !strings.Contains(tpl.method, "ubscribe") && tpl.method != "ledger.publishRawTransaction" {
			rc.wantOK = !mayFail[tpl.method]
		}
	case "unknown-method":
		req["method"] = mustJSON([]string{"ledger.noSuchMethod", "nosuch.getAll", "ledger.GetFrontierMomentum", "embedded.token.", ".", "ledger..getAll", "embedded.getAll",
			"ledger.getFrontierMomentum ", "\u0000.x", "ledger.unsubscribex"}[c.Pick(label+".um", 10)])
		rc.wantCode = -32601
	case "method-no-dot":
		req["method"] = mustJSON([]string{"getFrontierMomentum", "ledger", "x", "subscribe"}[c.Pick(label+".nd", 4)])
		rc.wantCode = -32601
	case "method-not-string":
		req["method"] = json.RawMessage(hostile[c.Pick(label+".mns", 9)])
	case "missing-method":
		delete(req, "method")
	case "missing-params":
		if len(params) > 0 {
			params = params[:c.Int(label+".keep", 0, len(params)-1)]
			req["params"] = mustJSON(params)
			rc.wantCode = anyError // -32602, or the method's own refusal of a nil pointer argument
		} else if c.Bool(label + ".dropParams") {
			delete(req, "params")
		} else {
			req["params"] = json.RawMessage("null")
		}
	case "extra-param":
		params = append(params, json.RawMessage(hostile[c.Pick(label+".extra", len(hostile))]))
		req["params"] = mustJSON(params)
		if !strings.Contains(tpl.method, "ubscribe") {
			rc.wantCode = -32602
		}
	case "wrong-type-param":
		if len(params) > 0 {
			i := c.Pick(label+".which", len(params))
			params[i] = json.RawMessage(hostile[c.Pick(label+".hostile", len(hostile))])
			req["params"] = mustJSON(params)
		}
	case "params-object":
		req["params"] = json.RawMessage(`{"address":"z1qqqqqqqqqqqqqqqqqqqqqqqqqqqqqqqqsggv2f","pageIndex":0,"pageSize":1}`)
		if !strings.Contains(tpl.method, "ubscribe") {
			rc.wantCode = -32602
		}
	case "params-scalar":
		req["params"] = json.RawMessage([]string{`5`, `"x"`, `true`}[c.Pick(label+".ps", 3)])
		if !strings.Contains(tpl.method, "ubscribe") {
			rc.wantCode = -32602
		}
	case "id-variant":
		req["id"] = json.RawMessage([]string{`"abc"`, `""`, `0`, `-7`, `1.5`, `1e3`, `null`, `true`, `[1]`, `{"a":1}`, `18446744073709551616`, `"` + strings.Repeat("i", 2000) + `"`,
			`"é世"`}[c.Pick(label+".idv", 13)])
	case "no-id":
		delete(req, "id")
	case "no-jsonrpc":
		if c.Bool(label + ".wrongVersion") {
			req["jsonrpc"] = json.RawMessage(`"1.0"`)
		} else {
			delete(req, "jsonrpc")
		}
	case "response-shaped":
		delete(req, "method")
		delete(req, "params")
		if c.Bool(label + ".rsErr") {
			req["error"] = json.RawMessage(`{"code":1,"message":"m"}`)
		} else {
			req["result"] = json.RawMessage(hostile[c.Pick(label+".rs", len(hostile))])
		}
	case "key-case":
		req["ID"] = req["id"]
		delete(req, "id")
		if c.Bool(label + ".methodCase") {
			req["Method"] = req["method"]
			delete(req, "method")
		}
	case "subscribe-unknown":
		req["method"] = mustJSON([]string{"ledger.subscribe", "nosuch.subscribe", ".subscribe", "x.unsubscribe", "ledger.subscribe"}[c.Pick(label+".su", 5)])
		req["params"] = json.RawMessage([]string{`["noSuchSubscription"]`, `[]`, `[5]`, `null`, `["momentums", 1, 2]`, `"momentums"`}[c.Pick(label+".sup", 6)])
	}
	rc.body = encodeReq(req)
	return rc
}

// mayFail lists template calls whose valid form may legitimately answer with an error.
var mayFail = map[string]bool{"embedded.accelerator.getProjectById": true, "embedded.bridge.getWrapTokenRequestById": true, "embedded.bridge.getUnwrapTokenRequestByHashAndLog": true,
	"embedded.htlc.getById": true, "embedded.bridge.getFeeTokenPair": true, "embedded.pillar.getDepositedQsr": true, "embedded.liquidity.getLiquidityInfo": true,
	"embedded.accelerator.getPillarVotes": true, "embedded.bridge.getNetworkInfo": true, "embedded.plasma.getRequiredPoWForAccountBlock": true}

func mutateBytes(c *pbt.C, label string, in []byte) []byte {
	out := append([]byte{}, in...)
	n := c.Int(label+".n", 1, 4)
	for i := 0; i < n && len(out) > 0; i++ {
		pos := c.Pick(label+".pos", len(out))
		switch c.Weighted(label+".op", 3, 2, 2, 2, 1, 1) {
		case 0:
			out[pos] ^= 1 << uint(c.Int(label+".bit", 0, 7))
		case 1:
			out = append(out[:pos], out[pos+1:]...)
		case 2:
			ins := []byte(`{}[]",:\ 0-e.ntf` + "\x00\xff\xc3\x80\xed\xa0")
			out = append(out[:pos], append([]byte{ins[c.Pick(label+".ins", len(ins))]}, out[pos:]...)...)
		case 3:
			end := pos + c.Int(label+".len", 1, 20)
			if end > len(out) {
				end = len(out)
			}
			out = append(out[:end], append(append([]byte{}, out[pos:end]...), out[end:]...)...)
		case 4:
			out = out[:pos]
		default:
			out = append(out[:pos], append([]byte(hostile[c.Pick(label+".h", len(hostile))]), out[pos:]...)...)
		}
	}
	return out
}

func genRawCase(c *pbt.C, v *View, tpls []template) rawCase {
	switch c.Weighted("raw.class", 6, 5, 4, 2, 2, 1, 1, 1) {
	case 0:
		return genStructural(c, v, tpls, "st")
	case 1:
		req, _ := genValid(c, v, tpls, "mut")
		return rawCase{body: mutateBytes(c, "mut", encodeReq(req)), contentType: "application/json", class: "byte-mutated-valid-request"}
	case 2: // batches
		var parts [][]byte
		var n int
		kind := c.Weighted("batch.kind", 1, 4, 2, 1, 1)
		switch kind {
		case 0:
			n = 0
		case 1:
			n = c.Int("batch.n", 1, 12)
		case 2:
			n = 1000
		case 3:
			return rawCase{body: []byte([]string{`[[]]`, `[[{"jsonrpc":"2.0","id":1,"method":"rpc.modules"}]]`, `[1,"a",null,true,{}]`, `[null]`, `[{}]`,
				` [ ] `}[c.Pick("batch.odd", 6)]), contentType: "application/json", class: "batch/odd"}
		default:
			n = c.Int("batch.big", 13, 200)
		}
		for i := 0; i < n; i++ {
			var rc rawCase
			if n == 1000 {
				if i == 0 || c.Weighted("batch.kfill", 30, 1) == 1 {
					rc = genStructural(c, v, tpls, "bk")
				} else {
					rc = rawCase{body: []byte(fmt.Sprintf(`{"jsonrpc":"2.0","id":%d,"method":"%s","params":[]}`, i,
						[]string{"ledger.getFrontierMomentum", "rpc.modules", "ledger.nope", "embedded.spork.getAll"}[i%4]))}
				}
			} else if c.Weighted("batch.elem", 3, 1) == 0 {
				rc = genStructural(c, v, tpls, "be")
			} else {
				rc = rawCase{body: []byte(hostile[c.Pick("batch.h", len(hostile))])}
			}
			parts = append(parts, rc.body)
		}
		body := append(append([]byte("["), bytes.Join(parts, []byte(","))...), ']')
		return rawCase{body: body, contentType: "application/json", class: fmt.Sprintf("batch/%s", []string{"empty", "small", "1000", "odd", "medium"}[kind])}
	case 3: // deep nesting
		depth := []int{100, 9999, 10000, 10001, 100000, 1000000}[c.Pick("deep.depth", 6)]
		open, cl := "[", "]"
		if c.Bool("deep.object") {
			open, cl = `{"a":`, "}"
		}
		var b bytes.Buffer
		where := c.Weighted("deep.where", 1, 1, 1)
		switch where {
		case 0:
			b.WriteString(strings.Repeat(open, depth))
			if c.Bool("deep.balanced") {
				b.WriteString("1" + strings.Repeat(cl, depth))
			}
		case 1:
			b.WriteString(`{"jsonrpc":"2.0","id":1,"method":"ledger.getMomentumsByPage","params":` + strings.Repeat(open, depth) + "1" + strings.Repeat(cl, depth) + `}`)
		default:
			b.WriteString(`{"jsonrpc":"2.0","method":"rpc.modules","params":[],"id":` + strings.Repeat(open, depth) + "1" + strings.Repeat(cl, depth) + `}`)
		}
		return rawCase{body: b.Bytes(), contentType: "application/json", class: "deep-nesting"}
	case 4: // invalid UTF-8, control bytes, BOM
		req, _ := genValid(c, v, tpls, "utf")
		bad := []string{"\xff", "\xc3", "\xed\xa0\x80", "\x00", "\xef\xbb\xbf", "\xf4\x90\x80\x80", "\x1f"}[c.Pick("utf.bad", 7)]
		body := encodeReq(req)
		switch c.Weighted("utf.where", 2, 2, 1, 1) {
		case 0:
			req["method"] = json.RawMessage(`"ledger.get` + bad + `FrontierMomentum"`)
			body = encodeReq(req)
		case 1:
			req["params"] = json.RawMessage(`["` + bad + `", 0, 1]`)
			body = encodeReq(req)
		case 2:
			body = append([]byte(bad), body...)
		default:
			req["id"] = json.RawMessage(`"` + bad + `"`)
			body = encodeReq(req)
		}
		return rawCase{body: body, contentType: "application/json", class: "invalid-utf8-or-control"}
	case 5: // big bodies around the 5 MiB limit
		size := maxBody + []int{-1, 0, 1, 4096}[c.Pick("big.delta", 4)]
		rc := rawCase{contentType: "application/json", chunked: c.Bool("big.chunked"), class: "five-MiB-body"}
		switch c.Weighted("big.kind", 1, 1, 1, 1) {
		case 0: // a valid request padded with white space
			req := []byte(`{"jsonrpc":"2.0","id":7,"method":"ledger.getFrontierMomentum","params":[]}`)
			rc.body = append(req, bytes.Repeat([]byte(" "), size-len(req))...)
		case 1: // one long string argument
			head, tail := `{"jsonrpc":"2.0","id":7,"method":"embedded.pillar.getByName","params":["`, `"]}`
			rc.body = []byte(head + strings.Repeat("n", size-len(head)-len(tail)) + tail)
		case 2: // a batch that fills the body
			elem := `{"jsonrpc":"2.0","id":1,"method":"x.y"},`
			n := (size - 2) / len(elem)
			s := "[" + strings.Repeat(elem, n)
			s = s[:len(s)-1] + "]"
			rc.body = []byte(s + strings.Repeat(" ", size-len(s)))
		default: // digits
			head, tail := `{"jsonrpc":"2.0","id":7,"method":"ledger.getMomentumsByPage","params":[0,`, `]}`
			rc.body = []byte(head + strings.Repeat("9", size-len(head)-len(tail)) + tail)
		}
		return rc
	case 6: // content types and odd framing
		req, _ := genValid(c, v, tpls, "ct")
		ct := []string{"", "text/plain", "application/json; charset=utf-8", "application/json-rpc", "application/jsonrequest", "APPLICATION/JSON", "application/x-www-form-urlencoded",
			"application/json;;;"}[c.Pick("ct.kind", 8)]
		return rawCase{body: encodeReq(req), contentType: ct, class: "content-type"}
	default: // free bytes
		return rawCase{body: c.Bytes("free.bytes", 0, 200), contentType: "application/json", class: "free-bytes"}
	}
}

func runRaw(v *View, rc rawCase) (key, msg string) {
	res := v.Srv.Post(rc.body, rc.contentType, rc.chunked)
	if key, msg = judge(rc.body, rc.chunked, rc.contentType, res); key != "" {
		return key, msg
	}
	if res.Status == 200 && (rc.wantCode != 0 || rc.wantOK) {
		r, err := parseResponseObject(bytes.TrimSpace(res.Body))
		switch {
		case err != nil:
			return keySrvResp, fmt.Sprintf("%v: %s", err, clip(res.Body))
		case rc.wantOK && r.isError:
			return keySrvCode, fmt.Sprintf("a valid request was answered with error %d %s", r.code, r.message)
		case rc.wantCode == anyError && !r.isError:
			return keySrvCode, fmt.Sprintf("want an error response, got %s", clip(res.Body))
		case rc.wantCode != 0 && rc.wantCode != anyError && (!r.isError || r.code != rc.wantCode):
			return keySrvCode, fmt.Sprintf("want error code %d, got %s", rc.wantCode, clip(res.Body))
		}
	}
	return "", ""
}

func TestC18RawRequests(t *testing.T) {
	tpls := templates()
	pbt.Check(t, "C18", func(c *pbt.C) {
		v := BigView(t, 1)
		n := c.Int("requests", 1, 6)
		for i := 0; i < n; i++ {
			rc := genRawCase(c, v, tpls)
			c.Class(rc.class)
			c.Note("%s: %d bytes, content type %q, chunked=%v: %s", rc.class, len(rc.body), rc.contentType, rc.chunked, clip(rc.body))
			c.Checkpoint() // a panic on a handler goroutine would end the process
			if key, msg := runRaw(v, rc); key != "" {
				c.Failf(key, "%s request (%d bytes: %s): %s", rc.class, len(rc.body), clip(rc.body), msg)
			}
			c.R.Count("raw_requests", 1)
			if rc.class != "structural/valid" && rc.class != "content-type" {
				c.NonTrivial()
			}
		}
		// a handler that panics (a test service registered beside the node's APIs): the panic is contained, the caller gets
		// an error response, the server goes on
		if c.Weighted("crashingHandler", 2, 1) == 1 {
			n := c.Int("crash.n", 0, 12)
			body := []byte(fmt.Sprintf(`{"jsonrpc":"2.0","id":77,"method":"veriftest.crash","params":[%d]}`, n))
			if c.Bool("crash.inBatch") {
				body = []byte(fmt.Sprintf(`[{"jsonrpc":"2.0","id":1,"method":"ledger.getFrontierMomentum","params":[]},%s]`, body))
			}
			c.Checkpoint()
			res := v.Srv.Post(body, "application/json", false)
			c.Class("request-to-a-panicking-handler")
			if res.Panic != nil {
				c.Failf(keySrvPanic, "a panic in a method handler escaped ServeHTTP: %v", res.Panic)
			}
			if n >= 4 && (!bytes.Contains(res.Body, []byte(`"error"`)) || !bytes.Contains(res.Body, []byte(`77`))) {
				c.Failf("C18/handler-panic-not-an-error-response", "the request whose handler panics was answered with status %d: %s", res.Status, clip(res.Body))
			}
		}
		if msg := sentinel(v); msg != "" {
			c.Failf(keySrvDead, "after the requests of this case the server no longer answers the sentinel request: %s", msg)
		}
	})
}

// FuzzC18Request: native fuzzing of the request bytes with the same oracle.
func FuzzC18Request(f *testing.F) {
	tpls := templates()
	for _, s := range []string{
		`{"jsonrpc":"2.0","id":1,"method":"ledger.getFrontierMomentum","params":[]}`,
		`{"jsonrpc":"2.0","id":2,"method":"ledger.getAccountBlocksByPage","params":["z1qqqqqqqqqqqqqqqqqqqqqqqqqqqqqqqqsggv2f",0,10]}`,
		`{"jsonrpc":"2.0","id":3,"method":"ledger.getMomentumsByHeight","params":[1,5]}`,
		`[{"jsonrpc":"2.0","id":4,"method":"embedded.token.getAll","params":[0,5]},{"jsonrpc":"2.0","method":"rpc.modules"}]`,
		`{"jsonrpc":"2.0","id":5,"method":"ledger.subscribe","params":["momentums"]}`,
		`{"jsonrpc":"2.0","id":"a","method":"embedded.plasma.getRequiredPoWForAccountBlock","params":[{"address":"z1qqqqqqqqqqqqqqqqqqqqqqqqqqqqqqqqsggv2f","blockType":2,"toAddress":"z1qqqqqqqqqqqqqqqqqqqqqqqqqqqqqqqqsggv2f","data":"AAEC"}]}`,
		`{"jsonrpc":"2.0","id":6,"method":"embedded.accelerator.getPillarVotes","params":["p",["0000000000000000000000000000000000000000000000000000000000000000"]]}`,
		`[]`, `{}`, `null`, ``,
	} {
		f.Add([]byte(s))
	}
	// every template request, filled from a stub view with the deterministic genesis addresses
	sv := seedView()
	for _, tp := range tpls {
		f.Add(mustJSON(map[string]interface{}{"jsonrpc": "2.0", "id": 1, "method": tp.method, "params": tp.params(sv)}))
	}
	f.Fuzz(func(t *testing.T, data []byte) {
		v := BigView(t, 1)
		rc := rawCase{body: data, contentType: "application/json"}
		if key, msg := runRaw(v, rc); key != "" {
			t.Fatalf("VIOLATION key=%s request %q: %s", key, clip(data), msg)
		}
		if msg := sentinel(v); msg != "" {
			t.Fatalf("VIOLATION key=%s after request %q: %s", keySrvDead, clip(data), msg)
		}
	})
}

func seedView() *View {
	busy := sim.UserKey(0).Address
	v := &View{Busy: busy, Sink: sim.UserKey(1).Address, Pillars: []string{"VP-pillar-00"}}
	for i := 0; i < 5; i++ {
		v.Momentums = append(v.Momentums, &nom.Momentum{Height: uint64(i + 1), TimestampUnix: uint64(sim.GenesisTimestamp + 10*i), Hash: types.NewHash([]byte{byte(i)})})
		v.HashPool = append(v.HashPool, types.NewHash([]byte{9, byte(i)}))
	}
	blk := &nom.AccountBlock{BlockType: nom.BlockTypeUserSend, Address: busy, ToAddress: v.Sink, Amount: big.NewInt(5), Height: 2, TokenStandard: types.ZnnTokenStandard}
	v.L = &sim.Ledger{Blocks: map[types.Address][]*nom.AccountBlock{busy: {blk, blk}}}
	return v
}
