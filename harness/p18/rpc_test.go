package p18

// The api objects of a node and an in-process rpc/server over them (registered the way
// rpc/apis.go does; PillarApi with its synchronous "testing" consensus cache so that answers
// are deterministic).

import (
	"bytes"
	"encoding/json"
	"fmt"
	"io"
	"net/http"
	"net/http/httptest"
	"runtime/debug"
	"sync"

	"github.com/zenon-network/go-zenon/chain"
	"github.com/zenon-network/go-zenon/common"
	"github.com/zenon-network/go-zenon/rpc/api"
	"github.com/zenon-network/go-zenon/rpc/api/embedded"
	"github.com/zenon-network/go-zenon/rpc/api/subscribe"
	rpcserver "github.com/zenon-network/go-zenon/rpc/server"

	"verifharness/sim"
)

type Apis struct {
	Ledger      *api.LedgerApi
	Token       *embedded.TokenAPI
	Sentinel    *embedded.SentinelApi
	Pillar      *embedded.PillarApi
	Plasma      *embedded.PlasmaApi
	Stake       *embedded.StakeApi
	Swap        *embedded.SwapApi
	Spork       *embedded.SporkApi
	Accelerator *embedded.AcceleratorApi
	Htlc        *embedded.HtlcApi
	Bridge      *embedded.BridgeApi
	Liquidity   *embedded.LiquidityApi
}

func NewApis(n *sim.Node) *Apis {
	z := &sim.ZAdapter{N: n}
	return &Apis{
		Ledger: api.NewLedgerApi(z), Token: embedded.NewTokenApi(z), Sentinel: embedded.NewSentinelApi(z),
		Pillar: embedded.NewPillarApi(z, true), Plasma: embedded.NewPlasmaApi(z), Stake: embedded.NewStakeApi(z),
		Swap: embedded.NewSwapApi(z), Spork: embedded.NewSporkApi(z), Accelerator: embedded.NewAcceleratorApi(z),
		Htlc: embedded.NewHtlcApi(z), Bridge: embedded.NewBridgeApi(z), Liquidity: embedded.NewLiquidityApi(z),
	}
}

// RPC is the in-process JSON-RPC server.
type RPC struct {
	S *rpcserver.Server
}

var subOnce sync.Once

// subscribeApi starts the process-wide subscription service on the first long-lived chain.
func subscribeApi(ch chain.Chain) *subscribe.Api {
	subOnce.Do(func() {
		srv := subscribe.GetSubscribeServer(ch)
		common.DealWithErr(srv.Init())
		common.DealWithErr(srv.Start())
	})
	return subscribe.GetSubscribeApi()
}

// NewRPC registers the apis; subChain != nil also registers the subscription api (big worlds only).
func NewRPC(a *Apis, subChain chain.Chain) *RPC {
	s := rpcserver.NewServer()
	reg := func(ns string, svc interface{}) {
		if err := s.RegisterName(ns, svc); err != nil {
			panic(fmt.Sprintf("register %s: %v", ns, err))
		}
	}
	reg("ledger", a.Ledger)
	reg("veriftest", &crashService{}) // a handler that panics: the server must contain it (see raw requests)
	if subChain != nil {
		reg("ledger", subscribeApi(subChain))
	}
	reg("embedded.token", a.Token)
	reg("embedded.sentinel", a.Sentinel)
	reg("embedded.pillar", a.Pillar)
	reg("embedded.plasma", a.Plasma)
	reg("embedded.stake", a.Stake)
	reg("embedded.swap", a.Swap)
	reg("embedded.spork", a.Spork)
	reg("embedded.accelerator", a.Accelerator)
	reg("embedded.htlc", a.Htlc)
	reg("embedded.bridge", a.Bridge)
	reg("embedded.liquidity", a.Liquidity)
	return &RPC{S: s}
}

// HTTPResult is what one POST produced.
type HTTPResult struct {
	Status int
	Body   []byte
	Panic  interface{} // a panic that escaped ServeHTTP on the calling goroutine
	Stack  string
}

// Post sends body as one HTTP POST. chunked = no Content-Length (the server must cap the body itself).
func (r *RPC) Post(body []byte, contentType string, chunked bool) (res HTTPResult) {
	var rd io.Reader = bytes.NewReader(body)
	if chunked {
		rd = struct{ io.Reader }{rd} // hides the length from http.NewRequest
	}
	req := httptest.NewRequest(http.MethodPost, "http://verif.local/", rd)
	if contentType != "" {
		req.Header.Set("content-type", contentType)
	}
	rec := httptest.NewRecorder()
	func() {
		defer func() {
			if p := recover(); p != nil {
				res.Panic = p
				res.Stack = string(debug.Stack())
			}
		}()
		r.S.ServeHTTP(rec, req)
	}()
	res.Status = rec.Code
	res.Body = rec.Body.Bytes()
	return res
}

// RPCError is the error member of a response.
type RPCError struct {
	Code    int             `json:"code"`
	Message string          `json:"message"`
	Data    json.RawMessage `json:"data,omitempty"`
}

type rpcResponse struct {
	Version string          `json:"jsonrpc"`
	ID      json.RawMessage `json:"id"`
	Result  json.RawMessage `json:"result"`
	Error   *RPCError       `json:"error"`
}

// Call performs one well-formed call; transport-level trouble is returned as err.
func (r *RPC) Call(method string, params ...interface{}) (result json.RawMessage, rpcErr *RPCError, err error) {
	if params == nil {
		params = []interface{}{}
	}
	body, err := json.Marshal(map[string]interface{}{"jsonrpc": "2.0", "id": 18, "method": method, "params": params})
	if err != nil {
		return nil, nil, fmt.Errorf("cannot encode the request: %v", err)
	}
	res := r.Post(body, "application/json", false)
	if res.Panic != nil {
		return nil, nil, fmt.Errorf("server panic: %v\n%s", res.Panic, res.Stack)
	}
	if res.Status != 200 {
		return nil, nil, fmt.Errorf("http status %d: %s", res.Status, clip(res.Body))
	}
	var resp rpcResponse
	dec := json.NewDecoder(bytes.NewReader(res.Body))
	if err := dec.Decode(&resp); err != nil {
		return nil, nil, fmt.Errorf("response is not JSON: %v: %s", err, clip(res.Body))
	}
	if resp.Version != "2.0" || string(resp.ID) != "18" {
		return nil, nil, fmt.Errorf("response envelope: %s", clip(res.Body))
	}
	if (resp.Error == nil) == (resp.Result == nil) {
		return nil, nil, fmt.Errorf("response with both or neither of result/error: %s", clip(res.Body))
	}
	return resp.Result, resp.Error, nil
}

func clip(b []byte) string {
	if len(b) > 300 {
		return string(b[:300]) + "…"
	}
	return string(b)
}

// crashService is registered beside the node's APIs: its method panics like a defective handler would (index out of
// range); the property demands an error response and a server that goes on.
type crashService struct{}

func (s *crashService) Crash(n uint32) (int, error) {
	a := make([]int, 4)
	return a[int(n)], nil // n >= 4: index out of range
}
