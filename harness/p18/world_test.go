package p18

// C18 — RPC answers match the ledger, are bounded; the server survives bad input.
//
// This file: the worlds the queries are asked about. A "big" world holds more than one page of
// everything (one account with > 60 blocks, > 60 momentums over several epochs, several tokens,
// fusion / stake / sentinel / project entries, pooled blocks, > 50 unreceived sends of one
// address). It is expensive (seconds), so it is built once per process and variant by a
// deterministic script (own splitmix generator, fixed seed per variant), never closed, and
// read-only afterwards. The variant index is an ordinary draw of the case, so a recorded case
// replays against the same world.

import (
	"encoding/base64"
	"fmt"
	"math/big"
	"os"
	"sort"
	"sync"
	"testing"
	"time"

	ecrypto "github.com/ethereum/go-ethereum/crypto"

	"github.com/zenon-network/go-zenon/chain/nom"
	"github.com/zenon-network/go-zenon/common/types"
	"github.com/zenon-network/go-zenon/rpc/api"
	"github.com/zenon-network/go-zenon/vm/constants"
	"github.com/zenon-network/go-zenon/vm/embedded/definition"
	"github.com/zenon-network/go-zenon/vm/embedded/implementation"

	"verifharness/pbt"
	"verifharness/sim"
)

// ---- deterministic source for the world script -----------------------------------------

type detSrc struct{ s uint64 }

func (d *detSrc) next() uint64 {
	d.s += 0x9e3779b97f4a7c15
	z := d.s
	z = (z ^ (z >> 30)) * 0xbf58476d1ce4e5b9
	z = (z ^ (z >> 27)) * 0x94d049bb133111eb
	return z ^ (z >> 31)
}
func (d *detSrc) Int(label string, lo, hi int) int {
	if hi <= lo {
		return lo
	}
	return lo + int(d.next()%uint64(hi-lo+1))
}
func (d *detSrc) Uint64(label string, lo, hi uint64) uint64 {
	if hi <= lo {
		return lo
	}
	span := hi - lo
	if span == ^uint64(0) {
		return d.next()
	}
	return lo + d.next()%(span+1)
}
func (d *detSrc) Bool(label string) bool { return d.next()&1 == 1 }
func (d *detSrc) Bytes(label string, minLen, maxLen int) []byte {
	n := d.Int(label, minLen, maxLen)
	b := make([]byte, n)
	for i := range b {
		b[i] = byte(d.next())
	}
	return b
}
func (d *detSrc) Repeat(actions map[string]func(), inv func()) { panic("detSrc: Repeat not used") }

// ---- world opts shared by every world of the process (process globals!) -----------------

func worldOpts() sim.WorldOpts {
	bridgeGlobals.Do(func() {
		// values only (as the repository's own bridge tests do): a bridge administrator we hold
		// the key of and short time-challenge delays, so that worlds can contain bridge entries
		constants.InitialBridgeAdministrator = bridgeAdmin()
		constants.MinAdministratorDelay = 6
		constants.MinSoftDelay = 3
		constants.MinUnhaltDurationInMomentums = 5
		constants.MinGuardians = 4
	})
	return sim.WorldOpts{FastLocks: true, EpochDuration: 10 * time.Minute}
}

var bridgeGlobals sync.Once

func bridgeAdmin() types.Address { return sim.UserKey(2).Address }

const tssPubKey = "AsAQx1M3LVXCuozDOqO5b9adj/PItYgwZFG/xTDBiZzT" // key pair of the repository's bridge tests

// bridgeScript configures the bridge (orchestrator, two networks, guardians, tss key, two token
// pairs; every time-challenged call twice with the delay in between) and files wrap requests.
// It returns the first refusal (the world is still usable, only without bridge entries).
func bridgeScript(h *sim.Hist, wraps int) error { return bridgeScriptN(h, wraps, wraps/2) }

func bridgeScriptN(h *sim.Hist, wraps, unwraps int) error {
	admin := bridgeAdmin()
	call := func(from types.Address, z types.ZenonTokenStandard, amt int64, descr string, method string, args ...interface{}) error {
		data := definition.ABIBridge.PackMethodPanic(method, args...)
		_, err := h.Submit(&nom.AccountBlock{Address: from, ToAddress: types.BridgeContract, TokenStandard: z, Amount: big.NewInt(amt), Data: data}, "bridge "+descr)
		if err != nil {
			return fmt.Errorf("bridge %s: %v", descr, err)
		}
		return nil
	}
	produce := func(n int) error {
		for i := 0; i < n; i++ {
			if !h.Produce(0) {
				return fmt.Errorf("bridge script: producer stopped")
			}
		}
		return nil
	}
	guardians := []types.Address{sim.UserKey(0).Address, sim.UserKey(1).Address, sim.UserKey(2).Address, sim.UserKey(3).Address, sim.UserKey(4).Address}
	challenged := func() error {
		if err := call(admin, types.ZnnTokenStandard, 0, "nominateGuardians", definition.NominateGuardiansMethodName, guardians); err != nil {
			return err
		}
		if err := call(admin, types.ZnnTokenStandard, 0, "setTokenPair znn", definition.SetTokenPairMethod, uint32(2), uint32(123), types.ZnnTokenStandard,
			"0x5fbdb2315678afecb367f032d93f642f64180aa3", true, true, false, big.NewInt(100), uint32(15), uint32(20), `{"APR": 15}`); err != nil {
			return err
		}
		return produce(2)
	}
	if err := call(admin, types.ZnnTokenStandard, 0, "setOrchestratorInfo", definition.SetOrchestratorInfoMethodName, uint64(6), uint32(3), uint32(15), uint32(10)); err != nil {
		return err
	}
	if err := produce(2); err != nil {
		return err
	}
	if err := call(admin, types.ZnnTokenStandard, 0, "setNetwork eth", definition.SetNetworkMethodName, uint32(2), uint32(123), "Ethereum", "0x323b5d4c32345ced77393b3530b1eed0f346429d", "{}"); err != nil {
		return err
	}
	if err := call(admin, types.ZnnTokenStandard, 0, "setNetwork bsc", definition.SetNetworkMethodName, uint32(2), uint32(124), "BSC", "0x423b5d4c32345ced77393b3530b1eed0f346429d", "{}"); err != nil {
		return err
	}
	if err := produce(2); err != nil {
		return err
	}
	if err := challenged(); err != nil {
		return err
	}
	if err := produce(int(constants.MinAdministratorDelay) + 2); err != nil {
		return err
	}
	if err := challenged(); err != nil {
		return err
	}
	// the tss key needs the guardians; second token pair (one time challenge per method name at a time)
	pair2 := func() error {
		if err := call(admin, types.ZnnTokenStandard, 0, "changeTss", definition.ChangeTssECDSAPubKeyMethodName, tssPubKey, "", ""); err != nil {
			return err
		}
		if err := call(admin, types.ZnnTokenStandard, 0, "setTokenPair qsr", definition.SetTokenPairMethod, uint32(2), uint32(124), types.QsrTokenStandard,
			"0x6fbdb2315678afecb367f032d93f642f64180aa3", true, true, false, big.NewInt(100), uint32(10), uint32(20), `{}`); err != nil {
			return err
		}
		return produce(2)
	}
	if err := pair2(); err != nil {
		return err
	}
	if err := produce(int(constants.MinSoftDelay) + 2); err != nil {
		return err
	}
	if err := pair2(); err != nil {
		return err
	}
	for i := 0; i < wraps; i++ {
		from := guardians[i%len(guardians)]
		z, chain := types.ZnnTokenStandard, uint32(123)
		if i%3 == 2 {
			z, chain = types.QsrTokenStandard, uint32(124)
		}
		if err := call(from, z, int64(1000+i), fmt.Sprintf("wrap %d", i), definition.WrapTokenMethodName, uint32(2), chain, bridgeDestinations[i%len(bridgeDestinations)]); err != nil {
			return err
		}
		if i%4 == 3 {
			if err := produce(1); err != nil {
				return err
			}
		}
	}
	if err := produce(1); err != nil {
		return err
	}
	// unwrap requests signed with the test tss key
	for i := 0; i < unwraps; i++ {
		chain, tokenAddr := uint32(123), "0x5fbdb2315678afecb367f032d93f642f64180aa3"
		if i%3 == 2 {
			chain, tokenAddr = uint32(124), "0x6fbdb2315678afecb367f032d93f642f64180aa3"
		}
		param := &definition.UnwrapTokenParam{NetworkClass: 2, ChainId: chain, TransactionHash: types.NewHash([]byte(fmt.Sprintf("c18-unwrap-%d", i/2))), LogIndex: uint32(i),
			ToAddress: guardians[i%3], TokenAddress: tokenAddr, Amount: big.NewInt(int64(500 + i))}
		msg, err := implementation.GetUnwrapTokenRequestMessage(param)
		if err != nil {
			return err
		}
		sig, err := tssSign(msg)
		if err != nil {
			return err
		}
		if err := call(guardians[(i+1)%len(guardians)], types.ZnnTokenStandard, 0, fmt.Sprintf("unwrap %d", i), definition.UnwrapTokenMethodName, param.NetworkClass, param.ChainId,
			param.TransactionHash, param.LogIndex, param.ToAddress, param.TokenAddress, param.Amount, sig); err != nil {
			return err
		}
		if i%4 == 3 {
			if err := produce(1); err != nil {
				return err
			}
		}
	}
	return produce(2)
}

func tssSign(hash []byte) (string, error) {
	raw, err := base64.StdEncoding.DecodeString("tuSwrTEUyJI1/3y5J8L8DSjzT/AQG2IK3JG+93qhhhI=")
	if err != nil {
		return "", err
	}
	key, err := ecrypto.ToECDSA(raw)
	if err != nil {
		return "", err
	}
	sig, err := ecrypto.Sign(hash, key)
	if err != nil {
		return "", err
	}
	return base64.StdEncoding.EncodeToString(sig), nil
}

// BridgeScriptErr remembers a refused bridge script step (reported as a class).
var BridgeScriptErr error

// genSpec draws a consistent genesis (copy of props/c01_test.go genSpec).
func genSpec(c *pbt.C) *sim.Spec {
	spec := sim.DefaultSpec(c.Int("spec.pillars", 2, 4), c.Int("spec.users", 3, 6))
	if c.Weighted("spec.sporks", 1, 4) == 1 {
		spec.ActiveSporks = uint64(c.Int("spec.sporkHeight", 1, 12))
	}
	nt := c.Weighted("spec.tokens", 2, 2, 1)
	addSpecTokens(c, spec, nt)
	for i := 0; i < 3; i++ {
		spec.Fusions = append(spec.Fusions, sim.FusionSpec{Owner: sim.UserKey(0).Address, Beneficiary: sim.ExtraKey(i).Address, Amount: 2000,
			Id: types.NewHash([]byte(fmt.Sprintf("extra-fusion-%d", i)))})
	}
	return spec
}

func addSpecTokens(c *pbt.C, spec *sim.Spec, nt int) {
	for i := 0; i < nt; i++ {
		owner := sim.UserKey(i % len(spec.Users)).Address
		var zts types.ZenonTokenStandard
		copy(zts[:], types.NewHash([]byte(fmt.Sprintf("verif-token-%d", i))).Bytes()[:10])
		mintable := c.Bool("spec.tok.mintable")
		spec.Tokens = append(spec.Tokens, sim.TokenSpec{Zts: zts, Owner: owner, Name: fmt.Sprintf("GenTok%d", i), Symbol: fmt.Sprintf("GT%d", i),
			Max: big.NewInt(1 << 40), Mintable: mintable, Burnable: c.Bool("spec.tok.burnable")})
		for u := range spec.Users {
			if spec.Users[u].Extra == nil {
				spec.Users[u].Extra = map[int]int64{}
			}
			spec.Users[u].Extra[i] = int64(1000 * (u + 1))
		}
		if !mintable {
			total := int64(0)
			for u := range spec.Users {
				total += spec.Users[u].Extra[i]
			}
			spec.Tokens[i].Max = big.NewInt(total)
		}
	}
}

// ---- the view of a world the oracles use -------------------------------------------------

// View is a read-only snapshot of ground truth (scanner + store reads) next to the apis.
type View struct {
	Name string
	N    *sim.Node
	L    *sim.Ledger
	Apis *Apis
	Srv  *RPC

	Frontier  uint64
	Momentums []*nom.Momentum       // index h-1
	ConfAt    map[types.Hash]uint64 // block hash -> height of the momentum that confirms it (top-level content)
	ByHash    map[types.Hash]*nom.AccountBlock
	Sink      types.Address // address with many unreceived sends (no blocks of its own)
	Busy      types.Address // account with the longest chain
	Users     []types.Address
	Pillars   []string

	AddrPool []types.Address
	HashPool []types.Hash
	Hot      []types.Address // addresses of special interest in this world (drawn more often)

	// LongLived views never change: the order in which the api serves a list is looked up once
	LongLived bool
	refMu     sync.Mutex
	refCache  map[string][]string
}

// NewView scans the node. The node must not change afterwards.
func NewView(name string, n *sim.Node, users []types.Address, pillars []string, longLived bool) (*View, error) {
	l, err := sim.Scan(n)
	if err != nil {
		return nil, err
	}
	v := &View{Name: name, N: n, L: l, ConfAt: map[types.Hash]uint64{}, ByHash: map[types.Hash]*nom.AccountBlock{}, Users: users, Pillars: pillars}
	v.Frontier = n.Height()
	ms := n.Chain.GetFrontierMomentumStore()
	for h := uint64(1); h <= v.Frontier; h++ {
		m, err := ms.GetMomentumByHeight(h)
		if err != nil || m == nil {
			return nil, fmt.Errorf("momentum %d of %d missing: %v", h, v.Frontier, err)
		}
		if m.Height != h {
			return nil, fmt.Errorf("momentum at height %d says %d", h, m.Height)
		}
		v.Momentums = append(v.Momentums, m)
		for _, hdr := range m.Content {
			v.ConfAt[hdr.Hash] = h
		}
	}
	best := 0
	for _, a := range l.Accounts {
		for _, b := range l.Blocks[a] {
			v.ByHash[b.Hash] = b
		}
		if len(l.Blocks[a]) > best && !types.IsEmbeddedAddress(a) {
			best = len(l.Blocks[a])
			v.Busy = a
		}
	}
	// descendants are confirmed together with their parent
	for _, a := range l.Accounts {
		for _, b := range l.Blocks[a] {
			if h, ok := v.ConfAt[b.Hash]; ok {
				for _, d := range b.DescendantBlocks {
					if _, ok := v.ConfAt[d.Hash]; !ok {
						v.ConfAt[d.Hash] = h
					}
				}
			}
		}
	}
	// address pool: every account, every addressee, contracts, unknown
	seen := map[types.Address]bool{}
	add := func(a types.Address) {
		if !seen[a] {
			seen[a] = true
			v.AddrPool = append(v.AddrPool, a)
		}
	}
	for _, a := range l.Accounts {
		add(a)
	}
	pending := map[types.Address]int{}
	var sends []*nom.AccountBlock
	for _, s := range l.Sends {
		sends = append(sends, s)
	}
	sort.Slice(sends, func(i, j int) bool { return sends[i].Hash.String() < sends[j].Hash.String() })
	for _, s := range sends {
		add(s.ToAddress)
		if len(l.Recv[s.Hash]) == 0 && !l.Pooled[s.Hash] {
			pending[s.ToAddress]++
		}
	}
	bestP := -1
	for _, a := range v.AddrPool {
		if pending[a] > bestP {
			bestP = pending[a]
			v.Sink = a
		}
	}
	for _, a := range sim.ContractList {
		add(a)
	}
	add(types.ZeroAddress)
	for _, a := range l.Accounts {
		bl := l.Blocks[a]
		for i, b := range bl {
			if i < 3 || i >= len(bl)-3 || i%7 == 0 {
				v.HashPool = append(v.HashPool, b.Hash)
			}
		}
	}
	v.Apis = NewApis(n)
	v.LongLived, v.refCache = longLived, map[string][]string{}
	if longLived {
		v.Srv = NewRPC(v.Apis, n.Chain)
	} else {
		v.Srv = NewRPC(v.Apis, nil)
	}
	return v, nil
}

// Unreceived is the truth of GetUnreceivedBlocksByAddress: must = confirmed sends to a without
// any receiving block; optional = confirmed sends to a whose receiving block is still pooled
// (the node hides them for user accounts and shows them for embedded contracts; the property
// speaks about the chain at the frontier, so either answer is accepted).
func (v *View) Unreceived(a types.Address) (must, optional map[types.Hash]bool) {
	must, optional = map[types.Hash]bool{}, map[types.Hash]bool{}
	for h, s := range v.L.Sends {
		if s.ToAddress != a || v.L.Pooled[h] {
			continue
		}
		if _, confirmed := v.ConfAt[h]; !confirmed {
			continue
		}
		confirmedRecv := false
		for _, r := range v.L.Recv[h] {
			if _, ok := v.ConfAt[r.Hash]; ok {
				confirmedRecv = true
			}
		}
		switch {
		case len(v.L.Recv[h]) == 0:
			must[h] = true
		case !confirmedRecv:
			optional[h] = true
		}
	}
	return must, optional
}

// PooledOf lists the unconfirmed blocks of a in height order.
func (v *View) PooledOf(a types.Address) []*nom.AccountBlock {
	var out []*nom.AccountBlock
	for _, b := range v.L.Blocks[a] {
		if v.L.Pooled[b.Hash] {
			out = append(out, b)
		}
	}
	return out
}

// ---- big worlds --------------------------------------------------------------------------

const bigVariants = 2

var (
	bigOnce  [bigVariants]sync.Once
	bigViews [bigVariants]*View
	bigErr   [bigVariants]error
)

// BigView returns big world `variant`, building it on first use.
func BigView(t *testing.T, variant int) *View {
	bigOnce[variant].Do(func() {
		start := time.Now()
		// CheckOnce only lends us a well-formed *pbt.C for sim.Hist; its result file must not
		// replace the one of the running test function.
		out, journal := os.Getenv("VERIF_OUT"), os.Getenv("VERIF_JOURNAL")
		os.Unsetenv("VERIF_OUT")
		os.Unsetenv("VERIF_JOURNAL")
		defer func() {
			if out != "" {
				os.Setenv("VERIF_OUT", out)
			}
			if journal != "" {
				os.Setenv("VERIF_JOURNAL", journal)
			}
		}()
		for attempt := 0; attempt < 4 && bigViews[variant] == nil; attempt++ {
			seed := uint64(1800 + 100*variant + attempt)
			pbt.CheckOnce(t, "C18", func(c *pbt.C) {
				c.Src = &detSrc{s: seed}
				v, err := buildBig(c, variant)
				if err != nil {
					bigErr[variant] = err
					return
				}
				bigViews[variant] = v
				bigErr[variant] = nil
			})
		}
		if bigViews[variant] != nil {
			fmt.Fprintf(os.Stderr, "C18: big world %d built in %.1fs: %d momentums, %d accounts, busy chain %d blocks, sink pending %d\n", variant,
				time.Since(start).Seconds(), bigViews[variant].Frontier, len(bigViews[variant].L.Accounts),
				len(bigViews[variant].L.Blocks[bigViews[variant].Busy]), unreceivedCount(bigViews[variant]))
		}
	})
	if bigViews[variant] == nil {
		t.Fatalf("C18: big world %d could not be built: %v", variant, bigErr[variant])
	}
	return bigViews[variant]
}

// newHistNoCleanup is sim.NewHist without registering w.Close: the big world outlives the case.
func newHistNoCleanup(c *pbt.C, spec *sim.Spec, o sim.WorldOpts) *sim.Hist {
	w := sim.NewWorld(spec, o)
	for i := 0; i < 3; i++ {
		w.Keys.Add(sim.ExtraKey(i))
	}
	a := w.AddNode("A", true)
	a.PreflightOn = true
	h := &sim.Hist{C: c, W: w, A: a, MethodsOK: map[string]int{}}
	for _, k := range w.Keys.Users {
		h.Users = append(h.Users, k.Address)
	}
	for _, k := range w.Keys.Pillars {
		h.Users = append(h.Users, k.Address)
	}
	h.Users = append(h.Users, w.Keys.Spork.Address)
	for i := 0; i < 3; i++ {
		h.Users = append(h.Users, sim.ExtraKey(i).Address)
	}
	h.RefreshPools()
	return h
}

func pillarNames(h *sim.Hist) []string {
	var names []string
	for _, p := range h.W.Spec.Pillars {
		names = append(names, p.Name)
	}
	for i := 0; i <= 5; i++ {
		names = append(names, fmt.Sprintf("VP-new-%d", i))
	}
	return names
}

func buildBig(c *pbt.C, variant int) (*View, error) {
	spec := sim.DefaultSpec(3+variant, 5)
	spec.ActiveSporks = 2
	addSpecTokens(c, spec, 2)
	for i := 0; i < 3; i++ {
		spec.Fusions = append(spec.Fusions, sim.FusionSpec{Owner: sim.UserKey(0).Address, Beneficiary: sim.ExtraKey(i).Address, Amount: 2000,
			Id: types.NewHash([]byte(fmt.Sprintf("extra-fusion-%d", i)))})
	}
	// plasma for the busy account from an owner without a key (nobody can cancel it)
	var fuser types.Address
	copy(fuser[:], types.NewHash([]byte("c18-fuser")).Bytes()[:20])
	fuser[0] = 0
	busy := sim.UserKey(0).Address
	spec.Fusions = append(spec.Fusions, sim.FusionSpec{Owner: fuser, Beneficiary: busy, Amount: 5000, Id: types.NewHash([]byte("c18-busy-fusion"))})
	h := newHistNoCleanup(c, spec, worldOpts())
	for _, in := range sim.DefaultIntents() {
		if in.Name != "pillar-revoke" && in.Name != "sentinel-revoke" {
			h.Intents = append(h.Intents, in)
		}
	}
	var sink types.Address
	copy(sink[:], types.NewHash([]byte(fmt.Sprintf("c18-sink-%d", variant))).Bytes()[:20])
	sink[0] = 0
	intent := func(name string) {
		for _, in := range h.Intents {
			if in.Name == name {
				in.Try(h)
				return
			}
		}
		panic("no intent " + name)
	}
	for i := 0; i < 3; i++ {
		h.Produce(0) // past the enforcement height of the sporks declared at genesis
	}
	for i := 0; i < 9; i++ {
		u := sim.UserKey(i % 2).Address
		_, _ = h.Submit(&nom.AccountBlock{Address: u, ToAddress: types.StakeContract, TokenStandard: types.ZnnTokenStandard, Amount: big.NewInt(int64(1+i) * sim.Zexp),
			Data: definition.ABIStake.PackMethodPanic(definition.StakeMethodName, int64(1+i%4)*constants.StakeTimeUnitSec)}, "stake")
	}
	if err := bridgeScript(h, 70-40*variant); err != nil {
		BridgeScriptErr = err
		fmt.Fprintf(os.Stderr, "C18: %v\n", err)
	}
	// sentinels: deposit first, register one momentum later
	for i := 1; i <= 3; i++ {
		u := sim.UserKey(i).Address
		_, _ = h.Submit(&nom.AccountBlock{Address: u, ToAddress: types.SentinelContract, TokenStandard: types.QsrTokenStandard,
			Amount: new(big.Int).Set(constants.SentinelQsrDepositAmount), Data: definition.ABICommon.PackMethodPanic(definition.DepositQsrMethodName)}, "sentinel deposit")
	}
	h.Produce(0)
	h.Produce(0)
	for i := 1; i <= 3; i++ {
		u := sim.UserKey(i).Address
		_, _ = h.Submit(&nom.AccountBlock{Address: u, ToAddress: types.SentinelContract, TokenStandard: types.ZnnTokenStandard,
			Amount: new(big.Int).Set(constants.SentinelZnnRegisterAmount), Data: definition.ABISentinel.PackMethodPanic(definition.RegisterSentinelMethodName)}, "sentinel register")
	}
	h.Produce(0)
	momentums := 150 - 70*variant
	for m := 0; m < momentums && !h.Dead; m++ {
		// the busy account: one or two small sends per momentum, most of them to the sink
		for k := 0; k < 2+m%2-variant; k++ {
			to := sink
			if (m+k)%5 == 4 {
				to = h.Users[c.Pick("big.to", len(h.Users))]
			}
			var data []byte
			if m%6 == 0 {
				data = c.Bytes("big.data", 1, 24)
			}
			_, err := h.Submit(&nom.AccountBlock{Address: busy, ToAddress: to, TokenStandard: types.ZnnTokenStandard,
				Amount: big.NewInt(int64(1 + m*3 + k)), Data: data}, fmt.Sprintf("busy send %d.%d", m, k))
			if err != nil && os.Getenv("C18_DEBUG") != "" {
				fmt.Fprintf(os.Stderr, "busy send %d.%d: %v\n", m, k, err)
			}
		}
		if m%9 == 4 {
			// a (legal) zero-amount send naming a token standard nobody ever issued: lists and lookups that cover it,
			// its receive and the unreceived entry answer like for any other block
			var zts types.ZenonTokenStandard
			copy(zts[:], types.NewHash([]byte(fmt.Sprintf("never-issued-%d", m))).Bytes()[:10])
			to := h.Users[c.Pick("big.unkTo", len(h.Users))]
			_, _ = h.Submit(&nom.AccountBlock{Address: busy, ToAddress: to, TokenStandard: zts, Amount: big.NewInt(0)}, "send naming a never-issued token standard")
		}
		// scripted share: tokens, fusions, stakes, sentinels, projects early so that they age
		switch {
		case m < 6:
			intent("token-issue")
			intent("plasma-fuse")
		case m < 12:
			intent("stake")
			intent("plasma-fuse")
			intent("accelerator-project")
		case m == 15:
			intent("pillar-register")
		}
		for k := 0; k < 2; k++ {
			switch c.Weighted("big.act", 3, 3, 6, 1) {
			case 0:
				h.ActTransfer()
			case 1:
				h.ActReceive()
			case 2:
				h.ActIntent()
			default:
				h.ActCallABI()
			}
		}
		skip := 0
		switch {
		case m%17 == 16:
			skip = 55 + c.Int("big.skip", 0, 80) // cross one or two epochs
		case m%5 == 3:
			skip = c.Int("big.skipsmall", 1, 3)
		}
		if !h.Produce(skip) {
			break
		}
	}
	if h.Dead {
		h.W.Close()
		return nil, fmt.Errorf("world script wedged the producer: %v", h.A.Preflight)
	}
	// the pool at the end: unconfirmed blocks on several chains
	for k := 0; k < 4; k++ {
		_, _ = h.Submit(&nom.AccountBlock{Address: busy, ToAddress: sink, TokenStandard: types.QsrTokenStandard, Amount: big.NewInt(int64(7 + k))},
			fmt.Sprintf("busy pooled send %d", k))
	}
	for k := 0; k < 3; k++ {
		h.ActTransfer()
		h.ActReceive()
	}
	intent("plasma-fuse")
	v, err := NewView(fmt.Sprintf("big%d", variant), h.A, h.Users, pillarNames(h), true)
	if err != nil {
		return nil, err
	}
	v.Sink = sink
	return v, nil
}

// SmallView builds a small fresh world from the case's draws; closed with the case.
func SmallView(c *pbt.C) *View {
	h := sim.NewHist(c, genSpec(c), worldOpts())
	h.Intents = sim.DefaultIntents()
	n := c.Int("small.steps", 0, 30)
	for i := 0; i < n && !h.Dead; i++ {
		switch c.Weighted("small.act", 4, 2, 3, 1, 4) {
		case 0:
			h.ActTransfer()
		case 1:
			h.ActReceive()
		case 2:
			h.ActIntent()
		case 3:
			h.ActCallABI()
		default:
			h.ActProduce()
		}
	}
	var hot []types.Address
	if !h.Dead && c.Weighted("small.issueAtEnd", 1, 1) == 1 {
		// a token issued in the last momentum: its contract blocks are still pooled
		for _, in := range h.Intents {
			if in.Name == "token-issue" && in.Try(h) {
				h.Produce(0)
				c.Class("small-world-ends-with-unconfirmed-token")
				hot = []types.Address{types.TokenContract}
				break
			}
		}
	}
	v, err := NewView("small", h.A, h.Users, pillarNames(h), false)
	if err != nil {
		c.Failf("C18/scan-error", "ledger scan of a small world failed: %v", err)
	}
	v.Hot = hot
	return v
}

var (
	_ = constants.TokenIssueAmount
	_ = definition.IssueMethodName
	_ = api.RpcMaxPageSize
)

func unreceivedCount(v *View) int {
	m, _ := v.Unreceived(v.Sink)
	return len(m)
}

// ---- the huge world: more than RpcMaxPageSize entries in the lists served without a cap ---------

var (
	hugeOnce sync.Once
	hugeView *View
	hugeErr  error
)

const hugeEntries = api.RpcMaxPageSize + 6

// HugeView holds > 1024 accelerator projects, wrap requests and unwrap requests.
func HugeView(t *testing.T) *View {
	hugeOnce.Do(func() {
		start := time.Now()
		out, journal := os.Getenv("VERIF_OUT"), os.Getenv("VERIF_JOURNAL")
		os.Unsetenv("VERIF_OUT")
		os.Unsetenv("VERIF_JOURNAL")
		defer func() {
			if out != "" {
				os.Setenv("VERIF_OUT", out)
			}
			if journal != "" {
				os.Setenv("VERIF_JOURNAL", journal)
			}
		}()
		pbt.CheckOnce(t, "C18", func(c *pbt.C) {
			c.Src = &detSrc{s: 1899}
			hugeView, hugeErr = buildHuge(c)
		})
		if hugeView != nil {
			fmt.Fprintf(os.Stderr, "C18: huge world built in %.1fs: %d momentums\n", time.Since(start).Seconds(), hugeView.Frontier)
		}
	})
	if hugeView == nil {
		t.Fatalf("C18: huge world could not be built: %v", hugeErr)
	}
	return hugeView
}

func buildHuge(c *pbt.C) (*View, error) {
	spec := sim.DefaultSpec(2, 5)
	spec.ActiveSporks = 2
	var fuser types.Address
	copy(fuser[:], types.NewHash([]byte("c18-fuser")).Bytes()[:20])
	fuser[0] = 0
	for i := 0; i < 5; i++ {
		spec.Fusions = append(spec.Fusions, sim.FusionSpec{Owner: fuser, Beneficiary: sim.UserKey(i).Address, Amount: 5000, Id: types.NewHash([]byte(fmt.Sprintf("c18-huge-fusion-%d", i)))})
	}
	h := newHistNoCleanup(c, spec, worldOpts())
	for i := 0; i < 3; i++ {
		h.Produce(0)
	}
	if err := bridgeScriptN(h, hugeEntries, hugeEntries); err != nil {
		return nil, err
	}
	busy := sim.UserKey(0).Address
	for i := 0; i < hugeEntries; i++ {
		data := definition.ABIAccelerator.PackMethodPanic(definition.CreateProjectMethodName, fmt.Sprintf("p%d", i), "d", "www.verif.test", big.NewInt(sim.Zexp), big.NewInt(sim.Zexp))
		if _, err := h.Submit(&nom.AccountBlock{Address: busy, ToAddress: types.AcceleratorContract, TokenStandard: types.ZnnTokenStandard,
			Amount: new(big.Int).Set(constants.ProjectCreationAmount), Data: data}, "project"); err != nil {
			return nil, fmt.Errorf("project %d: %v", i, err)
		}
		if i%40 == 39 {
			if !h.Produce(0) {
				return nil, fmt.Errorf("producer stopped")
			}
		}
	}
	// more momentums than the count limit
	for h.A.Height() < uint64(api.RpcMaxCountSize+8) {
		if !h.Produce(0) {
			return nil, fmt.Errorf("producer stopped")
		}
	}
	return NewView("huge", h.A, h.Users, pillarNames(h), true)
}
