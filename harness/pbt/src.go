package pbt

import (
	"encoding/hex"
	"fmt"
	"sort"
	"strconv"

	"pgregory.net/rapid"
)

// ---- rapid-backed source ---------------------------------------------------------------

type rapidSrc struct {
	c *C
	t *rapid.T
}

func (s *rapidSrc) Int(label string, lo, hi int) int {
	if hi < lo {
		hi = lo
	}
	v := rapid.IntRange(lo, hi).Draw(s.t, label)
	s.c.rec(label, strconv.Itoa(v))
	return v
}
func (s *rapidSrc) Uint64(label string, lo, hi uint64) uint64 {
	if hi < lo {
		hi = lo
	}
	v := rapid.Uint64Range(lo, hi).Draw(s.t, label)
	s.c.rec(label, strconv.FormatUint(v, 10))
	return v
}
func (s *rapidSrc) Bool(label string) bool {
	v := rapid.Bool().Draw(s.t, label)
	s.c.rec(label, strconv.FormatBool(v))
	return v
}
func (s *rapidSrc) Bytes(label string, minLen, maxLen int) []byte {
	v := rapid.SliceOfN(rapid.Byte(), minLen, maxLen).Draw(s.t, label)
	s.c.rec(label, hex.EncodeToString(v))
	return v
}
func (s *rapidSrc) Repeat(actions map[string]func(), inv func()) {
	m := map[string]func(*rapid.T){}
	for name, fn := range actions {
		name, fn := name, fn
		m[name] = func(*rapid.T) {
			s.c.rec("action", name)
			s.c.Step()
			fn()
		}
	}
	if inv != nil {
		m[""] = func(*rapid.T) { inv() }
	}
	s.t.Repeat(m)
	s.c.rec("action", "")
}

// ---- replay source: plain interpreter over recorded draws ------------------------------

type staleReplay string

type replaySrc struct {
	c          *C
	draws      []Draw
	pos        int
	mismatches int
}

func (s *replaySrc) next(label string) (string, bool) {
	if s.pos >= len(s.draws) {
		return "", false
	}
	d := s.draws[s.pos]
	if d.L != label {
		// the generator asks for a draw the recording does not have at this point (a draw added
		// after the case was recorded): answer with the minimal value and keep the position, so
		// that recorded cases survive additive generator changes
		s.mismatches++
		return "", false
	}
	s.pos++
	s.c.rec(d.L, d.V)
	return d.V, true
}
func (s *replaySrc) Int(label string, lo, hi int) int {
	v, ok := s.next(label)
	if !ok {
		return lo
	}
	n, err := strconv.Atoi(v)
	if err != nil || n < lo || n > hi {
		if hi < lo {
			return lo
		}
		panic(staleReplay(fmt.Sprintf("%s=%s outside [%d,%d]", label, v, lo, hi)))
	}
	return n
}
func (s *replaySrc) Uint64(label string, lo, hi uint64) uint64 {
	v, ok := s.next(label)
	if !ok {
		return lo
	}
	n, err := strconv.ParseUint(v, 10, 64)
	if err != nil || n < lo || n > hi {
		if hi < lo {
			return lo
		}
		panic(staleReplay(fmt.Sprintf("%s=%s outside [%d,%d]", label, v, lo, hi)))
	}
	return n
}
func (s *replaySrc) Bool(label string) bool {
	v, ok := s.next(label)
	return ok && v == "true"
}
func (s *replaySrc) Bytes(label string, minLen, maxLen int) []byte {
	v, ok := s.next(label)
	if !ok {
		return make([]byte, minLen)
	}
	b, err := hex.DecodeString(v)
	if err != nil {
		panic(staleReplay(label + ": bad hex"))
	}
	return b
}
func (s *replaySrc) Repeat(actions map[string]func(), inv func()) {
	if inv != nil {
		inv()
	}
	for {
		v, ok := s.next("action")
		if !ok || v == "" {
			return
		}
		fn := actions[v]
		if fn == nil {
			panic(staleReplay("unknown action " + v))
		}
		s.c.Step()
		fn()
		if inv != nil {
			inv()
		}
	}
}

// ---- byte-backed source for native fuzzing ---------------------------------------------

type byteSrc struct {
	c    *C
	data []byte
	pos  int
}

func (s *byteSrc) take(n int) uint64 {
	var v uint64
	for i := 0; i < n; i++ {
		v <<= 8
		if s.pos < len(s.data) {
			v |= uint64(s.data[s.pos])
			s.pos++
		}
	}
	return v
}
func (s *byteSrc) Uint64(label string, lo, hi uint64) uint64 {
	if hi <= lo {
		s.c.rec(label, strconv.FormatUint(lo, 10))
		return lo
	}
	span := hi - lo
	n := 1
	for n < 8 && span>>(8*uint(n)) != 0 {
		n++
	}
	v := s.take(n)
	if span != ^uint64(0) {
		v = v % (span + 1)
	}
	v += lo
	s.c.rec(label, strconv.FormatUint(v, 10))
	return v
}
func (s *byteSrc) Int(label string, lo, hi int) int {
	if hi <= lo {
		s.c.rec(label, strconv.Itoa(lo))
		return lo
	}
	v := lo + int(s.Uint64x(uint64(hi-lo)))
	s.c.rec(label, strconv.Itoa(v))
	return v
}
func (s *byteSrc) Uint64x(span uint64) uint64 {
	n := 1
	for n < 8 && span>>(8*uint(n)) != 0 {
		n++
	}
	v := s.take(n)
	if span != ^uint64(0) {
		v %= span + 1
	}
	return v
}
func (s *byteSrc) Bool(label string) bool {
	v := s.take(1)&1 == 1
	s.c.rec(label, strconv.FormatBool(v))
	return v
}
func (s *byteSrc) Bytes(label string, minLen, maxLen int) []byte {
	n := minLen
	if maxLen > minLen {
		n = minLen + int(s.Uint64x(uint64(maxLen-minLen)))
	}
	if rem := len(s.data) - s.pos; n > rem && rem >= minLen {
		n = rem
	}
	b := make([]byte, n)
	for i := range b {
		b[i] = byte(s.take(1))
	}
	s.c.rec(label, hex.EncodeToString(b))
	return b
}
func (s *byteSrc) Repeat(actions map[string]func(), inv func()) {
	names := make([]string, 0, len(actions))
	for k := range actions {
		names = append(names, k)
	}
	sort.Strings(names)
	if inv != nil {
		inv()
	}
	for s.pos < len(s.data) {
		k := int(s.take(1))
		if k == 255 {
			break
		}
		name := names[k%len(names)]
		s.c.rec("action", name)
		s.c.Step()
		actions[name]()
		if inv != nil {
			inv()
		}
	}
	s.c.rec("action", "")
}

// ---- helpers on C built from the primitive draws ---------------------------------------

// Pick returns an index in [0,n).
func (c *C) Pick(label string, n int) int {
	if n <= 1 {
		return c.Int(label, 0, 0)
	}
	return c.Int(label, 0, n-1)
}

// OneOf picks one of the given strings.
func (c *C) OneOf(label string, opts ...string) string { return opts[c.Pick(label, len(opts))] }

// Weighted picks index i with probability weights[i]/sum.
func (c *C) Weighted(label string, weights ...int) int {
	sum := 0
	for _, w := range weights {
		sum += w
	}
	x := c.Int(label, 0, sum-1)
	for i, w := range weights {
		if x < w {
			return i
		}
		x -= w
	}
	return len(weights) - 1
}
