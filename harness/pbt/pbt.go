// Package pbt is the thin layer between the property functions and their drivers
// (rapid, plain replay of a recorded case, native fuzz bytes). Every random choice of a
// property goes through Src so that a case is a recorded list of concrete draws which can be
// replayed without rapid.
package pbt

import (
	"crypto/sha256"
	"encoding/hex"
	"encoding/json"
	"fmt"
	"os"
	"path/filepath"
	"runtime/debug"
	"sort"
	"strconv"
	"strings"
	"testing"
	"time"

	"pgregory.net/rapid"
)

// Draw is one recorded random decision.
type Draw struct {
	L string `json:"l"` // label
	V string `json:"v"` // value: decimal int, hex bytes, true/false, action name
}

// Src is the only source of randomness a property may use.
type Src interface {
	Int(label string, lo, hi int) int
	Uint64(label string, lo, hi uint64) uint64
	Bool(label string) bool
	Bytes(label string, minLen, maxLen int) []byte
	// Repeat runs a random sequence of the named actions, inv after every action.
	Repeat(actions map[string]func(), inv func())
}

// CaseFile is the replay unit written for every violation and kept in corpus/<ID>/.
type CaseFile struct {
	Property string   `json:"property"`
	Key      string   `json:"key,omitempty"`
	Msg      string   `json:"msg,omitempty"`
	Test     string   `json:"test,omitempty"`
	Draws    []Draw   `json:"draws"`
	Notes    []string `json:"notes,omitempty"`
}

// C is the per-case context handed to a property function.
type C struct {
	Src
	R          *Run
	draws      []Draw
	notes      []string
	classes    map[string]bool
	nontrivial bool
	ntKeys     []string
	steps      int
	failed     *Violation
	Replaying  bool
	cleanups   []func()
}

type Violation struct {
	Key    string `json:"key"`
	Msg    string `json:"msg"`
	Replay string `json:"replay,omitempty"`
	Test   string `json:"test,omitempty"`
}

type failSignal struct{ v *Violation }

// Note appends a human-readable line to the concrete trace of the case.
// notesMax caps the trace of a case (VERIF_NOTES_MAX raises it for debugging).
var notesMax = func() int {
	if n, err := strconv.Atoi(os.Getenv("VERIF_NOTES_MAX")); err == nil && n > 0 {
		return n
	}
	return 400
}()

func (c *C) Note(format string, args ...interface{}) {
	if len(c.notes) < notesMax {
		c.notes = append(c.notes, fmt.Sprintf(format, args...))
	}
}

// Class marks the case as belonging to a class of the measured generator distribution.
func (c *C) Class(name string) { c.classes[name] = true }

// NonTrivial marks the case as non-trivial by the property's stated rule.
func (c *C) NonTrivial() { c.nontrivial = true }

// NonTrivialItem counts an individual non-trivial item (candidate, crash point ...) inside a
// case; items are de-duplicated over the whole run by key.
func (c *C) NonTrivialItem(key string) { c.ntKeys = append(c.ntKeys, key) }

// Step counts one executed operation of a stateful case.
func (c *C) Step() { c.steps++ }

// Cleanup registers a function run when the case ends (also on failure).
func (c *C) Cleanup(f func()) { c.cleanups = append(c.cleanups, f) }

// Known reports whether key is a committed known finding for this property.
func (c *C) Known(key string) bool { return c.R.known[key] }

// KnownHit counts a reproduced known finding.
func (c *C) KnownHit(key string) { c.R.res.KnownHits[key]++ }

// Excluded counts something left out by construction because of a known finding.
func (c *C) Excluded(key string) { c.R.res.Excluded[key]++ }

// Failf reports a violation with a root-cause key. If the key is a known finding it is
// counted and Failf returns true (the caller decides how to go on); otherwise the case fails.
func (c *C) Failf(key string, format string, args ...interface{}) bool {
	if c.R.known[key] {
		c.R.res.KnownHits[key]++
		return true
	}
	v := &Violation{Key: key, Msg: fmt.Sprintf(format, args...)}
	c.failed = v
	panic(failSignal{v})
}

// Checkpoint journals the draws made so far so that a process death during the next
// operation leaves a replayable case behind.
func (c *C) Checkpoint() {
	if c.R.inflight == "" || c.Replaying {
		return
	}
	cf := CaseFile{Property: c.R.ID, Test: c.R.test, Key: "process-death", Draws: c.draws, Notes: c.notes}
	data, _ := json.Marshal(cf)
	_ = os.WriteFile(c.R.inflight, data, 0o644)
}

func (c *C) rec(label, v string) { c.draws = append(c.draws, Draw{label, v}) }

func (c *C) hash() string {
	h := sha256.New()
	for _, d := range c.draws {
		h.Write([]byte(d.L))
		h.Write([]byte{0})
		h.Write([]byte(d.V))
		h.Write([]byte{1})
	}
	return hex.EncodeToString(h.Sum(nil))[:16]
}

// ---------------------------------------------------------------------------------------

// Result is what one shard process writes for the driver.
type Result struct {
	ID          string            `json:"id"`
	Test        string            `json:"test"`
	Shard       int               `json:"shard"`
	Seed        uint64            `json:"seed"`
	Tier        string            `json:"tier"`
	Evaluations int               `json:"evaluations"`
	Steps       int               `json:"steps"`
	Nontrivial  []string          `json:"nontrivial"`
	Classes     map[string]int    `json:"classes"`
	Samples     []json.RawMessage `json:"samples"`
	Violations  []Violation       `json:"violations"`
	KnownHits   map[string]int    `json:"known_hits"`
	Excluded    map[string]int    `json:"excluded"`
	Counters    map[string]int    `json:"counters"`
	CorpusRan   int               `json:"corpus_ran"`
	WallS       float64           `json:"wall_s"`
	Done        bool              `json:"done"`
	Note        string            `json:"note,omitempty"`
}

// Run is the per-test-function driver state.
type Run struct {
	ID       string
	test     string
	res      *Result
	nt       map[string]bool
	known    map[string]bool
	outPath  string
	outDir   string
	inflight string
	start    time.Time
	lastFail *CaseFile
	maxSamp  int
}

// Count adds to a named run-wide counter (reported in evidence).
func (r *Run) Count(name string, n int) { r.res.Counters[name] += n }

func Tier() string {
	if t := os.Getenv("VERIF_TIER"); t != "" {
		return t
	}
	return "quick"
}

// Scale picks a size by tier.
func Scale(quick, thorough int) int {
	if Tier() == "thorough" {
		return thorough
	}
	return quick
}

func loadKnown(id string) map[string]bool {
	known := map[string]bool{}
	path := os.Getenv("VERIF_KNOWN")
	if path == "" {
		path = "/verif/KNOWN_FINDINGS.txt"
	}
	data, err := os.ReadFile(path)
	if err != nil {
		return known
	}
	for _, line := range strings.Split(string(data), "\n") {
		line = strings.TrimSpace(line)
		if !strings.HasPrefix(line, "known:") {
			continue
		}
		var prop, key string
		for _, f := range strings.Fields(line) {
			if strings.HasPrefix(f, "property=") {
				prop = strings.TrimPrefix(f, "property=")
			}
			if strings.HasPrefix(f, "key=") {
				key = strings.TrimPrefix(f, "key=")
			}
		}
		if prop == id && key != "" {
			known[key] = true
		}
	}
	return known
}

func newRun(t *testing.T, id string) *Run {
	shard, _ := strconv.Atoi(os.Getenv("VERIF_SHARD"))
	seed, _ := strconv.ParseUint(os.Getenv("VERIF_SHARD_SEED"), 10, 64)
	r := &Run{ID: id, test: t.Name(), nt: map[string]bool{}, known: loadKnown(id), start: time.Now(), maxSamp: 4}
	r.res = &Result{ID: id, Test: t.Name(), Shard: shard, Seed: seed, Tier: Tier(), Classes: map[string]int{},
		KnownHits: map[string]int{}, Excluded: map[string]int{}, Counters: map[string]int{}}
	r.outPath = os.Getenv("VERIF_OUT")
	r.outDir = os.Getenv("VERIF_OUT_DIR")
	if r.outDir == "" {
		r.outDir = filepath.Join(os.TempDir(), "verif-out")
	}
	_ = os.MkdirAll(r.outDir, 0o755)
	if os.Getenv("VERIF_JOURNAL") != "" {
		r.inflight = os.Getenv("VERIF_JOURNAL")
	}
	return r
}

func (r *Run) write() {
	r.res.WallS = time.Since(r.start).Seconds()
	r.res.Nontrivial = r.res.Nontrivial[:0]
	for k := range r.nt {
		r.res.Nontrivial = append(r.res.Nontrivial, k)
	}
	sort.Strings(r.res.Nontrivial)
	if r.outPath == "" {
		return
	}
	data, _ := json.MarshalIndent(r.res, "", " ")
	_ = os.WriteFile(r.outPath, data, 0o644)
}

// exec runs prop once with the given source; returns the violation (nil if the case held).
// Panics that are not ours are converted into violations with key "panic".
func (r *Run) exec(src func(c *C) Src, prop func(c *C), replaying bool, rethrow bool) (c *C, viol *Violation) {
	c = &C{R: r, classes: map[string]bool{}, Replaying: replaying}
	c.Src = src(c)
	defer func() {
		for i := len(c.cleanups) - 1; i >= 0; i-- {
			func() {
				defer func() { _ = recover() }()
				c.cleanups[i]()
			}()
		}
		if p := recover(); p != nil {
			if fs, ok := p.(failSignal); ok {
				viol = fs.v
			} else if _, stale := p.(staleReplay); stale {
				panic(p)
			} else if isRapidControl(p) {
				if rethrow {
					panic(p)
				}
				return
			} else {
				key := "panic"
				if r.known[key] {
					r.res.KnownHits[key]++
					return
				}
				viol = &Violation{Key: key, Msg: fmt.Sprintf("panic: %v\n%s", p, trimStack(debug.Stack()))}
			}
			viol.Test = r.test
			if replaying && os.Getenv("VERIF_NOTES_MAX") != "" { // tooling: the full trace of a replayed failure
				fmt.Fprintf(os.Stderr, "=== trace of the failing case\n%s\n", strings.Join(c.notes, "\n"))
			}
			r.lastFail = &CaseFile{Property: r.ID, Test: r.test, Key: viol.Key, Msg: viol.Msg, Draws: c.draws, Notes: c.notes}
			return
		}
		// the case held: account for it
		r.res.Evaluations++
		if dc := os.Getenv("VERIF_DEBUG_CLASS"); dc != "" && c.classes[dc] { // tooling: print the trace of cases of a class
			fmt.Fprintf(os.Stderr, "=== case with class %q\n%s\n", dc, strings.Join(c.notes, "\n"))
		}
		r.res.Steps += c.steps
		for k := range c.classes {
			r.res.Classes[k]++
		}
		for _, k := range c.ntKeys {
			r.nt[k] = true
		}
		if c.nontrivial {
			h := c.hash()
			if !r.nt[h] {
				r.nt[h] = true
				if len(r.res.Samples) < r.maxSamp {
					cls := make([]string, 0, len(c.classes))
					for k := range c.classes {
						cls = append(cls, k)
					}
					sort.Strings(cls)
					notes := c.notes
					if len(notes) > 60 {
						notes = append(append([]string{}, notes[:60]...), fmt.Sprintf("... (%d more lines)", len(c.notes)-60))
					}
					s, _ := json.Marshal(map[string]interface{}{"case": h, "classes": cls, "steps": c.steps, "trace": notes, "draws": len(c.draws)})
					r.res.Samples = append(r.res.Samples, s)
				}
			}
		}
	}()
	prop(c)
	return
}

func trimStack(b []byte) string {
	s := string(b)
	if len(s) > 6000 {
		s = s[:6000] + "\n..."
	}
	return s
}

func isRapidControl(p interface{}) bool {
	tn := fmt.Sprintf("%T", p)
	return strings.HasPrefix(tn, "rapid.")
}

func (r *Run) saveViolation(v *Violation, cf *CaseFile) {
	name := fmt.Sprintf("%s-%s-s%d-%d.json", r.ID, sanitize(r.test), r.res.Shard, len(r.res.Violations))
	path := filepath.Join(r.outDir, name)
	data, _ := json.MarshalIndent(cf, "", " ")
	_ = os.WriteFile(path, data, 0o644)
	v.Replay = path
	r.res.Violations = append(r.res.Violations, *v)
}

func sanitize(s string) string {
	return strings.Map(func(r rune) rune {
		if r == '/' || r == ' ' {
			return '_'
		}
		return r
	}, s)
}

// replayFile runs one recorded case through the plain interpreter.
func (r *Run) replayFile(path string, prop func(c *C)) (*Violation, error) {
	data, err := os.ReadFile(path)
	if err != nil {
		return nil, err
	}
	var cf CaseFile
	if err := json.Unmarshal(data, &cf); err != nil {
		return nil, err
	}
	if cf.Test != "" && cf.Test != r.test {
		return nil, errSkip
	}
	var stale error
	func() {
		defer func() {
			if p := recover(); p != nil {
				if s, ok := p.(staleReplay); ok {
					stale = fmt.Errorf("stale replay file %s: %s", path, string(s))
					return
				}
				panic(p)
			}
		}()
		var rs *replaySrc
		_, v := r.exec(func(c *C) Src { rs = &replaySrc{c: c, draws: cf.Draws}; return rs }, prop, true, false)
		if rs != nil && rs.mismatches > 0 && rs.pos < len(rs.draws) {
			r.res.Note += fmt.Sprintf("%s: recorded with an older generator (%d of %d draws used); ", filepath.Base(path), rs.pos, len(rs.draws))
		}
		if v != nil {
			v.Replay = path
			r.res.Violations = append(r.res.Violations, *v)
		}
	}()
	if stale != nil {
		return nil, stale
	}
	if n := len(r.res.Violations); n > 0 && r.res.Violations[n-1].Replay == path {
		return &r.res.Violations[n-1], nil
	}
	return nil, nil
}

var errSkip = fmt.Errorf("other test")

// Check is the entry point used by every property test function.
//   - VERIF_REPLAY=<file>: run only that case through the plain interpreter.
//   - otherwise: run corpus/<ID>/*.json (regression tier), then rapid.Check.
func Check(t *testing.T, id string, prop func(c *C)) {
	r := newRun(t, id)
	defer r.write()
	if p := os.Getenv("VERIF_REPLAY"); p != "" {
		v, err := r.replayFile(p, prop)
		if err == errSkip {
			r.res.Done = true
			t.Skip("replay file belongs to another test function")
			return
		}
		if err != nil {
			r.res.Note = err.Error()
			t.Fatalf("REPLAY-ERROR %v", err)
		}
		r.res.Done = true
		if v != nil {
			t.Fatalf("VIOLATION-REPRODUCED key=%s %s", v.Key, v.Msg)
		}
		t.Logf("replay: property held")
		return
	}
	// regression tier
	corpus := os.Getenv("VERIF_CORPUS")
	if corpus == "" {
		corpus = "/verif/harness/corpus"
	}
	if r.res.Shard == 0 {
		files, _ := filepath.Glob(filepath.Join(corpus, id, "*.json"))
		sort.Strings(files)
		for _, f := range files {
			v, err := r.replayFile(f, prop)
			if err == errSkip {
				continue
			}
			if err != nil {
				// a stale regression file is not a violation; it is reported and ignored
				r.res.Note += err.Error() + "; "
				continue
			}
			r.res.CorpusRan++
			if v != nil {
				r.res.Done = true
				t.Fatalf("VIOLATION key=%s (regression %s) %s", v.Key, f, v.Msg)
			}
		}
	}
	if os.Getenv("VERIF_CORPUS_ONLY") != "" {
		r.res.Done = true
		return
	}
	var firstFail *CaseFile
	defer func() {
		if r.lastFail == nil && firstFail != nil && t.Failed() {
			// the failure did not recur when rapid re-ran the same draws (the code under test depends on
			// something outside the draws, e.g. map iteration order or goroutine scheduling): the violation
			// observed is reported with the draws recorded when it occurred
			r.lastFail = firstFail
			r.lastFail.Msg += " [observed once; the same draws did not fail again in this process: schedule- or iteration-order-dependent]"
		}
		if r.lastFail != nil && t.Failed() {
			v := &Violation{Key: r.lastFail.Key, Msg: r.lastFail.Msg, Test: r.test}
			r.saveViolation(v, r.lastFail)
		}
		r.res.Done = true
	}()
	rapid.Check(t, func(rt *rapid.T) {
		r.lastFail = nil
		_, v := r.exec(func(c *C) Src { return &rapidSrc{c: c, t: rt} }, prop, false, true)
		if v != nil {
			if firstFail == nil {
				firstFail = r.lastFail
			}
			rt.Fatalf("VIOLATION key=%s %s", v.Key, v.Msg)
		}
	})
}

// CheckOnce runs a non-generated (enumerative / deterministic) clause under the same
// bookkeeping; prop receives a source that yields minimal values.
func CheckOnce(t *testing.T, id string, prop func(c *C)) {
	r := newRun(t, id)
	defer r.write()
	_, v := r.exec(func(c *C) Src { return &replaySrc{c: c} }, prop, false, false)
	r.res.Done = true
	if v != nil {
		r.saveViolation(v, r.lastFail)
		t.Fatalf("VIOLATION key=%s %s", v.Key, v.Msg)
	}
}
