package props

// C06 — reorganisation leaves no trace of the abandoned branch: a node that adopted branch X and
// is then handed the longer branch Y equals a node that only ever saw Y.

import (
	"encoding/hex"
	"fmt"
	"math/big"
	"strings"
	"testing"
	"time"

	"github.com/zenon-network/go-zenon/chain/nom"
	"github.com/zenon-network/go-zenon/common/types"
	"github.com/zenon-network/go-zenon/consensus"
	"github.com/zenon-network/go-zenon/vm/constants"
	"github.com/zenon-network/go-zenon/vm/embedded/definition"

	"verifharness/pbt"
	"verifharness/sim"
)

func histActions(h *sim.Hist) map[string]func() {
	return map[string]func(){
		"transfer": h.ActTransfer,
		"receive":  h.ActReceive,
		"callABI":  h.ActCallABI,
		"intent":   h.ActIntent,
		"intent2":  h.ActIntent,
		"produce":  h.ActProduce,
		"produce2": h.ActProduce,
	}
}

// grow runs k steps of the grammar (a bounded Repeat substitute usable several times per case).
func grow(c *pbt.C, h *sim.Hist, label string, minMomentums, maxSteps int) {
	names := []string{"transfer", "receive", "callABI", "intent", "intent2", "produce", "produce2", "produce3"}
	acts := histActions(h)
	acts["produce3"] = h.ActProduce
	start := h.Momentums
	steps := c.Int(label+".steps", 0, maxSteps)
	for i := 0; i < steps && !h.Dead; i++ {
		acts[names[c.Pick(label+".act", len(names))]]()
		c.Step()
	}
	for h.Momentums-start < minMomentums && !h.Dead {
		skip := c.Weighted(label+".skip", 6, 2, 1, 1)
		if skip == 3 {
			skip = c.Int(label+".skipfar", 5, 45) // branches that span more than one tick
		}
		h.Produce(skip)
	}
}

func fullCompare(c *pbt.C, key string, b, cn *sim.Node) {
	top := b.Height()
	var all []uint64
	for h := uint64(1); h <= top; h++ {
		all = append(all, h)
	}
	compareNodes(c, key, b, cn, all)
	if d := sim.DiffBattery(sim.ConsensusSummary(b), sim.ConsensusSummary(cn)); d != "" {
		c.Failf(key+"/consensus", "consensus statistics / schedule differ between %s and %s: %s", b.Name, cn.Name, d)
	}
}

func TestC06(t *testing.T) {
	pbt.Check(t, "C06", func(c *pbt.C) { reorgScenario(c, "C06", fullCompare) })
}

// reorgScenario builds prefix / X / Y, lets B adopt X then Y, C only Y, and calls check(B, C)
// after the switch and again after further common momentums.
func reorgScenario(c *pbt.C, id string, check func(c *pbt.C, key string, b, cn *sim.Node)) {
	reorgScenarioOpts(c, id, check, false)
}

// epochs: the branches part shortly before the end of an epoch and both run past it, and enough momentums follow
// the switch for the reward updates of that epoch to be executed by the reorganised node.
func reorgScenarioOpts(c *pbt.C, id string, check func(c *pbt.C, key string, b, cn *sim.Node), epochs bool) {
	{
		h := sim.NewHist(c, genSpec(c), genWorldOpts(c))
		h.Intents = sim.DefaultIntents()
		h.AckDepthMax = 3
		// common prefix
		grow(c, h, "prefix", c.Int("prefix.m", 1, pbt.Scale(12, 40)), pbt.Scale(15, 30))
		if h.Dead {
			c.Excluded("C09-preflight-abort")
			return
		}
		if epochs {
			// move to 1..12 slots before the end of the running epoch
			ep := int64(consensus.EpochDuration / time.Second)
			into := (h.A.Frontier().Timestamp.Unix() - h.W.Spec.Timestamp) % ep
			left := int((ep-into)/10) - c.Int("epoch.before", 1, 12)
			if left > 0 {
				h.Produce(left)
			}
		}
		forkAt := h.A.Height()
		a2 := h.W.AddNode("A2", true)
		if forkAt > 1 {
			if _, err := a2.Bridge.InsertChain(h.A.Range(2, forkAt)); err != nil {
				c.Failf(id+"/setup", "second producer cannot sync the prefix: %v", err)
			}
		}
		// B also holds the pillar keys: after the switch it produces on the adopted branch
		b := h.W.AddNode("B", true)
		if forkAt > 1 {
			if _, err := b.Bridge.InsertChain(h.A.Range(2, forkAt)); err != nil {
				c.Failf(id+"/setup", "follower cannot sync the prefix: %v", err)
			}
		}
		if c.Bool("eventReaders") {
			// queries that run at the instant a momentum is inserted or deleted (they only read)
			b.WatchEvents()
			c.Class("queries-at-momentum-events")
		}
		h2 := sim.NewHistOn(c, h.W, a2, h)
		// branch X on A
		depthX := c.Int("x.depth", 1, pbt.Scale(8, 29))
		if epochs {
			depthX = c.Int("x.depthEpoch", 13, 22) // past the end of the epoch whatever the slots skipped
		}
		grow(c, h, "x", depthX, pbt.Scale(12, 25))
		// branch Y on A2: strictly longer
		lenX := int(h.A.Height() - forkAt)
		if lenX > 29 {
			return // beyond the rollback window: C16's domain
		}
		// B itself may have produced the last momentum of the branch it abandons (its worker then holds contract receives
		// and updates made on that branch): Y is grown one momentum longer for that
		bExtends := lenX < 28 && c.Bool("bExtendsX")
		needY := lenX + 1
		if bExtends {
			needY++
		}
		grow(c, h2, "y", needY, pbt.Scale(12, 25))
		// the pillar worker of B will hold a contract receive it generated on the branch it abandons, while the adopted branch
		// ends with another call to the same contract waiting in its inbox
		inboxRace := bExtends && c.Bool("inboxRace")
		raceContract := []types.Address{types.PlasmaContract, types.StakeContract, types.PillarContract}[c.Pick("inboxRace.contract", 3)]
		raceCall := func(hh *sim.Hist, u types.Address) bool {
			switch raceContract {
			case types.PlasmaContract:
				return hh.ActCall(u, types.PlasmaContract, types.QsrTokenStandard, big.NewInt(10*sim.Zexp), definition.ABIPlasma.PackMethodPanic(definition.FuseMethodName, u), "plasma.Fuse (inbox race)")
			case types.StakeContract:
				return hh.ActCall(u, types.StakeContract, types.ZnnTokenStandard, big.NewInt(1*sim.Zexp), definition.ABIStake.PackMethodPanic(definition.StakeMethodName, constants.StakeTimeUnitSec), "stake.Stake (inbox race)")
			default:
				return hh.ActCall(u, types.PillarContract, types.ZnnTokenStandard, big.NewInt(0), definition.ABIPillars.PackMethodPanic(definition.UndelegateMethodName), "pillar.Undelegate (inbox race)")
			}
		}
		if inboxRace && !h2.Dead {
			if raceCall(h2, h.Users[1%len(h.Users)]) {
				h2.Produce(0)
			}
		}
		if h.Dead || h2.Dead {
			c.Excluded("C09-preflight-abort")
			return
		}
		topX, topY := h.A.Height(), a2.Height()
		realFork := forkAt
		for realFork < topX && realFork < topY && sameAt(h.A, a2, realFork+1) {
			realFork++
		}
		lenX = int(topX - realFork)
		c.Note("fork at %d: X to %d, Y to %d", forkAt, topX, topY)
		// B adopts X
		if _, err := b.Bridge.InsertChain(h.A.Range(forkAt+1, topX)); err != nil {
			c.Failf(id+"/setup", "follower refused honest branch X: %v", err)
		}
		if bExtends {
			hb := sim.NewHistOn(c, h.W, b, h)
			if inboxRace && raceCall(hb, h.Users[0]) {
				c.Class("worker-of-the-reorganised-node-generated-a-receive-on-the-abandoned-branch")
			}
			if hb.Produce(0) && b.Height() == topX+1 && topY > b.Height() {
				lenX++
				c.Class("reorganised-node-produced-on-the-abandoned-branch")
			}
			if hb.Dead {
				c.Excluded("C09-preflight-abort")
				return
			}
			if topY <= b.Height() {
				return // Y is not longer than what B holds now (coinciding first momentums): nothing to adopt
			}
		}
		// X's pool leftovers reach B by gossip
		var pool []*nom.AccountBlock
		for _, blk := range h.A.Chain.GetAllUncommittedAccountBlocks() {
			if blk.BlockType != nom.BlockTypeContractSend {
				pool = append(pool, blk)
			}
		}
		if len(pool) > 0 && c.Bool("gossipPoolX") {
			if wb, err := sim.WireBlocks(pool); err == nil {
				for _, blk := range wb {
					_ = b.Bridge.AddAccountBlocks([]*nom.AccountBlock{blk})
				}
			}
			c.Class("pool-of-X-gossiped")
		}
		// B serves historical views and consensus data before the switch (warms caches)
		views := 0
		nviews := c.Int("views", 0, 6)
		for i := 0; i < nviews; i++ {
			ht := uint64(c.Int("view.h", 1, int(topX)))
			m, err := b.Chain.GetFrontierMomentumStore().GetMomentumByHeight(ht)
			if err == nil && m != nil {
				_ = b.DumpAt(m.Identifier())
				if ht <= forkAt {
					views++
				}
			}
		}
		if c.Bool("warmConsensus") {
			_ = sim.ConsensusSummary(b)
			c.Class("consensus-read-before-switch")
		}
		// wallets and explorers look the blocks of branch X up by hash while B is on it
		var sendsOfX []*nom.AccountBlock
		for _, dm := range b.Range(forkAt+1, b.Height()) {
			for _, blk := range dm.AccountBlocks {
				if got, err := b.Chain.GetFrontierMomentumStore().GetAccountBlockByHash(blk.Hash); err == nil && got != nil && got.BlockType == nom.BlockTypeUserSend {
					sendsOfX = append(sendsOfX, got)
				}
			}
		}
		// first a peer hands B the other branch with an element that does not verify, preceded by momentums B already has:
		// where what verified of it is not longer than B's own branch, B is afterwards exactly what it was
		if forkAt > 2 && c.Bool("failedDeliveryFirst") {
			k := uint64(c.Int("failed.known", 1, int(min64(6, forkAt-2))))
			yb := a2.Range(forkAt-k+1, topY)
			// the momentums B already has (the known prefix and whatever the two branches have in common) are not verified again
			first := 0
			for first < len(yb) && sameAt(b, a2, yb[first].Momentum.Height) {
				first++
			}
			k = uint64(first)
			pos := first
			if first < len(yb) {
				pos = first + c.Int("failed.pos", 0, len(yb)-first-1)
			}
			if pos >= len(yb) {
				// nothing new in the batch
			} else if fm := sim.InjectFault(yb[pos], "bad-signature", h.W.Keys, nil); fm != nil {
				yb[pos] = fm
				before, hb := b.Dump(), b.Height()
				_, ferr := b.Bridge.InsertChain(yb)
				c.Class("failed-side-chain-delivered-first")
				if ferr == nil {
					c.Failf(id+"/invalid-side-chain-accepted", "a side chain whose element %d carries a bad signature was accepted", pos)
				}
				verifiedTip := yb[pos].Momentum.Height - 1
				if verifiedTip <= hb {
					if b.Height() != hb || b.Dump() != before {
						c.Failf(id+"/failed-side-chain-left-a-trace", "B (height %d) was handed %d known momentums + the other branch with a bad signature at its element %d: the verified part (up to height %d) is not longer than B's branch, yet B is at height %d / its store changed: %s",
							hb, k, pos-int(k), verifiedTip, b.Height(), firstDiff(before, b.Dump()))
					}
				} else if b.Height() != hb {
					return // B legitimately moved to the longer verified part: C16's subject
				}
			}
		}
		// the switch
		idx, err := b.Bridge.InsertChain(a2.Range(forkAt+1, topY))
		c.Note("B: InsertChain(Y %d..%d) -> %d %v", forkAt+1, topY, idx, err)
		if err != nil {
			c.Failf(id+"/switch-refused", "follower refused the strictly longer honest branch (fork depth %d): %v", lenX, err)
		}
		// the reference node saw only prefix + Y
		cn := h.W.AddNode("C", false)
		if _, err := cn.Bridge.InsertChain(a2.Range(2, topY)); err != nil {
			c.Failf(id+"/setup", "reference node refused prefix+Y: %v", err)
		}
		// pool of B must be a pool C can have: C accepts every block of it (a pooled block of X that acknowledges a
		// momentum at or below the fork point, on an account the abandoned momentums did not touch, legitimately stays;
		// the reference node gets the same gossip before the two are compared: query answers count pooled blocks)
		poolToC := func() int {
			bp := b.Chain.GetAllUncommittedAccountBlocks()
			for _, blk := range bp {
				if blk.BlockType == nom.BlockTypeContractSend {
					continue
				}
				wb, err := sim.WireBlocks([]*nom.AccountBlock{blk})
				if err != nil {
					continue
				}
				if err := cn.Bridge.AddAccountBlocks(wb); err != nil {
					c.Failf(id+"/pool", "after the switch B's pool holds block %v/%d which a node that only saw the adopted branch refuses: %v",
						blk.Address, blk.Height, err)
				}
			}
			return len(bp)
		}
		if poolToC() > 0 {
			c.Class("pool-survived-switch")
		}
		check(c, id, b, cn)
		// a send that existed on the abandoned branch only is gone: its addressee cannot receive it on B any more than on C
		tried := 0
		for _, snd := range sendsOfX {
			kp := h.W.Keys.ByAddr[snd.ToAddress]
			if kp == nil || tried >= 4 {
				continue
			}
			if onC, _ := cn.Chain.GetFrontierMomentumStore().GetAccountBlockByHash(snd.Hash); onC != nil {
				continue // the adopted branch confirmed the same block
			}
			if len(b.Chain.GetUncommittedAccountBlocksByAddress(snd.ToAddress)) > 0 || len(cn.Chain.GetUncommittedAccountBlocksByAddress(snd.ToAddress)) > 0 {
				continue
			}
			tried++
			try := func(n *sim.Node) (err error) {
				defer func() {
					if r := recover(); r != nil {
						err = fmt.Errorf("panic: %v", r)
					}
				}()
				_, err = n.Sup.GenerateFromTemplate(&nom.AccountBlock{BlockType: nom.BlockTypeUserReceive, Address: snd.ToAddress, FromBlockHash: snd.Hash}, kp.Signer)
				return err
			}
			eb, ec := try(b), try(cn)
			c.Class("receive-of-a-send-of-the-abandoned-branch-tried")
			if eb == nil && ec != nil {
				c.Failf(id+"/abandoned-send-receivable", "send %v (%v -> %v, %v) was confirmed on the abandoned branch only; after the switch B lets %v receive it, a node that only saw the adopted branch answers: %v",
					snd.Hash, snd.Address, snd.ToAddress, snd.Amount, snd.ToAddress, ec)
			}
		}
		// B produces the next momentum itself (from whatever its pool holds after the switch): every
		// other honest node must accept it
		bProduces := func(others ...*sim.Node) {
			hb := sim.NewHistOn(c, h.W, b, h2)
			if !hb.Produce(0) {
				return
			}
			for _, o := range others {
				if _, err := o.Bridge.InsertChain(b.Range(o.Height()+1, b.Height())); err != nil {
					c.Failf(id+"/own-momentum-after-reorg-refused", "after the reorganisation the node produced momentum %d which %s (which only saw the adopted branch) refuses: %v", b.Height(), o.Name, err)
				}
			}
			poolToC() // the receives B's worker generated reach C: paired-block answers depend on them
			check(c, id, b, cn)
			c.Class("reorganised-node-produces")
		}
		when := c.Pick("bProducesWhen", 3)
		if when == 1 {
			bProduces(cn, a2)
			topY = a2.Height()
		}
		// both continue with the same further operations
		afterMin := c.Int("after.m", 1, 4)
		if epochs {
			afterMin += 8 + int(constants.RewardTimeLimit/10)
		}
		grow(c, h2, "after", afterMin, 8)
		if h2.Dead {
			c.Excluded("C09-preflight-abort")
			return
		}
		more := a2.Range(topY+1, a2.Height())
		if _, err := b.Bridge.InsertChain(more); err != nil {
			c.Failf(id+"/after-switch", "B refused honest momentums after the switch: %v", err)
		}
		if _, err := cn.Bridge.InsertChain(a2.Range(topY+1, a2.Height())); err != nil {
			c.Failf(id+"/setup", "reference node refused honest momentums: %v", err)
		}
		check(c, id, b, cn)
		if when == 2 {
			bProduces(cn)
		}
		c.Class(fmt.Sprintf("fork-depth-%s", bucket(lenX)))
		if lenX >= 2 && views >= 1 {
			c.NonTrivial()
		}
		c.R.Count("momentums", h.Momentums+h2.Momentums)
	}
}

// patchKeys: the keys the commits of momentums from..to wrote or deleted (from the stored redo patches).
type c6keys struct{ keys map[string]bool }

func (k *c6keys) Put(key, _ []byte) { k.keys[string(key)] = true }
func (k *c6keys) Delete(key []byte) { k.keys[string(key)] = true }

func patchKeys(n *sim.Node, from, to uint64) map[string]bool {
	out := &c6keys{keys: map[string]bool{}}
	for h := from; h <= to; h++ {
		m, err := n.Chain.GetFrontierMomentumStore().GetMomentumByHeight(h)
		if err != nil || m == nil {
			continue
		}
		if p := n.Mgr.GetPatch(m.Identifier()); p != nil {
			_ = p.Replay(out)
		}
	}
	return out.keys
}

// lookups: existence test and lookup of every given key on the node's frontier store (scans do not show a key that
// holds an empty value, lookups do).
func lookups(n *sim.Node, keys map[string]bool) map[string]string {
	out := map[string]string{}
	f := n.Mgr.Frontier()
	for k := range keys {
		has, herr := f.Has([]byte(k))
		v, gerr := f.Get([]byte(k))
		out[k] = fmt.Sprintf("Has=%v,%v Get=%x,%v", has, herr, v, gerr)
	}
	return out
}

func bucket(n int) string {
	switch {
	case n <= 1:
		return "1"
	case n <= 4:
		return "2-4"
	case n <= 10:
		return "5-10"
	default:
		return "11-29"
	}
}

// Single-step law: the store after add + rollback equals the store before, for every key.
func TestC06Rollback(t *testing.T) {
	pbt.Check(t, "C06", func(c *pbt.C) {
		h := sim.NewHist(c, genSpec(c), genWorldOpts(c))
		h.Intents = sim.DefaultIntents()
		grow(c, h, "prefix", c.Int("prefix.m", 1, 10), 12)
		if h.Dead {
			return
		}
		b := h.W.AddNode("B", false)
		if h.A.Height() > 1 {
			if _, err := b.Bridge.InsertChain(h.A.Range(2, h.A.Height())); err != nil {
				c.Failf("C06/setup", "follower cannot sync: %v", err)
			}
		}
		rounds := c.Int("rounds", 1, 4)
		for r := 0; r < rounds && !h.Dead; r++ {
			base := h.A.Height()
			before := b.Dump()
			baseID := b.Frontier().Identifier()
			minM := c.Int("more.m", 1, 5)
			if c.Bool("createAndDelete") {
				// an entry created and deleted within one momentum (its patch deletes a key that was absent before it): a
				// first-time backer delegates and undelegates with two consecutive blocks
				for _, u := range h.Users {
					if h.W.Keys.ByAddr[u] == nil || len(h.W.Spec.Pillars) == 0 {
						continue
					}
					if di, err := definition.GetDelegationInfo(h.A.Chain.GetFrontierAccountStore(types.PillarContract).Storage(), u); err == nil && di != nil {
						continue
					}
					if h.ActCall(u, types.PillarContract, types.ZnnTokenStandard, big.NewInt(0), definition.ABIPillars.PackMethodPanic(definition.DelegateMethodName, h.W.Spec.Pillars[0].Name), "pillar.Delegate by a first-time backer") &&
						h.ActCall(u, types.PillarContract, types.ZnnTokenStandard, big.NewInt(0), definition.ABIPillars.PackMethodPanic(definition.UndelegateMethodName), "pillar.Undelegate right after") {
						c.Class("entry-created-and-deleted-within-one-momentum")
						if minM < 2 {
							minM = 2
						}
					}
					break
				}
			}
			grow(c, h, "more", minM, 10)
			if h.Dead {
				return
			}
			if _, err := b.Bridge.InsertChain(h.A.Range(base+1, h.A.Height())); err != nil {
				c.Failf("C06/setup", "follower refused honest momentums: %v", err)
			}
			if c.Bool("viewBefore") {
				_ = b.DumpAt(baseID)
			}
			touched := patchKeys(b, base+1, h.A.Height())
			ins := b.Chain.AcquireInsert("c06 rollback")
			err := b.Chain.RollbackTo(ins, baseID)
			ins.Unlock()
			if err != nil {
				c.Failf("C06/rollback-error", "RollbackTo(%v): %v", baseID, err)
			}
			if after := b.Dump(); after != before {
				c.Failf("C06/rollback-state", "store after add+rollback of %d momentums differs from the store before: %s", h.A.Height()-base, firstDiff(before, after))
			}
			// "for every key": existence tests and lookups too. The node never stores empty values, so a key the removed
			// momentums touched exists now exactly if the dump taken before they were added lists it.
			for k, got := range lookups(b, touched) {
				listed := strings.Contains("\n"+before, "\n"+hex.EncodeToString([]byte(k))+" - ")
				if listed != strings.HasPrefix(got, "Has=true,<nil>") {
					c.Failf("C06/rollback-state/lookup", "after add+rollback of %d momentums key %x answers %s; before the momentums were added the key was %s", h.A.Height()-base, []byte(k), got,
						map[bool]string{true: "present", false: "absent"}[listed])
				}
			}
			c.Step()
			// and forward again
			if _, err := b.Bridge.InsertChain(h.A.Range(base+1, h.A.Height())); err != nil {
				c.Failf("C06/reinsert", "re-inserting rolled-back momentums failed: %v", err)
			}
			if b.Dump() != h.A.Dump() {
				// A's dump includes nothing of its pool (pool is not in the momentum store)
				c.Failf("C06/reinsert", "store after rollback + re-insert differs from the producer's: %s", firstDiff(h.A.Dump(), b.Dump()))
			}
			c.NonTrivial()
		}
	})
}
