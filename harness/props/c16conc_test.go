package props

import (
	"fmt"
	"runtime"
	"strings"
	"testing"
	"time"

	"github.com/zenon-network/go-zenon/chain/nom"
	"verifharness/pbt"
	"verifharness/sim"
)

// TestC16Interleaved owns a two-goroutine schedule: a side chain is delivered to a follower while another insert (the
// harness, holding the chain's insert lock the way the fetcher / the pillar worker / another InsertChain does) extends the
// follower's own chain. The delivery is started, the harness waits until it is parked at the insert lock, inserts the
// follower's next own momentum under the lock and releases it. The statement's decision must be taken against the chain
// the node has when it leaves it: the node is on the delivered branch afterwards only if that branch (its verified part)
// is strictly longer than the node's own chain INCLUDING the momentum inserted meanwhile, and otherwise the node still has
// all of its own chain.
func TestC16Interleaved(t *testing.T) {
	pbt.Check(t, "C16", func(c *pbt.C) {
		h := sim.NewHist(c, genSpec(c), genWorldOpts(c))
		h.Intents = sim.DefaultIntents()
		grow(c, h, "prefix", c.Int("prefix.m", 1, 8), 8)
		if h.Dead {
			c.Excluded("C09-preflight-abort")
			return
		}
		forkAt := h.A.Height()
		a2 := h.W.AddNode("A2", true)
		if forkAt > 1 {
			if _, err := a2.Bridge.InsertChain(h.A.Range(2, forkAt)); err != nil {
				c.Failf("C16/setup", "second producer cannot sync the prefix: %v", err)
			}
		}
		h2 := sim.NewHistOn(c, h.W, a2, h)
		// own branch X: the follower holds all of it but the last momentum, which arrives "meanwhile"
		grow(c, h, "x", c.Int("x.len", 1, 6), 6)
		held := h.A.Height()
		for i, k := 0, c.Int("x.last.transfers", 0, 2); i < k; i++ {
			h.ActTransfer()
		}
		h.Produce(0)
		if h.Dead || h.A.Height() != held+1 {
			c.Excluded("C09-preflight-abort")
			return
		}
		topX := h.A.Height()
		lenX := int(topX - forkAt)
		// delivered branch Y
		delta := []int{-1, 0, 0, 0, 1, 1, 2}[c.Pick("leny.delta", 7)]
		lenY := lenX + delta
		if lenY < 1 {
			lenY = 1
		}
		for i, k := 0, c.Int("y.transfers", 0, 2); i < k; i++ {
			h2.ActTransfer()
		}
		for int(a2.Height()-forkAt) < lenY && !h2.Dead {
			h2.Produce(c.Weighted("y.skip", 5, 2, 1))
		}
		if h2.Dead {
			c.Excluded("C09-preflight-abort")
			return
		}
		topY := a2.Height()
		if sameAt(h.A, a2, forkAt+1) {
			c.Class("branches-coincide")
			return
		}
		lenY = int(topY - forkAt)
		batch := a2.Range(forkAt+1, topY)
		faultAt := -1
		if lenY > lenX && c.Bool("fault") {
			i := c.Int("fault.pos", 0, len(batch)-1)
			kind := sim.CertainFaults[c.Pick("fault.kind", len(sim.CertainFaults))]
			if fm := sim.InjectFault(batch[i], kind, h.W.Keys, nil); fm != nil {
				batch[i] = fm
				faultAt = i
				c.Note("fault %s at position %d of %d", kind, i, len(batch))
			}
		}
		// the follower
		b := h.W.AddNode("B", false)
		if held > 1 {
			if _, err := b.Bridge.InsertChain(h.A.Range(2, held)); err != nil {
				c.Failf("C16/setup", "follower cannot sync its own chain: %v", err)
			}
		}
		last := h.A.Range(topX, topX)[0]
		// both tips are in the past for the follower
		ts := last.Momentum.TimestampUnix
		if y := batch[len(batch)-1].Momentum.TimestampUnix; y > ts {
			ts = y
		}
		sim.TheClock.Set(time.Unix(int64(ts), 0))
		c.Checkpoint()

		type res struct {
			idx int
			err error
			pan interface{}
		}
		done := make(chan res, 1)
		lock := b.Chain.AcquireInsert("verif: an insert that is running when the delivery arrives")
		go func() {
			var r res
			defer func() {
				if p := recover(); p != nil {
					r.pan = p
				}
				done <- r
			}()
			r.idx, r.err = b.Bridge.InsertChain(batch)
		}()
		parked, early := false, false
		var r res
		for i := 0; i < 6000 && !parked && !early; i++ {
			select {
			case r = <-done:
				early = true
			default:
				if parked = deliveryParkedAtInsertLock(); !parked {
					time.Sleep(5 * time.Millisecond)
				}
			}
		}
		// the running insert: the follower's next own momentum, inserted the way insertMomentums does
		insErr := func() (err error) {
			defer func() {
				if p := recover(); p != nil {
					err = fmt.Errorf("panic: %v", p)
				}
			}()
			for _, blk := range last.AccountBlocks {
				if blk.BlockType == nom.BlockTypeContractSend {
					continue
				}
				tx, err := b.Sup.ApplyBlock(blk)
				if err != nil {
					return err
				}
				if err := b.Chain.ForceAddAccountBlockTransaction(lock, tx); err != nil {
					return err
				}
			}
			tx, err := b.Sup.ApplyMomentum(last)
			if err != nil {
				return err
			}
			return b.Chain.AddMomentumTransaction(lock, tx)
		}()
		lock.Unlock()
		if !early {
			select {
			case r = <-done:
			case <-time.After(300 * time.Second):
				c.Failf("C16/interleaved/delivery-never-returned", "InsertChain did not return within 300 s after the insert lock was released")
				return
			}
		}
		if early {
			c.Class("delivery-returned-before-the-lock")
		}
		if !parked && !early {
			c.Class("delivery-not-seen-parked")
		}
		if insErr != nil {
			if early {
				// the delivery ran to its end before the harness inserted (it cannot while the lock is held, kept for soundness)
				return
			}
			c.Failf("C16/setup", "the follower's own next momentum cannot be inserted under the held lock: %v", insErr)
			return
		}
		what := fmt.Sprintf("own branch of %d momentums (the last one inserted while the delivery waited for the insert lock), delivered fork of %d from height %d (delta %+d, fault at %d): InsertChain = (%d, %v)",
			lenX, lenY, forkAt+1, lenY-lenX, faultAt, r.idx, r.err)
		if r.pan != nil {
			c.Failf("C16/interleaved/panic", "%s: panicked: %v", what, r.pan)
			return
		}
		onY := onChain(b, batch[0].Momentum) && b.Height() > forkAt
		top := b.Height()
		if parked {
			c.NonTrivialItem(fmt.Sprintf("interleaved/x%d/delta%+d/fault%v", lenX, lenY-lenX, faultAt >= 0))
		}
		if onY {
			c.Class("interleaved: on delivered branch")
			if top <= topX {
				c.Failf("C16/interleaved/left-chain-for-not-longer", "%s: node is on the delivered branch at height %d, its own chain reached %d", what, top, topX)
				return
			}
			if faultAt >= 0 && top >= forkAt+1+uint64(faultAt) {
				c.Failf("C16/interleaved/holds-failed-element", "%s: node at height %d holds the element that failed verification (height %d)", what, top, forkAt+1+uint64(faultAt))
				return
			}
			for hgt := forkAt + 1; hgt <= top; hgt++ {
				if !sameAt(b, a2, hgt) {
					c.Failf("C16/interleaved/not-the-delivered-chain", "%s: momentum at height %d is not the delivered one", what, hgt)
					return
				}
			}
			if faultAt < 0 && top != topY {
				c.Failf("C16/interleaved/partial-adoption", "%s: honest longer chain adopted up to %d of %d", what, top, topY)
			}
			return
		}
		c.Class("interleaved: stayed")
		if top != topX || !onChain(b, last.Momentum) {
			c.Failf("C16/interleaved/own-momentum-lost", "%s: node stayed on its own branch but is at height %d, its chain had reached %d", what, top, topX)
			return
		}
		for hgt := forkAt + 1; hgt <= topX; hgt++ {
			if !sameAt(b, h.A, hgt) {
				c.Failf("C16/interleaved/own-momentum-lost", "%s: momentum at height %d is not the node's own one", what, hgt)
				return
			}
		}
		if faultAt < 0 && lenY > lenX {
			c.Class("interleaved: honest longer fork refused")
		}
	})
}

// deliveryParkedAtInsertLock: some goroutine is inside chainBridge.InsertChain and, from there, inside AcquireInsert.
func deliveryParkedAtInsertLock() bool {
	buf := make([]byte, 4<<20)
	for {
		n := runtime.Stack(buf, true)
		if n < len(buf) {
			buf = buf[:n]
			break
		}
		buf = make([]byte, 2*len(buf))
	}
	for _, g := range strings.Split(string(buf), "\n\n") {
		if strings.Contains(g, "chainBridge") && strings.Contains(g, "InsertChain") && strings.Contains(g, "AcquireInsert") {
			return true
		}
	}
	return false
}
