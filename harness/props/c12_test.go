package props

// C12 — plasma and proof-of-work: no block is accepted without paying its cost.

import (
	"bytes"
	"encoding/binary"
	"encoding/hex"
	"fmt"
	"math/big"
	"testing"

	"golang.org/x/crypto/sha3"

	"github.com/zenon-network/go-zenon/chain/nom"
	"github.com/zenon-network/go-zenon/common/types"
	"github.com/zenon-network/go-zenon/pow"
	"github.com/zenon-network/go-zenon/vm/embedded/definition"

	"verifharness/pbt"
	"verifharness/sim"
)

var two64 = new(big.Int).Lsh(big.NewInt(1), 64)

// refPowValue: LE-uint64 of sha3-256(nonce || sha3-256(address || previous))[:8]
func refPowValue(addr types.Address, prev types.Hash, nonce [8]byte) uint64 {
	h1 := sha3.Sum256(append(append([]byte{}, addr.Bytes()...), prev.Bytes()...))
	buf := append(append([]byte{}, nonce[:]...), h1[:]...)
	h2 := sha3.Sum256(buf)
	return binary.LittleEndian.Uint64(h2[:8])
}

// refPowAccept: value >= 2^64 - floor(2^64/d)   (d >= 1)
func refPowAccept(d uint64, v uint64) bool {
	thr := new(big.Int).Sub(two64, new(big.Int).Quo(two64, new(big.Int).SetUint64(d)))
	return new(big.Int).SetUint64(v).Cmp(thr) >= 0
}

func genDifficulty(c *pbt.C) uint64 {
	switch c.Weighted("d.kind", 2, 4, 2, 2) {
	case 0:
		return []uint64{1, 2, 3, 1500, 31500000, 141750000, 141750001, 1<<63 - 1, 1 << 63, 1<<63 + 1, ^uint64(0) - 1, ^uint64(0)}[c.Pick("d.const", 12)]
	case 1:
		k := uint(c.Int("d.k", 1, 63))
		return (uint64(1) << k) + uint64(c.Int("d.off", -1, 1))
	case 2:
		return c.Uint64("d.uniform", 2, ^uint64(0))
	default:
		return c.Uint64("d.small", 2, 1<<22)
	}
}

// mine finds a nonce the REFERENCE accepts (d small), starting from a drawn value.
// c12premined[i]: nonce (hex, as stored in the block) that satisfies difficulty 2^28 for the first block of sim.ExtraKey(i)
var c12premined = []string{"8e12630800000000", "c572730400000000", "607d310300000000"}

func mine(addr types.Address, prev types.Hash, d uint64, start uint64, maxTries int) ([8]byte, bool) {
	var n [8]byte
	for i := 0; i < maxTries; i++ {
		binary.LittleEndian.PutUint64(n[:], start+uint64(i))
		if refPowAccept(d, refPowValue(addr, prev, n)) {
			return n, true
		}
	}
	return n, false
}

func TestC12Pow(t *testing.T) {
	pbt.Check(t, "C12", func(c *pbt.C) {
		// one case = a batch of (difficulty, nonce, address, previous) tuples
		n := pbt.Scale(200, 400)
		for i := 0; i < n; i++ {
			d := genDifficulty(c)
			var addr types.Address
			copy(addr[:], c.Bytes("addr", 20, 20))
			prev := types.NewHash(c.Bytes("prev", 0, 8))
			var nonce [8]byte
			mined := false
			if d <= 1<<16 && c.Weighted("mine", 1, 1) == 1 {
				nonce, mined = mine(addr, prev, d, c.Uint64("mine.start", 0, ^uint64(0)-1<<20), 1<<20)
			}
			if !mined {
				copy(nonce[:], c.Bytes("nonce", 8, 8))
			}
			b := &nom.AccountBlock{Address: addr, PreviousHash: prev, Difficulty: d, Nonce: nom.Nonce{Data: nonce}}
			got := pow.CheckPoWNonce(b)
			v := refPowValue(addr, prev, nonce)
			want := refPowAccept(d, v)
			c.R.Count("pow_pairs", 1)
			if i < 6 {
				c.Note("d=%d nonce=%x mined=%v value=%d reference-accepts=%v node-accepts=%v", d, nonce, mined, v, want, got)
			}
			if d >= 2 && (d >= 1<<32 || want) {
				c.NonTrivial()
			}
			if got && !want {
				c.Failf("C12/pow-below-threshold", "difficulty %d (0x%x), nonce %x, address %v, previous %v: hash value %d is below the threshold 2^64-2^64/d, yet the proof is honoured",
					d, d, nonce, addr, prev, v)
			}
			if want {
				c.R.Count("pow_reference_accepts", 1)
			}
			if got {
				c.R.Count("pow_node_accepts", 1)
			}
			if d >= 2 && (d >= 1<<32 || want) {
				c.NonTrivialItem(fmt.Sprintf("pow/%d/%x", d, nonce))
			}
			if d >= 1<<63 {
				c.Class("difficulty>=2^63")
			}
			if mined {
				c.Class("mined-nonce")
			}
		}
	})
}

// ---- stateful clause -------------------------------------------------------------------

const (
	refTxPlasma        = 21000
	refBytePlasma      = 68
	refEmbeddedMin     = 52500 // 2.5 x base: the cheapest embedded method
	refPlasmaPerUnit   = 2100
	refMaxUnits        = 5000
	refMaxBlockPlasma  = refMaxUnits * refPlasmaPerUnit
	refPowPerPlasma    = 1500
	refMaxPowPlasma    = 94500 // 4.5 x base
	refCostPerUnitZexp = 100000000
)

func refFusedToPlasma(amount *big.Int) uint64 {
	if amount == nil || amount.Sign() <= 0 {
		return 0
	}
	units := new(big.Int).Quo(amount, big.NewInt(refCostPerUnitZexp))
	if units.Cmp(big.NewInt(refMaxUnits)) >= 0 {
		return refMaxBlockPlasma
	}
	return units.Uint64() * refPlasmaPerUnit
}

func refPowPlasma(d uint64) uint64 {
	p := d / refPowPerPlasma
	if p > refMaxPowPlasma {
		return refMaxPowPlasma
	}
	return p
}

// checkPlasmaOfBlock applies the statement to one accepted user block on node n.
// refMethodPlasma: base cost of calls that cost more than the simple embedded cost (2.5 x 21000).
var refMethodPlasma = map[string]uint64{
	"accelerator.Update": 73500, "bridge.Redeem": 73500, "htlc.Reclaim": 73500, "htlc.Unlock": 73500, "liquidity.CancelLiquidityStake": 73500,
	"liquidity.CollectReward": 94500, "pillar.Register": 105000, "pillar.RegisterLegacy": 105000, "pillar.Revoke": 73500, "pillar.WithdrawQsr": 73500,
	"plasma.CancelFuse": 73500, "sentinel.Revoke": 94500, "sentinel.WithdrawQsr": 73500, "stake.Cancel": 73500, "swap.RetrieveAssets": 94500,
	"token.IssueToken": 73500, "token.Mint": 73500,
}

func checkPlasmaOfBlock(c *pbt.C, n *sim.Node, b *nom.AccountBlock, chainOf []*nom.AccountBlock) {
	if types.IsEmbeddedAddress(b.Address) || b.BlockType == nom.BlockTypeGenesisReceive {
		return
	}
	where := fmt.Sprintf("block %v/%d (type %d, fused %d, difficulty %d, data %d bytes, to %v)", b.Address, b.Height, b.BlockType, b.FusedPlasma, b.Difficulty, len(b.Data), b.ToAddress)
	// proof of work
	if b.Difficulty != 0 {
		v := refPowValue(b.Address, b.PreviousHash, b.Nonce.Data)
		if !refPowAccept(b.Difficulty, v) {
			c.Failf("C12/pow-below-threshold", "%s accepted although its nonce %x hashes to %d, below the threshold for its difficulty", where, b.Nonce.Data, v)
		}
	}
	total := b.FusedPlasma + refPowPlasma(b.Difficulty)
	// base cost
	var base uint64
	switch {
	case b.IsReceiveBlock():
		base = refTxPlasma
	case types.IsEmbeddedAddress(b.ToAddress):
		base = refEmbeddedMin
		// the cost of the called method (transcribed once from the method definitions of the pinned tree: the simple
		// cost unless listed)
		if ab, ok := sim.Contracts[b.ToAddress]; ok && len(b.Data) >= 4 {
			if m, err := ab.MethodById(b.Data[:4]); err == nil {
				if v, listed := refMethodPlasma[sim.ContractNames[b.ToAddress]+"."+m.Name]; listed {
					base = v
				}
			}
		}
	default:
		base = refTxPlasma + refBytePlasma*uint64(len(b.Data))
	}
	if total < base {
		c.Failf("C12/below-base-cost", "%s accepted with total plasma %d below its base cost %d", where, total, base)
	}
	if total > refMaxBlockPlasma {
		c.Failf("C12/above-cap", "%s accepted with total plasma %d above the per-block cap %d", where, total, refMaxBlockPlasma)
	}
	// fused part against what the fused QSR provides as of the acknowledged momentum
	ms := n.Chain.GetMomentumStore(b.MomentumAcknowledged)
	if ms == nil {
		c.Failf("C12/ack-missing", "%s acknowledges a momentum the node cannot open", where)
	}
	fusedQsr, err := ms.GetStakeBeneficialAmount(b.Address)
	if err != nil {
		panic(err)
	}
	provides := refFusedToPlasma(fusedQsr)
	confirmedAtAck := ms.GetAccountStore(b.Address).Identifier().Height
	var used uint64
	for _, p := range chainOf {
		if p.Height > confirmedAtAck && p.Height < b.Height {
			used += p.FusedPlasma
		}
	}
	if b.FusedPlasma+used > provides {
		c.Failf("C12/fused-exceeds-available", "%s: fused plasma %d + %d already committed to its blocks after the acknowledged state exceeds the %d provided by %v fused QSR",
			where, b.FusedPlasma, used, provides, fusedQsr)
	}
}

func TestC12Plasma(t *testing.T) {
	pbt.Check(t, "C12", func(c *pbt.C) {
		spec := genSpec(c)
		// fused amounts around the interesting boundaries, incl. none and above the cap
		for i := range spec.Fusions {
			spec.Fusions[i].Amount = []int64{10, 11, 30, 100, 4999, 5000, 5001, 20000}[c.Pick("fusion.amt", 8)]
		}
		h := sim.NewHist(c, spec, genWorldOpts(c))
		h.Intents = sim.DefaultIntents()
		h.AckDepthMax = 3
		checked := map[types.Hash]bool{}
		sawMulti := false
		custom := 0
		powAccepted := 0
		// a block with chosen plasma fields
		custPlasma := func() {
			from := h.Users[c.Pick("cp.from", len(h.Users))]
			tpl := &nom.AccountBlock{Address: from, BlockType: nom.BlockTypeUserSend}
			switch c.Weighted("cp.kind", 3, 1, 2, 2) {
			case 3:
				// a call whose method costs more than the simple embedded cost
				tpl.ToAddress = types.PlasmaContract
				tpl.TokenStandard = types.ZnnTokenStandard
				tpl.Amount = big.NewInt(0)
				tpl.Data = definition.ABIPlasma.PackMethodPanic(definition.CancelFuseMethodName, types.NewHash(c.Bytes("cp.cancelId", 1, 2)))
			case 0:
				tpl.ToAddress = h.Users[c.Pick("cp.to", len(h.Users))]
				tpl.TokenStandard = types.ZnnTokenStandard
				tpl.Amount = big.NewInt(int64(c.Int("cp.amt", 0, 5)))
				if c.Bool("cp.data") {
					tpl.Data = c.Bytes("cp.databytes", 1, 300)
				}
			case 1:
				pend := h.Unreceived(from)
				if len(pend) == 0 {
					return
				}
				tpl.BlockType = nom.BlockTypeUserReceive
				tpl.FromBlockHash = pend[0]
			default:
				tpl.ToAddress = types.PlasmaContract
				tpl.TokenStandard = types.QsrTokenStandard
				if c.Weighted("cp.fuseToken", 3, 1) == 1 {
					// plasma comes from fused QSR only: the same call paid in another token
					tpl.TokenStandard = h.Pools.Tokens[c.Pick("cp.fuseTokenIdx", len(h.Pools.Tokens))]
				}
				tpl.Amount = big.NewInt(int64([]int{10, 10, 50, 5000}[c.Pick("cp.fuseAmt", 4)]) * sim.Zexp)
				tpl.Data = fuseData(h.Users[c.Pick("cp.ben", len(h.Users))])
			}
			base := uint64(refTxPlasma + refBytePlasma*len(tpl.Data))
			if tpl.BlockType == nom.BlockTypeUserSend && types.IsEmbeddedAddress(tpl.ToAddress) {
				base = refEmbeddedMin
				if len(tpl.Data) >= 4 && bytes.Equal(tpl.Data[:4], definition.ABIPlasma.Methods[definition.CancelFuseMethodName].Id()) {
					base = refMethodPlasma["plasma.CancelFuse"]
				}
			}
			st := h.A.Chain.GetFrontierAccountStore(from)
			prev := st.Identifier()
			d := uint64(0)
			switch c.Weighted("cp.pow", 4, 2, 2, 1) {
			case 1: // small mined proof of work
				d = uint64(1) << uint(c.Int("cp.dk", 1, 17))
				nonce, ok := mine(from, prev.Hash, d, c.Uint64("cp.start", 0, 1<<40), 1<<21)
				if !ok {
					return
				}
				tpl.Nonce = nom.Nonce{Data: nonce}
			case 2: // claimed difficulty with an arbitrary nonce
				d = genDifficulty(c)
				copy(tpl.Nonce.Data[:], c.Bytes("cp.nonce", 8, 8))
			case 3: // nonce mined for a smaller difficulty than claimed
				dm := uint64(1) << uint(c.Int("cp.dk2", 1, 12))
				nonce, ok := mine(from, prev.Hash, dm, c.Uint64("cp.start2", 0, 1<<40), 1<<18)
				if !ok {
					return
				}
				tpl.Nonce = nom.Nonce{Data: nonce}
				d = dm << uint(c.Int("cp.shift", 1, 50))
			}
			tpl.Difficulty = d
			pp := refPowPlasma(d)
			fusedOpts := []uint64{0, 1, base - 1, base, base + 1, 2 * base, 10 * base, refMaxBlockPlasma, refMaxBlockPlasma + 1, 1 << 40}
			if pp > 0 && pp < base {
				fusedOpts = append(fusedOpts, base-pp, base-pp-1)
			}
			tpl.FusedPlasma = fusedOpts[c.Pick("cp.fused", len(fusedOpts))]
			custom++
			b, err := h.Submit(tpl, fmt.Sprintf("custom plasma block by %s: fused=%d difficulty=%d (pow plasma %d) base=%d", from.String()[:10], tpl.FusedPlasma, d, pp, base))
			if err == nil && b != nil && b.Difficulty != 0 {
				powAccepted++
				c.Class("block-with-pow-accepted")
			}
		}
		// proof of work above the point where it stops buying plasma (difficulty 141 750 000 = 94 500 plasma): nonces for
		// the FIRST block of three unused accounts (previous hash zero, so the proof-of-work input is known beforehand)
		// were mined once, offline, at difficulty 2^28; they satisfy every smaller difficulty as well. The block carries
		// enough data to cost more than 94 500 (or just not), nothing is fused for these accounts.
		highPow := func() {
			i := c.Pick("hp.key", len(c12premined))
			kp := sim.ExtraKey(i)
			if h.A.Chain.GetFrontierAccountStore(kp.Address).Identifier().Height != 0 {
				return // no longer its first block
			}
			var nonce [8]byte
			nb, _ := hex.DecodeString(c12premined[i])
			copy(nonce[:], nb)
			d := []uint64{141750000, 141750001, 150000000, 1 << 28, 200000000}[c.Pick("hp.d", 5)]
			if !refPowAccept(d, refPowValue(kp.Address, types.ZeroHash, nonce)) {
				c.Class("premined-nonce-not-valid-for-this-key")
				return
			}
			n := []int{1000, 1080, 1081, 1100, 2000, 5000}[c.Pick("hp.len", 6)]
			data := bytes.Repeat([]byte{0x5a}, n)
			tpl := &nom.AccountBlock{Address: kp.Address, BlockType: nom.BlockTypeUserSend, ToAddress: h.Users[c.Pick("hp.to", len(h.Users))], TokenStandard: types.ZnnTokenStandard,
				Amount: big.NewInt(0), Data: data, Difficulty: d, Nonce: nom.Nonce{Data: nonce}}
			custom++
			b, err := h.Submit(tpl, fmt.Sprintf("first block of %s with mined proof of work of difficulty %d (worth %d plasma) and %d bytes of data (base cost %d)",
				kp.Address.String()[:10], d, refPowPlasma(d), n, refTxPlasma+refBytePlasma*n))
			c.Class("block-with-proof-of-work-beyond-the-plasma-it-buys")
			if err == nil && b != nil {
				powAccepted++
				c.Class("block-with-pow-accepted")
			}
		}
		// a block delivered from outside (peer / RPC) whose fields outside the hash are chosen by the sender: it pays
		// less than its cost and states a base cost (and total) to match
		forgedBase := func() {
			from := h.Users[c.Pick("fb.from", len(h.Users))]
			kp := h.W.Keys.ByAddr[from]
			tpl := &nom.AccountBlock{Address: from, BlockType: nom.BlockTypeUserSend, ToAddress: h.Users[c.Pick("fb.to", len(h.Users))], TokenStandard: types.ZnnTokenStandard,
				Amount: big.NewInt(int64(c.Int("fb.amt", 0, 5)))}
			if c.Bool("fb.data") {
				tpl.Data = c.Bytes("fb.databytes", 1, 400)
			}
			var tx *nom.AccountBlockTransaction
			var err error
			func() {
				defer func() {
					if r := recover(); r != nil {
						err = fmt.Errorf("%v", r)
					}
				}()
				tx, err = h.A.Sup.GenerateFromTemplate(tpl, kp.Signer)
			}()
			if err != nil || tx == nil {
				return
			}
			b := tx.Block.Copy()
			true0 := b.FusedPlasma
			b.FusedPlasma = []uint64{0, 1, true0 / 2, true0 - 1}[c.Pick("fb.fused", 4)]
			b.BasePlasma = []uint64{1, b.FusedPlasma, b.FusedPlasma + 1, true0}[c.Pick("fb.base", 4)]
			b.TotalPlasma = []uint64{b.FusedPlasma, b.BasePlasma, true0}[c.Pick("fb.total", 3)]
			sim.ResignBlock(b, kp)
			custom++
			var wire *nom.AccountBlock
			if c.Bool("fb.rpc") {
				if wire, err = sim.ViaPublishJSON(h.A, b); err != nil {
					return
				}
			} else if wb, err := sim.WireBlocks([]*nom.AccountBlock{b}); err == nil {
				wire = wb[0]
			} else {
				return
			}
			if ntx, err := h.A.Sup.ApplyBlock(wire); err == nil {
				h.A.CreateAccountBlock(ntx)
				c.Note("block paying %d fused plasma instead of %d (stated base %d, total %d) accepted", b.FusedPlasma, true0, b.BasePlasma, b.TotalPlasma)
			}
		}
		inv := func() {
			if h.Dead {
				return
			}
			l, err := sim.Scan(h.A)
			if err != nil {
				c.Failf("C12/scan-error", "%v", err)
			}
			// what gives plasma is fused QSR: the plasma contract holds at least the QSR its fusion entries record
			if fus, _, err := sim.AllFusions(h.A); err == nil {
				sum := new(big.Int)
				for _, f := range fus {
					sum.Add(sum, f.Amount)
				}
				if bal := h.Balance(types.PlasmaContract, types.QsrTokenStandard); bal.Cmp(sum) < 0 {
					c.Failf("C12/fusions-without-qsr", "the fusion entries (source of plasma) add up to %v, the plasma contract holds only %v QSR: plasma was given for something else than fused QSR", sum, bal)
				}
			}
			for _, a := range l.Accounts {
				pooled := 0
				for _, b := range l.Blocks[a] {
					if l.Pooled[b.Hash] {
						pooled++
					}
					if checked[b.Hash] {
						continue
					}
					checked[b.Hash] = true
					if pooled >= 3 {
						sawMulti = true
					}
					checkPlasmaOfBlock(c, h.A, b, l.Blocks[a])
				}
			}
		}
		acts := histActions(h)
		acts["customPlasma"] = custPlasma
		acts["customPlasma2"] = custPlasma
		acts["customPlasma3"] = custPlasma
		acts["forgedBase"] = forgedBase
		acts["highPow"] = highPow
		// the per-block cap counts fused plasma AND proof of work: an account whose fused QSR gives the whole cap declares all of
		// it and adds a mined proof of work worth 1 .. 87 plasma on top
		acts["capPlusPow"] = func() {
			for _, from := range h.Users {
				ms := h.A.Chain.GetFrontierMomentumStore()
				fq, err := ms.GetStakeBeneficialAmount(from)
				if err != nil || refFusedToPlasma(fq) < refMaxBlockPlasma || len(h.A.Chain.GetUncommittedAccountBlocksByAddress(from)) > 0 {
					continue
				}
				prev := h.A.Chain.GetFrontierAccountStore(from).Identifier()
				d := uint64(1500) << uint(c.Int("cpp.dk", 0, 6))
				nonce, ok := mine(from, prev.Hash, d, c.Uint64("cpp.start", 0, 1<<40), 1<<21)
				if !ok {
					return
				}
				fused := uint64(refMaxBlockPlasma) - uint64([]int{0, 0, 1, 50}[c.Pick("cpp.below", 4)])
				tpl := &nom.AccountBlock{Address: from, BlockType: nom.BlockTypeUserSend, ToAddress: h.Users[c.Pick("cpp.to", len(h.Users))], TokenStandard: types.ZnnTokenStandard,
					Amount: big.NewInt(0), FusedPlasma: fused, Difficulty: d, Nonce: nom.Nonce{Data: nonce}}
				custom++
				_, _ = h.Submit(tpl, fmt.Sprintf("block declaring %d fused plasma (cap %d) plus proof of work worth %d", fused, refMaxBlockPlasma, refPowPlasma(d)))
				c.Class("block-at-the-cap-plus-proof-of-work-offered")
				return
			}
		}
		c.Repeat(acts, inv)
		if sawMulti {
			c.Class(">=2-unconfirmed-blocks-before-candidate")
		}
		if sawMulti && custom > 0 {
			c.NonTrivial()
		}
		c.R.Count("custom_plasma_blocks", custom)
		c.R.Count("blocks_checked", len(checked))
	})
}
