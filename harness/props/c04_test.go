package props

// C04 — each send is received at most once and only by its addressee; contract inboxes are
// strict FIFO in confirmation order. Oracle: the independent scanner.

import (
	"fmt"
	"math/big"
	"testing"

	"github.com/zenon-network/go-zenon/chain/nom"
	"github.com/zenon-network/go-zenon/common/types"

	"verifharness/pbt"
	"verifharness/sim"
)

// expectedInboxOrder recomputes, from the momentums and blocks alone, the order in which sends
// to each embedded contract were confirmed.
func expectedInboxOrder(n *sim.Node) (map[types.Address][]types.Hash, error) {
	out := map[types.Address][]types.Hash{}
	ms := n.Chain.GetFrontierMomentumStore()
	top := n.Height()
	for h := uint64(1); h <= top; h++ {
		m, err := ms.GetMomentumByHeight(h)
		if err != nil || m == nil {
			return nil, fmt.Errorf("momentum %d missing: %v", h, err)
		}
		for _, hdr := range m.Content {
			b, err := ms.GetAccountBlock(*hdr)
			if err != nil || b == nil {
				return nil, fmt.Errorf("momentum %d lists block %v which the store lacks: %v", h, hdr, err)
			}
			if b.BlockType == nom.BlockTypeContractSend {
				continue // batched with its parent receive
			}
			group := append([]*nom.AccountBlock{b}, b.DescendantBlocks...)
			for _, g := range group {
				if g.IsSendBlock() && types.IsEmbeddedAddress(g.ToAddress) {
					out[g.ToAddress] = append(out[g.ToAddress], g.Hash)
				}
			}
		}
	}
	return out, nil
}

// c04Oracle checks the whole ledger of n; returns counters for classification.
func c04Oracle(c *pbt.C, n *sim.Node, where string) (contractsWith3 int) {
	l, err := sim.Scan(n)
	if err != nil {
		c.Failf("C04/scan-error", "%s: ledger scan of %s failed: %v", where, n.Name, err)
	}
	for h, rs := range l.Recv {
		s := l.Sends[h]
		if s == nil {
			c.Failf("C04/receive-of-nothing", "%s: %s holds block %v/%d receiving %v which is on no account chain", where, n.Name, rs[0].Address, rs[0].Height, h)
		}
		if len(rs) > 1 {
			c.Failf("C04/received-twice", "%s: on %s send %v (%v -> %v, %v) is received %d times: by %v/%d and %v/%d", where, n.Name, h,
				s.Address, s.ToAddress, s.Amount, len(rs), rs[0].Address, rs[0].Height, rs[1].Address, rs[1].Height)
		}
		if rs[0].Address != s.ToAddress {
			c.Failf("C04/wrong-receiver", "%s: on %s send %v addressed to %v is received by %v", where, n.Name, h, s.ToAddress, rs[0].Address)
		}
		// a receive never precedes the confirmation of its send
		if !l.Pooled[rs[0].Hash] && l.Pooled[h] {
			c.Failf("C04/receive-before-send", "%s: on %s confirmed block %v receives unconfirmed send %v", where, n.Name, rs[0].Hash, h)
		}
	}
	exp, err := expectedInboxOrder(n)
	if err != nil {
		c.Failf("C04/scan-error", "%s: %v", where, err)
	}
	ms := n.Chain.GetFrontierMomentumStore()
	for _, ct := range sim.ContractList {
		var actual []types.Hash
		for _, b := range l.Blocks[ct] {
			if b.BlockType == nom.BlockTypeContractReceive {
				actual = append(actual, b.FromBlockHash)
			}
		}
		want := exp[ct]
		if len(actual) > len(want) {
			c.Failf("C04/fifo", "%s: on %s contract %s received %d sends but only %d were confirmed for it", where, n.Name, sim.ContractNames[ct], len(actual), len(want))
		}
		for i := range actual {
			if actual[i] != want[i] {
				c.Failf("C04/fifo", "%s: on %s contract %s receive #%d takes send %v, confirmation order has %v there", where, n.Name,
					sim.ContractNames[ct], i, actual[i], want[i])
			}
		}
		senders := map[types.Address]bool{}
		for _, h := range want {
			senders[l.Sends[h].Address] = true
		}
		if len(want) >= 3 && len(senders) >= 2 {
			contractsWith3++
		}
	}
	// the node's own index agrees with the scan (confirmed receives)
	for h, rs := range l.Recv {
		if l.Pooled[rs[0].Hash] {
			continue
		}
		got, err := ms.GetBlockWhichReceives(h)
		if err != nil || got == nil || got.Hash != rs[0].Hash {
			c.Failf("C04/index-disagrees", "%s: on %s GetBlockWhichReceives(%v) = %v (%v), the chain has %v", where, n.Name, h, got, err, rs[0].Hash)
		}
	}
	return
}

func TestC04(t *testing.T) {
	pbt.Check(t, "C04", func(c *pbt.C) {
		h := sim.NewHist(c, genSpec(c), genWorldOpts(c))
		h.Intents = sim.DefaultIntents()
		h.AckDepthMax = 2
		rejectedCompeting := 0
		replaced := 0
		maxC3 := 0

		// competing receive for the same send: twice by the addressee, or by somebody else
		double := func() {
			for _, u := range h.Users {
				pend := h.Unreceived(u)
				if len(pend) == 0 {
					continue
				}
				from := pend[c.Pick("dbl.idx", len(pend))]
				if _, err := h.Submit(&nom.AccountBlock{BlockType: nom.BlockTypeUserReceive, Address: u, FromBlockHash: from}, "receive #1 of "+from.String()[:8]); err != nil {
					return
				}
				other := u
				if c.Bool("dbl.other") {
					other = h.Users[c.Pick("dbl.who", len(h.Users))]
				}
				if c.Bool("dbl.momentumBetween") {
					h.Produce(0)
				}
				if _, err := h.Submit(&nom.AccountBlock{BlockType: nom.BlockTypeUserReceive, Address: other, FromBlockHash: from},
					fmt.Sprintf("competing receive of %s by %s", from.String()[:8], other.String()[:10])); err != nil {
					rejectedCompeting++
				}
				return
			}
		}
		// a competing block for an occupied pool height (replacement of unconfirmed blocks)
		fork := func() {
			pool := h.A.Chain.GetAllUncommittedAccountBlocks()
			var cands []*nom.AccountBlock
			for _, b := range pool {
				if !types.IsEmbeddedAddress(b.Address) && h.W.Keys.ByAddr[b.Address] != nil {
					cands = append(cands, b)
				}
			}
			if len(cands) == 0 {
				return
			}
			old := cands[c.Pick("fork.idx", len(cands))]
			tpl := &nom.AccountBlock{Address: old.Address, PreviousHash: old.PreviousHash, Height: old.Height,
				MomentumAcknowledged: old.MomentumAcknowledged, FusedPlasma: old.FusedPlasma * uint64(c.Int("fork.plasmaX", 1, 3))}
			switch c.Weighted("fork.kind", 2, 2, 1) {
			case 0: // another receive at that height
				pend := h.Unreceived(old.Address)
				if len(pend) == 0 {
					return
				}
				tpl.BlockType = nom.BlockTypeUserReceive
				tpl.FromBlockHash = pend[c.Pick("fork.pend", len(pend))]
			case 1: // a send instead
				tpl.BlockType = nom.BlockTypeUserSend
				tpl.ToAddress = h.Users[c.Pick("fork.to", len(h.Users))]
				tpl.TokenStandard = types.ZnnTokenStandard
				tpl.Amount = big.NewInt(int64(c.Int("fork.amt", 0, 1000)))
			default: // same kind, same content as the old one but more plasma
				tpl.BlockType = old.BlockType
				tpl.ToAddress = old.ToAddress
				tpl.TokenStandard = old.TokenStandard
				tpl.Amount = old.Amount
				tpl.FromBlockHash = old.FromBlockHash
				tpl.Data = old.Data
			}
			if _, err := h.Submit(tpl, fmt.Sprintf("fork of pooled block %s/%d (plasma %d -> %d)", old.Address.String()[:10], old.Height, old.FusedPlasma, tpl.FusedPlasma)); err == nil {
				replaced++
				c.Class("pool-replacement")
			}
		}
		inv := func() {
			if h.Dead {
				return
			}
			if n := c04Oracle(c, h.A, fmt.Sprintf("momentum %d", h.A.Height())); n > maxC3 {
				maxC3 = n
			}
		}
		// hostile: a contract receive for a send the contract already received, regenerated with the
		// node's own supervisor if it lets us, and gossiped
		replay := func() {
			l, err := sim.Scan(h.A)
			if err != nil {
				return
			}
			var cands []*nom.AccountBlock
			for _, s := range l.Sends {
				if types.IsEmbeddedAddress(s.ToAddress) && len(l.Recv[s.Hash]) > 0 && !l.Pooled[s.Hash] {
					cands = append(cands, s)
				}
			}
			if len(cands) == 0 {
				return
			}
			sortBlocks(cands)
			s := cands[c.Pick("replay.idx", len(cands))]
			var rb *nom.AccountBlock
			func() {
				defer func() { _ = recover() }()
				if ex, err := h.A.Sup.GenerateAutoReceive(s); err == nil && ex != nil && ex.Transaction != nil {
					rb = ex.Transaction.Block
				}
			}()
			c.Note("replayed contract receive of %s (to %s): regenerated=%v", s.Hash.String()[:8], sim.ContractNames[s.ToAddress], rb != nil)
			if rb == nil {
				rejectedCompeting++
				return
			}
			if wb, err := sim.WireBlocks([]*nom.AccountBlock{rb}); err == nil {
				_ = h.A.Bridge.AddAccountBlocks(wb)
			}
		}
		// a hand-made block: a PLAIN receive (user type, no key, no signature - blocks of contract addresses carry none) on a
		// contract's chain, naming a send the contract has already received (or its inbox head, or any send to it)
		plainReceiveOnContract := func() {
			l, err := sim.Scan(h.A)
			if err != nil {
				return
			}
			var cands []*nom.AccountBlock
			for _, s := range l.Sends {
				if types.IsEmbeddedAddress(s.ToAddress) && !l.Pooled[s.Hash] {
					cands = append(cands, s)
				}
			}
			if len(cands) == 0 {
				return
			}
			sortBlocks(cands)
			s := cands[c.Pick("plain.idx", len(cands))]
			ct := s.ToAddress
			ms := h.A.Chain.GetFrontierMomentumStore()
			ch, err := ms.GetBlockConfirmationHeight(s.Hash)
			if err != nil || ch == 0 {
				return
			}
			cm, err := ms.GetMomentumByHeight(ch)
			if err != nil || cm == nil {
				return
			}
			ack := cm.Identifier()
			if c.Bool("plain.ackFrontier") {
				ack = h.A.Frontier().Identifier()
			}
			prev := h.A.Chain.GetFrontierAccountStore(ct).Identifier()
			blk := &nom.AccountBlock{Version: 1, ChainIdentifier: h.A.Chain.ChainIdentifier(), BlockType: []uint64{nom.BlockTypeUserReceive, nom.BlockTypeUserReceive, nom.BlockTypeGenesisReceive}[c.Pick("plain.type", 3)],
				Address: ct, PreviousHash: prev.Hash, Height: prev.Height + 1, MomentumAcknowledged: ack, FromBlockHash: s.Hash,
				Amount: big.NewInt(0), Data: []byte{}}
			blk.Hash = blk.ComputeHash()
			wb, err := sim.WireBlocks([]*nom.AccountBlock{blk})
			if err != nil {
				return
			}
			err = h.A.Bridge.AddAccountBlocks(wb)
			c.Note("plain receive block on %s naming send %s (already received: %v) -> %v", sim.ContractNames[ct], s.Hash.String()[:8], len(l.Recv[s.Hash]) > 0, err)
			c.Class("plain-receive-on-a-contract-chain-offered")
			if err != nil {
				rejectedCompeting++
			}
		}
		acts := histActions(h)
		acts["plainReceiveOnContract"] = plainReceiveOnContract
		acts["replayContractReceive"] = replay
		acts["double"] = double
		acts["fork"] = fork
		acts["receive2"] = h.ActReceive
		acts["produceLazy"] = h.ActProduceLazy
		c.Repeat(acts, inv)
		for i := 0; i < 2 && !h.Dead; i++ {
			h.Produce(0)
			inv()
		}
		if h.Dead {
			c.Excluded("C09-preflight-abort")
			return
		}
		// a follower fed in batches and restarted sees the same ledger: same oracle there
		b := h.W.AddNode("B", false)
		top := h.A.Height()
		at := uint64(1)
		for at < top {
			step := uint64(c.Int("sync.batch", 1, 6))
			to := min64(at+step, top)
			if _, err := b.Bridge.InsertChain(h.A.Range(at+1, to)); err != nil {
				c.Failf("C04/follower", "follower refused honest momentums %d..%d: %v", at+1, to, err)
			}
			at = to
			if c.Weighted("sync.restart", 4, 1) == 1 {
				nb, err := b.Restart(c.Bool("sync.keep"))
				if err != nil {
					c.Failf("C04/follower", "restart failed: %v", err)
				}
				h.W.Replace(b, nb)
				b = nb
				c.Class("follower-restart")
			}
		}
		c04Oracle(c, b, "follower after sync")
		if rejectedCompeting > 0 {
			c.Class("competing-receive-rejected")
		}
		if maxC3 > 0 {
			c.Class("contract-with>=3-sends-from>=2-accounts")
		}
		if rejectedCompeting > 0 && maxC3 > 0 {
			c.NonTrivial()
		}
		c.R.Count("competing_receives_rejected", rejectedCompeting)
		c.R.Count("pool_replacements", replaced)
	})
}

// Reorganisation clause: after a node abandoned a branch (un-confirming receives) the same
// ledger-wide oracle must hold on it.
func TestC04Reorg(t *testing.T) {
	pbt.Check(t, "C04", func(c *pbt.C) {
		reorgScenario(c, "C04", func(c *pbt.C, key string, b, cn *sim.Node) {
			c04Oracle(c, b, "after reorganisation")
			c04Oracle(c, cn, "reference node")
		})
	})
}

func sortBlocks(l []*nom.AccountBlock) {
	for i := 1; i < len(l); i++ {
		for j := i; j > 0 && l[j].Hash.String() < l[j-1].Hash.String(); j-- {
			l[j], l[j-1] = l[j-1], l[j]
		}
	}
}
