package props

// C11 — rewards: bounded by the epoch's emission, paid once, identical on all nodes.

import (
	"encoding/binary"
	"fmt"
	"math/big"
	"strings"
	"testing"
	"time"

	"github.com/zenon-network/go-zenon/chain/nom"
	"github.com/zenon-network/go-zenon/common/db"
	"github.com/zenon-network/go-zenon/common/types"
	"github.com/zenon-network/go-zenon/consensus"
	"github.com/zenon-network/go-zenon/vm/constants"
	"github.com/zenon-network/go-zenon/vm/embedded/definition"

	"verifharness/pbt"
	"verifharness/sim"
)

type c11amt struct{ znn, qsr *big.Int }

func newAmt() *c11amt { return &c11amt{new(big.Int), new(big.Int)} }

type histVar struct {
	Znn *big.Int
	Qsr *big.Int
}

// rewardHistory parses the raw rewardDepositHistory entries of a contract storage:
// epoch -> address -> amounts
func rewardHistory(st db.DB) (map[uint64]map[types.Address]*c11amt, error) {
	out := map[uint64]map[types.Address]*c11amt{}
	it := st.NewIterator([]byte{132})
	defer it.Release()
	for it.Next() {
		if len(it.Value()) == 0 {
			continue
		}
		k := it.Key()
		if len(k) != 1+types.AddressSize+8 {
			return nil, fmt.Errorf("reward history key of length %d", len(k))
		}
		var a types.Address
		copy(a[:], k[1:1+types.AddressSize])
		epoch := binary.LittleEndian.Uint64(k[1+types.AddressSize:])
		v := new(histVar)
		if err := definition.ABICommon.UnpackVariable(v, definition.RewardDepositHistoryVariableName, it.Value()); err != nil {
			return nil, err
		}
		if out[epoch] == nil {
			out[epoch] = map[types.Address]*c11amt{}
		}
		out[epoch][a] = &c11amt{v.Znn, v.Qsr}
	}
	return out, nil
}

// The protocol's emission schedule, restated here (not read from the repository's tables): ZNN per epoch = n x 1440 ZNN
// for the n of the epoch's reward tick, QSR per epoch likewise; a reward tick lasts RewardTickDurationInEpochs epochs
// (30 on the live network, a value the harness shrinks together with the other windows), the last entry stays in force.
// Shares: pillars 24 % (delegation) + 50 % (momentum production) of the ZNN, per momentum slot of the epoch; sentinels
// 13 % of the ZNN and 25 % of the QSR; liquidity 13 % / 25 %; staking 50 % of the QSR. Divisions round down.
var (
	c11znnPerSixMomentums = []int64{10, 6, 5, 7, 5, 4, 7, 4, 3, 7, 3}
	c11qsrPerEpoch        = []int64{20000, 20000, 20000, 20000, 15000, 15000, 15000, 5000}
)

const c11decimals, c11momentumsPerEpoch = int64(100000000), int64(8640)

func c11network(epoch uint64) (znn, qsr int64) {
	tick := int(epoch / constants.RewardTickDurationInEpochs)
	zi, qi := tick, tick
	if zi >= len(c11znnPerSixMomentums) {
		zi = len(c11znnPerSixMomentums) - 1
	}
	if qi >= len(c11qsrPerEpoch) {
		qi = len(c11qsrPerEpoch) - 1
	}
	return c11znnPerSixMomentums[zi] * c11momentumsPerEpoch / 6 * c11decimals, c11qsrPerEpoch[qi] * c11decimals
}

// emission of one epoch for a contract, from the statement's tables
func c11emission(ct types.Address, epoch uint64) *c11amt {
	znn, qsr := c11network(epoch)
	switch ct {
	case types.PillarContract:
		perMomentum := znn*24/100/c11momentumsPerEpoch + znn*50/100/c11momentumsPerEpoch
		slots := int64(consensus.EpochDuration.Seconds()) / 10
		return &c11amt{big.NewInt(perMomentum * slots), new(big.Int)}
	case types.SentinelContract:
		return &c11amt{big.NewInt(znn * 13 / 100), big.NewInt(qsr * 25 / 100)}
	case types.StakeContract:
		return &c11amt{new(big.Int), big.NewInt(qsr * 50 / 100)}
	case types.LiquidityContract:
		return &c11amt{big.NewInt(znn * 13 / 100), big.NewInt(qsr * 25 / 100)}
	}
	return newAmt()
}

var c11contracts = []types.Address{types.PillarContract, types.SentinelContract, types.StakeContract, types.LiquidityContract}

type c11track struct {
	lastEpoch int64
	frozen    map[uint64]*c11amt        // epoch -> total credited, once the epoch was passed
	credited  map[types.Address]*c11amt // total credited per address (all epochs)
	collected map[types.Address]*c11amt // total collected per address
	prevHist  map[uint64]map[types.Address]*c11amt
	liqMinted *c11amt
}

func TestC11(t *testing.T) {
	pbt.Check(t, "C11", func(c *pbt.C) {
		spec := genSpec(c)
		spec.ActiveSporks = []uint64{0, 2}[c.Pick("c11.sporks", 2)]
		opts := genWorldOpts(c)
		// liquidity worlds: the administrator configured the stakeable tokens and their shares, accounts stake
		liqWorld := c.Weighted("c11.liquidityWorld", 2, 1) == 1
		if liqWorld {
			spec.ActiveSporks = 2
			opts.Bridge = true
			for len(spec.Users) < 5 {
				spec.Users = append(spec.Users, sim.UserSpec{Znn: 9000, Qsr: 90000})
			}
		}
		h := sim.NewHist(c, spec, opts)
		if liqWorld {
			c.Class("liquidity-world")
			if err := sim.LiquidityScript(h); err != nil {
				c.Note("liquidity script stopped: %v", err)
			}
			for _, in := range sim.BridgeIntents() {
				if strings.HasPrefix(in.Name, "liquidity-") {
					h.Intents = append(h.Intents, in, in)
				}
			}
		}
		for _, in := range sim.DefaultIntents() {
			h.Intents = append(h.Intents, in)
			switch in.Name {
			case "stake", "sentinel-register", "deposit-qsr", "collect-reward", "pillar-delegate", "pillar-undelegate":
				h.Intents = append(h.Intents, in, in)
			}
		}
		// momentums per epoch and producer, from the chain (kept incrementally)
		produced := map[uint64]map[types.Address]int{}
		scannedTo := uint64(1)
		producedPerEpoch := func() map[uint64]map[types.Address]int {
			ms := h.A.Chain.GetFrontierMomentumStore()
			ep := int64(consensus.EpochDuration / time.Second)
			for ht := scannedTo + 1; ht <= h.A.Height(); ht++ {
				m, err := ms.GetMomentumByHeight(ht)
				if err != nil || m == nil {
					break
				}
				e := uint64((m.Timestamp.Unix() - h.W.Spec.Timestamp) / ep)
				if produced[e] == nil {
					produced[e] = map[types.Address]int{}
				}
				produced[e][m.Producer()]++
				scannedTo = ht
			}
			return produced
		}
		tr := map[types.Address]*c11track{}
		for _, ct := range c11contracts {
			tr[ct] = &c11track{lastEpoch: -1, frozen: map[uint64]*c11amt{}, credited: map[types.Address]*c11amt{}, collected: map[types.Address]*c11amt{},
				prevHist: map[uint64]map[types.Address]*c11amt{}, liqMinted: newAmt()}
		}
		seen := map[types.Hash]bool{}
		rewardedPairs := map[string]bool{}
		collects := 0
		missed := false
		inv := func() {
			if h.Dead {
				return
			}
			l, err := sim.Scan(h.A)
			if err != nil {
				c.Failf("C11/scan-error", "%v", err)
			}
			for _, ct := range c11contracts {
				name := sim.ContractNames[ct]
				t := tr[ct]
				st := h.A.Chain.GetFrontierAccountStore(ct).Storage()
				// collects and liquidity mints, from the new receives of this contract
				for _, r := range l.Blocks[ct] {
					if r.BlockType != nom.BlockTypeContractReceive || seen[r.Hash] {
						continue
					}
					seen[r.Hash] = true
					snd := l.Sends[r.FromBlockHash]
					if snd == nil || len(snd.Data) < 4 {
						continue
					}
					ab := sim.Contracts[ct]
					m, err := ab.MethodById(snd.Data[:4])
					if err != nil {
						continue
					}
					minted := newAmt()
					for _, d := range r.DescendantBlocks {
						if d.ToAddress != types.TokenContract || len(d.Data) < 4 {
							continue
						}
						p := new(definition.MintParam)
						if err := definition.ABIToken.UnpackMethod(p, definition.MintMethodName, d.Data); err != nil {
							continue
						}
						if m.Name == definition.CollectRewardMethodName && p.ReceiveAddress != snd.Address {
							c.Failf("C11/collect-to-other", "%s.CollectReward by %v mints %v to %v", name, snd.Address, p.Amount, p.ReceiveAddress)
						}
						switch p.TokenStandard {
						case types.ZnnTokenStandard:
							minted.znn.Add(minted.znn, p.Amount)
						case types.QsrTokenStandard:
							minted.qsr.Add(minted.qsr, p.Amount)
						}
					}
					switch m.Name {
					case definition.CollectRewardMethodName:
						cr := t.credited[snd.Address]
						if cr == nil {
							cr = newAmt()
						}
						co := t.collected[snd.Address]
						if co == nil {
							co = newAmt()
							t.collected[snd.Address] = co
						}
						_ = cr
						// exact: the deposit recorded for the caller in the contract state just before
						// this receive is what must be minted, and nothing may be left afterwards
						before := h.A.Chain.GetAccountStore(ct, r.Previous())
						after := h.A.Chain.GetAccountStore(ct, r.Identifier())
						if before != nil && after != nil {
							a := snd.Address
							db0, err0 := definition.GetRewardDeposit(before.Storage(), &a)
							db1, err1 := definition.GetRewardDeposit(after.Storage(), &a)
							if err0 != nil || err1 != nil {
								c.Failf("C11/unreadable", "%v %v", err0, err1)
							}
							if minted.znn.Cmp(db0.Znn) != 0 || minted.qsr.Cmp(db0.Qsr) != 0 {
								c.Failf("C11/collect-amount/"+name, "%s.CollectReward by %v (send %v) mints %v ZNN + %v QSR; the credited deposit before it was %v ZNN + %v QSR",
									name, snd.Address, snd.Hash.String()[:8], minted.znn, minted.qsr, db0.Znn, db0.Qsr)
							}
							if (minted.znn.Sign() > 0 || minted.qsr.Sign() > 0) && (db1.Znn.Sign() != 0 || db1.Qsr.Sign() != 0) {
								c.Failf("C11/collect-keeps-deposit/"+name, "%s.CollectReward by %v minted the deposit but %v ZNN + %v QSR stay recorded (collectable again)", name, snd.Address, db1.Znn, db1.Qsr)
							}
							c.R.Count("collects_checked_exactly", 1)
						}
						co.znn.Add(co.znn, minted.znn)
						co.qsr.Add(co.qsr, minted.qsr)
						if minted.znn.Sign() > 0 || minted.qsr.Sign() > 0 {
							collects++
							c.Class("collect:" + name)
						}
					case definition.UpdateMethodName:
						if ct == types.LiquidityContract {
							t.liqMinted.znn.Add(t.liqMinted.znn, minted.znn)
							t.liqMinted.qsr.Add(t.liqMinted.qsr, minted.qsr)
						}
					}
				}
				// epoch cursor
				le, err := definition.GetLastEpochUpdate(st)
				if err != nil {
					c.Failf("C11/unreadable", "%s: %v", name, err)
				}
				if le.LastEpoch < t.lastEpoch {
					c.Failf("C11/epoch-cursor-backwards/"+name, "%s: last rewarded epoch went from %d to %d", name, t.lastEpoch, le.LastEpoch)
				}
				hist, err := rewardHistory(st)
				if err != nil {
					c.Failf("C11/unreadable", "%s: %v", name, err)
				}
				for e, m := range hist {
					if int64(e) > le.LastEpoch {
						c.Failf("C11/reward-before-epoch-closed/"+name, "%s credited rewards for epoch %d although its last rewarded epoch is %d", name, e, le.LastEpoch)
					}
					total := newAmt()
					for a, v := range m {
						total.znn.Add(total.znn, v.znn)
						total.qsr.Add(total.qsr, v.qsr)
						// credits per address: difference to the previous observation
						pz, pq := new(big.Int), new(big.Int)
						if pm := t.prevHist[e]; pm != nil && pm[a] != nil {
							pz, pq = pm[a].znn, pm[a].qsr
						}
						if v.znn.Cmp(pz) < 0 || v.qsr.Cmp(pq) < 0 {
							c.Failf("C11/history-decreased/"+name, "%s: credited reward of %v for epoch %d decreased", name, a, e)
						}
						if t.credited[a] == nil {
							t.credited[a] = newAmt()
						}
						t.credited[a].znn.Add(t.credited[a].znn, new(big.Int).Sub(v.znn, pz))
						t.credited[a].qsr.Add(t.credited[a].qsr, new(big.Int).Sub(v.qsr, pq))
					}
					em := c11emission(ct, e)
					if total.znn.Cmp(em.znn) > 0 || total.qsr.Cmp(em.qsr) > 0 {
						c.Failf("C11/exceeds-emission/"+name, "%s credited %v ZNN + %v QSR for epoch %d; the epoch's emission for it is %v ZNN + %v QSR (epoch of %v)",
							name, total.znn, total.qsr, e, em.znn, em.qsr, consensus.EpochDuration)
					}
					if f := t.frozen[e]; f != nil {
						if f.znn.Cmp(total.znn) != 0 || f.qsr.Cmp(total.qsr) != 0 {
							c.Failf("C11/rewarded-twice/"+name, "%s: epoch %d was already rewarded (%v ZNN + %v QSR) and is credited again (now %v + %v)", name, e, f.znn, f.qsr, total.znn, total.qsr)
						}
					} else {
						// an epoch is credited by the one receive that moves the cursor past it
						t.frozen[e] = total
					}
					if total.znn.Sign() > 0 || total.qsr.Sign() > 0 {
						rewardedPairs[fmt.Sprintf("%s/%d", name, e)] = true
					}
				}
				// each epoch is rewarded: an epoch the cursor has passed in which pillars that are still registered produced
				// momentums has a pillar credit (production is paid per momentum)
				if ct == types.PillarContract {
					producedBy := producedPerEpoch()
					active := map[types.Address]bool{}
					if list, err := definition.GetPillarsList(st, true, definition.AnyPillarType); err == nil {
						for _, p := range list {
							active[p.BlockProducingAddress] = true
						}
					}
					for e := int64(0); e <= le.LastEpoch; e++ {
						n := 0
						for prod, k := range producedBy[uint64(e)] {
							if active[prod] {
								n += k
							}
						}
						if n == 0 {
							continue
						}
						tot := new(big.Int)
						for _, v := range hist[uint64(e)] {
							tot.Add(tot, v.znn)
						}
						if tot.Sign() == 0 {
							c.Failf("C11/epoch-not-rewarded/pillar", "the pillar contract's cursor is past epoch %d (last rewarded epoch %d); %d momentums of that epoch were produced by pillars that are still registered, yet nothing was credited for it", e, le.LastEpoch, n)
						}
					}
				}
				t.lastEpoch = le.LastEpoch
				t.prevHist = hist
				// the deposit variable equals credited - collected for every known address
				for a, cr := range t.credited {
					a := a
					dep, err := definition.GetRewardDeposit(st, &a)
					if err != nil {
						c.Failf("C11/unreadable", "%s: %v", name, err)
					}
					co := t.collected[a]
					if co == nil {
						co = newAmt()
					}
					if new(big.Int).Sub(cr.znn, co.znn).Cmp(dep.Znn) != 0 || new(big.Int).Sub(cr.qsr, co.qsr).Cmp(dep.Qsr) != 0 {
						c.Failf("C11/deposit-mismatch/"+name, "%s: %v was credited %v ZNN + %v QSR and collected %v + %v, but its uncollected deposit reads %v + %v",
							name, a, cr.znn, cr.qsr, co.znn, co.qsr, dep.Znn, dep.Qsr)
					}
				}
				// liquidity before its spork: one mint pair per closed epoch, exactly the epoch amounts
				if ct == types.LiquidityContract && spec.ActiveSporks == 0 {
					want := newAmt()
					for e := int64(0); e <= le.LastEpoch; e++ {
						em := c11emission(ct, uint64(e))
						want.znn.Add(want.znn, em.znn)
						want.qsr.Add(want.qsr, em.qsr)
					}
					if t.liqMinted.znn.Cmp(want.znn) != 0 || t.liqMinted.qsr.Cmp(want.qsr) != 0 {
						c.Failf("C11/epoch-not-rewarded-once/liquidity", "liquidity: epochs 0..%d are closed; emission for them is %v ZNN + %v QSR, mint requests so far add up to %v + %v",
							le.LastEpoch, want.znn, want.qsr, t.liqMinted.znn, t.liqMinted.qsr)
					}
				}
			}
		}
		// set-up so that every rewarding contract has participants from the first epoch on
		if c.Weighted("setup", 1, 3) == 1 {
			u0, u1 := h.Users[0], h.Users[1%len(h.Users)]
			_, _ = h.Submit(&nom.AccountBlock{Address: u0, ToAddress: types.StakeContract, TokenStandard: types.ZnnTokenStandard, Amount: big.NewInt(100 * sim.Zexp),
				Data: definition.ABIStake.PackMethodPanic(definition.StakeMethodName, constants.StakeTimeUnitSec*int64(c.Int("setup.stakeUnits", 1, 12)))}, "setup: stake")
			_, _ = h.Submit(&nom.AccountBlock{Address: u1, ToAddress: types.SentinelContract, TokenStandard: types.QsrTokenStandard,
				Amount: new(big.Int).Set(constants.SentinelQsrDepositAmount), Data: definition.ABICommon.PackMethodPanic(definition.DepositQsrMethodName)}, "setup: sentinel deposit")
			h.Produce(0)
			h.Produce(0)
			_, _ = h.Submit(&nom.AccountBlock{Address: u1, ToAddress: types.SentinelContract, TokenStandard: types.ZnnTokenStandard,
				Amount: new(big.Int).Set(constants.SentinelZnnRegisterAmount), Data: definition.ABISentinel.PackMethodPanic(definition.RegisterSentinelMethodName)}, "setup: sentinel register")
			h.Produce(0)
			c.Class("setup-stake-and-sentinel")
			if len(h.Users) > 2 && c.Bool("setup.secondSentinel") {
				u2 := h.Users[2]
				_, _ = h.Submit(&nom.AccountBlock{Address: u2, ToAddress: types.SentinelContract, TokenStandard: types.QsrTokenStandard,
					Amount: new(big.Int).Set(constants.SentinelQsrDepositAmount), Data: definition.ABICommon.PackMethodPanic(definition.DepositQsrMethodName)}, "setup: second sentinel deposit")
				h.Produce(0)
				h.Produce(0)
				_, _ = h.Submit(&nom.AccountBlock{Address: u2, ToAddress: types.SentinelContract, TokenStandard: types.ZnnTokenStandard,
					Amount: new(big.Int).Set(constants.SentinelZnnRegisterAmount), Data: definition.ABISentinel.PackMethodPanic(definition.RegisterSentinelMethodName)}, "setup: second sentinel register")
				h.Produce(0)
				c.Class("setup-two-sentinels")
			}
		}
		acts := map[string]func(){
			"transfer": h.ActTransfer, "receive": h.ActReceive, "callABI": h.ActCallABI,
			"intent": h.ActIntent, "intent2": h.ActIntent, "intent3": h.ActIntent,
			"produce": h.ActProduce, "produce2": h.ActProduce, "produce3": h.ActProduce,
			// more than twenty epochs in a row in which pillars produce (one momentum each) but none of them sends the
			// contracts' updates: the catch-up afterwards rewards every one of them
			"lazyEpochs": func() {
				if c.Weighted("lazyEpochs.do", 3, 1) == 0 || h.Dead {
					return
				}
				slots := int(consensus.EpochDuration/time.Second) / 10
				for i, n := 0, c.Int("lazyEpochs.n", 21, 30); i < n; i++ {
					if err := h.A.ProduceBare(slots - 1); err != nil {
						return
					}
					h.Momentums++
				}
				missed = true
				c.Class("many-epochs-with-production-and-no-update")
			},
			"skipAhead": func() {
				missed = true
				h.Produce(c.Int("skipAhead", 10, 90))
			},
			"collectDue": func() {
				// model-guided: an address with an uncollected credit collects (sometimes twice in a row)
				for _, ct := range c11contracts {
					t := tr[ct]
					for _, u := range h.Users {
						cr := t.credited[u]
						if cr == nil || h.W.Keys.ByAddr[u] == nil {
							continue
						}
						co := t.collected[u]
						if co == nil {
							co = newAmt()
						}
						if cr.znn.Cmp(co.znn) > 0 || cr.qsr.Cmp(co.qsr) > 0 {
							n := 1 + c.Weighted("collectDue.twice", 3, 1)
							for i := 0; i < n; i++ {
								_, _ = h.Submit(&nom.AccountBlock{Address: u, ToAddress: ct, TokenStandard: types.ZnnTokenStandard, Amount: big.NewInt(0),
									Data: definition.ABICommon.PackMethodPanic(definition.CollectRewardMethodName)}, fmt.Sprintf("%s.CollectReward() by %s (credit due)", sim.ContractNames[ct], u.String()[:10]))
							}
							return
						}
					}
				}
			},
			// the node restarts: consensus statistics of finished periods come back from its consensus database
			// (kept) or are recomputed from the chain
			"restart": func() {
				if c.Weighted("restart.do", 2, 1) == 1 && !h.Dead {
					if h.RestartNode(c.Weighted("restart.keep", 1, 3) == 1) {
						c.Class("producer-restarted")
					}
				}
			},
			// the node answers consensus queries in the middle of an epoch (statistics of the running epoch, weights, producer
			// schedule: what embedded.pillar.getAll makes it compute); a node that was never asked must credit the same amounts
			"readStats": func() {
				_ = sim.ConsensusSummary(h.A)
				c.Class("producer-answers-consensus-queries-mid-epoch")
			},
			// a pillar that has taken part in elections leaves in the middle of an epoch
			"timedRevoke": func() {
				switch c.Weighted("c11.timedRevoke", 2, 1, 2) {
				case 1:
					h.ActTimedPillarRevoke()
				case 2:
					// a sentinel leaves in the middle of an epoch (or between its end and its update)
					h.ActTimedSentinelRevoke()
				}
			},
			"skipFar": func() {
				if c.Weighted("skipFar.do", 3, 1) == 1 {
					missed = true
					h.Produce(c.Int("skipFar", 100, 1500)) // many epochs without any update
					c.Class("many-epochs-at-once")
				}
			},
		}
		if c.Weighted("c11.ecoWorld", 2, 1) == 1 {
			// a sentinel, a third-party pillar with its own reward address and a stake exist from early on
			c.Class("ecosystem-world")
			if _, err := sim.EcosystemScript(h); err != nil {
				c.Note("ecosystem script stopped: %v", err)
			}
			inv()
		}
		c.Repeat(acts, inv)
		for i := 0; i < 7 && !h.Dead; i++ {
			h.Produce(0)
			inv()
		}
		if h.Dead {
			c.Excluded("C09-preflight-abort")
			return
		}
		// a follower synced in batches with cold caches computes the same credits
		b := h.W.AddNode("B", false)
		top := h.A.Height()
		at := uint64(1)
		for at < top {
			to := min64(at+uint64(c.Int("sync.batch", 1, 25)), top)
			if _, err := b.Bridge.InsertChain(h.A.Range(at+1, to)); err != nil {
				c.Failf("C11/follower-refused", "follower refused honest momentums %d..%d: %v", at+1, to, err)
			}
			at = to
		}
		for _, ct := range c11contracts {
			ha, err1 := rewardHistory(h.A.Chain.GetFrontierMomentumStore().GetAccountStore(ct).Storage())
			hb, err2 := rewardHistory(b.Chain.GetFrontierMomentumStore().GetAccountStore(ct).Storage())
			if err1 != nil || err2 != nil {
				c.Failf("C11/unreadable", "%v %v", err1, err2)
			}
			if fmt.Sprint(flatHist(ha)) != fmt.Sprint(flatHist(hb)) {
				c.Failf("C11/nodes-differ/"+sim.ContractNames[ct], "credited rewards of %s differ between producer and follower:\n %v\n %v", sim.ContractNames[ct], flatHist(ha), flatHist(hb))
			}
		}
		if d := sim.DiffBattery(sim.ConsensusSummary(h.A), sim.ConsensusSummary(b)); d != "" {
			c.Failf("C11/nodes-differ/epoch-stats", "epoch statistics differ between producer and follower: %s", d)
		}
		contractsRewarded := map[string]int{}
		for k := range rewardedPairs {
			var n string
			var e int
			_, _ = fmt.Sscanf(k, "%s", &n)
			for i := range k {
				if k[i] == '/' {
					n = k[:i]
					_, _ = fmt.Sscanf(k[i+1:], "%d", &e)
				}
			}
			contractsRewarded[n]++
		}
		two := 0
		for _, n := range contractsRewarded {
			if n >= 2 {
				two++
			}
		}
		c.R.Count("rewarded_contract_epochs", len(rewardedPairs))
		c.R.Count("collects", collects)
		if two >= 2 && missed && collects >= 1 {
			c.NonTrivial()
		}
		if two >= 2 {
			c.Class(">=2-contracts-with>=2-rewarded-epochs")
		}
	})
}

func flatHist(h map[uint64]map[types.Address]*c11amt) []string {
	var out []string
	for e, m := range h {
		for a, v := range m {
			out = append(out, fmt.Sprintf("%06d/%v=%v+%v", e, a, v.znn, v.qsr))
		}
	}
	sortStrings(out)
	return out
}

// TestC11Reorg: "the credited amounts are a function of the chain alone": a node that reorganised across the end
// of an epoch executes (and verifies) the reward updates of that epoch exactly like a node that only saw the
// adopted branch — it accepts the honest momentums carrying them and ends with the same deposits and histories.
func TestC11Reorg(t *testing.T) {
	pbt.Check(t, "C11", func(c *pbt.C) { reorgScenarioOpts(c, "C11", fullCompare, true) })
}
