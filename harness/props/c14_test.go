package props

// C14 — unconfirmed pool: one consistent chain per account, deterministic winner, exact content
// after each momentum; batch-preserving momentum content; safe under concurrency.

import (
	"bytes"
	"fmt"
	"math/big"
	"strings"
	"sync"
	"sync/atomic"
	"testing"

	"github.com/zenon-network/go-zenon/chain/nom"
	"github.com/zenon-network/go-zenon/common/db"
	"github.com/zenon-network/go-zenon/common/types"
	"github.com/zenon-network/go-zenon/rpc/api"
	"github.com/zenon-network/go-zenon/vm/embedded/definition"

	"verifharness/pbt"
	"verifharness/sim"
)

// reference pool model for user accounts
type c14acc struct {
	confirmed *nom.AccountBlock // confirmed tip (nil = none)
	confH     uint64
	list      []*nom.AccountBlock // pooled blocks, ascending height, list[0].Height == confH+1
}

type c14model struct {
	acc map[types.Address]*c14acc
}

func (m *c14model) get(a types.Address) *c14acc {
	if m.acc[a] == nil {
		m.acc[a] = &c14acc{}
	}
	return m.acc[a]
}

// better: candidate x beats the pooled block y at the same height
func c14better(x, y *nom.AccountBlock) (bool, string) {
	l := x.TotalPlasma * y.BasePlasma
	r := y.TotalPlasma * x.BasePlasma
	if l != r {
		if l > r {
			return true, "plasma-ratio"
		}
		return false, "plasma-ratio"
	}
	return bytes.Compare(x.Hash.Bytes(), y.Hash.Bytes()) < 0, "hash"
}

// predict what a non-forced insert of b does; returns (accepted, replaced, tieLevel)
func (m *c14model) insert(b *nom.AccountBlock) (accepted bool, replaced bool, level string) {
	a := m.get(b.Address)
	tipH := a.confH + uint64(len(a.list))
	var tipHash types.Hash
	if len(a.list) > 0 {
		tipHash = a.list[len(a.list)-1].Hash
	} else if a.confirmed != nil {
		tipHash = a.confirmed.Hash
	}
	if b.Height == tipH+1 && b.PreviousHash == tipHash {
		a.list = append(a.list, b)
		return true, false, ""
	}
	if b.Height <= a.confH {
		return false, false, "below-confirmed"
	}
	idx := int(b.Height - a.confH - 1)
	if idx >= len(a.list) {
		return false, false, "gap"
	}
	if a.list[idx].Hash == b.Hash {
		return true, false, "already"
	}
	// must link to the element below
	var prevHash types.Hash
	if idx == 0 {
		if a.confirmed != nil {
			prevHash = a.confirmed.Hash
		}
	} else {
		prevHash = a.list[idx-1].Hash
	}
	if prevHash != b.PreviousHash {
		return false, false, "no-link"
	}
	win, lvl := c14better(b, a.list[idx])
	if !win {
		return false, false, lvl
	}
	a.list = append(a.list[:idx:idx], b)
	return true, true, lvl
}

// afterMomentum updates the model from the node's confirmed chains.
func (m *c14model) afterMomentum(n *sim.Node, addrs []types.Address) {
	ms := n.Chain.GetFrontierMomentumStore()
	for _, ad := range addrs {
		a := m.get(ad)
		st := ms.GetAccountStore(ad)
		newH := st.Identifier().Height
		if newH == a.confH {
			continue
		}
		tip, err := st.Frontier()
		if err != nil {
			panic(err)
		}
		if newH < a.confH {
			// rollback of confirmed blocks (reorganisation): the pool is dropped
			a.list = nil
		} else {
			k := int(newH - a.confH) // number of newly confirmed heights
			if k <= len(a.list) && a.list[k-1].Hash == tip.Hash {
				a.list = a.list[k:]
			} else {
				a.list = nil // the pooled chain does not link to what was confirmed
			}
		}
		a.confirmed, a.confH = tip, newH
	}
}

func c14listString(l []*nom.AccountBlock) string {
	s := ""
	for _, b := range l {
		s += fmt.Sprintf("%d:%s ", b.Height, b.Hash.String()[:8])
	}
	return s
}

// structural invariants of the node's pool for one account
func c14structure(c *pbt.C, n *sim.Node, ad types.Address, where string) []*nom.AccountBlock {
	got := n.Chain.GetUncommittedAccountBlocksByAddress(ad)
	ms := n.Chain.GetFrontierMomentumStore()
	st := ms.GetAccountStore(ad)
	prev := st.Identifier()
	for i, b := range got {
		if b.Address != ad {
			c.Failf("C14/pool-foreign-block", "%s: pool of %v holds a block of %v", where, ad, b.Address)
		}
		if b.Height != prev.Height+1 || b.PreviousHash != prev.Hash {
			c.Failf("C14/pool-not-a-chain", "%s: pool of %v: element %d (%d/%s) does not extend %d/%s (confirmed tip %d)", where, ad, i, b.Height,
				b.Hash.String()[:8], prev.Height, prev.Hash.String()[:8], st.Identifier().Height)
		}
		prev = b.Identifier()
	}
	// the account's frontier view (what new blocks are chained on and what readers are shown) ends at the last
	// pooled block, or at the confirmed tip if nothing is pooled
	if fr := n.Chain.GetFrontierAccountStore(ad).Identifier(); fr != prev {
		c.Failf("C14/frontier-view-not-on-chain", "%s: the frontier view of %v ends at %d/%s; its confirmed tip is %d/%s and its last pooled block %d/%s", where, ad,
			fr.Height, fr.Hash.String()[:8], st.Identifier().Height, st.Identifier().Hash.String()[:8], prev.Height, prev.Hash.String()[:8])
	}
	return got
}

func TestC14(t *testing.T) {
	pbt.Check(t, "C14", func(c *pbt.C) {
		h := sim.NewHist(c, genSpec(c), genWorldOpts(c))
		h.Intents = sim.DefaultIntents()
		a := h.A
		if c.Bool("eventReaders") {
			// queries that run at the instant a momentum is inserted or deleted (they only read)
			a.WatchEvents()
			c.Class("queries-at-momentum-events")
		}
		a2 := h.W.AddNode("A2", true)
		h2 := sim.NewHistOn(c, h.W, a2, h)
		model := &c14model{acc: map[types.Address]*c14acc{}}
		// pillar accounts also get blocks from the pillar worker (contract updates), which the model
		// does not predict: they are checked structurally only
		isPillar := map[types.Address]bool{}
		for _, k := range h.W.Keys.Pillars {
			isPillar[k.Address] = true
		}
		var users []types.Address
		for _, u := range h.Users {
			if !isPillar[u] {
				users = append(users, u)
			}
		}
		model.afterMomentum(a, users)
		confirmedLog := map[types.Address]map[uint64]types.Hash{}
		levels := map[string]bool{}
		foreignConfirms := 0
		syncTo := func(dst, src *sim.Node) bool {
			if dst.Height() >= src.Height() {
				return true
			}
			_, err := dst.Bridge.InsertChain(src.Range(dst.Height()+1, src.Height()))
			return err == nil
		}
		// a user block through the real supervisor, then the pool decision compared with the model
		offer := func(tpl *nom.AccountBlock, descr string) {
			kp := h.W.Keys.ByAddr[tpl.Address]
			var tx *nom.AccountBlockTransaction
			var err error
			func() {
				defer func() {
					if r := recover(); r != nil {
						err = fmt.Errorf("%v", r)
					}
				}()
				tx, err = a.Sup.GenerateFromTemplate(tpl, kp.Signer)
			}()
			if err != nil {
				c.Note("%s -> not valid: %v", descr, err)
				return
			}
			blk := tx.Block.Copy()
			before := c14listString(model.get(blk.Address).list)
			wantOK, replaced, lvl := model.insert(blk)
			a.LastBlockErr = nil
			a.CreateAccountBlock(tx)
			gotOK := a.LastBlockErr == nil
			c.Note("%s -> pool %v (model %v, %s) h=%d %s", descr, gotOK, wantOK, lvl, blk.Height, blk.Hash.String()[:8])
			if gotOK != wantOK {
				c.Failf("C14/pool-decision", "%s: block %d/%s of %v (total/base plasma %d/%d): pool says %v (%v), the rule (fast-forward, else higher plasma ratio, else smaller hash; never at or below the confirmed height) says %v [%s]; pooled before: %s",
					descr, blk.Height, blk.Hash.String()[:8], blk.Address, blk.TotalPlasma, blk.BasePlasma, gotOK, a.LastBlockErr, wantOK, lvl, before)
			}
			if replaced {
				levels[lvl] = true
				c.Class("replacement-by-" + lvl)
			}
			if !wantOK && (lvl == "plasma-ratio" || lvl == "hash") {
				levels["lost-"+lvl] = true
			}
		}
		var nextOf func(u types.Address)
		next := func() { nextOf(users[c.Pick("next.user", len(users))]) }
		nextOf = func(u types.Address) {
			offer(&nom.AccountBlock{BlockType: nom.BlockTypeUserSend, Address: u, ToAddress: users[c.Pick("next.to", len(users))], TokenStandard: types.ZnnTokenStandard,
				Amount: big.NewInt(int64(c.Int("next.amt", 0, 50)))}, "next block of "+u.String()[:10])
		}
		var forkOf func(old *nom.AccountBlock)
		fork := func() {
			var cands []*nom.AccountBlock
			for _, u := range users {
				cands = append(cands, model.get(u).list...)
			}
			if len(cands) == 0 {
				return
			}
			forkOf(cands[c.Pick("fork.idx", len(cands))])
		}
		forkOf = func(old *nom.AccountBlock) {
			tpl := &nom.AccountBlock{BlockType: nom.BlockTypeUserSend, Address: old.Address, PreviousHash: old.PreviousHash, Height: old.Height,
				MomentumAcknowledged: old.MomentumAcknowledged, ToAddress: users[c.Pick("fork.to", len(users))], TokenStandard: types.ZnnTokenStandard,
				Amount: big.NewInt(int64(c.Int("fork.amt", 0, 50)))}
			switch c.Weighted("fork.plasma", 3, 2, 2) {
			case 0:
				tpl.FusedPlasma = old.FusedPlasma // same ratio when same kind: the hash decides
			case 1:
				tpl.FusedPlasma = old.FusedPlasma * uint64(c.Int("fork.mult", 2, 4))
			default:
				tpl.FusedPlasma = 21000 + uint64(c.Int("fork.extra", 0, 3))*21000
				if c.Bool("fork.data") {
					tpl.Data = c.Bytes("fork.databytes", 1, 30)
					tpl.FusedPlasma += 68 * uint64(len(tpl.Data))
				}
			}
			offer(tpl, fmt.Sprintf("fork at pooled height %d of %s (fused %d vs %d)", old.Height, old.Address.String()[:10], tpl.FusedPlasma, old.FusedPlasma))
		}
		below := func() {
			// a block for a height that is already confirmed must never displace it
			for _, u := range users {
				ac := model.get(u)
				if ac.confH < 1 || ac.confirmed == nil {
					continue
				}
				// offered to the pool directly (every real caller verifies first and is refused there)
				fake := ac.confirmed.Copy()
				fake.Data = append(append([]byte{}, fake.Data...), 0x7)
				fake.TotalPlasma, fake.BasePlasma = 21000*50, 21000
				sim.ResignBlock(fake, h.W.Keys.ByAddr[u])
				for _, force := range []bool{false, true} {
					ins := a.Chain.AcquireInsert("c14 below")
					var err error
					if force {
						err = a.Chain.ForceAddAccountBlockTransaction(ins, &nom.AccountBlockTransaction{Block: fake.Copy(), Changes: db.NewPatch()})
					} else {
						err = a.Chain.AddAccountBlockTransaction(ins, &nom.AccountBlockTransaction{Block: fake.Copy(), Changes: db.NewPatch()})
					}
					ins.Unlock()
					c.Note("competing block for the confirmed height %d of %s offered to the pool (force=%v) -> %v", ac.confH, u.String()[:10], force, err)
					if err == nil {
						c.Failf("C14/confirmed-displaced", "the pool accepted (force=%v) a competing block for the confirmed height %d of %v", force, ac.confH, u)
					}
				}
				return
			}
		}
		reinsert := func() {
			for _, u := range users {
				if l := model.get(u).list; len(l) > 0 {
					b := l[c.Pick("re.idx", len(l))]
					wb, err := sim.WireBlocks([]*nom.AccountBlock{b})
					if err != nil {
						return
					}
					if err := a.Bridge.AddAccountBlocks(wb); err != nil {
						c.Failf("C14/reinsert", "re-delivering the pooled block %d/%s of %v failed: %v", b.Height, b.Hash.String()[:8], u, err)
					}
					c.Note("re-insert of pooled block %d/%s", b.Height, b.Hash.String()[:8])
					return
				}
			}
		}
		ownMomentum := func() {
			content := a.Chain.GetNewMomentumContent()
			c14content(c, a, content)
			if !h.Produce(c.Weighted("skip", 5, 1)) {
				return
			}
			model.afterMomentum(a, users)
			if !syncTo(a2, a) {
				c.Failf("C14/own-momentum-refused", "a second node refused the momentum the node produced from its pool")
			}
		}
		// the pillar built its momentum from the pool, then gossip changed the pool (a competing block replaced a
		// block the momentum confirms, a child arrived on top of it), then the pillar inserted its momentum
		staleOwnMomentum := func() {
			mt, err := a.BuildMomentum(c.Weighted("stale.skip", 5, 1))
			if err != nil {
				c.Note("stale own momentum: not built: %v", err)
				return
			}
			for i, k := 0, c.Int("stale.ops", 1, 4); i < k; i++ {
				switch c.Weighted("stale.op", 2, 1, 3) {
				case 0:
					fork()
				case 1:
					next()
				default:
					// aimed: a block the momentum confirms is replaced, then a child arrives on the replacement
					var withPool []types.Address
					for _, u := range users {
						if len(model.get(u).list) > 0 {
							withPool = append(withPool, u)
						}
					}
					if len(withPool) == 0 {
						next()
						continue
					}
					u := withPool[c.Pick("stale.user", len(withPool))]
					forkOf(model.get(u).list[0])
					if c.Bool("stale.child") {
						nextOf(u)
					}
				}
			}
			err = a.InsertOwnMomentum(mt)
			c.Note("own momentum %d built before %s -> %v", mt.Momentum.Height, "the pool changed", err)
			if err != nil {
				return
			}
			h.Momentums++
			c.Class("own-momentum-inserted-after-pool-changed")
			model.afterMomentum(a, users)
			if !syncTo(a2, a) {
				c.Failf("C14/own-momentum-refused", "a second node refused the momentum the node produced from its pool")
			}
		}
		foreignMomentum := func() {
			// the other producer confirms OTHER blocks for accounts that have pooled blocks here
			if !syncTo(a2, a) {
				return
			}
			n := c.Int("foreign.n", 0, 3)
			for i := 0; i < n; i++ {
				u := users[c.Pick("foreign.user", len(users))]
				_, _ = h2.Submit(&nom.AccountBlock{BlockType: nom.BlockTypeUserSend, Address: u, ToAddress: users[c.Pick("foreign.to", len(users))],
					TokenStandard: types.ZnnTokenStandard, Amount: big.NewInt(int64(c.Int("foreign.amt", 51, 99)))}, "on A2: block of "+u.String()[:10])
			}
			// or exactly the blocks pooled here (gossip reached A2)
			if c.Bool("foreign.gossip") {
				for _, u := range users {
					for _, b := range model.get(u).list {
						if wb, err := sim.WireBlocks([]*nom.AccountBlock{b}); err == nil {
							_ = a2.Bridge.AddAccountBlocks(wb)
						}
					}
				}
			}
			if !h2.Produce(c.Weighted("foreign.skip", 5, 1)) {
				return
			}
			if _, err := a.Bridge.InsertChain(a2.Range(a.Height()+1, a2.Height())); err != nil {
				c.Failf("C14/foreign-momentum-refused", "the node refused an honest momentum of the other producer: %v", err)
			}
			foreignConfirms++
			model.afterMomentum(a, users)
			c.Class("momentum-confirming-other-blocks")
		}
		// a reorganisation: the node produces 1-2 momentums from its pool, the other producer (not told) grows a longer
		// branch with other blocks, the node adopts it. A momentum rollback empties the pool (every pooled block was
		// executed on a view of the abandoned branch); confirmed tips are the adopted branch's.
		reorg := func() {
			if !syncTo(a2, a) {
				return
			}
			base := a.Height()
			k := c.Int("reorg.k", 1, 2)
			for i := 0; i < k; i++ {
				if !h.Produce(0) {
					return
				}
				model.afterMomentum(a, users)
			}
			for i := 0; i <= k; i++ {
				if c.Bool("reorg.block") {
					u := users[c.Pick("reorg.user", len(users))]
					_, _ = h2.Submit(&nom.AccountBlock{BlockType: nom.BlockTypeUserSend, Address: u, ToAddress: users[c.Pick("reorg.to", len(users))],
						TokenStandard: types.ZnnTokenStandard, Amount: big.NewInt(int64(c.Int("reorg.amt", 100, 150)))}, "on A2 (other branch): block of "+u.String()[:10])
				}
				if !h2.Produce(c.Weighted("reorg.skip", 5, 1)) {
					return
				}
			}
			if a2.Height() <= a.Height() {
				return
			}
			rolledBack := !sameAt(a, a2, base+1)
			if _, err := a.Bridge.InsertChain(a2.Range(base+1, a2.Height())); err != nil {
				c.Failf("C14/longer-branch-refused", "the node refused the honest, strictly longer branch of the other producer (fork depth %d): %v", k, err)
			}
			if rolledBack {
				c.Class("reorganisation")
			}
			// what survives a rollback in the pool is C06's subject; here: whatever the pool holds afterwards is one chain
			// per account on the adopted branch's confirmed tips (checked by the invariant below) that a momentum can be
			// built from
			for _, u := range users {
				model.get(u).confH = ^uint64(0) // force the confirmed tip to be re-read
			}
			model.afterMomentum(a, users)
			model.resync(a, users)
			if _, err := a.BuildMomentum(0); err != nil && !strings.Contains(err.Error(), "no key for elected producer") {
				c.Failf("C14/pool-not-producible", "after adopting the longer branch (fork depth %d) no momentum can be built from what the pool holds: %v", k, err)
			}
		}
		everProducing := map[types.Address]bool{}
		inv := func() {
			if h.Dead || h2.Dead {
				return
			}
			// an account that has become the producing address of a pillar (UpdatePillar, Register) gets blocks from the
			// pillar worker like the genesis pillars' accounts: structural checks only, the model adopts what it holds
			producing := map[types.Address]bool{}
			if list, err := definition.GetPillarsList(a.Chain.GetFrontierAccountStore(types.PillarContract).Storage(), false, definition.AnyPillarType); err == nil {
				for _, p := range list {
					producing[p.BlockProducingAddress] = true
				}
			}
			for _, u := range users {
				if producing[u] {
					everProducing[u] = true
				}
				if everProducing[u] {
					c14structure(c, a, u, fmt.Sprintf("momentum %d", a.Height()))
					model.resync(a, []types.Address{u})
					continue
				}
				got := c14structure(c, a, u, fmt.Sprintf("momentum %d", a.Height()))
				want := model.get(u).list
				if c14listString(got) != c14listString(want) {
					c.Failf("C14/pool-content", "account %v: pool holds [%s], by the rules it holds [%s] (confirmed height %d)", u, c14listString(got), c14listString(want), model.get(u).confH)
				}
				if len(got) > 0 {
					c.Class("pooled-user-blocks")
				}
			}
			for _, ct := range sim.ContractList {
				c14structure(c, a, ct, fmt.Sprintf("momentum %d", a.Height()))
			}
			for p := range isPillar {
				c14structure(c, a, p, fmt.Sprintf("momentum %d", a.Height()))
			}
			// confirmed blocks never change
			ms := a.Chain.GetFrontierMomentumStore()
			for _, u := range append(append([]types.Address{}, users...), sim.ContractList...) {
				st := ms.GetAccountStore(u)
				hgt := st.Identifier().Height
				if confirmedLog[u] == nil {
					confirmedLog[u] = map[uint64]types.Hash{}
				}
				for x := uint64(1); x <= hgt; x++ {
					if _, ok := confirmedLog[u][x]; ok && x < hgt {
						continue
					}
					b, err := st.ByHeight(x)
					if err != nil || b == nil {
						c.Failf("C14/confirmed-missing", "confirmed block %v/%d vanished", u, x)
					}
					if old, ok := confirmedLog[u][x]; ok && old != b.Hash {
						c.Failf("C14/confirmed-displaced", "confirmed block %v/%d changed from %v to %v", u, x, old, b.Hash)
					}
					confirmedLog[u][x] = b.Hash
				}
			}
			c14content(c, a, a.Chain.GetNewMomentumContent())
		}
		acts := map[string]func(){
			"next": next, "next2": next, "next3": next, "fork": fork, "fork2": fork, "below": below, "reinsert": reinsert,
			"ownMomentum": ownMomentum, "foreignMomentum": foreignMomentum, "reorg": reorg, "staleOwnMomentum": staleOwnMomentum, "staleOwnMomentum2": staleOwnMomentum,
			// some model-guided calls let time pass first (momentums are produced inside the action): the model follows them
			"call": func() {
				before := a.Height()
				h.ActIntent()
				if a.Height() != before {
					model.afterMomentum(a, users)
				}
				model.resync(a, users)
			},
			"callABI": func() { h.ActCallABI(); model.resync(a, users) },
		}
		c.Repeat(acts, inv)
		if levels["plasma-ratio"] && levels["hash"] && foreignConfirms > 0 {
			c.NonTrivial()
		}
		for k := range levels {
			c.Class("tie-break:" + k)
		}
	})
}

// resync adopts the node's pool into the model after actions whose pool effect the model does
// not predict (contract calls through Hist.Submit are fast-forward inserts).
func (m *c14model) resync(n *sim.Node, users []types.Address) {
	for _, u := range users {
		a := m.get(u)
		a.list = n.Chain.GetUncommittedAccountBlocksByAddress(u)
	}
}

// c14content: momentum content offered for production is capped and never splits a batch.
func c14content(c *pbt.C, n *sim.Node, content []*nom.AccountBlock) {
	if len(content) > 100 {
		c.Failf("C14/content-limit", "momentum content offered for production has %d blocks", len(content))
	}
	in := map[types.Hash]bool{}
	for _, b := range content {
		in[b.Hash] = true
	}
	for _, b := range content {
		if b.BlockType == nom.BlockTypeContractReceive {
			for _, d := range b.DescendantBlocks {
				if !in[d.Hash] {
					c.Failf("C14/batch-split", "content includes contract receive %v/%d without its batched send %v", b.Address, b.Height, d.Hash)
				}
			}
		}
	}
	// every batched send is accompanied by its receive
	pool := n.Chain.GetAllUncommittedAccountBlocks()
	parent := map[types.Hash]types.Hash{}
	for _, b := range pool {
		for _, d := range b.DescendantBlocks {
			parent[d.Hash] = b.Hash
		}
	}
	for _, b := range content {
		if b.BlockType == nom.BlockTypeContractSend {
			if p, ok := parent[b.Hash]; ok && !in[p] {
				c.Failf("C14/batch-split", "content includes batched send %v/%d without its contract receive", b.Address, b.Height)
			}
		}
	}
	// per account the offered blocks are a prefix of the pooled chain (no gaps)
	byAcc := map[types.Address][]*nom.AccountBlock{}
	for _, b := range content {
		byAcc[b.Address] = append(byAcc[b.Address], b)
	}
	for ad, l := range byAcc {
		pl := n.Chain.GetUncommittedAccountBlocksByAddress(ad)
		for i, b := range l {
			if i >= len(pl) || pl[i].Hash != b.Hash {
				c.Failf("C14/content-not-prefix", "content for %v is not a prefix of its pooled chain", ad)
			}
		}
	}
}

// Many pooled blocks: the 100-block limit and batch integrity with > 100 pooled blocks.
func TestC14Limit(t *testing.T) {
	pbt.Check(t, "C14", func(c *pbt.C) {
		h := sim.NewHist(c, genSpec(c), genWorldOpts(c))
		h.Intents = sim.DefaultIntents()
		// phase 1: contract calls and a momentum, so that contract receives with batched sends are pooled
		for i := 0; i < c.Int("calls", 2, 10); i++ {
			h.ActIntent()
		}
		h.Produce(0)
		// phase 2: many user blocks without a momentum
		n := c.Int("blocks", 80, 150)
		for i := 0; i < n && !h.Dead; i++ {
			if c.Weighted("kind", 6, 1) == 0 {
				u := h.Users[c.Pick("u", len(h.Users))]
				_, _ = h.A.Transfer(u, h.Users[c.Pick("to", len(h.Users))], types.ZnnTokenStandard, big.NewInt(1), nil)
			} else {
				h.ActIntent()
			}
			if i%25 == 0 {
				c14content(c, h.A, h.A.Chain.GetNewMomentumContent())
			}
		}
		pool := h.A.Chain.GetAllUncommittedAccountBlocks()
		content := h.A.Chain.GetNewMomentumContent()
		c14content(c, h.A, content)
		c.Note("%d pooled blocks, %d offered", len(pool), len(content))
		if len(pool) > 100 {
			c.NonTrivial()
			c.Class("more-than-100-pooled")
		}
		// and the node can still produce and a follower accepts it
		if h.Dead {
			return
		}
		base := h.A.Height()
		for i := 0; i < 3 && !h.Dead; i++ {
			h.Produce(0)
		}
		b := h.W.AddNode("B", false)
		if _, err := b.Bridge.InsertChain(h.A.Range(2, h.A.Height())); err != nil {
			c.Failf("C14/own-momentum-refused", "a follower refused the momentums produced from a pool of %d blocks (from height %d): %v", len(pool), base, err)
		}
	})
}

// Two nodes fed competing candidates in opposite orders keep the same winner.
func TestC14Order(t *testing.T) {
	pbt.Check(t, "C14", func(c *pbt.C) {
		h := sim.NewHist(c, genSpec(c), genWorldOpts(c))
		grow(c, h, "prefix", c.Int("prefix.m", 1, 4), 6)
		if h.Dead {
			return
		}
		b1 := h.W.AddNode("B1", false)
		b2 := h.W.AddNode("B2", false)
		for _, b := range []*sim.Node{b1, b2} {
			if h.A.Height() > 1 {
				if _, err := b.Bridge.InsertChain(h.A.Range(2, h.A.Height())); err != nil {
					c.Failf("C14/setup", "follower cannot sync: %v", err)
				}
			}
		}
		// pending pool of the producer must be empty for the account used
		u := h.Users[c.Pick("u", len(h.Users))]
		if len(h.A.Chain.GetUncommittedAccountBlocksByAddress(u)) != 0 {
			return
		}
		kp := h.W.Keys.ByAddr[u]
		k := c.Int("candidates", 2, 4)
		var cands []*nom.AccountBlock
		for i := 0; i < k; i++ {
			tpl := &nom.AccountBlock{BlockType: nom.BlockTypeUserSend, Address: u, ToAddress: h.Users[c.Pick("to", len(h.Users))], TokenStandard: types.ZnnTokenStandard,
				Amount: big.NewInt(int64(i + 1)), FusedPlasma: 21000 * uint64(c.Int("mult", 1, 3))}
			tx, err := h.A.Sup.GenerateFromTemplate(tpl, kp.Signer)
			if err != nil {
				continue
			}
			cands = append(cands, tx.Block)
		}
		if len(cands) < 2 {
			return
		}
		feed := func(n *sim.Node, order []int) {
			for _, i := range order {
				if wb, err := sim.WireBlocks([]*nom.AccountBlock{cands[i]}); err == nil {
					_ = n.Bridge.AddAccountBlocks(wb)
				}
			}
		}
		fwd := make([]int, len(cands))
		rev := make([]int, len(cands))
		for i := range cands {
			fwd[i] = i
			rev[i] = len(cands) - 1 - i
		}
		feed(b1, fwd)
		feed(b2, rev)
		p1 := b1.Chain.GetUncommittedAccountBlocksByAddress(u)
		p2 := b2.Chain.GetUncommittedAccountBlocksByAddress(u)
		if c14listString(p1) != c14listString(p2) {
			c.Failf("C14/winner-order-dependent", "%d candidates for height %d of %v offered in opposite orders: one node keeps [%s], the other [%s]", len(cands), cands[0].Height, u, c14listString(p1), c14listString(p2))
		}
		// the winner is the maximum of the stated rule
		best := cands[0]
		for _, x := range cands[1:] {
			if w, _ := c14better(x, best); w {
				best = x
			}
		}
		if len(p1) != 1 || p1[0].Hash != best.Hash {
			c.Failf("C14/winner-rule", "winner among %d candidates is [%s], the rule (plasma ratio, then smaller hash) selects %s", len(cands), c14listString(p1), best.Hash.String()[:8])
		}
		c.NonTrivial()
	})
}

// ---- harness-owned schedule: pillar generates, sync inserts a competing momentum, pillar inserts ----

func TestC14Schedule(t *testing.T) {
	pbt.Check(t, "C14", func(c *pbt.C) {
		h := sim.NewHist(c, genSpec(c), genWorldOpts(c))
		h.Intents = sim.DefaultIntents()
		a := h.A
		a2 := h.W.AddNode("A2", true)
		h2 := sim.NewHistOn(c, h.W, a2, h)
		grow(c, h, "prefix", c.Int("prefix.m", 1, 5), 8)
		if h.Dead {
			return
		}
		if _, err := a2.Bridge.InsertChain(a.Range(2, a.Height())); err != nil {
			c.Failf("C14/setup", "second producer cannot sync: %v", err)
		}
		// pillar step 1: generate (not insert) the own momentum at the current frontier
		for i := 0; i < c.Int("pool", 0, 3); i++ {
			h.ActTransfer()
		}
		front := a.Frontier()
		ts := sim.SlotTime(front, c.Weighted("own.skip", 3, 1))
		sim.TheClock.Set(ts)
		prod, err := a.Cons.GetMomentumProducer(ts)
		if err != nil {
			panic(err)
		}
		kp := h.W.Keys.ByAddr[*prod]
		if kp == nil {
			return
		}
		blocks := a.Chain.GetNewMomentumContent()
		m := &nom.Momentum{ChainIdentifier: a.Chain.ChainIdentifier(), PreviousHash: front.Hash, Height: front.Height + 1, TimestampUnix: uint64(ts.Unix()),
			Content: nom.NewMomentumContent(blocks), Version: 1}
		m.EnsureCache()
		own, err := a.Sup.GenerateMomentum(&nom.DetailedMomentum{Momentum: m, AccountBlocks: blocks}, kp.Signer)
		if err != nil {
			c.Note("own momentum could not be generated: %v", err)
			return
		}
		// sync section(s): competing momentum(s) from the other producer arrive first
		k := c.Int("competing", 1, 3)
		for i := 0; i < k; i++ {
			for j := 0; j < c.Int("a2.acts", 0, 2); j++ {
				h2.ActTransfer()
			}
			if !h2.Produce(c.Weighted("a2.skip", 3, 1, 1)) {
				return
			}
		}
		if _, err := a.Bridge.InsertChain(a2.Range(front.Height+1, a2.Height())); err != nil {
			c.Failf("C14/setup", "sync section refused honest momentums: %v", err)
		}
		// pillar step 2: insert the own momentum generated for the old frontier
		ins := a.Chain.AcquireInsert("c14 own momentum")
		ierr := a.Chain.AddMomentumTransaction(ins, own)
		ins.Unlock()
		c.Note("own momentum for height %d inserted after the frontier moved to %d: err=%v", own.Momentum.Height, a2.Height(), ierr)
		c.NonTrivial()
		if ierr == nil {
			if !c.Failf("C14/stale-own-momentum-no-error", "the pillar's own momentum for height %d (parent %d) was inserted after sync had moved the frontier to %d and no error was returned",
				own.Momentum.Height, front.Height, a2.Height()) {
				panic("unreachable")
			}
		}
		// whatever was reported: the store equals a fresh node fed the chain the node is on
		if a.Frontier().Hash != a2.Frontier().Hash {
			c.Failf("C14/stale-own-momentum-moved-frontier", "after the lost race the node's frontier is %v, the chain it synced ends at %v", a.Frontier().Identifier(), a2.Frontier().Identifier())
		}
		fresh := h.W.AddNode("F", false)
		if _, err := fresh.Bridge.InsertChain(a2.Range(2, a2.Height())); err != nil {
			c.Failf("C14/setup", "fresh node refused the chain: %v", err)
		}
		if x, y := fresh.Dump(), a.Dump(); x != y {
			c.Failf("C14/stale-own-momentum-corrupts-store", "after the lost race the node's store differs from a fresh node on the same chain: %s", firstDiff(x, y))
		}
		if d := sim.DiffBattery(sim.ConsensusSummary(fresh), sim.ConsensusSummary(a)); d != "" {
			c.Failf("C14/stale-own-momentum-corrupts-consensus", "after the lost race consensus statistics / schedules differ from a fresh node on the same chain: %s", d)
		}
		// and the node goes on producing on the adopted chain
		if !h.Produce(0) {
			return
		}
		if _, err := fresh.Bridge.InsertChain(a.Range(fresh.Height()+1, a.Height())); err != nil {
			c.Failf("C14/own-momentum-refused", "after the lost race the node's next momentum is refused by another node: %v", err)
		}
	})
}

// ---- real goroutines under the race detector ---------------------------------------------

// insertIfAny delivers a batch unless it is empty (callers of InsertChain never hand over an empty batch).
func insertIfAny(n *sim.Node, batch []*nom.DetailedMomentum) {
	if len(batch) > 0 {
		_, _ = n.Bridge.InsertChain(batch)
	}
}

func TestC14Race(t *testing.T) {
	pbt.Check(t, "C14", func(c *pbt.C) {
		h := sim.NewHist(c, genSpec(c), genWorldOpts(c))
		h.Intents = sim.DefaultIntents()
		a := h.A
		a2 := h.W.AddNode("A2", true)
		h2 := sim.NewHistOn(c, h.W, a2, h)
		led := api.NewLedgerApi(&sim.ZAdapter{N: a})
		users := h.Users
		var stop int32
		var wg sync.WaitGroup
		var failMu sync.Mutex
		failure := ""
		var reads int64
		readers := c.Int("readers", 2, 5)
		for r := 0; r < readers; r++ {
			wg.Add(1)
			go func(r int) {
				defer wg.Done()
				i := r
				for atomic.LoadInt32(&stop) == 0 {
					u := users[i%len(users)]
					i++
					// a reader sees, per account, a list in which every element links to its predecessor
					l := a.Chain.GetUncommittedAccountBlocksByAddress(u)
					for k := 1; k < len(l); k++ {
						if l[k].PreviousHash != l[k-1].Hash || l[k].Height != l[k-1].Height+1 {
							failMu.Lock()
							failure = fmt.Sprintf("reader observed a pooled list of %v that is not a chain: %s", u, c14listString(l))
							failMu.Unlock()
							return
						}
					}
					_, _ = led.GetUnconfirmedBlocksByAddress(u, 0, 10)
					_, _ = led.GetAccountInfoByAddress(u)
					_, _ = led.GetFrontierMomentum()
					_ = a.Chain.GetNewMomentumContent()
					atomic.AddInt64(&reads, 1)
				}
			}(r)
		}
		// writer plan drawn up front
		steps := c.Int("steps", 10, pbt.Scale(40, 150))
		for s := 0; s < steps && !h.Dead && !h2.Dead; s++ {
			switch c.Weighted("w", 5, 2, 2, 1) {
			case 0:
				h.ActTransfer()
			case 1:
				h.ActIntent()
			case 2:
				h.Produce(0)
				insertIfAny(a2, a.Range(a2.Height()+1, a.Height()))
			default:
				// a competing momentum arrives by sync while the pillar of this node produces for the
				// same height: both run on their own goroutines
				if a2.Height() != a.Height() {
					insertIfAny(a2, a.Range(a2.Height()+1, a.Height()))
				}
				h2.ActTransfer()
				if !h2.Produce(0) {
					break
				}
				batch := a2.Range(a.Height()+1, a2.Height())
				if len(batch) == 0 {
					break // nothing to deliver (callers never hand over an empty batch)
				}
				var wg2 sync.WaitGroup
				wg2.Add(1)
				go func() {
					defer wg2.Done()
					insertIfAny(a, batch)
				}()
				_ = a.Produce(0) // may lose the race: then the own momentum is refused
				wg2.Wait()
				a.LastMomentumErr = nil
				// bring both to one chain again (the longer one wins, else keep a2's)
				if a.Height() >= a2.Height() {
					insertIfAny(a2, a.Range(2, a.Height()))
				} else {
					insertIfAny(a, a2.Range(2, a2.Height()))
				}
				c.Class("pillar-vs-sync-at-same-height")
			}
		}
		atomic.StoreInt32(&stop, 1)
		wg.Wait()
		c.R.Count("concurrent_reads", int(reads))
		if failure != "" {
			c.Failf("C14/reader-saw-half-applied", "%s", failure)
		}
		if reads > 0 {
			c.NonTrivial()
		}
	})
}
