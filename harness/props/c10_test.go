package props

// C10 — locked funds are fully backed and released only to the entitled party, on time, once.

import (
	"bytes"
	"crypto/sha256"
	"fmt"
	"math/big"
	"strings"
	"testing"

	"github.com/zenon-network/go-zenon/chain/nom"
	"github.com/zenon-network/go-zenon/common/crypto"
	"github.com/zenon-network/go-zenon/common/db"
	"github.com/zenon-network/go-zenon/common/types"
	"github.com/zenon-network/go-zenon/vm/constants"
	"github.com/zenon-network/go-zenon/vm/embedded/definition"

	"verifharness/pbt"
	"verifharness/sim"
)

// entitlement: what a depositor (or hash-lock beneficiary) may get back, and from when.
type c10ent struct {
	kind        string // stake, fusion, htlc, pillar, sentinel
	id          types.Hash
	name        string
	owner       types.Address
	beneficiary types.Address // htlc: hash-locked party
	token       types.ZenonTokenStandard
	amount      *big.Int
	amount2     *big.Int // sentinel: QSR part
	fromTime    int64    // earliest release time (stake), expiry (htlc)
	fromHeight  uint64   // earliest release height (fusion)
	regTime     int64    // pillar / sentinel registration time
	hashType    uint8
	keyMax      uint8
	hashLock    []byte
	consumed    bool
}

type c10state struct {
	c        *pbt.C
	h        *sim.Hist
	ents     map[string]*c10ent  // key kind/id or kind/name or kind/owner
	deposits map[string]*big.Int // contract/address -> deposited QSR
	seen     map[types.Hash]bool
	releases int
	refused  map[string]int
	unlocked bool // the liquidity administrator unlocked all stake entries
	// sporkSpent: the spork key moved (Fund) or burnt (BurnZnn) this token out of the liquidity contract in this history
	depUnknown map[string]bool
	sporkSpent map[types.ZenonTokenStandard]bool
	waived     map[types.ZenonTokenStandard]bool // known finding hit: that token's liquidity backing is broken for good in this case
}

func (s *c10state) ackMomentum(r *nom.AccountBlock) *nom.Momentum {
	m, err := s.h.A.Chain.GetFrontierMomentumStore().GetMomentumByHeight(r.MomentumAcknowledged.Height)
	if err != nil || m == nil {
		panic("ack momentum missing")
	}
	return m
}

// bridgePair: the token pair the bridge contract records for (chain, token address) just before receive r
// (the frontier state when that state is no longer served).
func (s *c10state) bridgePair(ct types.Address, r *nom.AccountBlock, chain uint32, tokenAddress string) *definition.TokenPair {
	st := s.h.A.Chain.GetAccountStore(ct, r.Previous())
	if st == nil {
		st = s.h.A.Chain.GetFrontierAccountStore(ct)
	}
	ni, err := definition.GetNetworkInfoVariable(st.Storage(), 2, chain)
	if err != nil || ni == nil {
		return nil
	}
	for i := range ni.TokenPairs {
		if ni.TokenPairs[i].TokenAddress == strings.ToLower(tokenAddress) {
			return &ni.TokenPairs[i]
		}
	}
	return nil
}

// stateAfter: the contract's storage right after receive r (several receives of one account can be processed in one go:
// the frontier state may already include later ones); the frontier state where that state is no longer served.
func (s *c10state) stateAfter(ct types.Address, r *nom.AccountBlock) db.DB {
	if st := s.h.A.Chain.GetAccountStore(ct, r.Identifier()); st != nil {
		return st.Storage()
	}
	return nil
}

// depositAfterRegistration: the registrant's deposit as the contract records it right after receive r; when that state is
// no longer served (the receive is confirmed and later receives are already there) the record is marked unknown: the next
// withdrawal of that account is then checked for shape and recipient only, and the record starts again from zero.
func (s *c10state) depositAfterRegistration(ct types.Address, r *nom.AccountBlock, k string, who types.Address) {
	if st := s.stateAfter(ct, r); st != nil {
		if dep, err := definition.GetQsrDeposit(st, &who); err == nil {
			s.deposits[k] = new(big.Int).Set(dep.Qsr)
			return
		}
	}
	s.depUnknown[k] = true
	s.c.Class("deposit-record-unknown-after-a-registration")
}

func windowOpen(now, reg, lock, revoke int64) bool {
	return (now-reg)%(lock+revoke) >= lock
}

// process one new contract receive r of send snd (merr = method error reported by the contract)
func (s *c10state) process(ct types.Address, r, snd *nom.AccountBlock, merr error) {
	c := s.c
	if len(snd.Data) < 4 {
		return
	}
	ab := sim.Contracts[ct]
	m, err := ab.MethodById(snd.Data[:4])
	if err != nil {
		return
	}
	am := s.ackMomentum(r)
	now := am.Timestamp.Unix()
	name := sim.ContractNames[ct] + "." + m.Name
	valueOut := func() []*nom.AccountBlock {
		var out []*nom.AccountBlock
		for _, d := range r.DescendantBlocks {
			if d.Amount != nil && d.Amount.Sign() > 0 {
				out = append(out, d)
			}
		}
		return out
	}
	what := fmt.Sprintf("%s by %v (send %v, received in momentum %d at t=%d)", name, snd.Address, snd.Hash.String()[:8], am.Height, now)
	release := func(e *c10ent, key string, to types.Address, token types.ZenonTokenStandard, amount *big.Int, okTime bool, whyTime string) {
		outs := valueOut()
		if merr != nil {
			s.refused[name+":"+merr.Error()]++
			// a refused release pays nothing (its send carried no value)
			if len(outs) != 0 {
				c.Failf("C10/refused-release-pays", "%s was refused (%v) yet %d value-carrying sends left the contract", what, merr, len(outs))
			}
			return
		}
		if e == nil {
			c.Failf("C10/release-without-entitlement", "%s succeeded but no deposit %s is on record", what, key)
		}
		if e.consumed {
			c.Failf("C10/released-twice", "%s pays out %s a second time", what, key)
		}
		if !okTime {
			c.Failf("C10/released-early", "%s pays out %s before its lock allows: %s", what, key, whyTime)
		}
		if len(outs) != 1 && amount.Sign() > 0 {
			c.Failf("C10/release-shape", "%s: %d value-carrying sends instead of one", what, len(outs))
		}
		if amount.Sign() > 0 {
			d := outs[0]
			if d.ToAddress != to {
				c.Failf("C10/released-to-other", "%s pays %v to %v, the entitled party is %v", what, d.Amount, d.ToAddress, to)
			}
			if d.Amount.Cmp(amount) != 0 || d.TokenStandard != token {
				c.Failf("C10/release-amount", "%s pays %v %v, the deposit is %v %v", what, d.Amount, d.TokenStandard, amount, token)
			}
		}
		e.consumed = true
		s.releases++
		c.Class("release:" + e.kind)
	}
	switch name {
	case "stake.Stake":
		if merr == nil {
			var dur int64
			_ = definition.ABIStake.UnpackMethod(&dur, m.Name, snd.Data)
			s.ents["stake/"+snd.Hash.String()] = &c10ent{kind: "stake", id: snd.Hash, owner: snd.Address, token: types.ZnnTokenStandard,
				amount: new(big.Int).Set(snd.Amount), fromTime: now + dur}
		}
	case "stake.Cancel":
		id := new(types.Hash)
		_ = definition.ABIStake.UnpackMethod(id, m.Name, snd.Data)
		e := s.ents["stake/"+id.String()]
		if merr == nil && e != nil && e.owner != snd.Address {
			c.Failf("C10/released-to-other", "%s: stake %v belongs to %v", what, id, e.owner)
		}
		if e != nil && e.consumed && merr == nil {
			// a second cancel of an entry that stays until the epoch update pays 0: no value leaves
			if len(valueOut()) != 0 {
				c.Failf("C10/released-twice", "%s pays out stake %v a second time", what, id)
			}
			return
		}
		okT, why := true, ""
		if e != nil {
			okT, why = now >= e.fromTime, fmt.Sprintf("expires at %d, now %d", e.fromTime, now)
		}
		var to types.Address
		amt := new(big.Int)
		if e != nil {
			to, amt = e.owner, e.amount
		}
		release(e, "stake "+id.String()[:8], to, types.ZnnTokenStandard, amt, okT, why)
	case "plasma.Fuse":
		if merr == nil {
			s.ents["fusion/"+snd.Address.String()+"/"+snd.Hash.String()] = &c10ent{kind: "fusion", id: snd.Hash, owner: snd.Address,
				token: types.QsrTokenStandard, amount: new(big.Int).Set(snd.Amount), fromHeight: am.Height + constants.FuseExpiration}
		}
	case "plasma.CancelFuse":
		id := new(types.Hash)
		_ = definition.ABIPlasma.UnpackMethod(id, m.Name, snd.Data)
		e := s.ents["fusion/"+snd.Address.String()+"/"+id.String()]
		okT, why := true, ""
		var to types.Address
		amt := new(big.Int)
		if e != nil {
			okT, why = am.Height >= e.fromHeight, fmt.Sprintf("expires at height %d, now %d", e.fromHeight, am.Height)
			to, amt = e.owner, e.amount
		}
		release(e, "fusion "+id.String()[:8]+" of "+snd.Address.String()[:10], to, types.QsrTokenStandard, amt, okT, why)
	case "htlc.Create":
		if merr == nil {
			p := new(definition.CreateHtlcParam)
			_ = definition.ABIHtlc.UnpackMethod(p, m.Name, snd.Data)
			s.ents["htlc/"+snd.Hash.String()] = &c10ent{kind: "htlc", id: snd.Hash, owner: snd.Address, beneficiary: p.HashLocked, token: snd.TokenStandard,
				amount: new(big.Int).Set(snd.Amount), fromTime: p.ExpirationTime, hashType: p.HashType, keyMax: p.KeyMaxSize, hashLock: p.HashLock}
		}
	case "htlc.Reclaim":
		id := new(types.Hash)
		_ = definition.ABIHtlc.UnpackMethod(id, m.Name, snd.Data)
		e := s.ents["htlc/"+id.String()]
		if merr == nil && e != nil && e.owner != snd.Address {
			c.Failf("C10/released-to-other", "%s: hash time lock %v was created by %v", what, id, e.owner)
		}
		okT, why := true, ""
		var to types.Address
		amt := new(big.Int)
		tok := types.ZnnTokenStandard
		if e != nil {
			okT, why = now >= e.fromTime, fmt.Sprintf("reclaimable from %d, now %d", e.fromTime, now)
			to, amt, tok = e.owner, e.amount, e.token
		}
		release(e, "htlc "+id.String()[:8], to, tok, amt, okT, why)
	case "htlc.Unlock":
		p := new(definition.UnlockHtlcParam)
		_ = definition.ABIHtlc.UnpackMethod(p, m.Name, snd.Data)
		e := s.ents["htlc/"+p.Id.String()]
		okT, why := true, ""
		var to types.Address
		amt := new(big.Int)
		tok := types.ZnnTokenStandard
		if e != nil {
			var hsh []byte
			if e.hashType == definition.HashTypeSHA3 {
				hsh = crypto.Hash(p.Preimage)
			} else {
				x := sha256.Sum256(p.Preimage)
				hsh = x[:]
			}
			switch {
			case now >= e.fromTime:
				okT, why = false, fmt.Sprintf("expired at %d, now %d", e.fromTime, now)
			case !bytes.Equal(hsh, e.hashLock):
				okT, why = false, "the preimage does not hash to the lock"
			case len(p.Preimage) > int(e.keyMax):
				okT, why = false, fmt.Sprintf("preimage of %d bytes exceeds the maximum %d", len(p.Preimage), e.keyMax)
			}
			to, amt, tok = e.beneficiary, e.amount, e.token
		}
		release(e, "htlc "+p.Id.String()[:8], to, tok, amt, okT, why)
	case "pillar.DepositQsr", "sentinel.DepositQsr":
		if merr == nil {
			k := sim.ContractNames[ct] + "/" + snd.Address.String()
			if s.deposits[k] == nil {
				s.deposits[k] = new(big.Int)
			}
			s.deposits[k].Add(s.deposits[k], snd.Amount)
		}
	case "pillar.WithdrawQsr", "sentinel.WithdrawQsr":
		k := sim.ContractNames[ct] + "/" + snd.Address.String()
		outs := valueOut()
		if merr != nil {
			if len(outs) != 0 {
				c.Failf("C10/refused-release-pays", "%s was refused (%v) yet value left the contract", what, merr)
			}
			s.refused[name+":"+merr.Error()]++
			return
		}
		dep := s.deposits[k]
		if s.depUnknown[k] {
			// see depositAfterRegistration: shape and recipient only
			if len(outs) != 1 || outs[0].ToAddress != snd.Address || outs[0].TokenStandard != types.QsrTokenStandard {
				c.Failf("C10/deposit-withdrawal", "%s: paid out %s", what, describeOuts(outs))
			}
			s.depUnknown[k] = false
			s.deposits[k] = new(big.Int)
			s.releases++
			return
		}
		if dep == nil || dep.Sign() == 0 || len(outs) != 1 || outs[0].ToAddress != snd.Address || outs[0].Amount.Cmp(dep) != 0 || outs[0].TokenStandard != types.QsrTokenStandard {
			c.Failf("C10/deposit-withdrawal", "%s: deposit on record %v, paid out %s", what, dep, describeOuts(outs))
		}
		s.deposits[k] = new(big.Int)
		s.releases++
		c.Class("release:deposit")
	case "pillar.Register", "pillar.RegisterLegacy":
		if merr == nil {
			p := new(definition.RegisterParam)
			if m.Name == definition.LegacyRegisterMethodName {
				lp := new(definition.LegacyRegisterParam)
				_ = definition.ABIPillars.UnpackMethod(lp, m.Name, snd.Data)
				p = &lp.RegisterParam
				c.Class("legacy-pillar-registered")
			} else {
				_ = definition.ABIPillars.UnpackMethod(p, definition.RegisterMethodName, snd.Data)
			}
			s.ents["pillar/"+p.Name] = &c10ent{kind: "pillar", name: p.Name, owner: snd.Address, token: types.ZnnTokenStandard,
				amount: new(big.Int).Set(snd.Amount), regTime: now}
			// registration consumes deposited QSR (burned): the deposit record follows the contract's
			s.depositAfterRegistration(ct, r, "pillar/"+snd.Address.String(), snd.Address)
		}
	case "pillar.Revoke":
		var pname string
		_ = definition.ABIPillars.UnpackMethod(&pname, m.Name, snd.Data)
		e := s.ents["pillar/"+pname]
		if merr == nil && e != nil && e.owner != snd.Address {
			c.Failf("C10/released-to-other", "%s: pillar %q was registered by %v", what, pname, e.owner)
		}
		okT, why := true, ""
		var to types.Address
		amt := new(big.Int)
		if e != nil {
			okT = windowOpen(now, e.regTime, constants.PillarEpochLockTime, constants.PillarEpochRevokeTime)
			why = fmt.Sprintf("registered at %d, now %d: inside the lock part of the %d+%d s cycle", e.regTime, now, constants.PillarEpochLockTime, constants.PillarEpochRevokeTime)
			to, amt = e.owner, e.amount
		}
		release(e, "pillar "+pname, to, types.ZnnTokenStandard, amt, okT, why)
	case "liquidity.LiquidityStake":
		if merr == nil {
			var dur int64
			_ = definition.ABILiquidity.UnpackMethod(&dur, m.Name, snd.Data)
			s.ents["liqstake/"+snd.Hash.String()] = &c10ent{kind: "liquidity-stake", id: snd.Hash, owner: snd.Address, token: snd.TokenStandard,
				amount: new(big.Int).Set(snd.Amount), fromTime: now + dur}
		}
	case "liquidity.CancelLiquidityStake":
		id := new(types.Hash)
		_ = definition.ABILiquidity.UnpackMethod(id, m.Name, snd.Data)
		e := s.ents["liqstake/"+id.String()]
		if merr == nil && e != nil && e.owner != snd.Address {
			c.Failf("C10/released-to-other", "%s: liquidity stake %v belongs to %v", what, id, e.owner)
		}
		if e != nil && e.consumed && merr == nil {
			if len(valueOut()) != 0 {
				c.Failf("C10/released-twice", "%s pays out liquidity stake %v a second time", what, id)
			}
			return
		}
		okT, why := true, ""
		var to types.Address
		amt := new(big.Int)
		tok := types.ZnnTokenStandard
		if e != nil {
			// the administrator may unlock all entries early (UnlockLiquidityStakeEntries): then the
			// contract's own expiration is what counts; the entry's recorded expiration is read back
			exp := e.fromTime
			if s.unlocked {
				if st := s.h.A.Chain.GetAccountStore(ct, r.Previous()); st != nil {
					if se, err := definition.GetLiquidityStakeEntry(st.Storage(), e.id, e.owner); err == nil && se != nil {
						exp = se.ExpirationTime
					}
				} else {
					exp = 0 // state before this receive is no longer available: the early unlock cannot be re-checked
				}
			}
			okT, why = now >= exp, fmt.Sprintf("expires at %d, now %d", exp, now)
			to, amt, tok = e.owner, e.amount, e.token
		}
		release(e, "liquidity stake "+id.String()[:8], to, tok, amt, okT, why)
	case "liquidity.Fund", "liquidity.BurnZnn":
		if merr == nil && snd.Address == s.h.W.Keys.Spork.Address {
			for _, d := range r.DescendantBlocks {
				if d.Amount != nil && d.Amount.Sign() > 0 {
					s.sporkSpent[d.TokenStandard] = true
				}
			}
		}
	case "liquidity.UnlockLiquidityStakeEntries":
		if merr == nil {
			s.unlocked = true
		}
	case "bridge.UnwrapToken":
		if merr == nil {
			p := new(definition.UnwrapTokenParam)
			_ = definition.ABIBridge.UnpackMethod(p, m.Name, snd.Data)
			// the pair (token, delay, owned or not) is the one the contract records for the request's token address
			tok := types.ZnnTokenStandard
			if pr := s.bridgePair(ct, r, p.ChainId, p.TokenAddress); pr != nil {
				tok = pr.TokenStandard
			}
			s.ents[fmt.Sprintf("unwrap/%s/%d", p.TransactionHash, p.LogIndex)] = &c10ent{kind: "unwrap", id: p.TransactionHash, owner: p.ToAddress, token: tok,
				amount: new(big.Int).Set(p.Amount), fromHeight: am.Height, name: fmt.Sprintf("%d/%s", p.ChainId, strings.ToLower(p.TokenAddress))}
		}
	case "bridge.RevokeUnwrapRequest":
		if merr == nil {
			p := new(definition.RevokeUnwrapParam)
			_ = definition.ABIBridge.UnpackMethod(p, m.Name, snd.Data)
			if e := s.ents[fmt.Sprintf("unwrap/%s/%d", p.TransactionHash, p.LogIndex)]; e != nil {
				e.consumed = true // a revoked request can never be redeemed
			}
		}
	case "bridge.Redeem":
		p := new(definition.RedeemParam)
		_ = definition.ABIBridge.UnpackMethod(p, m.Name, snd.Data)
		e := s.ents[fmt.Sprintf("unwrap/%s/%d", p.TransactionHash, p.LogIndex)]
		okT, why := true, ""
		var to types.Address
		amt := new(big.Int)
		tok := types.ZnnTokenStandard
		owned := false
		if e != nil {
			// "after its delay": the delay the contract records for the request's pair when the redeem is executed
			delay := uint64(20)
			var chain uint32
			var taddr string
			_, _ = fmt.Sscanf(e.name, "%d/%s", &chain, &taddr)
			if pr := s.bridgePair(ct, r, chain, taddr); pr != nil {
				delay, owned = uint64(pr.RedeemDelay), pr.Owned
			}
			okT, why = am.Height >= e.fromHeight+delay, fmt.Sprintf("registered at height %d, delay %d, now %d", e.fromHeight, delay, am.Height)
			to, amt, tok = e.owner, e.amount, e.token
		}
		if owned && merr == nil && e != nil && !e.consumed && okT {
			// a bridge-owned token is minted to the recipient through the token contract: one zero-amount send carrying
			// Mint(token, amount, recipient)
			ds := r.DescendantBlocks
			if len(ds) != 1 || ds[0].ToAddress != types.TokenContract || ds[0].Amount.Sign() != 0 {
				c.Failf("C10/release-shape", "%s of a bridge-owned token: %d descendant sends (want one mint request to the token contract)", what, len(ds))
			}
			mp := new(definition.MintParam)
			if err := definition.ABIToken.UnpackMethod(mp, definition.MintMethodName, ds[0].Data); err != nil {
				c.Failf("C10/release-shape", "%s: the send to the token contract is not a mint request: %v", what, err)
			}
			if mp.ReceiveAddress != to {
				c.Failf("C10/released-to-other", "%s mints %v to %v, the entitled party is %v", what, mp.Amount, mp.ReceiveAddress, to)
			}
			if mp.Amount.Cmp(amt) != 0 || mp.TokenStandard != tok {
				c.Failf("C10/release-amount", "%s mints %v %v, the signed request says %v %v", what, mp.Amount, mp.TokenStandard, amt, tok)
			}
			e.consumed = true
			s.releases++
			c.Class("release:unwrap-minted")
			return
		}
		release(e, fmt.Sprintf("unwrap request %s/%d", p.TransactionHash.String()[:8], p.LogIndex), to, tok, amt, okT, why)
	case "sentinel.Register":
		if merr == nil {
			s.ents["sentinel/"+snd.Address.String()] = &c10ent{kind: "sentinel", owner: snd.Address, token: types.ZnnTokenStandard,
				amount: new(big.Int).Set(snd.Amount), amount2: new(big.Int).Set(constants.SentinelQsrDepositAmount), regTime: now}
			s.depositAfterRegistration(ct, r, "sentinel/"+snd.Address.String(), snd.Address)
		}
	case "sentinel.Revoke":
		e := s.ents["sentinel/"+snd.Address.String()]
		outs := valueOut()
		if merr != nil {
			s.refused[name+":"+merr.Error()]++
			if len(outs) != 0 {
				c.Failf("C10/refused-release-pays", "%s was refused (%v) yet value left the contract", what, merr)
			}
			return
		}
		if e == nil || e.consumed {
			c.Failf("C10/release-without-entitlement", "%s succeeded but %v has no active sentinel on record", what, snd.Address)
		}
		if !windowOpen(now, e.regTime, constants.SentinelLockTimeWindow, constants.SentinelRevokeTimeWindow) {
			c.Failf("C10/released-early", "%s: registered at %d, now %d: inside the lock part of the cycle", what, e.regTime, now)
		}
		// ZNN and QSR parts go back to the owner
		var znn, qsr = new(big.Int), new(big.Int)
		for _, d := range outs {
			if d.ToAddress != snd.Address {
				c.Failf("C10/released-to-other", "%s pays %v to %v", what, d.Amount, d.ToAddress)
			}
			if d.TokenStandard == types.ZnnTokenStandard {
				znn.Add(znn, d.Amount)
			} else if d.TokenStandard == types.QsrTokenStandard {
				qsr.Add(qsr, d.Amount)
			}
		}
		if znn.Cmp(e.amount) != 0 || qsr.Cmp(e.amount2) != 0 {
			c.Failf("C10/release-amount", "%s pays %v ZNN + %v QSR, the collateral is %v + %v", what, znn, qsr, e.amount, e.amount2)
		}
		e.consumed = true
		s.releases++
		c.Class("release:sentinel")
	}
}

func describeOuts(outs []*nom.AccountBlock) string {
	s := ""
	for _, d := range outs {
		s += fmt.Sprintf("%v %v to %v; ", d.Amount, d.TokenStandard, d.ToAddress)
	}
	if s == "" {
		return "nothing"
	}
	return s
}

func TestC10(t *testing.T) {
	pbt.Check(t, "C10", func(c *pbt.C) {
		spec := genSpec(c)
		spec.ActiveSporks = 2 // HTLC available
		opts := genWorldOpts(c)
		bridgeWorld := c.Weighted("c10.bridgeWorld", 2, 1) == 1
		if bridgeWorld {
			opts.Bridge = true
			for len(spec.Users) < 5 {
				spec.Users = append(spec.Users, sim.UserSpec{Znn: 9000, Qsr: 90000})
			}
		}
		// genesis pillars may carry another collateral than the one a registration locks today (the genesis
		// validator only requires the contract to hold the sum of the recorded amounts)
		for i := range spec.Pillars {
			if c.Weighted("c10.pillarAmount", 3, 1) == 1 {
				spec.Pillars[i].Amount = []*big.Int{big.NewInt(10000 * sim.Zexp), big.NewInt(15000*sim.Zexp - 1), big.NewInt(20000 * sim.Zexp)}[c.Pick("c10.pillarAmountKind", 3)]
				c.Class("genesis-pillar-with-other-collateral")
			}
		}
		// some genesis pillars pay their rewards to another account than their owner's
		for i := range spec.Pillars {
			if c.Bool("c10.pillarRewardElsewhere") {
				a := sim.UserKey(c.Pick("c10.pillarReward", len(spec.Users))).Address
				spec.Pillars[i].Reward = &a
			}
		}
		h := sim.NewHist(c, spec, opts)
		// release-heavy intent mix
		for _, in := range sim.DefaultIntents() {
			h.Intents = append(h.Intents, in)
			switch in.Name {
			case "stake", "stake-cancel", "plasma-fuse", "plasma-cancel", "htlc-create", "htlc-unlock", "htlc-reclaim", "deposit-qsr", "withdraw-qsr",
				"sentinel-register", "sentinel-revoke", "pillar-revoke", "pillar-register":
				h.Intents = append(h.Intents, in, in)
			}
		}
		s := &c10state{c: c, h: h, ents: map[string]*c10ent{}, deposits: map[string]*big.Int{}, seen: map[types.Hash]bool{}, refused: map[string]int{},
			sporkSpent: map[types.ZenonTokenStandard]bool{}, waived: map[types.ZenonTokenStandard]bool{}, depUnknown: map[string]bool{}}
		// genesis entitlements
		for _, f := range spec.Fusions {
			s.ents["fusion/"+f.Owner.String()+"/"+f.Id.String()] = &c10ent{kind: "fusion", id: f.Id, owner: f.Owner, token: types.QsrTokenStandard,
				amount: new(big.Int).Mul(big.NewInt(f.Amount), big.NewInt(sim.Zexp)), fromHeight: 0}
		}
		for _, p := range spec.Pillars {
			s.ents["pillar/"+p.Name] = &c10ent{kind: "pillar", name: p.Name, owner: sim.PillarKey(p.Key).Address, token: types.ZnnTokenStandard,
				amount: new(big.Int).Set(p.Amount), regTime: spec.Timestamp}
		}
		if bridgeWorld {
			c.Class("bridge-world")
			if err := sim.BridgeScript(h, c.Int("c10.wraps", 1, 6), 0); err != nil {
				c.Class("bridge-script-incomplete")
				c.Class("bridge-script-incomplete: " + trunc(err.Error(), 60))
			}
			if err := sim.LiquidityScript(h); err != nil {
				c.Class("liquidity-script-incomplete")
			}
			for i := 0; i < 3; i++ {
				h.Intents = append(h.Intents, sim.BridgeIntents()...)
			}
		}
		inv := func() {
			if h.Dead {
				return
			}
			l, err := sim.Scan(h.A)
			if err != nil {
				c.Failf("C10/scan-error", "%v", err)
			}
			// (ii) releases, in chain order per contract
			for _, ct := range sim.ContractList {
				for _, r := range l.Blocks[ct] {
					if r.BlockType != nom.BlockTypeContractReceive || s.seen[r.Hash] {
						continue
					}
					s.seen[r.Hash] = true
					snd := l.Sends[r.FromBlockHash]
					merr, known := h.A.MethodErrs[r.FromBlockHash]
					if snd == nil || !known {
						continue
					}
					s.process(ct, r, snd, merr)
				}
			}
			// (i) backing
			liab, err := sim.ComputeLiabilities(h.A, h.Users)
			if err != nil {
				c.Failf("C10/liabilities-unreadable", "contract storage cannot be parsed: %v", err)
			}
			for ct, m := range liab {
				for z, owed := range m {
					bal := h.Balance(ct, z)
					if bal.Cmp(owed) < 0 && ct == types.LiquidityContract && s.sporkSpent[z] {
						// known finding: the administrator listed ZNN / QSR (the contract's reward pool tokens) as stakeable and the
						// spork key's Fund / BurnZnn spent the pool including the stakes; tolerated for exactly this history shape
						if s.waived[z] || c.Failf("C10/not-backed/liquidity/reward-token-staked-then-spent-by-spork-key",
							"at momentum %d (+pool) the liquidity contract owes %v of %v to its stakers but holds %v after the spork key's Fund / BurnZnn", h.A.Height(), owed, z, bal) {
							s.waived[z] = true
							c.Class("known:liquidity-stake-in-reward-token-spent-by-spork-key")
							continue
						}
					}
					if bal.Cmp(owed) < 0 {
						c.Failf("C10/not-backed/"+sim.ContractNames[ct], "at momentum %d (+pool) the %s contract owes %v of %v but holds %v", h.A.Height(), sim.ContractNames[ct], owed, z, bal)
					}
				}
			}
			// per-beneficiary fused totals equal the sum of the fusion entries
			fus, fused, err := sim.AllFusions(h.A)
			if err != nil {
				c.Failf("C10/liabilities-unreadable", "%v", err)
			}
			sum := map[types.Address]*big.Int{}
			for _, f := range fus {
				if sum[f.Beneficiary] == nil {
					sum[f.Beneficiary] = new(big.Int)
				}
				sum[f.Beneficiary].Add(sum[f.Beneficiary], f.Amount)
			}
			for a, v := range sum {
				if fused[a] == nil || fused[a].Cmp(v) != 0 {
					c.Failf("C10/fused-total", "beneficiary %v: fusion entries add up to %v, the recorded fused amount is %v", a, v, fused[a])
				}
			}
			for a, v := range fused {
				if v.Sign() != 0 && sum[a] == nil {
					c.Failf("C10/fused-total", "beneficiary %v: recorded fused amount %v without any fusion entry", a, v)
				}
			}
		}
		if c.Weighted("c10.ecoWorld", 2, 1) == 1 {
			c.Class("ecosystem-world")
			if _, err := sim.EcosystemScript(h); err != nil {
				c.Note("ecosystem script stopped: %v", err)
			}
			inv()
		}
		acts := map[string]func(){
			"transfer": h.ActTransfer, "receive": h.ActReceive, "callABI": h.ActCallABI,
			"intent": h.ActIntent, "intent2": h.ActIntent, "intent3": h.ActIntent, "intent4": h.ActIntent,
			"produce": h.ActProduce, "produce2": h.ActProduce,
			// cross lock windows: stake unit 600 s, fuse 12 momentums, pillar/sentinel cycles 1200+600 s
			"skipAhead": func() { h.Produce(c.Int("skipAhead", 5, 130)) },
			// a registration that pays the right amount in the wrong token (sentinel: 5000, pillar: 15000), sent by an
			// account whose QSR deposit is sufficient - or that deposit is made first
			"wrongTokenRegister": func() {
				ct, need, amt := types.SentinelContract, constants.SentinelQsrDepositAmount, constants.SentinelZnnRegisterAmount
				data := definition.ABISentinel.PackMethodPanic(definition.RegisterSentinelMethodName)
				if c.Bool("wtr.pillar") {
					ct, need, amt = types.PillarContract, new(big.Int).Add(constants.PillarQsrStakeBaseAmount, big.NewInt(0).Mul(constants.PillarQsrStakeIncreaseAmount, big.NewInt(8))), constants.PillarStakeAmount
					data = definition.ABIPillars.PackMethodPanic(definition.RegisterMethodName, fmt.Sprintf("VP-wt-%d", c.Int("wtr.name", 0, 3)), h.Users[c.Pick("wtr.prod", len(h.Users))],
						h.Users[c.Pick("wtr.reward", len(h.Users))], uint8(0), uint8(100))
				}
				u := h.Users[c.Pick("wtr.user", len(h.Users))]
				dep, err := definition.GetQsrDeposit(h.A.Chain.GetFrontierAccountStore(ct).Storage(), &u)
				if err != nil || dep == nil || dep.Qsr == nil || dep.Qsr.Cmp(need) < 0 {
					if h.Balance(u, types.QsrTokenStandard).Cmp(need) >= 0 {
						h.ActCall(u, ct, types.QsrTokenStandard, new(big.Int).Set(need), definition.ABICommon.PackMethodPanic(definition.DepositQsrMethodName), "deposit before a wrong-token registration")
					}
					return
				}
				var toks []types.ZenonTokenStandard
				for _, t := range h.Pools.Tokens {
					if t != types.ZnnTokenStandard && t != types.ZeroTokenStandard && h.Balance(u, t).Cmp(amt) >= 0 {
						toks = append(toks, t)
					}
				}
				if len(toks) == 0 {
					return
				}
				z := toks[c.Pick("wtr.token", len(toks))]
				if _, err := h.Submit(&nom.AccountBlock{Address: u, ToAddress: ct, TokenStandard: z, Amount: new(big.Int).Set(amt), Data: data}, "registration paid in "+z.String()); err == nil {
					c.Class("registration-in-wrong-token-accepted")
				}
			},
			// the owner of a pillar revokes it inside (or just before / after) its revoke window
			"timedRevoke": h.ActTimedPillarRevoke,
			// cross height-based windows (fusion expiration, redeem delay)
			"advance": func() {
				for i, n := 0, c.Int("advance", 5, 25); i < n && !h.Dead; i++ {
					h.Produce(0)
				}
			},
		}
		if bridgeWorld {
			flow := sim.BridgeFlowIntents()
			acts["bridgeFlow"] = func() { h.ActIntentOf(flow, "bridgeFlow") }
			acts["bridgeFlow2"] = acts["bridgeFlow"]
		}
		c.Repeat(acts, inv)
		for i := 0; i < 2 && !h.Dead; i++ {
			h.Produce(0)
			inv()
		}
		kinds := 0
		for k, n := range s.refused {
			if n > 0 {
				kinds++
				c.Class("refused:" + trunc(k, 40))
			}
		}
		if s.releases >= 1 && kinds >= 2 {
			c.NonTrivial()
		}
		c.R.Count("successful_releases", s.releases)
	})
}
