package props

// C13 — a block's hash pins down its stored bytes and its effect; codecs round-trip.

import (
	"bytes"
	"encoding/json"
	"fmt"
	"math/big"
	"reflect"
	"strings"
	"testing"

	"github.com/ethereum/go-ethereum/rlp"

	"github.com/zenon-network/go-zenon/chain/nom"
	"github.com/zenon-network/go-zenon/common/types"

	"verifharness/pbt"
	"verifharness/sim"
)

// ---- (a) codec round trips --------------------------------------------------------------

func genHash(c *pbt.C, l string) types.Hash {
	switch c.Weighted(l+".k", 1, 4) {
	case 0:
		return types.ZeroHash
	default:
		return types.NewHash(c.Bytes(l+".b", 0, 6))
	}
}

func genAddr(c *pbt.C, l string) types.Address {
	var a types.Address
	switch c.Weighted(l+".k", 1, 3, 1) {
	case 0:
		return a
	case 1:
		copy(a[:], c.Bytes(l+".b", 20, 20))
	default:
		a = sim.ContractList[c.Pick(l+".c", len(sim.ContractList))]
	}
	return a
}

func genBig(c *pbt.C, l string) *big.Int {
	one := big.NewInt(1)
	switch c.Weighted(l+".k", 2, 3, 2, 1) {
	case 0:
		return big.NewInt(0)
	case 1:
		return new(big.Int).SetUint64(c.Uint64(l+".u", 0, ^uint64(0)))
	case 2:
		k := uint(c.Int(l+".pow", 1, 256))
		v := new(big.Int).Lsh(one, k)
		return v.Add(v, big.NewInt(int64(c.Int(l+".off", -1, 1))))
	default:
		return new(big.Int).SetBytes(c.Bytes(l+".raw", 1, 33))
	}
}

func genBytesOpt(c *pbt.C, l string, max int) []byte {
	switch c.Weighted(l+".k", 1, 1, 3) {
	case 0:
		return nil
	case 1:
		return []byte{}
	default:
		return c.Bytes(l+".b", 1, max)
	}
}

func genAccountBlock(c *pbt.C, l string, depth int) *nom.AccountBlock {
	b := &nom.AccountBlock{
		Version:              c.Uint64(l+".version", 0, 3),
		ChainIdentifier:      c.Uint64(l+".chain", 0, ^uint64(0)),
		BlockType:            c.Uint64(l+".type", 0, 6),
		Hash:                 genHash(c, l+".hash"),
		PreviousHash:         genHash(c, l+".prev"),
		Height:               c.Uint64(l+".height", 0, ^uint64(0)),
		MomentumAcknowledged: types.HashHeight{Hash: genHash(c, l+".ackh"), Height: c.Uint64(l+".ackn", 0, ^uint64(0))},
		Address:              genAddr(c, l+".addr"),
		ToAddress:            genAddr(c, l+".to"),
		Amount:               genBig(c, l+".amount"),
		FromBlockHash:        genHash(c, l+".from"),
		Data:                 genBytesOpt(c, l+".data", 80),
		FusedPlasma:          c.Uint64(l+".fused", 0, ^uint64(0)),
		Difficulty:           c.Uint64(l+".diff", 0, ^uint64(0)),
		BasePlasma:           c.Uint64(l+".base", 0, ^uint64(0)),
		TotalPlasma:          c.Uint64(l+".total", 0, ^uint64(0)),
		ChangesHash:          genHash(c, l+".changes"),
		PublicKey:            genBytesOpt(c, l+".pub", 40),
		Signature:            genBytesOpt(c, l+".sig", 70),
	}
	copy(b.TokenStandard[:], c.Bytes(l+".zts", 10, 10))
	copy(b.Nonce.Data[:], c.Bytes(l+".nonce", 8, 8))
	if depth > 0 {
		n := c.Weighted(l+".ndesc", 3, 2, 1, 1)
		for i := 0; i < n; i++ {
			b.DescendantBlocks = append(b.DescendantBlocks, genAccountBlock(c, l+".d", 0))
		}
	}
	return b
}

func genMomentum(c *pbt.C, l string) *nom.Momentum {
	m := &nom.Momentum{
		Version:         c.Uint64(l+".version", 0, 3),
		ChainIdentifier: c.Uint64(l+".chain", 0, ^uint64(0)),
		Hash:            genHash(c, l+".hash"),
		PreviousHash:    genHash(c, l+".prev"),
		Height:          c.Uint64(l+".height", 0, ^uint64(0)),
		TimestampUnix:   c.Uint64(l+".ts", 0, 1<<40),
		Data:            genBytesOpt(c, l+".data", 40),
		ChangesHash:     genHash(c, l+".changes"),
		PublicKey:       genBytesOpt(c, l+".pub", 40),
		Signature:       genBytesOpt(c, l+".sig", 70),
	}
	n := c.Weighted(l+".ncontent", 2, 2, 2, 1)
	if n == 3 {
		n = c.Int(l+".nbig", 4, 30)
	}
	m.Content = nom.MomentumContent{}
	for i := 0; i < n; i++ {
		m.Content = append(m.Content, &types.AccountHeader{Address: genAddr(c, l+".ca"),
			HashHeight: types.HashHeight{Hash: genHash(c, l+".ch"), Height: c.Uint64(l+".cn", 0, ^uint64(0))}})
	}
	return m
}

// normalised comparable forms: nil == empty, nil amount == 0, caches ignored
func normBlock(b *nom.AccountBlock) string {
	if b == nil {
		return "<nil>"
	}
	amt := "0"
	if b.Amount != nil {
		amt = b.Amount.String()
	}
	s := fmt.Sprintf("v=%d c=%d t=%d h=%v p=%v n=%d ack=%v/%d a=%v to=%v amt=%s z=%x from=%v data=%x fp=%d d=%d nonce=%x bp=%d tp=%d ch=%v pk=%x sig=%x desc=[",
		b.Version, b.ChainIdentifier, b.BlockType, b.Hash, b.PreviousHash, b.Height, b.MomentumAcknowledged.Hash, b.MomentumAcknowledged.Height,
		b.Address, b.ToAddress, amt, b.TokenStandard[:], b.FromBlockHash, b.Data, b.FusedPlasma, b.Difficulty, b.Nonce.Data, b.BasePlasma,
		b.TotalPlasma, b.ChangesHash, []byte(b.PublicKey), b.Signature)
	for _, d := range b.DescendantBlocks {
		s += normBlock(d) + ";"
	}
	return s + "]"
}

func normMomentum(m *nom.Momentum) string {
	s := fmt.Sprintf("v=%d c=%d h=%v p=%v n=%d ts=%d data=%x ch=%v pk=%x sig=%x content=[", m.Version, m.ChainIdentifier, m.Hash, m.PreviousHash,
		m.Height, m.TimestampUnix, m.Data, m.ChangesHash, []byte(m.PublicKey), m.Signature)
	for _, h := range m.Content {
		s += fmt.Sprintf("%v/%v/%d;", h.Address, h.Hash, h.Height)
	}
	return s + "]"
}

func TestC13Codec(t *testing.T) {
	pbt.Check(t, "C13", func(c *pbt.C) {
		b := genAccountBlock(c, "b", 1)
		want := normBlock(b)
		wantHash := b.ComputeHash()
		c.Note("block: %s", trunc(want, 400))
		check := func(codec string, got *nom.AccountBlock, err error) {
			if err != nil {
				c.Failf("C13/"+codec+"-decode-error", "%s: block does not decode after encoding: %v (block %s)", codec, err, trunc(want, 300))
			}
			if g := normBlock(got); g != want {
				c.Failf("C13/"+codec+"-roundtrip", "%s round trip changed the block:\n before %s\n after  %s", codec, want, g)
			}
			if h := got.ComputeHash(); h != wantHash {
				c.Failf("C13/"+codec+"-hash", "%s round trip changed the computed hash %v -> %v", codec, wantHash, h)
			}
		}
		// protobuf (storage)
		data, err := b.Serialize()
		if err != nil {
			c.Failf("C13/proto-encode-error", "Serialize: %v", err)
		}
		pb, err := nom.DeserializeAccountBlock(data)
		check("proto", pb, err)
		if pb != nil {
			data2, _ := pb.Serialize()
			if !bytes.Equal(data, data2) {
				c.Failf("C13/proto-unstable", "protobuf encoding is not stable under decode/encode")
			}
		}
		// RLP (wire)
		rdata, err := rlp.EncodeToBytes(b)
		if err != nil {
			c.Failf("C13/rlp-encode-error", "rlp: %v", err)
		}
		rb := new(nom.AccountBlock)
		err = rlp.DecodeBytes(rdata, rb)
		check("rlp", rb, err)
		rdata2, _ := rlp.EncodeToBytes(rb)
		if !bytes.Equal(rdata, rdata2) {
			c.Failf("C13/rlp-unstable", "RLP encoding is not stable under decode/encode")
		}
		// JSON (nom form)
		jdata, err := json.Marshal(b)
		if err != nil {
			c.Failf("C13/json-encode-error", "json: %v", err)
		}
		jb := new(nom.AccountBlock)
		err = json.Unmarshal(jdata, jb)
		check("json", jb, err)

		// momentum
		m := genMomentum(c, "m")
		mwant := normMomentum(m)
		mh := m.ComputeHash()
		mdata, err := m.Serialize()
		if err != nil {
			c.Failf("C13/proto-encode-error", "Serialize: %v", err)
		}
		pm, err := nom.DeserializeMomentum(mdata)
		if err != nil || normMomentum(pm) != mwant || pm.ComputeHash() != mh {
			c.Failf("C13/proto-roundtrip-momentum", "protobuf round trip changed the momentum (%v):\n before %s\n after  %s", err, mwant, normMomentum(pm))
		}
		dm := &nom.DetailedMomentum{Momentum: m, AccountBlocks: []*nom.AccountBlock{b}}
		ddata, err := rlp.EncodeToBytes(dm)
		if err != nil {
			c.Failf("C13/rlp-encode-error", "rlp: %v", err)
		}
		rdm := new(nom.DetailedMomentum)
		if err := rlp.DecodeBytes(ddata, rdm); err != nil {
			c.Failf("C13/rlp-decode-error", "detailed momentum does not decode: %v", err)
		}
		if normMomentum(rdm.Momentum) != mwant || rdm.Momentum.ComputeHash() != mh || len(rdm.AccountBlocks) != 1 || normBlock(rdm.AccountBlocks[0]) != want {
			c.Failf("C13/rlp-roundtrip-momentum", "RLP round trip changed the detailed momentum:\n before %s\n after  %s", mwant, normMomentum(rdm.Momentum))
		}
		mj, err := json.Marshal(m)
		if err != nil {
			c.Failf("C13/json-encode-error", "json: %v", err)
		}
		jm := new(nom.Momentum)
		if err := json.Unmarshal(mj, jm); err != nil || normMomentum(jm) != mwant || jm.ComputeHash() != mh {
			c.Failf("C13/json-roundtrip-momentum", "JSON round trip changed the momentum (%v):\n before %s\n after  %s", err, mwant, normMomentum(jm))
		}
		if len(b.DescendantBlocks) > 0 {
			c.Class("with-descendants")
		}
		if b.Amount.BitLen() > 255 {
			c.Class("amount>=2^255")
		}
		nz := 0
		for _, f := range []bool{len(b.Data) > 0, b.FusedPlasma != 0, b.Difficulty != 0, len(b.PublicKey) > 0, len(b.Signature) > 0, !b.FromBlockHash.IsZero()} {
			if f {
				nz++
			}
		}
		if nz >= 1 && (len(b.DescendantBlocks) > 0 || len(m.Content) > 0) {
			c.NonTrivial()
		}
	})
}

func trunc(s string, n int) string {
	if len(s) > n {
		return s[:n] + "…"
	}
	return s
}

// ---- (b) variants of accepted blocks delivered to a follower before confirmation --------

var c13Variants = []string{"changes-hash", "base-plasma", "total-plasma", "both-plasma", "public-key-other", "public-key-empty", "signature-bitflip",
	"signature-noncanonical-s", "signature-empty", "amount+1", "data+1", "descendant-added", "hash-altered", "to-address", "nonce", "fused-plasma",
	"descendant-amount", "descendant-data", "descendant-to", "descendant-unhashed", "amount-negated", "signature-trailing"}

// ed25519 group order L (little endian addition on S)
var ed25519L, _ = new(big.Int).SetString("7237005577332262213973186563042994240857116359379907606001950938285454250989", 10)

func makeVariant(c *pbt.C, b *nom.AccountBlock, kind string, keys *sim.KeyRing) *nom.AccountBlock {
	v := b.Copy()
	switch kind {
	case "changes-hash":
		v.ChangesHash = types.NewHash(append([]byte("variant"), v.ChangesHash.Bytes()...))
	case "base-plasma":
		v.BasePlasma += 7
	case "total-plasma":
		v.TotalPlasma += 9
	case "both-plasma":
		v.BasePlasma, v.TotalPlasma = 1, 2
	case "public-key-other":
		v.PublicKey = append([]byte{}, keys.Spork.Public...)
		if bytes.Equal(v.PublicKey, b.PublicKey) {
			v.PublicKey = append([]byte{}, keys.Users[0].Public...)
		}
	case "public-key-empty":
		v.PublicKey = nil
	case "signature-bitflip":
		if len(v.Signature) == 0 {
			return nil
		}
		v.Signature[c.Pick("var.sigbyte", len(v.Signature))] ^= 1 << uint(c.Int("var.sigbit", 0, 7))
	case "signature-noncanonical-s":
		if len(v.Signature) != 64 {
			return nil
		}
		s := make([]byte, 32)
		for i := 0; i < 32; i++ {
			s[i] = v.Signature[63-i] // to big endian
		}
		sv := new(big.Int).SetBytes(s)
		sv.Add(sv, ed25519L)
		sb := sv.Bytes()
		if len(sb) > 32 {
			return nil
		}
		out := make([]byte, 32)
		for i := 0; i < len(sb); i++ {
			out[i] = sb[len(sb)-1-i]
		}
		copy(v.Signature[32:], out)
	case "signature-empty":
		v.Signature = nil
	case "signature-trailing":
		// the 64 bytes of the valid signature followed by more bytes
		if len(v.Signature) != 64 {
			return nil
		}
		v.Signature = append(append([]byte{}, v.Signature...), c.Bytes("var.sigtail", 1, 32)...)
	case "amount+1":
		if v.Amount == nil {
			return nil
		}
		v.Amount = new(big.Int).Add(v.Amount, big.NewInt(1))
	case "data+1":
		v.Data = append(append([]byte{}, v.Data...), 0)
	case "descendant-added":
		v.DescendantBlocks = append(v.DescendantBlocks, &nom.AccountBlock{BlockType: nom.BlockTypeContractSend, Address: v.Address, Amount: big.NewInt(0)})
	case "hash-altered":
		v.Hash = types.NewHash(v.Hash.Bytes())
	case "to-address":
		v.ToAddress = keys.Users[0].Address
		if v.ToAddress == b.ToAddress {
			v.ToAddress = keys.Spork.Address
		}
	case "nonce":
		v.Nonce.Data[0] ^= 1
	case "fused-plasma":
		v.FusedPlasma++
	case "amount-negated":
		// same magnitude = same hash, signature and stored bytes; only JSON text can carry the sign
		if v.Amount == nil || v.Amount.Sign() <= 0 {
			return nil
		}
		v.Amount = new(big.Int).Neg(v.Amount)
	case "descendant-amount", "descendant-data", "descendant-to", "descendant-unhashed":
		// content of a batched send altered while every recorded hash stays
		if len(v.DescendantBlocks) == 0 {
			return nil
		}
		d := v.DescendantBlocks[c.Pick("var.desc", len(v.DescendantBlocks))]
		switch kind {
		case "descendant-amount":
			d.Amount = new(big.Int).Add(d.Amount, big.NewInt(1))
		case "descendant-data":
			d.Data = append(append([]byte{}, d.Data...), 7)
		case "descendant-to":
			d.ToAddress = keys.Users[0].Address
			if d.ToAddress == b.DescendantBlocks[0].ToAddress {
				d.ToAddress = keys.Spork.Address
			}
		default:
			switch c.Pick("var.desc.field", 4) {
			case 0:
				d.ChangesHash = types.NewHash([]byte("variant-descendant"))
			case 1:
				d.BasePlasma, d.TotalPlasma = d.BasePlasma+3, d.TotalPlasma+5
			case 2:
				d.PublicKey = append([]byte{}, keys.Users[0].Public...)
			default:
				d.Signature = []byte{1, 2, 3}
			}
		}
	}
	return v
}

func TestC13Variants(t *testing.T) {
	pbt.Check(t, "C13", func(c *pbt.C) {
		h := sim.NewHist(c, genSpec(c), genWorldOpts(c))
		h.Intents = sim.DefaultIntents()
		grow(c, h, "prefix", c.Int("prefix.m", 1, 8), 10)
		if h.Dead {
			return
		}
		rounds := c.Int("rounds", 1, 3)
		acceptedVariants := 0
		for r := 0; r < rounds && !h.Dead; r++ {
			base := h.A.Height()
			// follower template at the producer's confirmed height
			b := h.W.AddNode("B", false)
			if base > 1 {
				if _, err := b.Bridge.InsertChain(h.A.Range(2, base)); err != nil {
					c.Failf("C13/setup", "follower cannot sync: %v", err)
				}
			}
			b.Stop()
			// new unconfirmed blocks on the producer (user blocks and, via the pillar, contract receives)
			var fresh []*nom.AccountBlock
			h.A.OnBlock = func(blk *nom.AccountBlock) { fresh = append(fresh, blk) }
			steps := c.Int("steps", 1, 6)
			names := []string{"transfer", "receive", "callABI", "intent", "intent2"}
			acts := histActions(h)
			for i := 0; i < steps; i++ {
				acts[names[c.Pick("act", len(names))]]()
			}
			// everything the next momentum will confirm: the fresh user blocks and the contract receives the
			// pillar generated after the previous momentum
			pool := h.A.Chain.GetAllUncommittedAccountBlocks()
			_ = fresh
			h.A.OnBlock = nil
			if !h.Produce(0) {
				return
			}
			next := h.A.Range(base+1, base+1)
			// clean reference follower
			ref := h.W.CloneStopped(b, "Bref")
			if _, err := ref.Bridge.InsertChain(next); err != nil {
				c.Failf("C13/setup", "clean follower refused the honest momentum: %v", err)
			}
			refDump := ref.Dump()
			h.W.Drop(ref)
			for _, blk := range pool {
				if blk.BlockType == nom.BlockTypeContractSend {
					continue
				}
				kinds := c13Variants
				if pbt.Tier() != "thorough" {
					kinds = []string{c13Variants[c.Pick("vkind1", len(c13Variants))], c13Variants[c.Pick("vkind2", len(c13Variants))], "changes-hash"}
				}
				for _, kind := range kinds {
					v := makeVariant(c, blk, kind, h.W.Keys)
					if v == nil {
						continue
					}
					wire, err := sim.WireBlocks([]*nom.AccountBlock{v})
					if err == nil && c.Weighted("var.inMomentum", 3, 1) == 1 {
						// third route: the follower got the ORIGINAL block by honest gossip; a peer then delivers the momentum that
						// confirms it with the variant in the block's place (the momentum's content names only the hash)
						c13VariantInMomentum(c, h, b, blk, wire[0], kind, pool, next, refDump)
						continue
					}
					viaRPC := err != nil || c.Weighted("var.route", 4, 1) == 1
					n := h.W.CloneStopped(b, "Bv")
					if viaRPC {
						// published to the follower through its JSON-RPC interface instead of the peer protocol
						jb, jerr := sim.ViaPublishJSON(n, v)
						if jerr != nil {
							h.W.Drop(n)
							continue // cannot even travel
						}
						wire = []*nom.AccountBlock{jb}
					}
					// predecessors of the block within the pool reach the follower first (honest gossip)
					for _, p := range pool {
						if p.Address == blk.Address && p.Height < blk.Height && p.BlockType != nom.BlockTypeContractSend {
							if wp, err := sim.WireBlocks([]*nom.AccountBlock{p}); err == nil {
								_ = n.Bridge.AddAccountBlocks(wp)
							}
						}
					}
					var gerr error
					if viaRPC {
						var tx *nom.AccountBlockTransaction
						if wire[0].BlockType == nom.BlockTypeContractSend {
							gerr = fmt.Errorf("can't apply BlockTypeContractSend")
						} else if tx, gerr = n.Sup.ApplyBlock(wire[0]); gerr == nil {
							n.CreateAccountBlock(tx)
							gerr = n.LastBlockErr
						}
						kind += "/json-rpc"
					} else {
						gerr = n.Bridge.AddAccountBlocks(wire)
					}
					c.R.Count("variants_delivered", 1)
					what := fmt.Sprintf("variant %q of block %v/%d (type %d)", kind, blk.Address, blk.Height, blk.BlockType)
					if gerr == nil {
						acceptedVariants++
						c.Class(fmt.Sprintf("variant-accepted-by-pool:%s/type%d", kind, blk.BlockType))
						c.NonTrivialItem(fmt.Sprintf("%s/type%d", kind, blk.BlockType))
						// two blocks with the same hash that a node is willing to accept have identical stored
						// representation: what the follower holds now is, byte for byte, what the producer holds
						if pooled, err := n.Chain.GetFrontierAccountStore(blk.Address).ByHash(blk.Hash); err == nil && pooled != nil {
							orig, _ := h.A.Chain.GetFrontierAccountStore(blk.Address).ByHash(blk.Hash)
							if orig == nil {
								orig = blk
							}
							x, _ := pooled.Serialize()
							y, _ := orig.Serialize()
							if !bytes.Equal(x, y) {
								key := "C13/second-variant-stored/" + kind
								if strings.HasPrefix(kind, "changes-hash") && !types.IsEmbeddedAddress(blk.Address) {
									key = "C13/second-variant-stored/user-block/ChangesHash"
								}
								c.Failf(key, "%s was accepted and is stored by the follower with other bytes than the block the producer holds under the same hash: %s",
									what, firstDiff(normBlock(orig), normBlock(pooled)))
							}
						}
					}
					idx, err := n.Bridge.InsertChain(h.A.Range(base+1, base+1))
					if err != nil {
						key := "C13/variant-blocks-follower/" + kind
						if strings.HasPrefix(kind, "changes-hash") && !types.IsEmbeddedAddress(blk.Address) {
							key = "C13/variant/user-block/ChangesHash"
						}
						if c.Failf(key, "%s was %s by the follower's pool; afterwards the follower refuses the producer's momentum (index %d): %v",
							what, map[bool]string{true: "accepted", false: "rejected"}[gerr == nil], idx, err) {
							h.W.Drop(n)
							continue
						}
					}
					if d := n.Dump(); d != refDump {
						c.Failf("C13/variant-changes-stored-bytes/"+kind, "%s: the follower stores different bytes than a node that never saw the variant: %s", what, firstDiff(refDump, d))
					}
					h.W.Drop(n)
				}
			}
			h.W.Drop(b)
		}
		c13CanonicalCalldata(c, h.A)
		if acceptedVariants > 0 {
			c.NonTrivial()
		}
	})
}

// c13CanonicalCalldata: the stored call data of every accepted call to an embedded contract equals the canonical ABI
// packing of the values it decodes to (one stored encoding per meaning); returns the number of calls checked.
func c13CanonicalCalldata(c *pbt.C, n *sim.Node) (checked int) {
	l, err := sim.Scan(n)
	if err == nil {
		// whatever the node stores under a hash hashes to it
		for _, chain := range l.Blocks {
			for _, b := range chain {
				if b.BlockType != nom.BlockTypeGenesisReceive && b.ComputeHash() != b.Hash {
					c.Failf("C13/stored-block-does-not-hash-to-its-hash", "the node stores block %v/%d under hash %v; its stored content hashes to %v (data %x)", b.Address, b.Height, b.Hash, b.ComputeHash(), b.Data)
				}
			}
		}
		for _, s := range l.Sends {
			if s.BlockType != nom.BlockTypeUserSend || !types.IsEmbeddedAddress(s.ToAddress) || len(s.Data) < 4 {
				continue
			}
			ab, ok := sim.Contracts[s.ToAddress]
			if !ok {
				continue
			}
			m, err := ab.MethodById(s.Data[:4])
			if err != nil {
				continue
			}
			vals, err := m.Inputs.UnpackValues(s.Data[4:])
			if err != nil {
				c.Failf("C13/stored-calldata-undecodable", "accepted call %v to %s.%s stores data that does not unpack: %v", s.Hash, sim.ContractNames[s.ToAddress], m.Name, err)
			}
			re, err := m.Inputs.Pack(derefAll(vals)...)
			if err != nil {
				continue
			}
			if !bytes.Equal(append(append([]byte{}, s.Data[:4]...), re...), s.Data) {
				c.Failf("C13/non-canonical-calldata", "accepted call %v to %s.%s stores non-canonical call data %x (canonical %x)", s.Hash,
					sim.ContractNames[s.ToAddress], m.Name, s.Data, append(append([]byte{}, s.Data[:4]...), re...))
			}
			c.R.Count("calldata_checked", 1)
			checked++
		}
	}
	return
}

func derefAll(vals []interface{}) []interface{} {
	out := make([]interface{}, len(vals))
	for i, v := range vals {
		rv := reflect.ValueOf(v)
		if rv.Kind() == reflect.Ptr && !rv.IsNil() {
			if _, isBig := v.(*big.Int); !isBig {
				out[i] = rv.Elem().Interface()
				continue
			}
		}
		out[i] = v
	}
	return out
}

// c13VariantInMomentum: see the call site. Whatever the node answers to the forged momentum, what it holds under the
// block's hash afterwards is the producer's bytes, it follows the producer's momentum and ends with the reference state.
func c13VariantInMomentum(c *pbt.C, h *sim.Hist, b *sim.Node, blk, variant *nom.AccountBlock, kind string, pool []*nom.AccountBlock, next []*nom.DetailedMomentum, refDump string) {
	n := h.W.CloneStopped(b, "Bm")
	defer h.W.Drop(n)
	for _, p := range pool {
		if p.Address == blk.Address && p.Height <= blk.Height && p.BlockType != nom.BlockTypeContractSend {
			if wp, err := sim.WireBlocks([]*nom.AccountBlock{p}); err == nil {
				_ = n.Bridge.AddAccountBlocks(wp)
			}
		}
	}
	orig, _ := n.Chain.GetFrontierAccountStore(blk.Address).ByHash(blk.Hash)
	if orig == nil {
		return // the honest block itself did not reach the pool (its own predecessors are missing): nothing to displace
	}
	want, _ := orig.Serialize()
	fm := sim.CopyDetailed(next[0])
	replaced := false
	for i, ab := range fm.AccountBlocks {
		if ab.Hash == blk.Hash && ab.Address == blk.Address {
			fm.AccountBlocks[i] = variant
			replaced = true
		}
	}
	if !replaced {
		return
	}
	c.Checkpoint()
	idx, ferr := n.Bridge.InsertChain([]*nom.DetailedMomentum{fm})
	c.R.Count("variants_delivered_inside_the_confirming_momentum", 1)
	what := fmt.Sprintf("variant %q of block %v/%d (type %d) inside the momentum that confirms it, the follower holding the original", kind, blk.Address, blk.Height, blk.BlockType)
	c.Class(fmt.Sprintf("variant-in-momentum-%s", map[bool]string{true: "accepted", false: "refused"}[ferr == nil]))
	if held, err := n.Chain.GetFrontierAccountStore(blk.Address).ByHash(blk.Hash); err == nil && held != nil {
		got, _ := held.Serialize()
		ref := want
		if ferr == nil {
			if pb, _ := h.A.Chain.GetFrontierMomentumStore().GetAccountBlockByHash(blk.Hash); pb != nil {
				ref, _ = pb.Serialize()
			}
		}
		if !bytes.Equal(got, ref) {
			key := "C13/second-variant-stored/" + kind + "/in-momentum"
			if strings.HasPrefix(kind, "changes-hash") && !types.IsEmbeddedAddress(blk.Address) {
				key = "C13/second-variant-stored/user-block/ChangesHash"
			}
			c.Failf(key, "%s (answer: index %d, %v): the follower now holds other bytes under the block's hash than the block it had verified: %s", what, idx, ferr, firstDiff(normBlock(orig), normBlock(held)))
		}
	}
	if _, err := n.Bridge.InsertChain(next); err != nil {
		key := "C13/variant-blocks-follower/" + kind + "/in-momentum"
		if strings.HasPrefix(kind, "changes-hash") && !types.IsEmbeddedAddress(blk.Address) {
			key = "C13/variant/user-block/ChangesHash"
		}
		if c.Failf(key, "%s (answer: %v): afterwards the follower refuses the producer's momentum: %v", what, ferr, err) {
			return
		}
	}
	if d := n.Dump(); d != refDump {
		c.Failf("C13/variant-changes-stored-bytes/"+kind+"/in-momentum", "%s: the follower stores different bytes than a node that never saw the variant: %s", what, firstDiff(refDump, d))
	}
}

// ---- (c) native fuzz targets: arbitrary bytes into the three decoders --------------------

func FuzzC13Proto(f *testing.F) {
	b := &nom.AccountBlock{Version: 1, BlockType: 2, Amount: big.NewInt(5), Data: []byte{1, 2}, DescendantBlocks: []*nom.AccountBlock{{Amount: big.NewInt(1)}}}
	d, _ := b.Serialize()
	f.Add(d)
	f.Add([]byte{})
	f.Fuzz(func(t *testing.T, data []byte) {
		blk, err := decodeProtoSafe(data)
		if err != nil || blk == nil {
			return
		}
		d2, err := blk.Serialize()
		if err != nil {
			t.Fatalf("decoded block does not re-encode: %v", err)
		}
		blk2, err := nom.DeserializeAccountBlock(d2)
		if err != nil || normBlock(blk2) != normBlock(blk) || blk2.ComputeHash() != blk.ComputeHash() {
			t.Fatalf("protobuf decode/encode/decode is not stable")
		}
	})
}

func decodeProtoSafe(data []byte) (b *nom.AccountBlock, err error) {
	defer func() {
		if r := recover(); r != nil {
			// DeProto panics on malformed embedded hashes/addresses are surfaced as errors here;
			// stored bytes are written by the node itself, so this is not a peer-facing path
			err = fmt.Errorf("panic: %v", r)
		}
	}()
	return nom.DeserializeAccountBlock(data)
}

func FuzzC13Rlp(f *testing.F) {
	b := &nom.AccountBlock{Version: 1, BlockType: 2, Amount: big.NewInt(5), Data: []byte{1, 2}}
	d, _ := rlp.EncodeToBytes(b)
	f.Add(d)
	m := &nom.DetailedMomentum{Momentum: &nom.Momentum{Version: 1, Content: nom.MomentumContent{}}, AccountBlocks: []*nom.AccountBlock{b}}
	d2, _ := rlp.EncodeToBytes(m)
	f.Add(d2)
	f.Fuzz(func(t *testing.T, data []byte) {
		blk := new(nom.AccountBlock)
		if err := rlp.DecodeBytes(data, blk); err == nil {
			re, err := rlp.EncodeToBytes(blk)
			if err != nil {
				t.Fatalf("decoded block does not re-encode: %v", err)
			}
			blk2 := new(nom.AccountBlock)
			if err := rlp.DecodeBytes(re, blk2); err != nil || normBlock(blk2) != normBlock(blk) || blk.ComputeHash() != blk2.ComputeHash() {
				t.Fatalf("RLP decode/encode/decode is not stable: %v", err)
			}
		}
		dm := new(nom.DetailedMomentum)
		if err := rlp.DecodeBytes(data, dm); err == nil && dm.Momentum != nil {
			dm.Momentum.EnsureCache()
			_ = dm.Momentum.ComputeHash()
		}
	})
}

func FuzzC13Json(f *testing.F) {
	b := &nom.AccountBlock{Version: 1, BlockType: 2, Amount: big.NewInt(5), Data: []byte{1, 2}}
	d, _ := json.Marshal(b)
	f.Add(d)
	f.Fuzz(func(t *testing.T, data []byte) {
		blk := new(nom.AccountBlock)
		if err := json.Unmarshal(data, blk); err != nil {
			return
		}
		if blk.Amount == nil {
			return
		}
		re, err := json.Marshal(blk)
		if err != nil {
			t.Fatalf("decoded block does not re-encode: %v", err)
		}
		blk2 := new(nom.AccountBlock)
		if err := json.Unmarshal(re, blk2); err != nil || normBlock(blk2) != normBlock(blk) || blk.ComputeHash() != blk2.ComputeHash() {
			t.Fatalf("JSON decode/encode/decode is not stable: %v\n%s\n%s", err, normBlock(blk), normBlock(blk2))
		}
	})
}

// TestC13Calldata: calls with valid arguments (model-guided intents, ecosystem / bridge scripts) are re-encoded
// non-canonically before they are sent - trailing bytes, dirty padding, shifted offsets, duplicated words; whatever
// the node accepts must be stored in the canonical encoding (the hash is computed over what is stored).
func TestC13Calldata(t *testing.T) {
	pbt.Check(t, "C13", func(c *pbt.C) {
		spec := genSpec(c)
		spec.ActiveSporks = 2
		opts := genWorldOpts(c)
		bridgeWorld := c.Weighted("bridgeWorld", 2, 1) == 1
		if bridgeWorld {
			opts.Bridge = true
			for len(spec.Users) < 5 {
				spec.Users = append(spec.Users, sim.UserSpec{Znn: 9000, Qsr: 90000})
			}
		}
		h := sim.NewHist(c, spec, opts)
		h.Intents = sim.DefaultIntents()
		h.Recode = 2
		h.RecodeExternal = 3
		if bridgeWorld {
			_ = sim.BridgeScript(h, c.Int("wraps", 0, 3), c.Int("unwraps", 0, 2))
			_ = sim.LiquidityScript(h)
			h.Intents = append(h.Intents, sim.BridgeIntents()...)
		}
		if c.Bool("ecoWorld") {
			_, _ = sim.EcosystemScript(h)
		}
		for r, rounds := 0, c.Int("rounds", 2, pbt.Scale(8, 20)); r < rounds && !h.Dead; r++ {
			for i, k := 0, c.Int("calls", 1, 8); i < k; i++ {
				if c.Weighted("kind", 4, 1) == 0 {
					h.ActIntent()
				} else {
					h.ActCallABI()
				}
			}
			h.Produce(c.Weighted("skip", 5, 1))
		}
		// an accepted block built outside the node is stored with the bytes it was delivered with
		for _, d := range h.ExternalDelivered {
			if st, err := h.A.Chain.GetFrontierMomentumStore().GetAccountBlockByHash(d.Hash); err == nil && st != nil {
				if !bytes.Equal(st.Data, d.Data) || !bytes.Equal(st.Signature, d.Signature) {
					c.Failf("C13/stored-differs-from-delivered", "block %v was delivered with data %x and is stored with data %x", d.Hash, d.Data, st.Data)
				}
			}
		}
		if n := c13CanonicalCalldata(c, h.A); n >= 5 {
			c.NonTrivial()
		}
	})
}
