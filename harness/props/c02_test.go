package props

// C02 — replay determinism: any node fed the same momentums ends with the same ledger,
// whatever the delivery schedule (batches, gossip timing, restarts, warm or cold caches).

import (
	"fmt"
	"testing"
	"time"

	"github.com/zenon-network/go-zenon/chain/nom"
	"github.com/zenon-network/go-zenon/common/types"
	"github.com/zenon-network/go-zenon/consensus"

	"verifharness/pbt"
	"verifharness/sim"
)

type c2event struct {
	block    *nom.AccountBlock // account block accepted by the producer, or
	momentum uint64            // height of a produced momentum
}

// follower replays the producer's event log under a drawn schedule.
type c2follower struct {
	c       *pbt.C
	w       *sim.World
	n       *sim.Node
	name    string
	pending []uint64 // momentum heights not yet delivered
	late    []*nom.AccountBlock
	stats   map[string]int
}

func (f *c2follower) gossip(b *nom.AccountBlock, when string) {
	blocks, err := sim.WireBlocks([]*nom.AccountBlock{b})
	if err != nil {
		f.c.Failf("C02/wire", "account block does not survive the wire codec: %v", err)
	}
	err = f.n.Bridge.AddAccountBlocks(blocks)
	f.c.Note("  %s: gossip %s %s/%d -> %v", f.name, when, b.Address.String()[:10], b.Height, err)
	f.stats["gossip-"+when]++
	// an honest block may be refused by gossip for benign reasons (its predecessor or its
	// acknowledged momentum has not arrived yet, or it is already confirmed); that is not a
	// violation — the momentum delivery below must still succeed.
}

func (f *c2follower) flush(a *sim.Node, label string) {
	c := f.c
	if len(f.pending) == 0 {
		return
	}
	from, to := f.pending[0], f.pending[len(f.pending)-1]
	batch := a.Range(from, to)
	if len(batch) != len(f.pending) {
		c.Failf("C02/serve", "producer served %d of %d momentums", len(batch), len(f.pending))
	}
	// optionally re-deliver some already known momentums in front (overlap)
	if from > 2 && c.Weighted(label+".overlap", 4, 1) == 1 {
		k := uint64(c.Int(label+".overlapN", 1, int(min64(3, from-2))))
		batch = append(a.Range(from-k, from-1), batch...)
		f.stats["overlap"]++
	}
	if len(batch) > 1 {
		f.stats["batch>1"]++
	}
	c.Checkpoint()
	idx, err := f.n.Bridge.InsertChain(batch)
	c.Note("  %s: InsertChain(%d..%d) -> %d %v", f.name, batch[0].Momentum.Height, to, idx, err)
	if err != nil {
		c.Failf("C02/honest-momentum-refused", "%s refused honest momentums %d..%d (index %d): %v", f.name, from, to, idx, err)
	}
	if got := f.n.Height(); got != to {
		c.Failf("C02/height", "%s is at height %d after InsertChain up to %d", f.name, got, to)
	}
	f.pending = nil
}

func min64(a, b uint64) uint64 {
	if a < b {
		return a
	}
	return b
}

func (f *c2follower) restart(keep bool) {
	nn, err := f.n.Restart(keep)
	if err != nil {
		f.c.Failf("C02/restart", "%s cannot restart on its own database: %v", f.name, err)
	}
	f.w.Replace(f.n, nn)
	f.n = nn
	f.stats["restart"]++
	f.c.Note("  %s: restart keepConsensusCache=%v", f.name, keep)
}

func (f *c2follower) warm() {
	c := f.c
	h := f.n.Height()
	if h < 2 {
		return
	}
	k := c.Int("warm.n", 1, 3)
	for i := 0; i < k; i++ {
		ht := uint64(c.Int("warm.h", 1, int(h)))
		m, err := f.n.Chain.GetFrontierMomentumStore().GetMomentumByHeight(ht)
		if err != nil || m == nil {
			continue
		}
		_ = f.n.DumpAt(m.Identifier())
		_, _ = f.n.Cons.GetMomentumProducer(*m.Timestamp)
	}
	f.stats["warm-views"]++
}

func compareNodes(c *pbt.C, key string, a, b *sim.Node, sampleHeights []uint64) {
	fa, fb := a.Frontier(), b.Frontier()
	if fa.Hash != fb.Hash {
		c.Failf(key+"/frontier", "%s frontier %v, %s frontier %v", a.Name, fa.Identifier(), b.Name, fb.Identifier())
	}
	da, dbb := a.Dump(), b.Dump()
	if da != dbb {
		c.Failf(key+"/store", "logical store dumps differ between %s and %s at height %d: %s", a.Name, b.Name, fa.Height, firstDiff(da, dbb))
	}
	for _, h := range sampleHeights {
		m, err := a.Chain.GetFrontierMomentumStore().GetMomentumByHeight(h)
		if err != nil || m == nil {
			continue
		}
		if x, y := a.DumpAt(m.Identifier()), b.DumpAt(m.Identifier()); x != y {
			c.Failf(key+"/historical-view", "historical view at height %d differs between %s and %s: %s", h, a.Name, b.Name, firstDiff(x, y))
		}
	}
	if d := sim.DiffBattery(sim.Battery(a), sim.Battery(b)); d != "" {
		c.Failf(key+"/query", "%s and %s answer differently: %s", a.Name, b.Name, d)
	}
}

func firstDiff(a, b string) string {
	la, lb := splitLines(a), splitLines(b)
	for i := 0; i < len(la) || i < len(lb); i++ {
		var x, y string
		if i < len(la) {
			x = la[i]
		}
		if i < len(lb) {
			y = lb[i]
		}
		if x != y {
			if len(x) > 200 {
				x = x[:200] + "…"
			}
			if len(y) > 200 {
				y = y[:200] + "…"
			}
			return fmt.Sprintf("line %d: %q vs %q", i, x, y)
		}
	}
	return "equal"
}

func splitLines(s string) []string {
	var out []string
	start := 0
	for i := 0; i < len(s); i++ {
		if s[i] == '\n' {
			out = append(out, s[start:i])
			start = i + 1
		}
	}
	if start < len(s) {
		out = append(out, s[start:])
	}
	return out
}

func TestC02(t *testing.T) {
	pbt.Check(t, "C02", func(c *pbt.C) {
		h := sim.NewHist(c, genSpec(c), genWorldOpts(c))
		h.Intents = sim.DefaultIntents()
		h.AckDepthMax = 4
		var events []c2event
		h.A.OnBlock = func(b *nom.AccountBlock) { events = append(events, c2event{block: b}) }
		h.OnMomentum = func() { events = append(events, c2event{momentum: h.A.Height()}) }

		c.Repeat(map[string]func(){
			"transfer": h.ActTransfer,
			"receive":  h.ActReceive,
			"callABI":  h.ActCallABI,
			"intent":   h.ActIntent,
			"intent2":  h.ActIntent,
			"produce":  h.ActProduce,
			"produce2": h.ActProduce,
			// missed slots, finished ticks and epochs (stored consensus points, reward updates)
			"skipAhead": func() { h.Produce(c.Int("skipAhead", 4, 90)) },
			// the producer answers consensus queries (statistics of the running epoch, weights, schedule - what a pillar
			// listing over RPC makes it compute), often right before production stalls for the rest of the epoch
			"producerAnswersQueries": func() {
				_ = sim.ConsensusSummary(h.A)
				c.Class("producer-answers-consensus-queries")
				if c.Bool("stallAfterQuery") && !h.Dead {
					ep := int64(consensus.EpochDuration / time.Second)
					into := (h.A.Frontier().Timestamp.Unix() - h.W.Spec.Timestamp) % ep
					left := int((ep-into)/10) + c.Int("stall.extra", 0, 40)
					if left > 0 {
						h.Produce(left)
						c.Class("production-stalls-to-the-end-of-the-epoch-after-a-query")
					}
				}
			},
		}, nil)
		for i := 0; i < 2 && !h.Dead; i++ {
			h.Produce(0)
		}
		if h.Dead {
			c.Excluded("C09-preflight-abort")
			return
		}
		top := h.A.Height()
		nf := c.Int("followers", 1, pbt.Scale(2, 3))
		var sample []uint64
		for i := 0; i < 4 && top > 1; i++ {
			sample = append(sample, uint64(c.Int("sample.h", 1, int(top))))
		}
		features := map[string]bool{}
		for fi := 0; fi < nf; fi++ {
			f := &c2follower{c: c, w: h.W, name: fmt.Sprintf("B%d", fi), stats: map[string]int{}}
			f.n = h.W.AddNode(f.name, false)
			c.Note("follower %s", f.name)
			for ei, ev := range events {
				lbl := "sched"
				if ev.block != nil {
					// a competing block of the same account at the same height (its owner signed twice) reaches
					// this follower first; the producer confirmed the other one and its choice is final
					if kp := h.W.Keys.ByAddr[ev.block.Address]; kp != nil && !types.IsEmbeddedAddress(ev.block.Address) &&
						ev.block.Difficulty == 0 && c.Weighted(lbl+".sibling", 5, 1) == 1 {
						sib := ev.block.Copy()
						sib.Nonce.Data[c.Pick(lbl+".sib.byte", 8)] ^= byte(c.Int(lbl+".sib.x", 1, 255))
						sim.ResignBlock(sib, kp)
						f.gossip(sib, "sibling")
					}
					switch c.Weighted(lbl+".gossip", 3, 2, 2) {
					case 0: // never gossiped: arrives only inside its momentum
					case 1:
						f.gossip(ev.block, "early")
					default:
						f.late = append(f.late, ev.block)
					}
					continue
				}
				// a momentum event
				_ = ei
				f.pending = append(f.pending, ev.momentum)
				if c.Weighted(lbl+".lateGossip", 2, 1) == 1 && len(f.late) > 0 {
					// blocks gossiped after (some of) the momentums that may contain them were produced
					for _, b := range f.late {
						f.gossip(b, "late")
					}
					f.late = nil
				}
				if c.Weighted(lbl+".flush", 1, 1) == 1 {
					if c.Weighted(lbl+".warm", 3, 1) == 1 {
						f.warm()
					}
					f.flush(h.A, lbl)
					if c.Weighted(lbl+".restart", 6, 1) == 1 {
						f.restart(c.Bool(lbl + ".keepCache"))
					}
				}
			}
			f.flush(h.A, "final")
			// leftover pool content of the producer reaches the follower by gossip
			var pool []*nom.AccountBlock
			for _, b := range h.A.Chain.GetAllUncommittedAccountBlocks() {
				if b.BlockType != nom.BlockTypeContractSend {
					pool = append(pool, b)
				}
			}
			if len(pool) > 0 {
				wb, err := sim.WireBlocks(pool)
				if err != nil {
					c.Failf("C02/wire", "pool block does not survive the wire codec: %v", err)
				}
				// delivered one by one so that a block known already does not mask the others
				for _, b := range wb {
					_ = f.n.Bridge.AddAccountBlocks([]*nom.AccountBlock{b})
				}
			}
			compareNodes(c, "C02", h.A, f.n, sample)
			// consensus statistics (what reward updates are computed from) and schedules, read back by a node that
			// was restarted on its consensus database or recomputed them cold
			if d := sim.DiffBattery(sim.ConsensusSummary(h.A), sim.ConsensusSummary(f.n)); d != "" {
				c.Failf("C02/consensus", "consensus statistics / schedule differ between the producer and %s: %s", f.name, d)
			}
			// re-delivery of everything changes nothing
			before := f.n.Dump()
			if top > 1 {
				if _, err := f.n.Bridge.InsertChain(h.A.Range(2, top)); err != nil {
					c.Failf("C02/redelivery", "re-delivering known momentums failed: %v", err)
				}
				if f.n.Dump() != before {
					c.Failf("C02/redelivery", "re-delivering known momentums changed the store of %s", f.name)
				}
			}
			for k := range f.stats {
				c.Class(k)
				features[k] = true
			}
		}
		if h.AckBehindOK > 0 {
			features["ack-depth>0"] = true
			c.Class("ack-depth>0")
		}
		n := 0
		for _, k := range []string{"batch>1", "gossip-early", "restart", "ack-depth>0", "gossip-late", "warm-views", "gossip-sibling"} {
			if features[k] {
				n++
			}
		}
		if n >= 2 && h.Accepted > 0 {
			c.NonTrivial()
		}
		c.R.Count("accepted_blocks", h.Accepted)
		c.R.Count("momentums", h.Momentums)
		_ = types.ZeroHash
	})
}

// TestC02Reorg: the "produced by one honest node, accepted by every other" clause for a node that
// reorganised before producing (same scenario as C06, reported under C02).
func TestC02Reorg(t *testing.T) {
	pbt.Check(t, "C02", func(c *pbt.C) { reorgScenario(c, "C02", fullCompare) })
}
