package props

// C03 — only valid account blocks are ever accepted. Direction: accepted => predicate.

import (
	"crypto/ed25519"
	"fmt"
	"math/big"
	"testing"

	"golang.org/x/crypto/sha3"

	"github.com/zenon-network/go-zenon/chain/nom"
	"github.com/zenon-network/go-zenon/common/types"
	"github.com/zenon-network/go-zenon/verifier"
	"github.com/zenon-network/go-zenon/wallet"

	"verifharness/pbt"
	"verifharness/sim"
)

func refAddress(pub []byte) types.Address {
	h := sha3.Sum256(pub)
	var a types.Address
	a[0] = 0 // user prefix
	copy(a[1:], h[:19])
	return a
}

var p255 = new(big.Int).Lsh(big.NewInt(1), 255)

// c03Predicate returns "" if the accepted block b satisfies every condition of the statement
// on node n, else the violated clause.
func c03Predicate(n *sim.Node, l *sim.Ledger, b *nom.AccountBlock, gate uint64) (clause, detail string) {
	// hash
	if b.Hash.IsZero() || b.Hash != b.ComputeHash() {
		return "hash", fmt.Sprintf("hash %v does not match content (computed %v)", b.Hash, b.ComputeHash())
	}
	embedded := types.IsEmbeddedAddress(b.Address)
	// typing
	if embedded {
		if b.BlockType != nom.BlockTypeContractReceive {
			return "type", fmt.Sprintf("block type %d on a contract account offered from outside", b.BlockType)
		}
		if len(b.PublicKey) != 0 || len(b.Signature) != 0 {
			return "contract-key", "contract block carries a key or signature"
		}
	} else {
		if b.BlockType != nom.BlockTypeUserSend && b.BlockType != nom.BlockTypeUserReceive {
			return "type", fmt.Sprintf("block type %d on a user account", b.BlockType)
		}
		if len(b.PublicKey) != ed25519.PublicKeySize || len(b.Signature) != ed25519.SignatureSize ||
			!ed25519.Verify(ed25519.PublicKey(b.PublicKey), b.Hash.Bytes(), b.Signature) {
			return "signature", "signature does not verify under the block's public key"
		}
		if refAddress(b.PublicKey) != b.Address {
			return "owner", fmt.Sprintf("signed by the key of %v, not by the owner of %v", refAddress(b.PublicKey), b.Address)
		}
	}
	// predecessor: exactly one height above a block that is the confirmed tip or pooled
	chainOf := l.Blocks[b.Address]
	confirmed := l.Confirmed[b.Address]
	var pred *nom.AccountBlock
	if b.Height == 0 {
		return "height", "height 0"
	}
	if b.Height == 1 {
		if !b.PreviousHash.IsZero() {
			return "predecessor", "height 1 with a previous hash"
		}
		if confirmed > 0 {
			return "predecessor", fmt.Sprintf("height 1 although the account has %d confirmed blocks", confirmed)
		}
	} else if embedded {
		// a contract receive and its batched sends occupy consecutive heights on top of the tip
		prevID := b.Previous()
		if int(prevID.Height) > len(chainOf) || prevID.Height < confirmed {
			return "predecessor", fmt.Sprintf("batch starts after height %d but the contract chain has %d blocks (%d confirmed)", prevID.Height, len(chainOf), confirmed)
		}
		if prevID.Height > 0 {
			pred = chainOf[prevID.Height-1]
			if pred.Hash != prevID.Hash {
				return "predecessor", fmt.Sprintf("batch extends %v, the block at height %d is %v", prevID.Hash, prevID.Height, pred.Hash)
			}
		}
		for i, d := range b.DescendantBlocks {
			if d.Height != prevID.Height+uint64(i)+1 || d.Address != b.Address || d.BlockType != nom.BlockTypeContractSend {
				return "batch", fmt.Sprintf("batched send %d has height %d / address %v / type %d", i, d.Height, d.Address, d.BlockType)
			}
			if d.Hash != d.ComputeHash() {
				return "batch-hash", fmt.Sprintf("batched send %d does not hash to its recorded hash", i)
			}
		}
		if b.Height != prevID.Height+uint64(len(b.DescendantBlocks))+1 {
			return "height", fmt.Sprintf("height %d for a batch of %d after height %d", b.Height, len(b.DescendantBlocks), prevID.Height)
		}
	} else {
		if int(b.Height-1) > len(chainOf) {
			return "predecessor", fmt.Sprintf("height %d but the account chain has %d blocks", b.Height, len(chainOf))
		}
		pred = chainOf[b.Height-2]
		if !embedded {
			if pred.Hash != b.PreviousHash {
				return "predecessor", fmt.Sprintf("previous hash %v is not the block at height %d (%v)", b.PreviousHash, b.Height-1, pred.Hash)
			}
			if pred.Height < confirmed {
				return "predecessor", fmt.Sprintf("extends height %d below the confirmed tip %d", pred.Height, confirmed)
			}
		}
	}
	// acknowledged momentum on the node's chain
	ms := n.Chain.GetFrontierMomentumStore()
	am, err := ms.GetMomentumByHeight(b.MomentumAcknowledged.Height)
	if err != nil || am == nil || am.Hash != b.MomentumAcknowledged.Hash {
		return "ack", fmt.Sprintf("acknowledged momentum %v is not on the node's chain", b.MomentumAcknowledged)
	}
	if !embedded && pred != nil && pred.MomentumAcknowledged.Height > b.MomentumAcknowledged.Height {
		return "ack-order", fmt.Sprintf("acknowledges height %d, older than its predecessor's %d", b.MomentumAcknowledged.Height, pred.MomentumAcknowledged.Height)
	}
	if b.IsSendBlock() {
		if b.Amount == nil || b.Amount.Sign() < 0 || b.Amount.Cmp(p255) >= 0 {
			return "amount", fmt.Sprintf("amount %v outside [0, 2^255)", b.Amount)
		}
		// balance in the state of the predecessor
		bal := new(big.Int)
		if pred != nil || b.Height == 1 {
			st := n.Chain.GetAccountStore(b.Address, b.Previous())
			if st == nil {
				return "predecessor", "no account state at the stated predecessor"
			}
			if v, err := st.GetBalance(b.TokenStandard); err == nil && v != nil {
				bal = v
			}
		}
		if b.Amount.Cmp(bal) > 0 {
			return "balance", fmt.Sprintf("spends %v of %v but holds %v", b.Amount, b.TokenStandard, bal)
		}
	} else {
		s := l.Sends[b.FromBlockHash]
		if s == nil {
			return "from", fmt.Sprintf("receives %v which is on no account chain", b.FromBlockHash)
		}
		if l.Pooled[s.Hash] {
			return "from-unconfirmed", fmt.Sprintf("receives the unconfirmed send %v", s.Hash)
		}
		ch, err := ms.GetBlockConfirmationHeight(s.Hash)
		if err != nil || ch == 0 || ch > b.MomentumAcknowledged.Height {
			return "from-after-ack", fmt.Sprintf("receives send %v confirmed at %d, after the acknowledged momentum %d", s.Hash, ch, b.MomentumAcknowledged.Height)
		}
		if embedded && ch != b.MomentumAcknowledged.Height {
			return "contract-ack", fmt.Sprintf("contract receive acknowledges %d, the send was confirmed by %d", b.MomentumAcknowledged.Height, ch)
		}
		if s.ToAddress != b.Address && n.Height() >= gate {
			return "receiver", fmt.Sprintf("send %v is addressed to %v, received by %v", s.Hash, s.ToAddress, b.Address)
		}
		for _, p := range chainOf {
			if p.Height < b.Height && p.IsReceiveBlock() && p.FromBlockHash == b.FromBlockHash {
				return "received-twice", fmt.Sprintf("send %v was already received at height %d", s.Hash, p.Height)
			}
		}
	}
	return "", ""
}

type c03mut struct {
	name  string
	apply func(c *pbt.C, h *sim.Hist, b *nom.AccountBlock, l *sim.Ledger) bool
}

func otherBlockHash(c *pbt.C, l *sim.Ledger, not types.Address) (types.Hash, bool) {
	for _, a := range l.Accounts {
		if a != not && len(l.Blocks[a]) > 0 {
			bl := l.Blocks[a]
			return bl[c.Pick("mut.otherblk", len(bl))].Hash, true
		}
	}
	return types.ZeroHash, false
}

func c03Mutations() []c03mut {
	setAck := func(b *nom.AccountBlock, n *sim.Node, h uint64) bool {
		m, err := n.Chain.GetFrontierMomentumStore().GetMomentumByHeight(h)
		if err != nil || m == nil {
			return false
		}
		b.MomentumAcknowledged = m.Identifier()
		return true
	}
	return []c03mut{
		{"version", func(c *pbt.C, h *sim.Hist, b *nom.AccountBlock, l *sim.Ledger) bool {
			b.Version = []uint64{0, 2}[c.Pick("m.v", 2)]
			return true
		}},
		{"chain-id", func(c *pbt.C, h *sim.Hist, b *nom.AccountBlock, l *sim.Ledger) bool {
			b.ChainIdentifier = []uint64{0, b.ChainIdentifier + 1}[c.Pick("m.v", 2)]
			return true
		}},
		{"type", func(c *pbt.C, h *sim.Hist, b *nom.AccountBlock, l *sim.Ledger) bool {
			t := uint64(c.Int("m.type", 0, 6))
			if t == b.BlockType {
				return false
			}
			b.BlockType = t
			return true
		}},
		{"previous", func(c *pbt.C, h *sim.Hist, b *nom.AccountBlock, l *sim.Ledger) bool {
			switch c.Weighted("m.prev", 1, 1, 2, 1) {
			case 0:
				b.PreviousHash = types.ZeroHash
			case 1:
				b.PreviousHash = types.NewHash(c.Bytes("m.prevraw", 1, 3))
			case 2: // an older block of the same account (fork below the tip)
				bl := l.Blocks[b.Address]
				if len(bl) < 2 {
					return false
				}
				i := c.Pick("m.previdx", len(bl)-1)
				b.PreviousHash = bl[i].Hash
				if c.Bool("m.prevfixheight") {
					b.Height = bl[i].Height + 1
				}
			default:
				hh, ok := otherBlockHash(c, l, b.Address)
				if !ok {
					return false
				}
				b.PreviousHash = hh
			}
			return true
		}},
		{"height", func(c *pbt.C, h *sim.Hist, b *nom.AccountBlock, l *sim.Ledger) bool {
			nh := []uint64{0, 1, b.Height + 1, b.Height - 1, b.Height + 2}[c.Pick("m.h", 5)]
			if nh == b.Height {
				return false
			}
			b.Height = nh
			return true
		}},
		{"ack", func(c *pbt.C, h *sim.Hist, b *nom.AccountBlock, l *sim.Ledger) bool {
			top := h.A.Height()
			switch c.Weighted("m.ack", 3, 1, 1, 1, 1) {
			case 0: // another momentum of the chain (older or newer)
				return setAck(b, h.A, uint64(c.Int("m.ackh", 1, int(top))))
			case 1:
				b.MomentumAcknowledged = types.ZeroHashHeight
			case 2:
				b.MomentumAcknowledged.Hash = types.NewHash(c.Bytes("m.ackraw", 1, 3))
			case 3:
				b.MomentumAcknowledged.Height = top + uint64(c.Int("m.ackfut", 1, 3))
			default:
				b.MomentumAcknowledged.Height = uint64(c.Int("m.ackmis", 1, int(top)))
			}
			return true
		}},
		{"address", func(c *pbt.C, h *sim.Hist, b *nom.AccountBlock, l *sim.Ledger) bool {
			a := h.Pools.Addrs[c.Pick("m.addr", len(h.Pools.Addrs))]
			if a == b.Address {
				return false
			}
			b.Address = a
			return true
		}},
		{"to", func(c *pbt.C, h *sim.Hist, b *nom.AccountBlock, l *sim.Ledger) bool {
			a := h.Pools.Addrs[c.Pick("m.to", len(h.Pools.Addrs))]
			if a == b.ToAddress {
				return false
			}
			b.ToAddress = a
			return true
		}},
		{"amount", func(c *pbt.C, h *sim.Hist, b *nom.AccountBlock, l *sim.Ledger) bool {
			bal := h.Balance(b.Address, b.TokenStandard)
			opts := []*big.Int{big.NewInt(0), big.NewInt(1), new(big.Int).Set(bal), new(big.Int).Add(bal, big.NewInt(1)),
				new(big.Int).Sub(p255, big.NewInt(1)), new(big.Int).Set(p255), new(big.Int).Lsh(big.NewInt(1), 256),
				new(big.Int).Add(new(big.Int).Lsh(big.NewInt(1), 256), big.NewInt(1)),
				// negative amounts exist only in the JSON form of a block (same magnitude = same hash and signature)
				big.NewInt(-1), new(big.Int).Neg(bal)}
			if b.Amount != nil && b.Amount.Sign() > 0 {
				opts = append(opts, new(big.Int).Neg(b.Amount), new(big.Int).Neg(b.Amount))
			}
			b.Amount = opts[c.Pick("m.amt", len(opts))]
			return true
		}},
		{"token", func(c *pbt.C, h *sim.Hist, b *nom.AccountBlock, l *sim.Ledger) bool {
			z := h.Pools.Tokens[c.Pick("m.tok", len(h.Pools.Tokens))]
			if z == b.TokenStandard {
				copy(z[:], c.Bytes("m.tokraw", 10, 10))
			}
			b.TokenStandard = z
			return true
		}},
		{"from", func(c *pbt.C, h *sim.Hist, b *nom.AccountBlock, l *sim.Ledger) bool {
			switch c.Weighted("m.from", 1, 1, 4) {
			case 0:
				b.FromBlockHash = types.ZeroHash
			case 1:
				b.FromBlockHash = types.NewHash(c.Bytes("m.fromraw", 1, 3))
			default: // any send of the ledger: received ones, foreign ones, unconfirmed ones
				var hs []types.Hash
				for _, a := range l.Accounts {
					for _, x := range l.Blocks[a] {
						if x.IsSendBlock() {
							hs = append(hs, x.Hash)
						}
					}
				}
				if len(hs) == 0 {
					return false
				}
				nh := hs[c.Pick("m.fromidx", len(hs))]
				if nh == b.FromBlockHash {
					return false
				}
				b.FromBlockHash = nh
			}
			return true
		}},
		{"data", func(c *pbt.C, h *sim.Hist, b *nom.AccountBlock, l *sim.Ledger) bool {
			if len(b.Data) > 0 && c.Bool("m.dataempty") {
				b.Data = nil
			} else {
				b.Data = append(append([]byte{}, b.Data...), c.Bytes("m.dataadd", 1, 4)...)
			}
			return true
		}},
		{"fused", func(c *pbt.C, h *sim.Hist, b *nom.AccountBlock, l *sim.Ledger) bool {
			b.FusedPlasma = []uint64{0, 1, b.FusedPlasma - 1, b.FusedPlasma + 1, 1 << 50, ^uint64(0)}[c.Pick("m.fused", 6)]
			return true
		}},
		{"difficulty", func(c *pbt.C, h *sim.Hist, b *nom.AccountBlock, l *sim.Ledger) bool {
			b.Difficulty = []uint64{1, 1500 * 21000, 1 << 63, ^uint64(0)}[c.Pick("m.diff", 4)]
			return true
		}},
		{"nonce", func(c *pbt.C, h *sim.Hist, b *nom.AccountBlock, l *sim.Ledger) bool {
			b.Nonce.Data[c.Pick("m.nonce", 8)] ^= 0x10
			return true
		}},
		{"fork-overspend", func(c *pbt.C, h *sim.Hist, b *nom.AccountBlock, l *sim.Ledger) bool {
			// a competing send built on an earlier block of the account (below pooled blocks that raised the
			// balance), spending what the account holds at its tip: valid only if the stated predecessor
			// already holds that much
			if b.BlockType != nom.BlockTypeUserSend {
				return false
			}
			bl := l.Blocks[b.Address]
			conf := int(l.Confirmed[b.Address])
			if len(bl) <= conf || len(bl) < 2 {
				return false
			}
			i := conf + c.Int("fo.idx", 0, len(bl)-conf-1) // index of the pooled block to compete with
			if i == 0 {
				return false
			}
			b.PreviousHash = bl[i-1].Hash
			b.Height = bl[i-1].Height + 1
			b.MomentumAcknowledged = bl[len(bl)-1].MomentumAcknowledged
			z := []types.ZenonTokenStandard{types.ZnnTokenStandard, types.QsrTokenStandard}[c.Pick("fo.token", 2)]
			b.TokenStandard = z
			b.Amount = new(big.Int).Set(h.Balance(b.Address, z))
			b.FusedPlasma = 21000 * uint64(c.Int("fo.plasma", 1, 4))
			return true
		}},
		{"descendant", func(c *pbt.C, h *sim.Hist, b *nom.AccountBlock, l *sim.Ledger) bool {
			if len(b.DescendantBlocks) > 0 && c.Bool("m.descmutate") {
				d := b.DescendantBlocks[c.Pick("m.descidx", len(b.DescendantBlocks))]
				switch c.Pick("m.descwhat", 3) {
				case 0:
					d.Amount = new(big.Int).Add(d.Amount, big.NewInt(1))
				case 1:
					d.ToAddress = h.Users[c.Pick("m.descto", len(h.Users))]
				default:
					b.DescendantBlocks = b.DescendantBlocks[:len(b.DescendantBlocks)-1]
				}
				return true
			}
			b.DescendantBlocks = append(b.DescendantBlocks, &nom.AccountBlock{Version: 1, ChainIdentifier: b.ChainIdentifier,
				BlockType: nom.BlockTypeContractSend, Address: b.Address, ToAddress: h.Users[0], Amount: big.NewInt(1),
				TokenStandard: types.ZnnTokenStandard, Height: b.Height, MomentumAcknowledged: b.MomentumAcknowledged})
			return true
		}},
	}
}

func repair(c *pbt.C, h *sim.Hist, b *nom.AccountBlock, mode int) string {
	switch mode {
	case 0:
		return "raw"
	case 1:
		b.Hash = b.ComputeHash()
		return "re-hashed"
	case 2:
		var kp *wallet.KeyPair
		if kp = h.W.Keys.ByAddr[b.Address]; kp == nil {
			b.Hash = b.ComputeHash()
			return "re-hashed (no key for owner)"
		}
		sim.ResignBlock(b, kp)
		return "re-hashed+signed by owner"
	default:
		kp := h.W.Keys.Users[c.Pick("rep.other", len(h.W.Keys.Users))]
		if kp.Address == b.Address {
			kp = h.W.Keys.Spork
		}
		sim.ResignBlock(b, kp)
		return "re-hashed+signed by another key"
	}
}

func TestC03(t *testing.T) {
	pbt.Check(t, "C03", func(c *pbt.C) {
		opts := genWorldOpts(c)
		gateKind := c.Weighted("gate", 4, 1)
		if gateKind == 1 {
			opts.ReceiverGateAt = uint64(c.Int("gate.h", 2, 30))
			c.Class("receiver-gate-inside-history")
		}
		h := sim.NewHist(c, genSpec(c), opts)
		h.Intents = sim.DefaultIntents()
		h.AckDepthMax = 3
		muts := c03Mutations()
		accepted, offered, reachedContext := 0, 0, 0
		states := c.Int("states", 1, pbt.Scale(4, 8))
		for s := 0; s < states && !h.Dead; s++ {
			grow(c, h, "grow", c.Int("grow.m", 0, 5), pbt.Scale(10, 20))
			if h.Dead {
				break
			}
			// leave some blocks unconfirmed so that candidates extend pooled chains too
			for i := 0; i < c.Int("tail", 0, 4); i++ {
				[]func(){h.ActTransfer, h.ActReceive, h.ActIntent}[c.Pick("tail.act", 3)]()
			}
			h.RefreshPools()
			l, err := sim.Scan(h.A)
			if err != nil {
				c.Failf("C03/scan-error", "%v", err)
			}
			gate := verifier.ReceiverMismatchEnforcementHeight
			// valid base blocks of every kind available in this state
			var bases []*nom.AccountBlock
			mk := func(tpl *nom.AccountBlock) {
				kp := h.W.Keys.ByAddr[tpl.Address]
				if kp == nil {
					return
				}
				if tx, err := h.A.Sup.GenerateFromTemplate(tpl, kp.Signer); err == nil {
					bases = append(bases, tx.Block)
				}
			}
			for i := 0; i < 3; i++ {
				from := h.Users[c.Pick("base.from", len(h.Users))]
				mk(&nom.AccountBlock{BlockType: nom.BlockTypeUserSend, Address: from, ToAddress: h.Users[c.Pick("base.to", len(h.Users))],
					TokenStandard: types.ZnnTokenStandard, Amount: big.NewInt(int64(c.Int("base.amt", 0, 100)))})
			}
			for _, u := range h.Users {
				if p := h.Unreceived(u); len(p) > 0 {
					mk(&nom.AccountBlock{BlockType: nom.BlockTypeUserReceive, Address: u, FromBlockHash: p[0]})
					break
				}
			}
			mk(&nom.AccountBlock{BlockType: nom.BlockTypeUserSend, Address: h.Users[0], ToAddress: types.PlasmaContract,
				TokenStandard: types.QsrTokenStandard, Amount: big.NewInt(10 * sim.Zexp), Data: fuseData(h.Users[1])})
			for _, ct := range sim.ContractList {
				if sb := h.A.InboxHead(ct); sb != nil {
					func() {
						defer func() { _ = recover() }()
						if ex, err := h.A.Sup.GenerateAutoReceive(sb); err == nil && ex != nil && ex.Transaction != nil {
							bases = append(bases, ex.Transaction.Block)
						}
					}()
					break
				}
			}
			for _, base := range bases {
				// the valid block itself must satisfy the predicate (validates the oracle on every state)
				if wb, err := sim.WireBlocks([]*nom.AccountBlock{base}); err == nil {
					if _, err := h.A.Sup.ApplyBlock(wb[0]); err == nil {
						if cl, d := c03Predicate(h.A, l, wb[0], gate); cl != "" {
							c.Failf("C03/oracle-rejects-valid-block", "the checker's predicate rejects a block the node itself generated (%s: %s) — %s", cl, d, trunc(normBlock(base), 300))
						}
					}
				}
				ncand := pbt.Scale(24, 60)
				for k := 0; k < ncand; k++ {
					cand := base.Copy()
					m1 := muts[c.Pick("mut1", len(muts))]
					if !m1.apply(c, h, cand, l) {
						continue
					}
					name := m1.name
					if c.Weighted("double", 3, 1) == 1 {
						m2 := muts[c.Pick("mut2", len(muts))]
						if m2.apply(c, h, cand, l) {
							name += "+" + m2.name
						}
					}
					mode := c.Weighted("repair", 1, 2, 6, 2)
					rep := repair(c, h, cand, mode)
					// the route the candidate takes into the node: the peer wire format, or the JSON-RPC
					// publication call (JSON text can say things RLP cannot, e.g. a signed amount)
					wire, err := sim.WireBlocks([]*nom.AccountBlock{cand})
					if err != nil || c.Weighted("route", 3, 1) == 1 {
						jb, jerr := sim.ViaPublishJSON(h.A, cand)
						if jerr != nil {
							c.R.Count("candidates_not_encodable", 1)
							continue
						}
						wire = []*nom.AccountBlock{jb}
						name += "/json-rpc"
					}
					offered++
					_, aerr := h.A.Sup.ApplyBlock(wire[0])
					hashOK := wire[0].Hash == wire[0].ComputeHash()
					if hashOK && (types.IsEmbeddedAddress(wire[0].Address) || (len(wire[0].PublicKey) == 32 && len(wire[0].Signature) == 64 &&
						ed25519.Verify(ed25519.PublicKey(wire[0].PublicKey), wire[0].Hash.Bytes(), wire[0].Signature))) {
						reachedContext++
						c.NonTrivialItem(fmt.Sprintf("%s/type%d/%s", name, base.BlockType, rep))
					}
					if aerr != nil {
						continue
					}
					accepted++
					c.Class("accepted-mutant:" + name)
					if cl, d := c03Predicate(h.A, l, wire[0], gate); cl != "" {
						c.Failf("C03/accepted-invalid/"+cl, "mutation %s (%s) of a valid type-%d block was accepted although: %s\n block: %s", name, rep,
							base.BlockType, d, trunc(normBlock(wire[0]), 500))
					}
					// accepted contract receives must be exactly the block the node regenerates
					if types.IsEmbeddedAddress(wire[0].Address) && normBlock(wire[0]) != normBlock(base) {
						// plasma fields and changes hash are recomputed; everything else must be identical
						x, y := wire[0].Copy(), base.Copy()
						x.BasePlasma, x.TotalPlasma, y.BasePlasma, y.TotalPlasma = 0, 0, 0, 0
						if normBlock(x) != normBlock(y) {
							c.Failf("C03/accepted-invalid/contract-not-regenerated", "a contract receive differing from the regenerated block was accepted (mutation %s):\n got  %s\n want %s",
								name, trunc(normBlock(x), 400), trunc(normBlock(y), 400))
						}
					}
				}
			}
		}
		if h.Dead {
			c.Excluded("C09-preflight-abort")
		}
		c.R.Count("candidates_offered", offered)
		c.R.Count("candidates_accepted", accepted)
		c.R.Count("candidates_reached_contextual_checks", reachedContext)
		if reachedContext > 0 {
			c.NonTrivial()
		}
	})
}

// TestC03Contract: contract receives offered from outside. The producer's pooled (not yet confirmed)
// contract receives are the valid bases; a follower that has the same confirmed ledger but has not
// seen them decides. Also: regenerated receives of sends that were already received (replays).
func TestC03Contract(t *testing.T) {
	pbt.Check(t, "C03", func(c *pbt.C) {
		h := sim.NewHist(c, genSpec(c), genWorldOpts(c))
		for _, in := range sim.DefaultIntents() {
			h.Intents = append(h.Intents, in)
		}
		muts := c03Mutations()
		b := h.W.AddNode("B", false)
		offered, accepted, bases := 0, 0, 0
		rounds := c.Int("rounds", 1, pbt.Scale(4, 8))
		for r := 0; r < rounds && !h.Dead; r++ {
			// calls to contracts, then a momentum: the worker leaves contract receives in the pool
			for i := 0; i < c.Int("calls", 1, 6); i++ {
				if c.Weighted("callkind", 3, 1) == 0 {
					h.ActIntent()
				} else {
					h.ActCallABI()
				}
			}
			lazy := c.Weighted("lazyPillar", 2, 1) == 1
			if lazy {
				// the pillar stops right after its momentum; 0-2 more bare momentums follow: the calls stay at
				// the head of the inboxes while later momentums exist
				ok := h.A.ProduceBare(0) == nil
				for i := 0; ok && i < c.Int("lazy.more", 0, 2); i++ {
					ok = h.A.ProduceBare(c.Weighted("lazy.skip", 4, 1)) == nil
				}
				if !ok {
					break
				}
				c.Class("inbox-head-with-later-momentums")
			} else if !h.Produce(c.Weighted("skip", 5, 1)) {
				break
			}
			if _, err := b.Bridge.InsertChain(h.A.Range(b.Height()+1, h.A.Height())); err != nil {
				c.Failf("C03/follower", "follower refused honest momentums: %v", err)
			}
			h.RefreshPools()
			l, err := sim.Scan(b)
			if err != nil {
				c.Failf("C03/scan-error", "%v", err)
			}
			gate := verifier.ReceiverMismatchEnforcementHeight
			// bases: the first pooled contract receive of every contract on the producer
			var cands []*nom.AccountBlock
			for _, ct := range sim.ContractList {
				for _, blk := range h.A.Chain.GetUncommittedAccountBlocksByAddress(ct) {
					if blk.BlockType == nom.BlockTypeContractReceive {
						cands = append(cands, blk)
						break
					}
				}
			}
			if lazy {
				for _, ct := range sim.ContractList {
					if sb := b.InboxHead(ct); sb != nil {
						func() {
							defer func() { _ = recover() }()
							if ex, err := b.Sup.GenerateAutoReceive(sb); err == nil && ex != nil && ex.Transaction != nil {
								cands = append(cands, ex.Transaction.Block)
							}
						}()
					}
				}
			}
			// replays: sends to contracts that are already received, regenerated if the node lets us
			for _, s := range l.Sends {
				if !types.IsEmbeddedAddress(s.ToAddress) || len(l.Recv[s.Hash]) == 0 || l.Pooled[s.Hash] {
					continue
				}
				if c.Weighted("replay.try", 2, 1) == 0 {
					continue
				}
				var rb *nom.AccountBlock
				func() {
					defer func() { _ = recover() }()
					if ex, err := b.Sup.GenerateAutoReceive(s); err == nil && ex != nil && ex.Transaction != nil {
						rb = ex.Transaction.Block
					}
				}()
				offered++
				if rb == nil {
					continue
				}
				wb, err := sim.WireBlocks([]*nom.AccountBlock{rb})
				if err != nil {
					continue
				}
				if _, err := b.Sup.ApplyBlock(wb[0]); err == nil {
					accepted++
					if cl, d := c03Predicate(b, l, wb[0], gate); cl != "" {
						c.Failf("C03/accepted-invalid/"+cl, "a regenerated contract receive of the already received send %v (to %s) was accepted although: %s", s.Hash, sim.ContractNames[s.ToAddress], d)
					}
				}
			}
			for _, base := range cands {
				bases++
				wb, err := sim.WireBlocks([]*nom.AccountBlock{base})
				if err != nil {
					continue
				}
				if _, err := b.Sup.ApplyBlock(wb[0]); err != nil {
					c.Failf("C03/honest-contract-receive-refused", "the follower refuses the producer's contract receive %v/%d: %v", base.Address, base.Height, err)
				}
				if cl, d := c03Predicate(b, l, wb[0], gate); cl != "" {
					c.Failf("C03/oracle-rejects-valid-block", "the checker's predicate rejects an honest contract receive (%s: %s)", cl, d)
				}
				for k := 0; k < pbt.Scale(20, 50); k++ {
					cand := base.Copy()
					name := ""
					switch c.Weighted("cmut", 4, 2, 2, 2) {
					case 0:
						m1 := muts[c.Pick("mut1", len(muts))]
						if !m1.apply(c, h, cand, l) {
							continue
						}
						name = m1.name
					case 1: // content of a batched send altered, its hash kept
						if len(cand.DescendantBlocks) == 0 {
							continue
						}
						d := cand.DescendantBlocks[c.Pick("d.idx", len(cand.DescendantBlocks))]
						switch c.Pick("d.what", 4) {
						case 0:
							d.Amount = new(big.Int).Add(d.Amount, big.NewInt(1))
						case 1:
							d.ToAddress = h.Users[c.Pick("d.to", len(h.Users))]
						case 2:
							d.Data = append(append([]byte{}, d.Data...), 1)
						default:
							d.TokenStandard = types.QsrTokenStandard
							if base.DescendantBlocks[0].TokenStandard == types.QsrTokenStandard {
								d.TokenStandard = types.ZnnTokenStandard
							}
						}
						name = "descendant-content-keeping-hashes"
					case 2: // acknowledged momentum moved (earlier / later on the chain), hashes recomputed
						top := b.Height()
						hgt := uint64(c.Int("ackmove", 1, int(top)))
						m, err := b.Chain.GetFrontierMomentumStore().GetMomentumByHeight(hgt)
						if err != nil || m == nil || m.Identifier() == cand.MomentumAcknowledged {
							continue
						}
						cand.MomentumAcknowledged = m.Identifier()
						for _, d := range cand.DescendantBlocks {
							d.MomentumAcknowledged = m.Identifier()
							d.Hash = d.ComputeHash()
						}
						name = "ack-moved-all-rehashed"
					default: // key / signature / plasma fields on a contract block
						switch c.Pick("cfield", 4) {
						case 0:
							cand.PublicKey = h.W.Keys.Users[0].Public
						case 1:
							cand.Signature = []byte{1, 2, 3}
						case 2:
							cand.FusedPlasma = 21000
						default:
							cand.Difficulty = 1
						}
						name = "contract-block-with-user-fields"
					}
					mode := c.Weighted("repair", 2, 3)
					if mode == 1 {
						cand.Hash = cand.ComputeHash()
						name += "/re-hashed"
					}
					wire, err := sim.WireBlocks([]*nom.AccountBlock{cand})
					if err != nil {
						continue
					}
					offered++
					c.NonTrivialItem("contract/" + name)
					if _, aerr := b.Sup.ApplyBlock(wire[0]); aerr != nil {
						continue
					}
					accepted++
					c.Class("accepted-contract-candidate:" + name)
					if cl, d := c03Predicate(b, l, wire[0], gate); cl != "" {
						c.Failf("C03/accepted-invalid/"+cl, "mutation %s of an honest contract receive was accepted although: %s\n block: %s", name, d, trunc(normBlock(wire[0]), 500))
					}
					x, y := wire[0].Copy(), base.Copy()
					x.BasePlasma, x.TotalPlasma, x.ChangesHash, y.BasePlasma, y.TotalPlasma, y.ChangesHash = 0, 0, types.ZeroHash, 0, 0, types.ZeroHash
					if normBlock(x) != normBlock(y) {
						c.Failf("C03/accepted-invalid/contract-not-regenerated", "a contract receive that differs from the block the receiver regenerates was accepted (mutation %s):\n got  %s\n want %s",
							name, trunc(normBlock(x), 600), trunc(normBlock(y), 600))
					}
				}
			}
		}
		c.R.Count("contract_candidates_offered", offered)
		c.R.Count("contract_candidates_accepted", accepted)
		c.R.Count("contract_receive_bases", bases)
		if bases > 0 {
			c.NonTrivial()
		}
	})
}
