package props

// C17 — spork-gated rules switch on by chain height only, identically everywhere.

import (
	"errors"
	"fmt"
	"math/big"
	"os"
	"os/exec"
	"path/filepath"
	"sort"
	"strconv"
	"strings"
	"testing"

	"github.com/ethereum/go-ethereum/rlp"

	"github.com/zenon-network/go-zenon/chain/nom"
	"github.com/zenon-network/go-zenon/common/crypto"
	"github.com/zenon-network/go-zenon/common/types"
	"github.com/zenon-network/go-zenon/vm/constants"
	"github.com/zenon-network/go-zenon/vm/embedded/definition"

	"verifharness/pbt"
	"verifharness/sim"
)

type c17spork struct {
	id        types.Hash
	name      string
	activated bool
	enforce   uint64
	impl      int // index into implemented sporks (0 accelerator, 1 bridge+liquidity, 2 htlc), -1 none
}

var c17impl = []*types.ImplementedSpork{types.AcceleratorSpork, types.BridgeAndLiquiditySpork, types.HtlcSpork}

// bindSpork points an implemented spork at a dynamically created id (as the repository's own
// tests do) and returns the undo function.
func bindSpork(impl *types.ImplementedSpork, id types.Hash) func() {
	old := impl.SporkId
	hadNew := types.ImplementedSporksMap[id]
	impl.SporkId = id
	types.ImplementedSporksMap[id] = true
	return func() {
		impl.SporkId = old
		if !hadNew {
			delete(types.ImplementedSporksMap, id)
		}
	}
}

// level of the method table at a momentum height according to the model: 3 htlc, 2 bridge,
// 1 accelerator, 0 origin (the precedence the node documents: the newest active spork wins).
func c17level(model []*c17spork, height uint64) int {
	active := func(impl int) bool {
		if height <= 1 {
			return false
		}
		for _, s := range model {
			if s.impl == impl && s.activated && s.enforce <= height {
				return true
			}
		}
		return false
	}
	switch {
	case active(2):
		return 3
	case active(1):
		return 2
	case active(0):
		return 1
	}
	return 0
}

type c17probe struct {
	name     string
	minLevel int
	build    func(h *sim.Hist, from types.Address) *nom.AccountBlock
}

func c17probes() []c17probe {
	return []c17probe{
		{"accelerator.CreateProject", 1, func(h *sim.Hist, from types.Address) *nom.AccountBlock {
			return &nom.AccountBlock{Address: from, ToAddress: types.AcceleratorContract, TokenStandard: types.ZnnTokenStandard,
				Amount: new(big.Int).Set(constants.ProjectCreationAmount),
				Data:   definition.ABIAccelerator.PackMethodPanic(definition.CreateProjectMethodName, "probe", "d", "www.verif.test", big.NewInt(sim.Zexp), big.NewInt(sim.Zexp))}
		}},
		{"liquidity.Fund", 1, func(h *sim.Hist, from types.Address) *nom.AccountBlock {
			return &nom.AccountBlock{Address: from, ToAddress: types.LiquidityContract, TokenStandard: types.ZnnTokenStandard, Amount: big.NewInt(0),
				Data: definition.ABILiquidity.PackMethodPanic(definition.FundMethodName, big.NewInt(1), big.NewInt(1))}
		}},
		{"bridge.Halt", 2, func(h *sim.Hist, from types.Address) *nom.AccountBlock {
			return &nom.AccountBlock{Address: from, ToAddress: types.BridgeContract, TokenStandard: types.ZnnTokenStandard, Amount: big.NewInt(0),
				Data: definition.ABIBridge.PackMethodPanic(definition.HaltMethodName, "")}
		}},
		{"liquidity.CollectReward", 2, func(h *sim.Hist, from types.Address) *nom.AccountBlock {
			return &nom.AccountBlock{Address: from, ToAddress: types.LiquidityContract, TokenStandard: types.ZnnTokenStandard, Amount: big.NewInt(0),
				Data: definition.ABICommon.PackMethodPanic(definition.CollectRewardMethodName)}
		}},
		{"htlc.Create", 3, func(h *sim.Hist, from types.Address) *nom.AccountBlock {
			return &nom.AccountBlock{Address: from, ToAddress: types.HtlcContract, TokenStandard: types.ZnnTokenStandard, Amount: big.NewInt(1),
				Data: definition.ABIHtlc.PackMethodPanic(definition.CreateHtlcMethodName, from, int64(1<<40), uint8(0), uint8(32), crypto.Hash([]byte("x")))}
		}},
		{"htlc.DenyProxyUnlock", 3, func(h *sim.Hist, from types.Address) *nom.AccountBlock {
			return &nom.AccountBlock{Address: from, ToAddress: types.HtlcContract, TokenStandard: types.ZnnTokenStandard, Amount: big.NewInt(0),
				Data: definition.ABIHtlc.PackMethodPanic(definition.DenyHtlcProxyUnlockMethodName)}
		}},
	}
}

func isGatingError(err error) bool {
	if err == nil {
		return false
	}
	return errors.Is(err, constants.ErrContractMethodNotFound) || errors.Is(err, constants.ErrContractDoesntExist) ||
		strings.Contains(err.Error(), constants.ErrContractMethodNotFound.Error()) || strings.Contains(err.Error(), constants.ErrContractDoesntExist.Error())
}

func TestC17(t *testing.T) {
	pbt.Check(t, "C17", func(c *pbt.C) {
		spec := genSpec(c)
		spec.ActiveSporks = 0
		// the community spork address: a second key that is designated only while the chain is inside a height window
		// (process globals the repository's own spork tests set the same way; restored after the case)
		var communityKey types.Address
		var comStart, comEnd uint64
		community := c.Weighted("c17.community", 1, 1) == 1
		if community {
			oa, os_, oe := types.CommunitySporkAddress, definition.CommunitySporkAddressStartHeight, definition.CommunitySporkAddressEndHeight
			c.Cleanup(func() {
				types.CommunitySporkAddress, definition.CommunitySporkAddressStartHeight, definition.CommunitySporkAddressEndHeight = oa, os_, oe
			})
			communityKey = sim.UserKey(c.Int("c17.communityUser", 0, 1)).Address
			comStart = uint64(c.Int("c17.comStart", 0, 25))
			comEnd = comStart + uint64(c.Int("c17.comLen", 1, 25))
			types.CommunitySporkAddress, definition.CommunitySporkAddressStartHeight, definition.CommunitySporkAddressEndHeight = communityKey, comStart, comEnd
			c.Class("community-spork-key")
			c.Note("community spork key %v designated for momentum heights [%d, %d)", communityKey, comStart, comEnd)
		}
		h := sim.NewHist(c, spec, genWorldOpts(c))
		h.Intents = sim.DefaultIntents()
		h.AckDepthMax = 3
		h.ExtraSporkKey = communityKey
		sporkKey := h.W.Keys.Spork.Address
		designated := func(a types.Address) bool { return a == sporkKey || (community && a == communityKey) }
		pickKey := func(label string) types.Address {
			if community && c.Weighted(label+".community", 1, 1) == 1 {
				return communityKey
			}
			return sporkKey
		}
		var model []*c17spork
		implUsed := map[int]bool{}
		var undo []func()
		c.Cleanup(func() {
			for i := len(undo) - 1; i >= 0; i-- {
				undo[i]()
			}
		})
		b := h.W.AddNode("B", false)
		synced := uint64(1)
		probesNear := 0

		create := func() {
			from := pickKey("cr")
			if c.Weighted("cr.byOther", 4, 1) == 1 {
				from = h.Users[c.Pick("cr.who", len(h.Users))]
			}
			name := fmt.Sprintf("spork-%d", len(model))
			blk, err := h.Submit(&nom.AccountBlock{Address: from, ToAddress: types.SporkContract, TokenStandard: types.ZnnTokenStandard, Amount: big.NewInt(0),
				Data: definition.ABISpork.PackMethodPanic(definition.SporkCreateMethodName, name, "created by the harness")}, "spork.Create("+name+") by "+from.String()[:10])
			if err == nil && !designated(from) {
				c.Failf("C17/create-by-other-key", "a spork creation sent by %v (not the designated key) was accepted", from)
			}
			_ = blk
		}
		activate := func() {
			var cands []*c17spork
			for _, s := range model {
				cands = append(cands, s)
			}
			if len(cands) == 0 {
				return
			}
			s := cands[c.Pick("ac.idx", len(cands))]
			from := pickKey("ac")
			if c.Weighted("ac.byOther", 4, 1) == 1 {
				from = h.Users[c.Pick("ac.who", len(h.Users))]
			}
			// the node must know the spork as implemented before it can pass its enforcement height
			if s.impl < 0 && designated(from) {
				free := []int{}
				for i := range c17impl {
					if !implUsed[i] {
						free = append(free, i)
					}
				}
				if len(free) == 0 {
					return
				}
				s.impl = free[c.Pick("ac.impl", len(free))]
				implUsed[s.impl] = true
				undo = append(undo, bindSpork(c17impl[s.impl], s.id))
				c.Note("spork %s bound to implemented spork #%d", s.name, s.impl)
			}
			blk, err := h.Submit(&nom.AccountBlock{Address: from, ToAddress: types.SporkContract, TokenStandard: types.ZnnTokenStandard, Amount: big.NewInt(0),
				Data: definition.ABISpork.PackMethodPanic(definition.SporkActivateMethodName, s.id)}, fmt.Sprintf("spork.Activate(%s) by %s (already activated: %v)", s.name, from.String()[:10], s.activated))
			if err == nil && !designated(from) {
				c.Failf("C17/activate-by-other-key", "a spork activation sent by %v (not the designated key) was accepted", from)
			}
			_ = blk
		}
		// the model follows the receives of the spork contract
		seenRecv := map[types.Hash]bool{}
		updateModel := func() {
			l, err := sim.Scan(h.A)
			if err != nil {
				c.Failf("C17/scan-error", "%v", err)
			}
			for _, r := range l.Blocks[types.SporkContract] {
				if r.BlockType != nom.BlockTypeContractReceive || seenRecv[r.Hash] {
					continue
				}
				seenRecv[r.Hash] = true
				// every successful call of the designated key counts, whichever action sent it
				snd := l.Sends[r.FromBlockHash]
				if snd == nil || !designated(snd.Address) || len(snd.Data) < 4 {
					continue
				}
				if merr, known := h.A.MethodErrs[snd.Hash]; !known || merr != nil {
					if known && snd.Address != sporkKey {
						c.Class("community-key-call-refused")
					}
					continue
				}
				if snd.Address != sporkKey {
					// the community key is designated only while the momentum the call is executed against lies in its window
					at := r.MomentumAcknowledged.Height
					if at < comStart || at >= comEnd {
						c.Failf("C17/community-key-outside-window", "a spork call of the community key executed against momentum %d succeeded; the key is designated for heights [%d, %d) only", at, comStart, comEnd)
					}
					c.Class("community-key-call-succeeded-inside-window")
				}
				if m, err := definition.ABISpork.MethodById(snd.Data[:4]); err == nil {
					switch m.Name {
					case definition.SporkCreateMethodName:
						sp := new(definition.Spork)
						_ = definition.ABISpork.UnpackMethod(sp, m.Name, snd.Data)
						model = append(model, &c17spork{id: snd.Hash, name: fmt.Sprintf("%q", sp.Name), impl: -1})
					case definition.SporkActivateMethodName:
						id := new(types.Hash)
						_ = definition.ABISpork.UnpackMethod(id, m.Name, snd.Data)
						for _, sp := range model {
							if sp.id == *id && !sp.activated {
								sp.activated = true
								sp.enforce = r.MomentumAcknowledged.Height + 6
								c.Note("spork %s activated by the momentum %d: enforcement height %d", sp.name, r.MomentumAcknowledged.Height, sp.enforce)
							}
						}
					}
				}
			}
			// features whose EFFECT is gated inside a method that is itself reachable: the liquidity contract's Fund / BurnZnn
			// (spork key only) do nothing below the accelerator spork's enforcement height
			for _, r := range l.Blocks[types.LiquidityContract] {
				if r.BlockType != nom.BlockTypeContractReceive || seenRecv[r.Hash] {
					continue
				}
				seenRecv[r.Hash] = true
				snd := l.Sends[r.FromBlockHash]
				if snd == nil || len(snd.Data) < 4 {
					continue
				}
				m, err := definition.ABILiquidity.MethodById(snd.Data[:4])
				if err != nil || (m.Name != definition.FundMethodName && m.Name != definition.BurnZnnMethodName) {
					continue
				}
				accelerator := false
				for _, sp := range model {
					if sp.impl == 0 && sp.activated && sp.enforce <= r.MomentumAcknowledged.Height && r.MomentumAcknowledged.Height > 1 {
						accelerator = true
					}
				}
				moved := 0
				for _, d := range r.DescendantBlocks {
					if d.Amount != nil && d.Amount.Sign() > 0 && d.ToAddress != snd.Address {
						moved++
					}
				}
				c.Class(fmt.Sprintf("liquidity.%s executed, accelerator spork active=%v, funds moved=%v", m.Name, accelerator, moved > 0))
				if !accelerator && moved > 0 {
					c.Failf("C17/available-before-enforcement/liquidity."+m.Name+"-effect", "liquidity.%s executed against momentum %d moved funds out of the contract although the accelerator spork is not active at that height (sporks: %s)",
						m.Name, r.MomentumAcknowledged.Height, c17describe(model))
				}
			}
			// the contract's table equals the model
			got := definition.GetAllSporks(h.A.Chain.GetFrontierAccountStore(types.SporkContract).Storage())
			if len(got) != len(model) {
				c.Failf("C17/spork-table", "the spork contract lists %d sporks, %d were created by the designated key", len(got), len(model))
			}
			for _, g := range got {
				found := false
				for _, s := range model {
					if s.id == g.Id {
						found = true
						if g.Activated != s.activated || g.EnforcementHeight != s.enforce {
							c.Failf("C17/spork-state", "spork %s: contract says activated=%v enforcement=%d; by the rules it is activated=%v enforcement=%d (activation confirmed + 6, first activation only)",
								s.name, g.Activated, g.EnforcementHeight, s.activated, s.enforce)
						}
					}
				}
				if !found {
					c.Failf("C17/spork-table", "the spork contract lists %v which the designated key never created", g.Id)
				}
			}
		}
		// gating probes evaluated statelessly on producer and follower
		probe := func() {
			top := h.A.Height()
			if top < 2 {
				return
			}
			// heights of interest: around the enforcement heights and the frontier
			var heights []uint64
			for _, s := range model {
				if s.activated {
					for d := -2; d <= 2; d++ {
						if x := int64(s.enforce) + int64(d); x >= 2 && uint64(x) <= top {
							heights = append(heights, uint64(x))
						}
					}
				}
			}
			heights = append(heights, top, uint64(c.Int("probe.h", 2, int(top))))
			sort.Slice(heights, func(i, j int) bool { return heights[i] < heights[j] })
			if synced < top {
				if _, err := b.Bridge.InsertChain(h.A.Range(synced+1, top)); err != nil {
					c.Failf("C17/follower", "follower refused honest momentums: %v", err)
				}
				synced = top
			}
			probes := c17probes()
			for _, ht := range heights {
				m, err := h.A.Chain.GetFrontierMomentumStore().GetMomentumByHeight(ht)
				if err != nil || m == nil {
					continue
				}
				level := c17level(model, ht)
				near := false
				for _, s := range model {
					if s.activated && int64(ht) >= int64(s.enforce)-2 && ht <= s.enforce+2 {
						near = true
					}
				}
				for _, p := range probes {
					// a sender whose last block acknowledged a momentum not newer than ht
					var from types.Address
					ok := false
					for _, u := range h.Users {
						st := h.A.Chain.GetFrontierAccountStore(u)
						fb, _ := st.Frontier()
						// no pooled blocks: the follower knows the same account chain
						confirmed := h.A.Chain.GetFrontierMomentumStore().GetAccountStore(u).Identifier()
						if confirmed != st.Identifier() {
							continue
						}
						if (fb == nil || fb.MomentumAcknowledged.Height <= ht) && h.Balance(u, types.ZnnTokenStandard).Cmp(big.NewInt(2*sim.Zexp)) > 0 {
							from, ok = u, true
							break
						}
					}
					if !ok {
						continue
					}
					tpl := p.build(h, from)
					tpl.BlockType = nom.BlockTypeUserSend
					tpl.MomentumAcknowledged = m.Identifier()
					kp := h.W.Keys.ByAddr[from]
					tx, gerr := h.A.Sup.GenerateFromTemplate(tpl, kp.Signer)
					want := level >= p.minLevel
					c.R.Count("gating_probes", 1)
					if near {
						probesNear++
						c.NonTrivialItem(fmt.Sprintf("%s/level%d/accepted=%v", p.name, level, gerr == nil))
					}
					if !want && gerr == nil {
						c.Failf("C17/available-before-enforcement/"+p.name, "%s acknowledging momentum %d was accepted although its spork is not active at that height (table level %d, needs %d; sporks: %s)",
							p.name, ht, level, p.minLevel, c17describe(model))
					}
					if want && isGatingError(gerr) {
						c.Failf("C17/unavailable-after-enforcement/"+p.name, "%s acknowledging momentum %d was refused with %q although its spork is active from that height on (table level %d; sporks: %s)",
							p.name, ht, gerr, level, c17describe(model))
					}
					// the follower decides identically for the same block / the same template
					if gerr == nil && tx != nil {
						wb, err := sim.WireBlocks([]*nom.AccountBlock{tx.Block})
						if err == nil {
							if _, berr := b.Sup.ApplyBlock(wb[0]); berr != nil {
								c.Failf("C17/nodes-disagree", "%s acknowledging momentum %d: accepted by the producer, refused by a synced follower: %v", p.name, ht, berr)
							}
						}
					} else {
						tpl2 := p.build(h, from)
						tpl2.BlockType = nom.BlockTypeUserSend
						tpl2.MomentumAcknowledged = m.Identifier()
						if _, berr := b.Sup.GenerateFromTemplate(tpl2, kp.Signer); berr == nil {
							c.Failf("C17/nodes-disagree", "%s acknowledging momentum %d: refused by the producer (%v), accepted by a synced follower", p.name, ht, gerr)
						}
					}
				}
			}
		}
		inv := func() {
			if h.Dead {
				return
			}
			updateModel()
		}
		acts := histActions(h)
		// the spork key moves / burns funds of the liquidity contract (somebody donated to it first)
		acts["liquidityFund"] = func() {
			if h.Balance(types.LiquidityContract, types.ZnnTokenStandard).Cmp(big.NewInt(10)) < 0 || h.Balance(types.LiquidityContract, types.QsrTokenStandard).Cmp(big.NewInt(10)) < 0 {
				u := h.Users[c.Pick("lf.donor", len(h.Users))]
				z := []types.ZenonTokenStandard{types.ZnnTokenStandard, types.QsrTokenStandard}[c.Pick("lf.token", 2)]
				if !h.ActCall(u, types.LiquidityContract, z, big.NewInt(1000), definition.ABILiquidity.PackMethodPanic(definition.DonateMethodName), "liquidity.Donate") {
					_, _ = h.Submit(&nom.AccountBlock{Address: u, ToAddress: types.LiquidityContract, TokenStandard: z, Amount: big.NewInt(1000)}, "plain transfer to the liquidity contract")
				}
				return
			}
			if c.Bool("lf.burn") {
				h.ActCall(sporkKey, types.LiquidityContract, types.ZnnTokenStandard, big.NewInt(0), definition.ABILiquidity.PackMethodPanic(definition.BurnZnnMethodName, big.NewInt(1)), "liquidity.BurnZnn(1) by the spork key")
			} else {
				h.ActCall(sporkKey, types.LiquidityContract, types.ZnnTokenStandard, big.NewInt(0), definition.ABILiquidity.PackMethodPanic(definition.FundMethodName, big.NewInt(1), big.NewInt(1)), "liquidity.Fund(1, 1) by the spork key")
			}
		}
		acts["sporkCreate"] = create
		acts["sporkActivate"] = activate
		acts["sporkActivate2"] = activate
		acts["probe"] = probe
		acts["produce3"] = h.ActProduce
		acts["produce4"] = h.ActProduce
		c.Repeat(acts, inv)
		// run past every enforcement height and probe once more
		for i := 0; i < 8 && !h.Dead; i++ {
			h.Produce(0)
			inv()
		}
		if !h.Dead {
			probe()
		}
		if h.Dead {
			c.Excluded("C09-preflight-abort")
		}
		for _, s := range model {
			if s.activated {
				c.Class("spork-activated")
			}
		}
		if probesNear > 0 {
			c.NonTrivial()
			c.Class("probes-within-2-of-enforcement")
		}
	})
}

func c17describe(model []*c17spork) string {
	var parts []string
	for _, s := range model {
		parts = append(parts, fmt.Sprintf("%s(impl %d, activated %v, enforcement %d)", s.name, s.impl, s.activated, s.enforce))
	}
	return strings.Join(parts, ", ")
}

// ---- unknown enforced spork: the node must stop (os.Exit(2)) — child processes -------------

// TestC17HaltChild is the child body; it does nothing unless started by TestC17Halt.
func TestC17HaltChild(t *testing.T) {
	dir := os.Getenv("VERIF_C17_DIR")
	if dir == "" {
		t.Skip("child of TestC17Halt only")
	}
	mode := os.Getenv("VERIF_C17_MODE")
	progress := func(s string) { _ = os.WriteFile(filepath.Join(dir, "progress-"+mode), []byte(s), 0o644) }
	w := sim.NewWorld(sim.DefaultSpec(3, 4), sim.WorldOpts{})
	switch mode {
	case "produce":
		// the child does NOT implement the spork it creates
		n, err := sim.NewNode(sim.NewGenesis(w.Cfg), w.Keys, sim.NodeOpts{Name: "child", Dir: filepath.Join(dir, "db"), Producer: true})
		if err != nil {
			progress("init-error " + err.Error())
			os.Exit(7)
		}
		actAt, _ := strconv.Atoi(os.Getenv("VERIF_C17_ACT"))
		spork := w.Keys.Spork.Address
		var id types.Hash
		for i := 0; i < 60; i++ {
			if i == 1 {
				blk, err := n.Send(&nom.AccountBlock{Address: spork, ToAddress: types.SporkContract, TokenStandard: types.ZnnTokenStandard, Amount: big.NewInt(0),
					Data: definition.ABISpork.PackMethodPanic(definition.SporkCreateMethodName, "unknown-spork", "not implemented by this binary")})
				if err != nil {
					progress("create-error " + err.Error())
					os.Exit(7)
				}
				id = blk.Hash
			}
			if i == 3+actAt {
				if _, err := n.Send(&nom.AccountBlock{Address: spork, ToAddress: types.SporkContract, TokenStandard: types.ZnnTokenStandard, Amount: big.NewInt(0),
					Data: definition.ABISpork.PackMethodPanic(definition.SporkActivateMethodName, id)}); err != nil {
					progress("activate-error " + err.Error())
					os.Exit(7)
				}
			}
			sp := definition.GetAllSporks(n.Chain.GetFrontierAccountStore(types.SporkContract).Storage())
			e := uint64(0)
			if len(sp) == 1 {
				e = sp[0].EnforcementHeight
			}
			progress(fmt.Sprintf("height %d enforcement %d", n.Height(), e))
			if err := n.Produce(0); err != nil {
				progress(fmt.Sprintf("height %d enforcement %d produce-error %v", n.Height(), e, err))
			}
		}
		progress("survived")
		os.Exit(0)
	case "sync":
		data, err := os.ReadFile(filepath.Join(dir, "chain.rlp"))
		if err != nil {
			os.Exit(7)
		}
		var ms []*nom.DetailedMomentum
		if err := rlp.DecodeBytes(data, &ms); err != nil {
			os.Exit(7)
		}
		for _, m := range ms {
			m.Momentum.EnsureCache()
		}
		n, err := sim.NewNode(sim.NewGenesis(w.Cfg), w.Keys, sim.NodeOpts{Name: "child", Dir: filepath.Join(dir, "db-sync")})
		if err != nil {
			os.Exit(7)
		}
		batch, _ := strconv.Atoi(os.Getenv("VERIF_C17_BATCH"))
		if batch < 1 {
			batch = 1
		}
		for i := 0; i < len(ms); i += batch {
			j := i + batch
			if j > len(ms) {
				j = len(ms)
			}
			progress(fmt.Sprintf("height %d", n.Height()))
			if _, err := n.Bridge.InsertChain(ms[i:j]); err != nil {
				progress(fmt.Sprintf("height %d insert-error %v", n.Height(), err))
				os.Exit(8)
			}
		}
		progress("survived")
		os.Exit(0)
	case "restart":
		// starting on a database that is past the enforcement height of an unknown spork
		_, err := sim.NewNode(sim.NewGenesis(w.Cfg), w.Keys, sim.NodeOpts{Name: "child", Dir: filepath.Join(dir, os.Getenv("VERIF_C17_DB"))})
		progress(fmt.Sprintf("started err=%v", err))
		os.Exit(0)
	}
}

func runC17Child(dir, mode string, env ...string) (int, string) {
	cmd := exec.Command(os.Args[0], "-test.run", "^TestC17HaltChild$")
	cmd.Env = append(os.Environ(), "VERIF_C17_DIR="+dir, "VERIF_C17_MODE="+mode, "VERIF_OUT=", "VERIF_JOURNAL=")
	cmd.Env = append(cmd.Env, env...)
	out, err := cmd.CombinedOutput()
	code := 0
	if err != nil {
		if ee, ok := err.(*exec.ExitError); ok {
			code = ee.ExitCode()
		} else {
			code = -1
		}
	}
	p, _ := os.ReadFile(filepath.Join(dir, "progress-"+mode))
	_ = out
	return code, string(p)
}

func TestC17Halt(t *testing.T) {
	pbt.Check(t, "C17", func(c *pbt.C) {
		dir, err := os.MkdirTemp("", "c17-")
		if err != nil {
			panic(err)
		}
		c.Cleanup(func() { _ = os.RemoveAll(dir) })
		actAt := c.Int("activateAfter", 0, 6)
		// (1) a producing node that does not implement the spork it helps to enforce
		code, prog := runC17Child(dir, "produce", fmt.Sprintf("VERIF_C17_ACT=%d", actAt))
		c.Note("producing child: exit %d, last progress %q", code, prog)
		if code != 2 {
			c.Failf("C17/no-halt/producer", "a node that does not implement an activated spork kept running past its enforcement height (exit code %d, progress %q)", code, prog)
		}
		var hgt, enf uint64
		_, _ = fmt.Sscanf(prog, "height %d enforcement %d", &hgt, &enf)
		if enf == 0 || hgt+1 != enf {
			c.Failf("C17/halt-height/producer", "the node stopped while producing momentum %d; enforcement height is %d", hgt+1, enf)
		}
		// (2) restarting on that database stops again
		code, prog = runC17Child(dir, "restart", "VERIF_C17_DB=db")
		c.Note("restart child: exit %d, progress %q", code, prog)
		if code != 2 {
			c.Failf("C17/no-halt/restart", "a node restarted on a database past the enforcement height of an unknown spork (exit %d, %q)", code, prog)
		}
		// (3) a syncing node: the parent implements the spork, produces a chain; the child does not
		w := sim.NewWorld(sim.DefaultSpec(3, 4), sim.WorldOpts{})
		defer w.Close()
		a := w.AddNode("A", true)
		spork := w.Keys.Spork.Address
		blk, err := a.Send(&nom.AccountBlock{Address: spork, ToAddress: types.SporkContract, TokenStandard: types.ZnnTokenStandard, Amount: big.NewInt(0),
			Data: definition.ABISpork.PackMethodPanic(definition.SporkCreateMethodName, "unknown-spork", "implemented by the parent only")})
		if err != nil {
			panic(err)
		}
		undo := bindSpork(types.AcceleratorSpork, blk.Hash)
		defer undo()
		for i := 0; i < 2+actAt; i++ {
			_ = a.Produce(0)
		}
		if _, err := a.Send(&nom.AccountBlock{Address: spork, ToAddress: types.SporkContract, TokenStandard: types.ZnnTokenStandard, Amount: big.NewInt(0),
			Data: definition.ABISpork.PackMethodPanic(definition.SporkActivateMethodName, blk.Hash)}); err != nil {
			panic(err)
		}
		for i := 0; i < 12; i++ {
			if err := a.Produce(0); err != nil {
				panic(err)
			}
		}
		sp := definition.GetAllSporks(a.Chain.GetFrontierAccountStore(types.SporkContract).Storage())
		if len(sp) != 1 || !sp[0].Activated {
			panic("parent chain has no activated spork")
		}
		enf = sp[0].EnforcementHeight
		data, err := rlp.EncodeToBytes(a.Range(2, a.Height()))
		if err != nil {
			panic(err)
		}
		_ = os.WriteFile(filepath.Join(dir, "chain.rlp"), data, 0o644)
		batch := c.Int("batch", 1, 9)
		code, prog = runC17Child(dir, "sync", fmt.Sprintf("VERIF_C17_BATCH=%d", batch))
		c.Note("syncing child (batches of %d): exit %d, progress %q, enforcement %d, chain to %d", batch, code, prog, enf, a.Height())
		if code != 2 {
			c.Failf("C17/no-halt/sync", "a syncing node that does not implement an activated spork went past its enforcement height %d (exit %d, progress %q)", enf, code, prog)
		}
		// its store holds nothing above the enforcement momentum
		w2 := sim.NewWorld(sim.DefaultSpec(3, 4), sim.WorldOpts{})
		undo2 := bindSpork(types.HtlcSpork, blk.Hash) // the inspecting process may open the database
		n, err := sim.NewNode(sim.NewGenesis(w2.Cfg), w2.Keys, sim.NodeOpts{Name: "inspect", Dir: filepath.Join(dir, "db-sync")})
		if err == nil {
			if n.Height() > enf {
				c.Failf("C17/halt-height/sync", "the stopped node's store holds momentum %d, above the enforcement height %d", n.Height(), enf)
			}
			n.Stop()
		}
		undo2()
		w2.Close()
		c.NonTrivial()
		c.Class(fmt.Sprintf("batch-%d", batch))
	})
}

// c17ModelOf derives the spork table from the ledger of a producing node: creations and first activations sent by
// the designated key and received without error; enforcement = height of the momentum the activation's receive
// acknowledges + 6.
func c17ModelOf(c *pbt.C, n *sim.Node, sporkKey types.Address) []*c17spork {
	l, err := sim.Scan(n)
	if err != nil {
		c.Failf("C17/scan-error", "%v", err)
	}
	var model []*c17spork
	for _, r := range l.Blocks[types.SporkContract] {
		if r.BlockType != nom.BlockTypeContractReceive {
			continue
		}
		snd := l.Sends[r.FromBlockHash]
		if snd == nil || snd.Address != sporkKey || len(snd.Data) < 4 {
			continue
		}
		if len(r.Data) != 8 || r.Data[7] != 1 { // status word of the receive: 1 = success
			continue
		}
		m, err := definition.ABISpork.MethodById(snd.Data[:4])
		if err != nil {
			continue
		}
		switch m.Name {
		case definition.SporkCreateMethodName:
			model = append(model, &c17spork{id: snd.Hash, name: snd.Hash.String()[:8], impl: -1})
		case definition.SporkActivateMethodName:
			id := new(types.Hash)
			_ = definition.ABISpork.UnpackMethod(id, m.Name, snd.Data)
			for _, sp := range model {
				if sp.id == *id && !sp.activated {
					sp.activated = true
					sp.enforce = r.MomentumAcknowledged.Height + 6
				}
			}
		}
	}
	return model
}

// TestC17Reorg: two branches activate the same sporks at different heights (or not at all). A node that followed
// the first branch — and evaluated gated calls there — and then adopted the second decides every gated call by the
// heights of the branch it is on, exactly like a node that only ever saw that branch.
func TestC17Reorg(t *testing.T) {
	pbt.Check(t, "C17", func(c *pbt.C) {
		spec := genSpec(c)
		spec.ActiveSporks = 0
		h := sim.NewHist(c, spec, genWorldOpts(c))
		sporkKey := h.W.Keys.Spork.Address
		var undo []func()
		c.Cleanup(func() {
			for i := len(undo) - 1; i >= 0; i-- {
				undo[i]()
			}
		})
		zero := big.NewInt(0)
		nsp := c.Int("sporks", 1, 3)
		for i := 0; i < nsp; i++ {
			_, _ = h.Submit(&nom.AccountBlock{Address: sporkKey, ToAddress: types.SporkContract, TokenStandard: types.ZnnTokenStandard, Amount: zero,
				Data: definition.ABISpork.PackMethodPanic(definition.SporkCreateMethodName, fmt.Sprintf("spork-%d", i), "created by the harness")}, "spork.Create")
			if c.Bool("createApart") {
				h.Produce(0)
			}
		}
		for i := 0; i < 2+c.Int("prefix.more", 0, 4); i++ {
			h.Produce(c.Weighted("prefix.skip", 5, 1))
		}
		if h.Dead {
			return
		}
		base := c17ModelOf(c, h.A, sporkKey)
		if len(base) == 0 {
			return
		}
		// each spork is one of the three implemented ones (a drawn assignment)
		perm := []int{0, 1, 2}
		for i := 2; i > 0; i-- {
			k := c.Int("impl.perm", 0, i)
			perm[i], perm[k] = perm[k], perm[i]
		}
		implOf := map[types.Hash]int{}
		for i, s := range base {
			implOf[s.id] = perm[i%3]
			undo = append(undo, bindSpork(c17impl[perm[i%3]], s.id))
		}
		forkAt := h.A.Height()
		a2 := h.W.AddNode("A2", true)
		b := h.W.AddNode("B", false)
		for _, n := range []*sim.Node{a2, b} {
			if _, err := n.Bridge.InsertChain(h.A.Range(2, forkAt)); err != nil {
				c.Failf("C17/setup", "%s cannot sync the prefix: %v", n.Name, err)
			}
		}
		h2 := sim.NewHistOn(c, h.W, a2, h)
		branch := func(hh *sim.Hist, label string, length int) {
			at := map[int][]types.Hash{}
			for _, s := range base {
				if c.Weighted(label+".activates", 1, 4) == 1 {
					k := c.Int(label+".activateAt", 0, length-1)
					at[k] = append(at[k], s.id)
				}
			}
			for step := 0; step < length && !hh.Dead; step++ {
				for _, id := range at[step] {
					_, _ = hh.Submit(&nom.AccountBlock{Address: sporkKey, ToAddress: types.SporkContract, TokenStandard: types.ZnnTokenStandard, Amount: zero,
						Data: definition.ABISpork.PackMethodPanic(definition.SporkActivateMethodName, id)}, label+": spork.Activate("+id.String()[:8]+")")
				}
				hh.Produce(c.Weighted(label+".skip", 6, 1))
			}
		}
		lenX := c.Int("x.len", 2, 24)
		branch(h, "x", lenX)
		branch(h2, "y", lenX+1+c.Int("y.extra", 0, 8))
		if h.Dead || h2.Dead {
			return
		}
		withImpl := func(m []*c17spork) []*c17spork {
			for _, s := range m {
				s.impl = implOf[s.id]
			}
			return m
		}
		modelX, modelY := withImpl(c17ModelOf(c, h.A, sporkKey)), withImpl(c17ModelOf(c, a2, sporkKey))
		c.Note("fork at %d; X to %d: %s; Y to %d: %s", forkAt, h.A.Height(), c17describe(modelX), a2.Height(), c17describe(modelY))
		probes := c17probes()
		from := sim.UserKey(1).Address
		kp := h.W.Keys.ByAddr[from]
		// decide evaluates every probe at every height of n's chain; returns "probe@height" -> accepted
		decide := func(n *sim.Node, model []*c17spork, tag string) map[string]bool {
			out := map[string]bool{}
			top := n.Height()
			for ht := uint64(2); ht <= top; ht++ {
				m, err := n.Chain.GetFrontierMomentumStore().GetMomentumByHeight(ht)
				if err != nil || m == nil {
					continue
				}
				level := c17level(model, ht)
				for _, p := range probes {
					tpl := p.build(h, from)
					tpl.BlockType = nom.BlockTypeUserSend
					tpl.MomentumAcknowledged = m.Identifier()
					_, gerr := n.Sup.GenerateFromTemplate(tpl, kp.Signer)
					c.R.Count("gating_probes", 1)
					want := level >= p.minLevel
					out[fmt.Sprintf("%s@%d", p.name, ht)] = gerr == nil
					if !want && gerr == nil {
						c.Failf("C17/available-before-enforcement/"+p.name, "%s: %s acknowledging momentum %d was accepted by %s although its spork is not active at that height of the chain the node is on (level %d, needs %d; sporks: %s)",
							tag, p.name, ht, n.Name, level, p.minLevel, c17describe(model))
					}
					if want && isGatingError(gerr) {
						c.Failf("C17/unavailable-after-enforcement/"+p.name, "%s: %s acknowledging momentum %d was refused by %s with %q although its spork is active from that height on (level %d; sporks: %s)",
							tag, p.name, ht, n.Name, gerr, level, c17describe(model))
					}
				}
			}
			return out
		}
		if _, err := b.Bridge.InsertChain(h.A.Range(forkAt+1, h.A.Height())); err != nil {
			c.Failf("C17/honest-branch-refused", "follower refused the honest branch X: %v", err)
		}
		decide(b, modelX, "on the first branch")
		if _, err := b.Bridge.InsertChain(a2.Range(forkAt+1, a2.Height())); err != nil {
			c.Failf("C17/honest-branch-refused", "after evaluating gated calls on branch X the follower refuses the honest longer branch Y (its blocks are decided by the heights of Y): %v", err)
		}
		if b.Frontier().Hash != a2.Frontier().Hash {
			c.Failf("C17/setup", "follower did not adopt the longer branch")
		}
		db := decide(b, modelY, "after the reorganisation")
		cn := h.W.AddNode("C", false)
		if _, err := cn.Bridge.InsertChain(a2.Range(2, a2.Height())); err != nil {
			c.Failf("C17/setup", "fresh node refused prefix+Y: %v", err)
		}
		dc := decide(cn, modelY, "fresh node")
		for k, v := range dc {
			if db[k] != v {
				c.Failf("C17/nodes-disagree", "%s: the reorganised node says accepted=%v, a node that only saw the adopted branch says %v", k, db[k], v)
			}
		}
		differ := false
		for _, sx := range modelX {
			for _, sy := range modelY {
				if sx.id == sy.id && (sx.activated != sy.activated || sx.enforce != sy.enforce) {
					differ = true
				}
			}
		}
		if differ {
			c.NonTrivial()
			c.Class("branches-enforce-at-different-heights")
		}
	})
}
